(* TowerLedger.v — C07, the conservation law of slot accounting, for the sequential tower model.
   For a state t and a user u:  avail t u = the balance persisted in u's row of table users,
   held_t t u = the slots occupied by u's rows of table appointments (= TowerMon.held (observe t) u),
   bal t u = avail + held.  The theorems say how bal moves under every operation; the last part
   folds the monitor's ghost ledger (granted, forfeited) along the model's own traces and proves the
   conservation check of TowerMon.mon_C07 on every step of every abort-free history. *)
From TeosModel Require Import Base ListAux TxIndex TxIndexProofs Tower TowerMon TowerStable TowerInv TowerProofs.
From TeosModel.Gen Require Consts.
From Coq Require Import Lia.
Local Open Scope N_scope.

(* ------------------------------------------------------------------------------------------ *)
(* definitions *)

Definition aslots (a : app) : N := slots_of (b_len (a_blob a)).
Definition ssum (l : list app) : N := fold_right (fun a s => aslots a + s) 0 l.
Definition ofu (u : N) (a : app) : bool := N.eqb (a_user a) u.

Definition avail (t : tower) (u : N) : N :=
  match aget (db_users t) u with Some ui => u_slots ui | None => 0 end.
Definition held_t (t : tower) (u : N) : N := ssum (filter (ofu u) (db_apps t)).
Definition bal (t : tower) (u : N) : N := avail t u + held_t t u.
Definition has_row (t : tower) (u : N) : bool := amem (db_users t) u.

Lemma held_t_obs t u : held_t t u = held (observe t) u.
Proof. reflexivity. Qed.

Lemma avail_obs t u : avail t u = match user_row (observe t) u with Some ui => u_slots ui | None => 0 end.
Proof. reflexivity. Qed.

(* ------------------------------------------------------------------------------------------ *)
(* sums over lists of appointment rows *)

Lemma ssum_app l1 l2 : ssum (l1 ++ l2) = ssum l1 + ssum l2.
Proof. induction l1 as [|a l1 IH]; cbn [List.app ssum fold_right]; [reflexivity|]. fold (ssum (l1 ++ l2)) (ssum l1). lia. Qed.

Lemma ssum_cons a l : ssum (a :: l) = aslots a + ssum l.
Proof. reflexivity. Qed.

Lemma ssum_split (p : app -> bool) l : ssum l = ssum (filter p l) + ssum (filter (fun a => negb (p a)) l).
Proof.
  induction l as [|a l IH]; [reflexivity|]. cbn [filter]. rewrite ssum_cons.
  destruct (p a); cbn [negb]; rewrite ?ssum_cons; lia.
Qed.

Lemma filter_ext_in' {A} (p q : A -> bool) l : (forall a, In a l -> p a = q a) -> filter p l = filter q l.
Proof.
  induction l as [|a l IH]; intros H; [reflexivity|]. cbn [filter].
  rewrite (H a (or_introl eq_refl)). rewrite IH; [reflexivity|]. intros b Hb. apply H. right. exact Hb.
Qed.

Lemma filter_filter {A} (p q : A -> bool) l : filter p (filter q l) = filter (fun a => q a && p a) l.
Proof.
  induction l as [|a l IH]; [reflexivity|]. cbn [filter].
  destruct (q a); cbn [filter andb]; [destruct (p a)|]; rewrite IH; reflexivity.
Qed.

Lemma filter_true {A} (p : A -> bool) l : (forall a, In a l -> p a = true) -> filter p l = l.
Proof.
  induction l as [|a l IH]; intros H; [reflexivity|]. cbn [filter].
  rewrite (H a (or_introl eq_refl)). rewrite IH; [reflexivity|]. intros b Hb. apply H. right. exact Hb.
Qed.

Lemma filter_false {A} (p : A -> bool) l : (forall a, In a l -> p a = false) -> filter p l = [].
Proof.
  induction l as [|a l IH]; intros H; [reflexivity|]. cbn [filter].
  rewrite (H a (or_introl eq_refl)). apply IH. intros b Hb. apply H. right. exact Hb.
Qed.

(* ------------------------------------------------------------------------------------------ *)
(* rows of the tables *)

Lemma ofu_true u a : ofu u a = true <-> a_user a = u.
Proof. unfold ofu. apply N.eqb_eq. Qed.

Lemma app_uuid_user a loc u : app_uuid a = (loc, u) -> a_user a = u.
Proof. unfold app_uuid. intros H. inversion H. reflexivity. Qed.

Lemma app_uuid_loc a loc u : app_uuid a = (loc, u) -> a_loc a = loc.
Proof. unfold app_uuid. intros H. inversion H. reflexivity. Qed.

(* a user without a row has no appointment (foreign key) *)
Lemma held_no_row t u : Inv t -> amem (db_users t) u = false -> held_t t u = 0.
Proof.
  intros HI Hm. unfold held_t. rewrite filter_false; [reflexivity|].
  intros a Ha. destruct (ofu u a) eqn:E; [|reflexivity].
  apply ofu_true in E. pose proof (inv_fk_app t HI a Ha) as Hf. rewrite E in Hf. congruence.
Qed.

(* in a table with unique keys, the row found under a key is the row *)
Lemma find_app_unique apps a : NoDup (map app_uuid apps) -> In a apps -> find_app apps (app_uuid a) = Some a.
Proof.
  induction apps as [|x apps IH]; intros Hnd Hi; [destruct Hi|].
  cbn [map] in Hnd. apply NoDup_cons_iff in Hnd. destruct Hnd as [Hx Hnd].
  unfold find_app. cbn [find]. destruct (uuid_eqb (app_uuid x) (app_uuid a)) eqn:E.
  - apply uuid_eqb_eq in E. destruct Hi as [Hi|Hi]; [congruence|].
    exfalso. apply Hx. rewrite E. apply in_map. exact Hi.
  - destruct Hi as [Hi|Hi]; [subst; rewrite uuid_eqb_refl in E; discriminate|].
    apply IH; assumption.
Qed.

Lemma find_trk_unique trks k : NoDup (map trk_uuid trks) -> In k trks -> find_trk trks (trk_uuid k) = Some k.
Proof.
  induction trks as [|x trks IH]; intros Hnd Hi; [destruct Hi|].
  cbn [map] in Hnd. apply NoDup_cons_iff in Hnd. destruct Hnd as [Hx Hnd].
  unfold find_trk. cbn [find]. destruct (uuid_eqb (trk_uuid x) (trk_uuid k)) eqn:E.
  - apply uuid_eqb_eq in E. destruct Hi as [Hi|Hi]; [congruence|].
    exfalso. apply Hx. rewrite E. apply in_map. exact Hi.
  - destruct Hi as [Hi|Hi]; [subst; rewrite uuid_eqb_refl in E; discriminate|].
    apply IH; assumption.
Qed.

(* the users table *)
Lemma avail_ext t t' u : aget (db_users t') u = aget (db_users t) u -> avail t' u = avail t u.
Proof. unfold avail. intros H. rewrite H. reflexivity. Qed.

Lemma bal_ext t t' u : aget (db_users t') u = aget (db_users t) u -> db_apps t' = db_apps t -> bal t' u = bal t u.
Proof. unfold bal, held_t, avail. intros H1 H2. rewrite H1, H2. reflexivity. Qed.

(* ------------------------------------------------------------------------------------------ *)
(* 1. registration *)

Definition same_ledger (t t' : tower) : Prop :=
  gk_users t' = gk_users t /\ db_users t' = db_users t /\ db_apps t' = db_apps t /\ db_trks t' = db_trks t /\ cfg t' = cfg t.

Lemma same_ledger_bal t t' : same_ledger t t' -> forall v, aget (db_users t') v = aget (db_users t) v /\ bal t' v = bal t v.
Proof. intros [_ [Hu [Ha _]]] v. split; [rewrite Hu; reflexivity|apply bal_ext; [rewrite Hu; reflexivity|exact Ha]]. Qed.

Lemma same_ledger_fresh t : same_ledger t (fresh t).
Proof. repeat split. Qed.

Theorem register_bal le t u sc t' r :
  Inv t -> step le t (ORegister u) sc = (t', ORegisterRes r) ->
  match r with
  | RegOk s st e =>
      (amem (db_users t) u = false -> bal t' u = c_slots (cfg t)) /\
      (amem (db_users t) u = true -> bal t' u = bal t u + c_slots (cfg t)) /\
      avail t' u = s /\
      db_apps t' = db_apps t /\
      (forall v, v <> u -> aget (db_users t') v = aget (db_users t) v /\ bal t' v = bal t v)
  | RegMaxSlots => same_ledger t t'
  end.
Proof.
  intros HI. cbn [step wrap]. unfold gk_add_update_user. change (set_rpc_log t []) with (fresh t).
  unfold gk_get. change (gk_users (fresh t)) with (gk_users t). rewrite (inv_sync t HI u).
  change (cfg (fresh t)) with (cfg t). change (db_users (fresh t)) with (db_users t).
  change (gk_height (fresh t)) with (gk_height t).
  destruct (aget (db_users t) u) as [ui|] eqn:Eu.
  - destruct (u32_add (u_slots ui) (c_slots (cfg t))) as [s|] eqn:Es; cbn [wrap]; intros H; inversion H; subst; clear H.
    2:{ apply same_ledger_fresh. }
    unfold u32_add in Es. destruct (N.leb (u_slots ui + c_slots (cfg t)) U32MAX); [|discriminate]. inversion Es; subst s; clear Es.
    assert (Hav : avail (p_set_user (fresh t) u (mk_uinfo (u_slots ui + c_slots (cfg t)) (u_start ui)
                    (match u32_add (u_expiry ui) (c_duration (cfg t)) with Some e => e | None => U32MAX end))) u
                  = u_slots ui + c_slots (cfg t)).
    { unfold avail, p_set_user, db_update_user. cbn [db_users set_db_users gk_put set_gk_users fresh set_rpc_log].
      rewrite aget_map_update, N.eqb_refl, Eu. reflexivity. }
    repeat split.
    + unfold amem. rewrite Eu. discriminate.
    + intros _. unfold bal. rewrite Hav. unfold avail. rewrite Eu. unfold held_t.
      cbn [db_apps p_set_user db_update_user set_db_users gk_put set_gk_users fresh set_rpc_log]. lia.
    + exact Hav.
    + unfold p_set_user, db_update_user. cbn [db_users set_db_users gk_put set_gk_users fresh set_rpc_log].
      rewrite aget_map_update. apply N.eqb_neq in H. rewrite H. reflexivity.
    + apply bal_ext; [|reflexivity].
      unfold p_set_user, db_update_user. cbn [db_users set_db_users gk_put set_gk_users fresh set_rpc_log].
      rewrite aget_map_update. apply N.eqb_neq in H. rewrite H. reflexivity.
  - destruct (u32_add (gk_height t) (c_duration (cfg t))) as [e|]; [|cbn [wrap]; intros H; inversion H].
    unfold amem. rewrite Eu. cbn [wrap u_slots]. intros H; inversion H; subst; clear H.
    assert (Hav : avail (p_new_user (fresh t) u (mk_uinfo (c_slots (cfg t)) (gk_height t) e)) u = c_slots (cfg t)).
    { unfold avail, p_new_user. cbn [db_users set_db_users gk_put set_gk_users fresh set_rpc_log].
      rewrite aget_app_single, Eu, N.eqb_refl. reflexivity. }
    repeat split.
    + intros _. unfold bal. rewrite Hav. unfold held_t.
      cbn [db_apps p_new_user set_db_users gk_put set_gk_users fresh set_rpc_log].
      fold (held_t t u). rewrite (held_no_row t u HI); [lia|]. unfold amem. rewrite Eu. reflexivity.
    + discriminate.
    + exact Hav.
    + unfold p_new_user. cbn [db_users set_db_users gk_put set_gk_users fresh set_rpc_log].
      rewrite aget_app_single. apply N.eqb_neq in H. rewrite H. destruct (aget (db_users t) v); reflexivity.
    + apply bal_ext; [|reflexivity].
      unfold p_new_user. cbn [db_users set_db_users gk_put set_gk_users fresh set_rpc_log].
      rewrite aget_app_single. apply N.eqb_neq in H. rewrite H. destruct (aget (db_users t) v); reflexivity.
Qed.

Theorem register_abort le t u sc t' s :
  step le t (ORegister u) sc = (t', OAbort s) -> same_ledger t t'.
Proof.
  cbn [step wrap]. unfold gk_add_update_user. change (set_rpc_log t []) with (fresh t).
  destruct (gk_get (fresh t) u) as [ui|].
  - destruct (u32_add (u_slots ui) (c_slots (cfg (fresh t)))); cbn [wrap]; intros H; inversion H.
  - destruct (u32_add (gk_height (fresh t)) (c_duration (cfg (fresh t)))); [|cbn [wrap]; intros H; inversion H; apply same_ledger_fresh].
    destruct (amem (db_users (fresh t)) u); cbn [wrap]; intros H; inversion H. apply same_ledger_fresh.
Qed.

(* ------------------------------------------------------------------------------------------ *)
(* 4. operations that do not touch the ledger *)

Theorem get_bal le t signer loc sc t' x : step le t (OGet signer loc) sc = (t', x) -> same_ledger t t'.
Proof.
  intros H. destruct (get_unchanged le t sc signer loc) as [r Hr]. rewrite Hr in H. inversion H. apply same_ledger_fresh.
Qed.

Theorem getsub_bal le t signer sc t' x : step le t (OGetSub signer) sc = (t', x) -> same_ledger t t'.
Proof.
  intros H. destruct (getsub_unchanged le t sc signer) as [r Hr]. rewrite Hr in H. inversion H. apply same_ledger_fresh.
Qed.

Lemma same_ledger_trans a b c : same_ledger a b -> same_ledger b c -> same_ledger a c.
Proof. unfold same_ledger. intuition congruence. Qed.

Definition res_state {A} (r : res A) : tower := match r with Ok _ t => t | Abort _ t => t end.

Lemma disconnect_listeners hash h t :
  same_ledger t (res_state (run_listeners (listener_disconnected hash h) Consts.LISTENER_ORDER t)).
Proof.
  unfold Consts.LISTENER_ORDER. cbn [run_listeners].
  change (listener_disconnected hash h 0 t) with (gk_block_disconnected t h).
  unfold gk_block_disconnected. destruct (u32_sub h 1) as [h'|]; cbn [bind res_state]; [|repeat split].
  change (listener_disconnected hash h 1 (set_gk_height t h')) with (w_block_disconnected (set_gk_height t h') hash h).
  unfold w_block_disconnected. destruct (u32_sub h 1) as [h''|]; cbn [bind res_state]; repeat split.
Qed.

Theorem disconnect_bal le t sc t' x : step le t ODisconnect sc = (t', x) -> same_ledger t t'.
Proof.
  cbn [step]. change (set_rpc_log t []) with (fresh t).
  destruct (last_hash (fresh t)) as [hash|]; [|intros H; inversion H; apply same_ledger_fresh].
  pose proof (disconnect_listeners hash (gk_height (fresh t)) (fresh t)) as Hd.
  destruct (run_listeners (listener_disconnected hash (gk_height (fresh t))) Consts.LISTENER_ORDER (fresh t)) as [u t1|s t1];
    cbn [wrap res_state] in *; intros H; inversion H; subst;
    (eapply same_ledger_trans; [apply same_ledger_fresh|exact Hd]).
Qed.

(* ODisconnect changes only heights, the two indexes and `reorged` (besides the ghost log) *)
Theorem other_ops_bal le t o sc t' x :
  match o with OGet _ _ | OGetSub _ | ODisconnect => True | _ => False end ->
  step le t o sc = (t', x) ->
  same_ledger t t' /\ forall v, aget (db_users t') v = aget (db_users t) v /\ bal t' v = bal t v.
Proof.
  intros Ho H. assert (Hs : same_ledger t t').
  { destruct o; try contradiction; [eapply get_bal|eapply getsub_bal|eapply disconnect_bal]; exact H. }
  split; [exact Hs|apply same_ledger_bal; exact Hs].
Qed.

(* ------------------------------------------------------------------------------------------ *)
(* list operations on the appointments table *)

Definition del (us : list (N * N)) (l : list app) : list app := filter (fun a => negb (mem_uuid (app_uuid a) us)) l.
Definition repl (a : app) (l : list app) : list app := map (fun x => if uuid_eqb (app_uuid x) (app_uuid a) then a else x) l.
Definition stored (l : list app) (a : app) : list app :=
  match find_app l (app_uuid a) with Some _ => repl a l | None => l ++ [a] end.

Lemma db_delete_apps_apps t us : db_apps (db_delete_apps t us) = del us (db_apps t).
Proof. reflexivity. Qed.
Lemma db_delete_apps_users t us : db_users (db_delete_apps t us) = db_users t.
Proof. reflexivity. Qed.
Lemma db_delete_apps_mem t us : gk_users (db_delete_apps t us) = gk_users t.
Proof. reflexivity. Qed.

Lemma find_app_cons x l u : find_app (x :: l) u = if uuid_eqb (app_uuid x) u then Some x else find_app l u.
Proof. reflexivity. Qed.

Lemma find_app_notin l u : ~ In u (map app_uuid l) -> find_app l u = None.
Proof.
  intros Hn. destruct (find_app l u) as [a|] eqn:E; [|reflexivity].
  apply find_app_Some in E. destruct E as [Hi He]. exfalso. apply Hn. rewrite <- He. apply in_map. exact Hi.
Qed.

Lemma mem_uuid_single x u : mem_uuid x [u] = uuid_eqb x u.
Proof. unfold mem_uuid. cbn [existsb]. apply orb_false_r. Qed.

Lemma repl_notin a l : ~ In (app_uuid a) (map app_uuid l) -> repl a l = l.
Proof.
  induction l as [|x l IH]; intros Hn; [reflexivity|]. unfold repl in *. cbn [map] in *.
  destruct (uuid_eqb (app_uuid x) (app_uuid a)) eqn:E.
  - apply uuid_eqb_eq in E. exfalso. apply Hn. left. exact E.
  - rewrite IH; [reflexivity|]. intros Hi. apply Hn. right. exact Hi.
Qed.

Lemma ssum_repl (p : app -> bool) a a0 l :
  NoDup (map app_uuid l) -> find_app l (app_uuid a) = Some a0 ->
  ssum (filter p (repl a l)) + (if p a0 then aslots a0 else 0) = ssum (filter p l) + (if p a then aslots a else 0).
Proof.
  induction l as [|x l IH]; intros Hnd Hf; [discriminate|].
  cbn [map] in Hnd. apply NoDup_cons_iff in Hnd. destruct Hnd as [Hx Hnd].
  rewrite find_app_cons in Hf. unfold repl. cbn [map]. fold (repl a l).
  destruct (uuid_eqb (app_uuid x) (app_uuid a)) eqn:E.
  - inversion Hf; subst x; clear Hf. apply uuid_eqb_eq in E. rewrite E in Hx.
    rewrite (repl_notin a l Hx). cbn [filter]. destruct (p a), (p a0); rewrite ?ssum_cons; lia.
  - specialize (IH Hnd Hf). cbn [filter]. destruct (p x); rewrite ?ssum_cons; lia.
Qed.

Lemma del_notin u l : ~ In u (map app_uuid l) -> del [u] l = l.
Proof.
  intros Hn. unfold del. apply filter_true. intros a Ha. rewrite mem_uuid_single.
  destruct (uuid_eqb (app_uuid a) u) eqn:E; [|reflexivity].
  apply uuid_eqb_eq in E. exfalso. apply Hn. rewrite <- E. apply in_map. exact Ha.
Qed.

Lemma ssum_del1 (p : app -> bool) u l :
  NoDup (map app_uuid l) ->
  ssum (filter p l) = ssum (filter p (del [u] l))
                      + match find_app l u with Some a0 => if p a0 then aslots a0 else 0 | None => 0 end.
Proof.
  induction l as [|x l IH]; intros Hnd; [reflexivity|].
  cbn [map] in Hnd. apply NoDup_cons_iff in Hnd. destruct Hnd as [Hx Hnd].
  rewrite find_app_cons. unfold del. cbn [filter]. fold (del [u] l). rewrite mem_uuid_single.
  destruct (uuid_eqb (app_uuid x) u) eqn:E; cbn [negb].
  - apply uuid_eqb_eq in E. rewrite E in Hx. rewrite (del_notin u l Hx).
    destruct (p x); rewrite ?ssum_cons; lia.
  - specialize (IH Hnd). cbn [filter]. destruct (p x); rewrite ?ssum_cons; lia.
Qed.

Lemma del_repl a l : del [app_uuid a] (repl a l) = del [app_uuid a] l.
Proof.
  induction l as [|x l IH]; [reflexivity|]. unfold repl, del in *. cbn [map filter]. rewrite !mem_uuid_single.
  destruct (uuid_eqb (app_uuid x) (app_uuid a)) eqn:E.
  - rewrite uuid_eqb_refl. cbn [negb]. exact IH.
  - rewrite E. cbn [negb]. f_equal. exact IH.
Qed.

Lemma del_snoc a l : del [app_uuid a] (l ++ [a]) = del [app_uuid a] l.
Proof.
  unfold del. rewrite filter_app. cbn [filter]. rewrite mem_uuid_single, uuid_eqb_refl. cbn [negb]. apply app_nil_r.
Qed.

Lemma del_stored a l : del [app_uuid a] (stored l a) = del [app_uuid a] l.
Proof. unfold stored. destruct (find_app l (app_uuid a)); [apply del_repl|apply del_snoc]. Qed.

(* rows of other users *)
Lemma filter_ofu_repl v a l : a_user a <> v -> filter (ofu v) (repl a l) = filter (ofu v) l.
Proof.
  intros Hv. induction l as [|x l IH]; [reflexivity|]. unfold repl in *. cbn [map filter].
  destruct (uuid_eqb (app_uuid x) (app_uuid a)) eqn:E.
  - apply uuid_eqb_eq in E. assert (Hx : a_user x = a_user a) by (unfold app_uuid in E; congruence).
    assert (E1 : ofu v a = false) by (apply N.eqb_neq; exact Hv).
    assert (E2 : ofu v x = false) by (apply N.eqb_neq; congruence).
    rewrite E1, E2. exact IH.
  - destruct (ofu v x); [f_equal|]; exact IH.
Qed.

Lemma filter_ofu_snoc v a l : a_user a <> v -> filter (ofu v) (l ++ [a]) = filter (ofu v) l.
Proof.
  intros Hv. rewrite filter_app. cbn [filter].
  assert (E1 : ofu v a = false) by (apply N.eqb_neq; exact Hv). rewrite E1. apply app_nil_r.
Qed.

Lemma filter_ofu_stored v a l : a_user a <> v -> filter (ofu v) (stored l a) = filter (ofu v) l.
Proof. intros Hv. unfold stored. destruct (find_app l (app_uuid a)); [apply filter_ofu_repl|apply filter_ofu_snoc]; exact Hv. Qed.

Lemma filter_ofu_del1 v loc u l : u <> v -> filter (ofu v) (del [(loc, u)] l) = filter (ofu v) l.
Proof.
  intros Hv. unfold del. rewrite filter_filter. apply filter_ext_in'. intros a _. rewrite mem_uuid_single.
  destruct (uuid_eqb (app_uuid a) (loc, u)) eqn:E; cbn [negb andb]; [|reflexivity].
  apply uuid_eqb_eq in E. apply app_uuid_user in E. symmetry. apply N.eqb_neq. congruence.
Qed.

Lemma blob_eqb_refl b : blob_eqb b b = true.
Proof. unfold blob_eqb. rewrite !N.eqb_refl. destruct (b_pay b); [apply N.eqb_refl|reflexivity]. Qed.

(* is the version (loc, u, b) held in the table? (the test of TowerMon.ledger_step) *)
Definition held_version (l : list app) (loc u : N) (b : blob) : bool :=
  existsb (fun a => uuid_eqb (app_uuid a) (loc, u) && blob_eqb (a_blob a) b) l.

Lemma held_version_stored l a : held_version (stored l a) (a_loc a) (a_user a) (a_blob a) = true.
Proof.
  unfold held_version. apply existsb_exists. exists a. split.
  - unfold stored. destruct (find_app l (app_uuid a)) as [a0|] eqn:E.
    + apply find_app_Some in E. destruct E as [Hi He]. unfold repl. apply in_map_iff. exists a0. split; [|exact Hi].
      rewrite He, uuid_eqb_refl. reflexivity.
    + apply in_or_app. right. left. reflexivity.
  - change (a_loc a, a_user a) with (app_uuid a). rewrite uuid_eqb_refl, blob_eqb_refl. reflexivity.
Qed.

Lemma held_version_del l loc u b : held_version (del [(loc, u)] l) loc u b = false.
Proof.
  unfold held_version. destruct (existsb _ _) eqn:E; [|reflexivity].
  apply existsb_exists in E. destruct E as [a [Hi Ha]]. unfold del in Hi. apply filter_In in Hi.
  destruct Hi as [_ Hn]. rewrite mem_uuid_single in Hn. apply andb_true_iff in Ha. destruct Ha as [Ha _].
  rewrite Ha in Hn. discriminate.
Qed.

(* ------------------------------------------------------------------------------------------ *)
(* frames: what the carrier and the responder's add_tracker leave alone *)

(* everything except the carrier's height and memo and the ghost RPC log *)
Definition core (t : tower) :=
  (cfg t, gk_users t, gk_height t, db_users t, db_apps t, db_trks t, (r_index t, reorged t, w_cache t, w_height t)).

(* the carrier's memo never holds a `ConfirmedIn` (send_status does not produce one); this is true of
   every reachable state but is not part of Inv, so it appears as a hypothesis where it matters *)
Definition memo_ok (m : list (N * cstatus)) : Prop := forall tx s, aget m tx = Some s -> forall h, s <> ConfirmedIn h.

Lemma send_status_not_conf t a h : send_status t a <> ConfirmedIn h.
Proof.
  destruct a as [|c]; cbn [send_status]; [discriminate|].
  destruct (Z.eqb c Consts.RPC_VERIFY_REJECTED); [discriminate|].
  destruct (Z.eqb c Consts.RPC_VERIFY_ERROR); [discriminate|].
  destruct (Z.eqb c Consts.RPC_VERIFY_ALREADY_IN_CHAIN); [discriminate|].
  destruct (Z.eqb c Consts.RPC_DESERIALIZATION_ERROR); discriminate.
Qed.

Lemma send_spec sc t tx s t' :
  send_transaction sc t tx = (s, t') ->
  core t' = core t /\ car_height t' = car_height t /\
  (memo_ok (car_memo t) -> memo_ok (car_memo t') /\ forall h, s <> ConfirmedIn h).
Proof.
  unfold send_transaction. destruct (aget (car_memo t) tx) as [r|] eqn:E; intros H; inversion H; subst; clear H.
  - repeat split. exact H. intros h. exact (H tx s E h).
  - repeat split.
    + intros tx' s' Hg h. cbn [car_memo set_car_memo log_rpc set_rpc_log aget] in Hg.
      destruct (N.eqb tx' tx); [inversion Hg; apply send_status_not_conf|exact (H tx' s' Hg h)].
    + intros h. apply send_status_not_conf.
Qed.

Lemma in_mempool_spec sc t tx b t' :
  in_mempool sc t tx = (b, t') -> core t' = core t /\ car_height t' = car_height t /\ car_memo t' = car_memo t.
Proof. unfold in_mempool. intros H. inversion H. repeat split. Qed.

Definition ua (t : tower) := (gk_users t, db_users t, db_apps t, gk_height t).

Lemma core_ua t t' : core t' = core t -> ua t' = ua t.
Proof. unfold core, ua. intros H. inversion H. reflexivity. Qed.

Lemma add_tracker_ua t uuid d p s : ua (r_add_tracker t uuid d p s) = ua t.
Proof.
  unfold r_add_tracker. destruct s; try reflexivity;
    destruct (find_trk (db_trks t) uuid); try reflexivity; destruct (find_app (db_apps t) uuid); reflexivity.
Qed.

(* handle_breach: the node is consulted, then at most one tracker row is added *)
Lemma handle_breach_spec sc t uuid d p s t' :
  r_handle_breach sc t uuid d p = Ok s t' ->
  exists t1, core t1 = core t /\ car_height t1 = car_height t /\
             t' = (if status_accepted s then r_add_tracker t1 uuid d p s else t1) /\
             (memo_ok (car_memo t) ->
              memo_ok (car_memo t1) /\ forall h, s = ConfirmedIn h -> ti_get (r_index t) p <> None).
Proof.
  unfold r_handle_breach. destruct (ti_get (r_index t) p) as [bh|] eqn:Ei.
  - destruct (ti_get_height (r_index t) bh) as [hh|]; cbn [bind]; intros H; inversion H; subst; clear H.
    exists t. repeat split. exact H. intros; discriminate.
  - destruct (in_mempool sc t p) as [inm t1] eqn:Em. apply in_mempool_spec in Em. destruct Em as [Hc1 [Hh1 Hm1]].
    destruct inm.
    + cbn [bind]. intros H; inversion H; subst; clear H. exists t1. repeat split; try assumption.
      * rewrite Hm1. exact H.
      * intros h Hx. discriminate.
    + destruct (send_transaction sc t1 p) as [s2 t2] eqn:Es. apply send_spec in Es. destruct Es as [Hc2 [Hh2 Hm2]].
      cbn [bind]. intros H; inversion H; subst; clear H. exists t2. repeat split.
      * congruence.
      * congruence.
      * rewrite <- Hm1 in H. apply Hm2 in H. tauto.
      * intros h Hx. rewrite <- Hm1 in H. apply Hm2 in H. destruct H as [_ H]. exfalso. exact (H h Hx).
Qed.

Lemma handle_breach_ua sc t uuid d p s t' : r_handle_breach sc t uuid d p = Ok s t' -> ua t' = ua t.
Proof.
  intros H. apply handle_breach_spec in H. destruct H as [t1 [Hc [_ [Ht _]]]]. subst t'.
  destruct (status_accepted s); [rewrite add_tracker_ua|]; apply core_ua; exact Hc.
Qed.

(* ------------------------------------------------------------------------------------------ *)
(* 2. add_appointment *)

Lemma store_spec t a t2 :
  w_store_ok t a = true ->
  w_store_appointment t a = Ok tt t2 ->
  db_apps t2 = stored (db_apps t) a /\ db_users t2 = db_users t /\ gk_users t2 = gk_users t /\ db_trks t2 = db_trks t /\ cfg t2 = cfg t.
Proof.
  unfold w_store_ok, w_store_appointment, stored. destruct (find_app (db_apps t) (app_uuid a)) as [a0|].
  - intros _ H; inversion H; subst. repeat split.
  - destruct (amem (db_users t) (a_user a)); [|discriminate]. intros _ H; inversion H; subst. repeat split.
Qed.

Lemma triggered_spec sc t a d t2 :
  w_store_triggered sc t a d = Ok tt t2 ->
  db_users t2 = db_users t /\ gk_users t2 = gk_users t /\
  (db_apps t2 = stored (db_apps t) a \/ db_apps t2 = del [app_uuid a] (db_apps t)).
Proof.
  unfold w_store_triggered. destruct (decrypt (a_blob a) d) as [p|].
  - destruct (w_store_ok t a) eqn:Eok.
    2: { intros H; inversion H; subst; clear H. repeat split. right. symmetry. apply del_notin.
         apply find_app_None. unfold w_store_ok in Eok. destruct (find_app (db_apps t2) (app_uuid a)); [discriminate|reflexivity]. }
    destruct (w_store_appointment t a) as [[] t1|] eqn:E1; cbn [bind]; [|discriminate].
    apply (store_spec _ _ _ Eok) in E1. destruct E1 as [Ha1 [Hu1 [Hg1 _]]].
    destruct (r_handle_breach sc t1 (app_uuid a) d p) as [s t3|] eqn:E2; cbn [bind]; [|discriminate].
    apply handle_breach_ua in E2. unfold ua in E2. inversion E2 as [[Hg3 Hu3 Ha3 Hh3]].
    destruct (status_rejected s).
    + unfold gk_delete_appointments. intros H; inversion H; subst; clear H.
      rewrite db_delete_apps_users, db_delete_apps_mem, db_delete_apps_apps.
      repeat split; try congruence. right. rewrite Ha3, Ha1. apply del_stored.
    + intros H; inversion H; subst; clear H. repeat split; try congruence. left. congruence.
  - destruct (find_app (db_apps t) (app_uuid a)) as [a0|] eqn:Ef.
    + unfold gk_delete_appointments. intros H; inversion H; subst; clear H. repeat split. right. reflexivity.
    + intros H; inversion H; subst; clear H. repeat split. right. symmetry. apply del_notin.
      apply find_app_None. exact Ef.
Qed.

Definition used_by (t : tower) (loc u : N) : N :=
  match find_app (db_apps t) (loc, u) with Some a0 => aslots a0 | None => 0 end.

Lemma add_ok_shape le t signer loc b delay sig sc t' st sg sl e :
  Inv t -> step le t (OAdd signer loc b delay sig) sc = (t', OAddRes (AddOk st sg sl e)) ->
  exists u ui, signer = Some u /\ aget (db_users t) u = Some ui /\
    slots_of (b_len b) <= u_slots ui + used_by t loc u /\
    sl = (u_slots ui + used_by t loc u - slots_of (b_len b)) mod U32MOD /\
    db_users t' = map (fun r => if N.eqb (fst r) u then (u, mk_uinfo sl (u_start ui) (u_expiry ui)) else r) (db_users t) /\
    (db_apps t' = stored (db_apps t) (mk_app loc u b delay sig (w_height t)) \/ db_apps t' = del [(loc, u)] (db_apps t)).
Proof.
  intros HI. cbn [step wrap]. unfold w_add_appointment. change (set_rpc_log t []) with (fresh t).
  destruct (authenticate (fresh t) signer) as [u|] eqn:Ea; [|cbn; intros H; inversion H].
  apply authenticate_Some in Ea. destruct Ea as [Hs _].
  destruct (gk_get (fresh t) u) as [ui|] eqn:Eg; [|cbn; intros H; inversion H].
  destruct (N.leb (u_expiry ui) (gk_height (fresh t))); [cbn; intros H; inversion H|].
  destruct (find_trk (db_trks (fresh t)) (loc, u)); [cbn; intros H; inversion H|].
  unfold gk_add_update_appointment. rewrite Eg.
  assert (Eu : aget (db_users t) u = Some ui).
  { rewrite <- (inv_sync t HI u). exact Eg. }
  change (db_apps (fresh t)) with (db_apps t). fold (used_by t loc u). unfold aslots.
  change (match find_app (db_apps t) (loc, u) with Some a => slots_of (b_len (a_blob a)) | None => 0 end) with (used_by t loc u).
  destruct (N.leb (slots_of (b_len b)) (u_slots ui + used_by t loc u)) eqn:El; cbn [bind]; [|cbn; intros H; inversion H].
  apply N.leb_le in El.
  set (s := (u_slots ui + used_by t loc u - slots_of (b_len b)) mod U32MOD).
  set (t1 := p_set_user (fresh t) u (mk_uinfo s (u_start ui) (u_expiry ui))).
  set (a := mk_app loc u b delay sig (w_height (fresh t))).
  assert (Hu1 : db_users t1 = map (fun r => if N.eqb (fst r) u then (u, mk_uinfo s (u_start ui) (u_expiry ui)) else r) (db_users t)) by reflexivity.
  assert (Ha1 : db_apps t1 = db_apps t) by reflexivity.
  cbv zeta. intros H. exists u, ui.
  destruct (ti_get (w_cache t1) loc) as [d|].
  - destruct (w_store_triggered sc t1 a d) as [[] t2|] eqn:E2; cbn [bind wrap] in H;
      [match type of H with context [if ?c then _ else _] => destruct c end|]; inversion H; subst; clear H.
    apply triggered_spec in E2. destruct E2 as [Hu2 [_ Ha2]].
    split; [first [exact Hs|reflexivity]|]. split; [exact Eu|]. split; [exact El|]. split; [reflexivity|].
    split; [rewrite Hu2; exact Hu1|]. rewrite Ha1 in Ha2. exact Ha2.
  - destruct (w_store_ok t1 a) eqn:Eok;
      destruct (w_store_appointment t1 a) as [[] t2|] eqn:E2; cbn [bind wrap] in H; inversion H; subst; clear H.
    apply (store_spec _ _ _ Eok) in E2. destruct E2 as [Ha2 [Hu2 _]].
    split; [first [exact Hs|reflexivity]|]. split; [exact Eu|]. split; [exact El|]. split; [reflexivity|].
    split; [rewrite Hu2; exact Hu1|]. left. rewrite Ha1 in Ha2. exact Ha2.
Qed.

Lemma add_refused_same le t signer loc b delay sig sc t' r :
  (forall u, user_row_ok t u) ->
  step le t (OAdd signer loc b delay sig) sc = (t', OAddRes r) ->
  match r with AddOk _ _ _ _ => True | _ => same_ledger t t' end.
Proof.
  intros Hrow. cbn [step wrap]. unfold w_add_appointment. change (set_rpc_log t []) with (fresh t).
  destruct (authenticate (fresh t) signer) as [u|] eqn:Eau; [|cbn; intros H; inversion H; apply same_ledger_fresh].
  apply authenticate_Some in Eau. destruct Eau as [_ Hmem].
  destruct (gk_get (fresh t) u) as [ui|] eqn:Eg; [|cbn; intros H; inversion H; apply same_ledger_fresh].
  destruct (N.leb (u_expiry ui) (gk_height (fresh t))); [cbn; intros H; inversion H; apply same_ledger_fresh|].
  destruct (find_trk (db_trks (fresh t)) (loc, u)); [cbn; intros H; inversion H; apply same_ledger_fresh|].
  unfold gk_add_update_appointment. rewrite Eg.
  match goal with |- context [if ?c then _ else _] => destruct c end; cbn [bind]; [|cbn; intros H; inversion H; apply same_ledger_fresh].
  cbv zeta. rewrite stored_flag_true by (apply store_ok_after_charge; [exact (Hrow u Hmem)|reflexivity]).
  match goal with |- context [bind ?x _] => destruct x as [[] t2|] end; cbn [bind wrap]; intros H; inversion H; exact I.
Qed.

Lemma used_le_held t loc u : Inv t -> used_by t loc u <= held_t t u.
Proof.
  intros HI. unfold used_by, held_t. rewrite (ssum_del1 (ofu u) (loc, u) _ (inv_apps_nodup t HI)).
  destruct (find_app (db_apps t) (loc, u)) as [a0|] eqn:E; [|lia].
  apply find_app_Some in E. destruct E as [_ E]. apply app_uuid_user in E.
  assert (Ho : ofu u a0 = true) by (apply ofu_true; exact E). rewrite Ho. lia.
Qed.

Theorem add_bal le t signer loc b delay sig sc t' r :
  Inv t -> step le t (OAdd signer loc b delay sig) sc = (t', OAddRes r) ->
  match r with
  | AddOk start sg slots e =>
      exists u, signer = Some u /\
        (* wire = disk; accepted only if the balance stays non-negative *)
        slots = avail t' u /\
        slots_of (b_len b) <= avail t u + used_by t loc u /\
        (* no `as u32` wrap: the charge is the difference, and the balance is conserved or forfeited *)
        (bal t u < U32MOD ->
           avail t' u + slots_of (b_len b) = avail t u + used_by t loc u /\
           (if held_version (db_apps t') loc u b then bal t' u = bal t u
            else bal t' u + slots_of (b_len b) = bal t u)) /\
        (forall v, v <> u -> aget (db_users t') v = aget (db_users t) v /\
                             filter (ofu v) (db_apps t') = filter (ofu v) (db_apps t) /\ bal t' v = bal t v)
  | _ => same_ledger t t'
  end.
Proof.
  intros HI Hstep. destruct r as [st sg sl e| | |]; try exact (add_refused_same le t signer loc b delay sig sc t' _ (inv_user_rows t HI) Hstep).
  destruct (add_ok_shape le t signer loc b delay sig sc t' st sg sl e HI Hstep) as [u [ui [Hs [Eu [Hle [Hsl [Hu' Ha']]]]]]].
  exists u. split; [exact Hs|].
  assert (Hav : avail t u = u_slots ui) by (unfold avail; rewrite Eu; reflexivity).
  assert (Hav' : avail t' u = sl).
  { unfold avail. rewrite Hu', aget_map_update, N.eqb_refl, Eu. reflexivity. }
  pose proof (used_le_held t loc u HI) as Hused.
  split; [congruence|]. split; [rewrite Hav; exact Hle|]. split.
  - intros Hnw. unfold bal in Hnw.
    assert (Hsl' : sl = u_slots ui + used_by t loc u - slots_of (b_len b)).
    { rewrite Hsl. apply N.mod_small. lia. }
    split; [lia|].
    set (a := mk_app loc u b delay sig (w_height t)) in *.
    destruct Ha' as [Ha'|Ha'].
    + assert (Hhv : held_version (stored (db_apps t) a) loc u b = true) by exact (held_version_stored (db_apps t) a).
      rewrite Ha', Hhv. unfold bal, held_t. rewrite Ha', Hav', Hav.
      unfold stored. change (app_uuid a) with (loc, u). unfold used_by in *.
      destruct (find_app (db_apps t) (loc, u)) as [a0|] eqn:Ef.
      * pose proof (ssum_repl (ofu u) a a0 (db_apps t) (inv_apps_nodup t HI) Ef) as Hr.
        assert (Ho0 : ofu u a0 = true) by (apply ofu_true; apply find_app_Some in Ef; destruct Ef as [_ Ef]; apply app_uuid_user in Ef; exact Ef).
        assert (Ho : ofu u a = true) by (apply ofu_true; reflexivity).
        rewrite Ho0, Ho in Hr. change (aslots a) with (slots_of (b_len b)) in Hr. lia.
      * rewrite filter_app, ssum_app. cbn [filter].
        assert (Ho : ofu u a = true) by (apply ofu_true; reflexivity). rewrite Ho.
        rewrite ssum_cons. change (aslots a) with (slots_of (b_len b)). cbn [ssum fold_right]. lia.
    + rewrite Ha', held_version_del. unfold bal, held_t. rewrite Ha', Hav', Hav.
      pose proof (ssum_del1 (ofu u) (loc, u) _ (inv_apps_nodup t HI)) as Hd.
      unfold used_by in *. destruct (find_app (db_apps t) (loc, u)) as [a0|] eqn:Ef.
      * assert (Ho0 : ofu u a0 = true) by (apply ofu_true; apply find_app_Some in Ef; destruct Ef as [_ Ef]; apply app_uuid_user in Ef; exact Ef).
        rewrite Ho0 in Hd. lia.
      * lia.
  - intros v Hv.
    assert (Hrow : aget (db_users t') v = aget (db_users t) v).
    { rewrite Hu', aget_map_update. apply N.eqb_neq in Hv. rewrite Hv. reflexivity. }
    assert (Hf : filter (ofu v) (db_apps t') = filter (ofu v) (db_apps t)).
    { destruct Ha' as [Ha'|Ha']; rewrite Ha'; [apply filter_ofu_stored; cbn [a_user]; congruence|apply filter_ofu_del1; congruence]. }
    repeat split; [exact Hrow|exact Hf|]. unfold bal, held_t, avail. rewrite Hrow, Hf. reflexivity.
Qed.

(* replacing an appointment charges or returns only the difference *)
Theorem replace_charges_difference le t u loc b delay sig sc t' start sg slots e a0 :
  Inv t -> step le t (OAdd (Some u) loc b delay sig) sc = (t', OAddRes (AddOk start sg slots e)) ->
  find_app (db_apps t) (loc, u) = Some a0 -> bal t u < U32MOD ->
  avail t' u + slots_of (b_len b) = avail t u + slots_of (b_len (a_blob a0)).
Proof.
  intros HI Hstep Hf Hnw. pose proof (add_bal le t (Some u) loc b delay sig sc t' _ HI Hstep) as H.
  cbn beta iota in H. destruct H as [u' [Hs [_ [_ [H _]]]]]. inversion Hs; subst u'.
  destruct (H Hnw) as [H1 _]. unfold used_by in H1. rewrite Hf in H1. exact H1.
Qed.

(* ------------------------------------------------------------------------------------------ *)
(* 3. block connection: the loops of the responder *)

Lemma mem_uuid_cons x u r : mem_uuid x (u :: r) = uuid_eqb x u || mem_uuid x r.
Proof. reflexivity. Qed.

Lemma mem_uuid_filter_false u (p : N * N -> bool) l : mem_uuid u l = false -> mem_uuid u (filter p l) = false.
Proof.
  intros H. destruct (mem_uuid u (filter p l)) eqn:E; [|reflexivity].
  apply mem_uuid_In in E. apply filter_In in E. destruct E as [E _]. apply mem_uuid_In in E. congruence.
Qed.

Lemma del_nil l : del [] l = l.
Proof. unfold del. apply filter_true. intros; reflexivity. Qed.

(* the slots of the rows selected by a duplicate-free list of keys, one key at a time *)
Lemma ssum_mem_cons (p : app -> bool) u r l :
  NoDup (map app_uuid l) -> ~ In u r ->
  ssum (filter (fun x => p x && mem_uuid (app_uuid x) (u :: r)) l)
  = ssum (filter (fun x => p x && mem_uuid (app_uuid x) r) l)
    + match find_app l u with Some a => if p a then aslots a else 0 | None => 0 end.
Proof.
  intros Hnd Hu. induction l as [|x l IH]; [reflexivity|].
  cbn [map] in Hnd. apply NoDup_cons_iff in Hnd. destruct Hnd as [Hx Hnd].
  rewrite find_app_cons. cbn [filter]. rewrite mem_uuid_cons.
  destruct (uuid_eqb (app_uuid x) u) eqn:E.
  - apply uuid_eqb_eq in E.
    assert (Hr : mem_uuid (app_uuid x) r = false).
    { destruct (mem_uuid (app_uuid x) r) eqn:Em; [|reflexivity]. apply mem_uuid_In in Em. congruence. }
    rewrite Hr.
    assert (Hrest : filter (fun y => p y && mem_uuid (app_uuid y) (u :: r)) l = filter (fun y => p y && mem_uuid (app_uuid y) r) l).
    { apply filter_ext_in'. intros y Hy. rewrite mem_uuid_cons.
      destruct (uuid_eqb (app_uuid y) u) eqn:Ey; [|reflexivity].
      apply uuid_eqb_eq in Ey. exfalso. apply Hx. rewrite E, <- Ey. apply in_map. exact Hy. }
    rewrite Hrest. cbn [orb]. rewrite andb_true_r, andb_false_r. destruct (p x); rewrite ?ssum_cons; lia.
  - specialize (IH Hnd). cbn [orb]. destruct (p x && mem_uuid (app_uuid x) r); rewrite ?ssum_cons; lia.
Qed.

(* delete_appointments(.., refund = true): every listed row's slots go back to its owner *)
Lemma refund_spec : forall us t t',
  Inv t -> NoDup us -> refund_loop t us = Ok tt t' ->
  Inv t' /\ db_apps t' = db_apps t /\ db_trks t' = db_trks t /\
  forall v, amem (db_users t') v = amem (db_users t) v /\
            avail t' v = avail t v + ssum (filter (fun a => ofu v a && mem_uuid (app_uuid a) us) (db_apps t)).
Proof.
  induction us as [|uuid us IH]; intros t t' HI Hnd; cbn [refund_loop].
  - intros H; inversion H; subst. split; [exact HI|]. split; [reflexivity|]. split; [reflexivity|].
    intros v. split; [reflexivity|]. rewrite filter_false; [cbn [ssum fold_right]; lia|]. intros a _. apply andb_false_r.
  - apply NoDup_cons_iff in Hnd. destruct Hnd as [Hu Hnd].
    destruct (find_app (db_apps t) uuid) as [a|] eqn:Ef; [|discriminate].
    destruct (gk_get t (a_user a)) as [ui|] eqn:Eg; [|discriminate].
    destruct (u32_add (u_slots ui) (slots_of (b_len (a_blob a)))) as [s|] eqn:Es; [|discriminate].
    intros H. specialize (IH _ _ (inv_refund t (a_user a) ui s HI Eg) Hnd H).
    destruct IH as [HI' [Ha' [Hk' Hv']]].
    split; [exact HI'|]. split; [exact Ha'|]. split; [exact Hk'|]. intros v.
    destruct (Hv' v) as [Hm' Hav']. clear Hv'.
    assert (Eu : aget (db_users t) (a_user a) = Some ui) by (rewrite <- (inv_sync t HI); exact Eg).
    assert (Hs : s = u_slots ui + aslots a).
    { unfold u32_add in Es. destruct (N.leb _ _); inversion Es. reflexivity. }
    assert (Hget : aget (db_users (p_refund_user t (a_user a) ui s)) v =
                   if N.eqb v (a_user a) then option_map (fun x => mk_uinfo s (u_start x) (u_expiry x)) (aget (db_users t) v)
                   else aget (db_users t) v).
    { unfold p_refund_user, db_update_user_slots. cbn [db_users set_db_users gk_put set_gk_users]. apply aget_map_slots. }
    split.
    + rewrite Hm'. unfold amem. rewrite Hget. destruct (N.eqb v (a_user a)); [|reflexivity].
      destruct (aget (db_users t) v); reflexivity.
    + rewrite Hav'. change (db_apps (p_refund_user t (a_user a) ui s)) with (db_apps t).
      rewrite (ssum_mem_cons (ofu v) uuid us (db_apps t) (inv_apps_nodup t HI) Hu), Ef.
      unfold avail at 1. rewrite Hget. unfold ofu at 3.
      destruct (N.eqb v (a_user a)) eqn:Ev.
      * apply N.eqb_eq in Ev. subst v. rewrite N.eqb_refl. unfold avail. rewrite Eu. cbn [option_map u_slots]. lia.
      * rewrite N.eqb_sym, Ev. unfold avail. lia.
Qed.

(* check_confirmations: which trackers are reported as completed *)
Definition IRR : N := Z.to_N Consts.IRREVOCABLY_RESOLVED.

Lemma check_conf_spec le txids h : forall snap t comp comp' t',
  check_conf_loop le txids h snap t comp = Ok comp' t' ->
  ua t' = ua t /\
  exists added, comp' = comp ++ added /\
    (forall u, In u added -> exists k, In k snap /\ trk_uuid k = u /\ memN (t_penalty k) txids = false /\
                                       t_conf k = true /\ h - t_height k = IRR) /\
    (forall k, In k snap -> memN (t_penalty k) txids = false -> mem_uuid (trk_uuid k) (reorged t) = false ->
               t_conf k = true -> h - t_height k = IRR -> In (trk_uuid k) added) /\
    (NoDup (map trk_uuid snap) -> NoDup added).
Proof.
  induction snap as [|k snap IH]; intros t comp comp' t'; cbn [check_conf_loop].
  - intros H; inversion H; subst. split; [reflexivity|]. exists []. rewrite app_nil_r.
    repeat split; try (intros ? []). intros _. constructor.
  - destruct (memN (t_penalty k) txids) eqn:Ep.
    + destruct (find_trk (db_trks t) (trk_uuid k)); [|discriminate].
      intros H. apply IH in H. destruct H as [Hua [added [Hc [H1 [H2 H3]]]]].
      split; [exact Hua|]. exists added. split; [exact Hc|]. split; [|split].
      * intros u Hu. destruct (H1 u Hu) as [k' [Hk' Hr]]. exists k'. split; [right; exact Hk'|exact Hr].
      * intros k' [Hk'|Hk'] Hp Hr Hcf Hh; [subst k'; congruence|].
        apply H2; try assumption. cbn [reorged set_reorged set_trk_status set_db_trks]. apply mem_uuid_filter_false. exact Hr.
      * intros Hnd. cbn [map] in Hnd. apply NoDup_cons_iff in Hnd. apply H3. tauto.
    + destruct (mem_uuid (trk_uuid k) (reorged t)) eqn:Er.
      { intros H. apply IH in H. destruct H as [Hua [added [Hc [H1 [H2 H3]]]]].
        split; [exact Hua|]. exists added. split; [exact Hc|]. split; [|split].
        * intros u Hu. destruct (H1 u Hu) as [k' [Hk' Hr]]. exists k'. split; [right; exact Hk'|exact Hr].
        * intros k' [Hk'|Hk'] Hp Hr Hcf Hh; [subst k'; congruence|]. apply H2; assumption.
        * intros Hnd. cbn [map] in Hnd. apply NoDup_cons_iff in Hnd. apply H3. tauto. }
      destruct (t_conf k) eqn:Ec.
      2:{ intros H. apply IH in H. destruct H as [Hua [added [Hc [H1 [H2 H3]]]]].
        split; [exact Hua|]. exists added. split; [exact Hc|]. split; [|split].
        * intros u Hu. destruct (H1 u Hu) as [k' [Hk' Hr]]. exists k'. split; [right; exact Hk'|exact Hr].
        * intros k' [Hk'|Hk'] Hp Hr Hcf Hh; [subst k'; congruence|]. apply H2; assumption.
        * intros Hnd. cbn [map] in Hnd. apply NoDup_cons_iff in Hnd. apply H3. tauto. }
      fold IRR. destruct (N.eqb (h - t_height k) IRR) eqn:Ei.
      * apply N.eqb_eq in Ei.
        intros H. apply IH in H. destruct H as [Hua [added [Hc [H1 [H2 H3]]]]].
        split; [exact Hua|]. exists (trk_uuid k :: added). split; [rewrite Hc, <- app_assoc; reflexivity|]. split; [|split].
        -- intros u [Hu|Hu].
           ++ exists k. repeat split; try assumption. left; reflexivity.
           ++ destruct (H1 u Hu) as [k' [Hk' Hr]]. exists k'. split; [right; exact Hk'|exact Hr].
        -- intros k' [Hk'|Hk'] Hp Hr Hcf Hh; [subst k'; left; reflexivity|]. right. apply H2; assumption.
        -- intros Hnd. cbn [map] in Hnd. apply NoDup_cons_iff in Hnd. destruct Hnd as [Hx Hnd]. constructor; [|apply H3; exact Hnd].
           intros Hin. apply Hx. destruct (H1 _ Hin) as [k' [Hk' [He _]]]. rewrite <- He. apply in_map. exact Hk'.
      * intros H. apply IH in H. destruct H as [Hua [added [Hc [H1 [H2 H3]]]]].
        split; [exact Hua|]. exists added. split; [exact Hc|]. split; [|split].
        -- intros u Hu. destruct (H1 u Hu) as [k' [Hk' Hr]]. exists k'. split; [right; exact Hk'|exact Hr].
        -- intros k' [Hk'|Hk'] Hp Hr Hcf Hh; [subst k'|apply H2; assumption].
           rewrite Hh, N.eqb_refl in Ei. discriminate.
        -- intros Hnd. cbn [map] in Hnd. apply NoDup_cons_iff in Hnd. apply H3. tauto.
Qed.

(* the re-broadcast loops touch only trackers, the carrier and the log *)
Lemma reorged_loop_ua sc h : forall us t rej rej' t', reorged_loop sc h us t rej = Ok rej' t' -> ua t' = ua t.
Proof.
  induction us as [|uuid us IH]; intros t rej rej' t'; cbn [reorged_loop]; [intros H; inversion H; reflexivity|].
  destruct (find_trk (db_trks t) uuid) as [k|]; [|apply IH].
  destruct (send_transaction sc t (t_dispute k)) as [s t1] eqn:E1. apply send_spec in E1. destruct E1 as [Hc1 _].
  apply core_ua in Hc1.
  destruct s as [hh|hh| |c]; [discriminate| | |intros H; apply IH in H; congruence].
  - destruct (send_transaction sc t1 (t_penalty k)) as [s2 t2] eqn:E2. apply send_spec in E2. destruct E2 as [Hc2 _].
    apply core_ua in Hc2. destruct (status_rejected s2); intros H; apply IH in H; [congruence|].
    change (ua (set_trk_status t2 uuid h false)) with (ua t2) in H. congruence.
  - destruct (send_transaction sc t1 (t_penalty k)) as [s2 t2] eqn:E2. apply send_spec in E2. destruct E2 as [Hc2 _].
    apply core_ua in Hc2. destruct (status_rejected s2); intros H; apply IH in H; [congruence|].
    change (ua (set_trk_status t2 uuid h false)) with (ua t2) in H. congruence.
Qed.

Lemma stale_loop_ua sc h : forall us t rej rej' t', stale_loop sc h us t rej = Ok rej' t' -> ua t' = ua t.
Proof.
  induction us as [|uuid us IH]; intros t rej rej' t'; cbn [stale_loop]; [intros H; inversion H; reflexivity|].
  destruct (find_trk (db_trks t) uuid) as [k|]; [|discriminate].
  destruct (send_transaction sc t (t_penalty k)) as [s t1] eqn:E1. apply send_spec in E1. destruct E1 as [Hc1 _].
  apply core_ua in Hc1.
  destruct s as [hh|hh| |c]; intros H; apply IH in H; [| | |congruence].
  - change (ua (set_trk_status t1 uuid hh true)) with (ua t1) in H. congruence.
  - change (ua (set_trk_status t1 uuid hh false)) with (ua t1) in H. congruence.
  - change (ua (set_trk_status t1 uuid h false)) with (ua t1) in H. congruence.
Qed.

Lemma keys_index_block hash txs : keys_of (ib_data (index_block hash txs)) = txs.
Proof. unfold keys_of, index_block. cbn [ib_data]. rewrite map_map. cbn [fst]. apply map_id. Qed.

Lemma keys_cache_block hash txs : keys_of (ib_data (cache_block hash txs)) = txs.
Proof. unfold keys_of, cache_block. cbn [ib_data]. rewrite map_map. cbn [fst]. apply map_id. Qed.

Definition inv_wr : StableWR Inv := sb_wr Inv (sa_block Inv inv_stable).

Lemma ua_fields t t' : ua t' = ua t -> gk_users t' = gk_users t /\ db_users t' = db_users t /\ db_apps t' = db_apps t.
Proof. unfold ua. intros H. inversion H. auto. Qed.

Lemma ua_height t t' : ua t' = ua t -> gk_height t' = gk_height t.
Proof. unfold ua. intros H. inversion H. auto. Qed.

Lemma avail_users t t' v : db_users t' = db_users t -> avail t' v = avail t v.
Proof. unfold avail. intros H. rewrite H. reflexivity. Qed.

(* the completed trackers' appointments are refunded, then deleted *)
Lemma delete_refund_spec tc completed td :
  Inv tc -> NoDup completed ->
  (match completed with [] => Ok tt tc | _ => gk_delete_appointments tc completed true end) = Ok tt td ->
  db_apps td = del completed (db_apps tc) /\
  forall v, amem (db_users td) v = amem (db_users tc) v /\
            avail td v = avail tc v + ssum (filter (fun a => ofu v a && mem_uuid (app_uuid a) completed) (db_apps tc)).
Proof.
  intros HI Hnd. destruct completed as [|c0 cs].
  - intros H; inversion H; subst. split; [symmetry; apply del_nil|]. intros v. split; [reflexivity|].
    rewrite filter_false; [cbn [ssum fold_right]; lia|]. intros a _. apply andb_false_r.
  - remember (c0 :: cs) as completed eqn:Hc. clear Hc c0 cs.
    unfold gk_delete_appointments. destruct (refund_loop tc completed) as [[] tr|] eqn:Er; cbn [bind]; [|discriminate].
    intros H; inversion H; subst; clear H.
    destruct (refund_spec completed tc tr HI Hnd Er) as [_ [Ha [_ Hv]]].
    rewrite db_delete_apps_apps, db_delete_apps_users, Ha. split; [reflexivity|].
    intros v. destruct (Hv v) as [H1 H2]. split; [exact H1|].
    rewrite <- H2. apply avail_users. reflexivity.
Qed.

Lemma delete_norefund_spec t5 rej t6 :
  (match rej with [] => Ok tt t5 | x :: l => gk_delete_appointments t5 (x :: l) false end) = Ok tt t6 ->
  db_apps t6 = del rej (db_apps t5) /\ db_users t6 = db_users t5 /\ gk_users t6 = gk_users t5.
Proof.
  destruct rej as [|r0 rs].
  - intros H; inversion H; subst. split; [symmetry; apply del_nil|]. split; reflexivity.
  - unfold gk_delete_appointments. intros H; inversion H; subst. repeat split.
Qed.

Lemma r_block_spec le sc t2 hash txs h t3 :
  Inv t2 -> r_block_connected le sc t2 (index_block hash txs) h = Ok tt t3 ->
  exists completed rej,
    NoDup completed /\
    (forall u, In u completed -> exists k, In k (db_trks t2) /\ trk_uuid k = u /\ memN (t_penalty k) txs = false /\
                                           t_conf k = true /\ h - t_height k = IRR) /\
    (forall k, In k (db_trks t2) -> memN (t_penalty k) txs = false -> mem_uuid (trk_uuid k) (reorged t2) = false ->
               t_conf k = true -> h - t_height k = IRR -> In (trk_uuid k) completed) /\
    db_apps t3 = del rej (del completed (db_apps t2)) /\
    forall v, amem (db_users t3) v = amem (db_users t2) v /\
              avail t3 v = avail t2 v + ssum (filter (fun a => ofu v a && mem_uuid (app_uuid a) completed) (db_apps t2)).
Proof.
  intros HI. unfold r_block_connected. rewrite keys_index_block.
  destruct (ti_update (r_index (set_car_height t2 h)) (index_block hash txs)) as [idx|]; [|discriminate].
  set (t1 := set_r_index (set_car_height t2 h) idx).
  assert (HI1 : Inv t1) by (eapply inv_frame; [|exact HI]; repeat split).
  change (db_trks t1) with (db_trks t2).
  pose proof (check_conf_loop_pres Inv inv_wr le txs h (db_trks t2) t1 [] HI1) as HIc.
  destruct (check_conf_loop le txs h (db_trks t2) t1 []) as [completed tc|] eqn:Ec; cbn [bind]; [|discriminate].
  cbn [pres] in HIc.
  apply check_conf_spec in Ec. destruct Ec as [Huac [added [Hadd [C2 [C3 C1]]]]]. cbn [List.app] in Hadd. subst added.
  change (reorged t1) with (reorged t2) in C3.
  specialize (C1 (inv_trks_nodup t2 HI)).
  apply ua_fields in Huac. destruct Huac as [_ [Huc Hac]].
  change (db_users t1) with (db_users t2) in Huc. change (db_apps t1) with (db_apps t2) in Hac.
  destruct (match completed with [] => Ok tt tc | _ => gk_delete_appointments tc completed true end) as [[] td|] eqn:Ed;
    cbn [bind]; [|discriminate].
  apply (delete_refund_spec tc completed td HIc C1) in Ed. destruct Ed as [Had Hvd].
  destruct (match reorged td with [] => Ok [] td | _ :: _ => reorged_loop sc h (reorged td) (set_reorged td []) [] end)
    as [rej1 t4|] eqn:Er.
  2:{ destruct (reorged td); [discriminate|]. rewrite Er. cbn [bind]. discriminate. }
  assert (Hua4 : ua t4 = ua td).
  { destruct (reorged td); [inversion Er; reflexivity|]. apply reorged_loop_ua in Er. exact Er. }
  assert (Hb : (match reorged td with [] => Ok [] td | x :: l => reorged_loop sc h (x :: l) (set_reorged td []) [] end) = Ok rej1 t4).
  { destruct (reorged td); exact Er. }
  rewrite Hb. cbn [bind]. clear Hb Er.
  destruct (u32_sub h (Z.to_N Consts.CONFIRMATIONS_BEFORE_RETRY)) as [lim|]; [|discriminate].
  destruct (stale_loop sc h _ t4 []) as [rej2 t5|] eqn:Es; cbn [bind]; [|discriminate].
  apply stale_loop_ua in Es.
  destruct (match rej1 ++ rej2 with [] => Ok tt t5 | l => gk_delete_appointments t5 l false end) as [[] t6|] eqn:E6;
    cbn [bind]; [|discriminate].
  apply delete_norefund_spec in E6. destruct E6 as [Ha6 [Hu6 _]].
  intros H; inversion H; subst t3; clear H.
  apply ua_fields in Hua4, Es. destruct Hua4 as [_ [Hu4 Ha4]]. destruct Es as [_ [Hu5 Ha5]].
  exists completed, (rej1 ++ rej2).
  split; [exact C1|]. split; [exact C2|]. split; [exact C3|]. split.
  - cbn [db_apps set_car_memo]. rewrite Ha6, Ha5, Ha4, Had, Hac. reflexivity.
  - intros v. destruct (Hvd v) as [H1 H2].
    assert (Hu36 : db_users (set_car_memo t6 []) = db_users td) by (cbn [db_users set_car_memo]; congruence).
    split.
    + unfold amem in *. rewrite Hu36, H1, Huc. reflexivity.
    + rewrite (avail_users td _ v Hu36), H2, Hac. rewrite (avail_users t2 tc v Huc). reflexivity.
Qed.

(* ------------------------------------------------------------------------------------------ *)
(* 3. block connection: the watcher's breach loops, relative to the state t1 they start from *)

(* a tracker created in this block: for a row that had none, breached by a transaction of the block *)
Definition NewTrk (t1 : tower) (txs : list N) (k : trk) : Prop :=
  find_trk (db_trks t1) (trk_uuid k) = None /\
  exists a, In a (db_apps t1) /\ app_uuid a = trk_uuid k /\ memN (a_loc a) txs = true /\
            decrypt (a_blob a) (a_loc a) = Some (t_penalty k) /\
            (t_conf k = true -> memo_ok (car_memo t1) -> ti_get (r_index t1) (t_penalty k) <> None).

Record BL (t1 : tower) (txs : list N) (t : tower) : Prop := {
  bl_ua : ua t = ua t1;
  bl_idx : r_index t = r_index t1;
  bl_reorg : reorged t = reorged t1;
  bl_memo : memo_ok (car_memo t1) -> memo_ok (car_memo t);
  bl_trks : exists news, db_trks t = db_trks t1 ++ news /\ forall k, In k news -> NewTrk t1 txs k }.

Lemma find_trk_notin l u : ~ In u (map trk_uuid l) -> find_trk l u = None.
Proof.
  intros Hn. destruct (find_trk l u) as [k|] eqn:E; [|reflexivity].
  apply find_trk_Some in E. destruct E as [Hi He]. exfalso. apply Hn. rewrite <- He. apply in_map. exact Hi.
Qed.

Lemma find_trk_app_None l1 l2 u : find_trk (l1 ++ l2) u = None -> find_trk l1 u = None.
Proof.
  intros H. apply find_trk_notin. intros Hi. apply (find_trk_None _ _ H). rewrite map_app. apply in_or_app. left. exact Hi.
Qed.

Lemma BL_refl t1 txs : BL t1 txs t1.
Proof. constructor; try reflexivity; [tauto|]. exists []. split; [symmetry; apply app_nil_r|intros ? []]. Qed.

Lemma BL_core t1 txs t t' :
  BL t1 txs t -> core t' = core t -> (memo_ok (car_memo t) -> memo_ok (car_memo t')) -> BL t1 txs t'.
Proof.
  intros [B1 B2 B3 B4 B5] Hc Hm. pose proof (core_ua _ _ Hc) as Hu. unfold core in Hc. inversion Hc as [[E1 E2 E3 E4 E5 E6 E7 E8 E9 E10]].
  constructor; try congruence; [tauto|]. rewrite E6. exact B5.
Qed.

Lemma handle_breach_BL sc t1 txs t uuid d p s t' a :
  BL t1 txs t -> find_app (db_apps t) uuid = Some a -> a_loc a = d -> memN d txs = true ->
  decrypt (a_blob a) d = Some p ->
  r_handle_breach sc t uuid d p = Ok s t' -> BL t1 txs t'.
Proof.
  intros HB Hf Hl Hd Hdec H. apply handle_breach_spec in H. destruct H as [tm [Hc [_ [Ht Hm]]]].
  assert (HBm : BL t1 txs tm) by (apply (BL_core t1 txs t tm HB Hc); tauto).
  subst t'. destruct (status_accepted s) eqn:Eacc; [|exact HBm].
  unfold r_add_tracker.
  assert (Htrk : db_trks tm = db_trks t) by (unfold core in Hc; inversion Hc; reflexivity).
  assert (Happ : db_apps tm = db_apps t) by (unfold core in Hc; inversion Hc; reflexivity).
  destruct s as [h0|h0| |c]; try exact HBm;
    (destruct (find_trk (db_trks tm) uuid) eqn:Ek; [exact HBm|]; rewrite Happ, Hf).
  - (* ConfirmedIn *)
    destruct HBm as [B1 B2 B3 B4 [news [B5 B6]]]. constructor; try assumption.
    exists (news ++ [mk_trk (fst uuid) (snd uuid) d p h0 true]). split.
    + cbn [db_trks p_insert_trk set_db_trks]. rewrite B5, app_assoc. reflexivity.
    + intros k Hk. apply in_app_or in Hk. destruct Hk as [Hk|[Hk|[]]]; [apply B6; exact Hk|]. subst k.
      assert (Hu : trk_uuid (mk_trk (fst uuid) (snd uuid) d p h0 true) = uuid) by (destruct uuid; reflexivity).
      unfold NewTrk. rewrite Hu. cbn [t_penalty t_conf]. split.
      * rewrite B5 in Ek. apply find_trk_app_None in Ek. exact Ek.
      * apply find_app_Some in Hf. destruct Hf as [Hi He]. exists a.
        destruct (ua_fields _ _ (bl_ua _ _ _ HB)) as [_ [_ Hat]]. rewrite <- Hat.
        split; [exact Hi|]. split; [exact He|]. split; [rewrite Hl; exact Hd|]. split; [rewrite Hl; exact Hdec|].
        intros _ Hmo. rewrite <- (bl_idx _ _ _ HB). apply (bl_memo _ _ _ HB) in Hmo. apply Hm in Hmo. destruct Hmo as [_ Hmo].
        apply (Hmo h0). reflexivity.
  - (* InMempoolSince *)
    destruct HBm as [B1 B2 B3 B4 [news [B5 B6]]]. constructor; try assumption.
    exists (news ++ [mk_trk (fst uuid) (snd uuid) d p h0 false]). split.
    + cbn [db_trks p_insert_trk set_db_trks]. rewrite B5, app_assoc. reflexivity.
    + intros k Hk. apply in_app_or in Hk. destruct Hk as [Hk|[Hk|[]]]; [apply B6; exact Hk|]. subst k.
      assert (Hu : trk_uuid (mk_trk (fst uuid) (snd uuid) d p h0 false) = uuid) by (destruct uuid; reflexivity).
      unfold NewTrk. rewrite Hu. cbn [t_penalty t_conf]. split.
      * rewrite B5 in Ek. apply find_trk_app_None in Ek. exact Ek.
      * apply find_app_Some in Hf. destruct Hf as [Hi He]. exists a.
        destruct (ua_fields _ _ (bl_ua _ _ _ HB)) as [_ [_ Hat]]. rewrite <- Hat.
        split; [exact Hi|]. split; [exact He|]. split; [rewrite Hl; exact Hd|]. split; [rewrite Hl; exact Hdec|].
        intros Hx. discriminate.
Qed.

Lemma breach_uuid_loop_BL sc t1 txs d : memN d txs = true -> forall us t inv inv' t',
  BL t1 txs t -> (forall u, In u us -> fst u = d) -> (forall u, In u inv -> memN (fst u) txs = true) ->
  breach_uuid_loop sc d us t inv = Ok inv' t' ->
  BL t1 txs t' /\ (forall u, In u inv' -> memN (fst u) txs = true).
Proof.
  intros Hd. induction us as [|uuid us IH]; intros t inv inv' t' HB Hus Hinv; cbn [breach_uuid_loop].
  - intros H; inversion H; subst. split; assumption.
  - destruct (find_app (db_apps t) uuid) as [a|] eqn:Ef;
      [|apply IH; [exact HB|intros u Hu; apply Hus; right; exact Hu|exact Hinv]].
    assert (Hl : a_loc a = d).
    { apply find_app_Some in Ef. destruct Ef as [_ He]. rewrite <- (Hus uuid (or_introl eq_refl)), <- He. reflexivity. }
    assert (Hus' : forall u, In u us -> fst u = d) by (intros u Hu; apply Hus; right; exact Hu).
    assert (Hinv' : forall u, In u (inv ++ [uuid]) -> memN (fst u) txs = true).
    { intros u Hu. apply in_app_or in Hu. destruct Hu as [Hu|[Hu|[]]]; [apply Hinv; exact Hu|].
      subst u. rewrite (Hus uuid (or_introl eq_refl)). exact Hd. }
    destruct (decrypt (a_blob a) d) as [p|] eqn:Edec.
    + destruct (r_handle_breach sc t uuid d p) as [s tm|] eqn:Eh; cbn [bind]; [|discriminate].
      pose proof (handle_breach_BL sc t1 txs t uuid d p s tm a HB Ef Hl Hd Edec Eh) as HBm.
      destruct (status_rejected s); apply IH; assumption.
    + apply IH; assumption.
Qed.

Lemma breach_loop_BL sc t1 txs : forall ds t inv inv' t',
  (forall d, In d ds -> memN d txs = true) ->
  BL t1 txs t -> (forall u, In u inv -> memN (fst u) txs = true) ->
  breach_loop sc ds t inv = Ok inv' t' ->
  BL t1 txs t' /\ (forall u, In u inv' -> memN (fst u) txs = true).
Proof.
  induction ds as [|d ds IH]; intros t inv inv' t' Hds HB Hinv; cbn [breach_loop].
  - intros H; inversion H; subst. split; assumption.
  - destruct (breach_uuid_loop sc d _ t inv) as [inv1 tm|] eqn:Eb; cbn [bind]; [|discriminate].
    apply (breach_uuid_loop_BL sc t1 txs d (Hds d (or_introl eq_refl))) in Eb; try assumption.
    + destruct Eb as [HBm Hinv1]. apply IH; try assumption. intros d' Hd'. apply Hds. right. exact Hd'.
    + intros u Hu. apply in_map_iff in Hu. destruct Hu as [a [He Ha]]. apply filter_In in Ha. destruct Ha as [_ Ha].
      apply N.eqb_eq in Ha. rewrite <- He. exact Ha.
Qed.

Lemma w_block_spec sc t1 hash txs h t2 :
  w_block_connected sc t1 (cache_block hash txs) h = Ok tt t2 ->
  exists tb invalid, BL t1 txs tb /\ (forall u, In u invalid -> memN (fst u) txs = true) /\
    db_apps t2 = del invalid (db_apps tb) /\
    db_trks t2 = filter (fun k => negb (mem_uuid (trk_uuid k) invalid)) (db_trks tb) /\
    db_users t2 = db_users tb /\ reorged t2 = reorged tb /\ r_index t2 = r_index tb /\ gk_height t2 = gk_height tb.
Proof.
  unfold w_block_connected. destruct (ti_update (w_cache t1) (cache_block hash txs)) as [c|]; [|discriminate].
  rewrite keys_cache_block.
  destruct (breach_loop sc _ (set_w_cache t1 c) []) as [invalid tb|] eqn:Eb; cbn [bind]; [|discriminate].
  assert (Hds : forall d, In d (filter (fun d => existsb (fun a => N.eqb (a_loc a) d) (db_apps (set_w_cache t1 c))) txs) -> memN d txs = true).
  { intros d Hd. apply filter_In in Hd. destruct Hd as [Hd _]. apply memN_In. exact Hd. }
  assert (HB0 : BL t1 txs (set_w_cache t1 c)).
  { constructor; try reflexivity; [tauto|]. exists []. split; [symmetry; apply app_nil_r|intros ? []]. }
  assert (Hinv0 : forall u : N * N, In u [] -> memN (fst u) txs = true) by (intros u []).
  destruct (breach_loop_BL sc t1 txs _ _ _ _ _ Hds HB0 Hinv0 Eb) as [HB Hinv].
  intros Hrun. exists tb, invalid. split; [exact HB|]. split; [exact Hinv|].
  destruct invalid as [|i0 is].
  - cbn [bind] in Hrun. inversion Hrun; subst; clear Hrun. cbn [db_apps db_trks db_users reorged r_index gk_height set_w_height].
    split; [symmetry; apply del_nil|]. split; [symmetry; apply filter_true; intros; reflexivity|]. repeat split.
  - unfold gk_delete_appointments in Hrun. cbn [bind] in Hrun. inversion Hrun; subst; clear Hrun. repeat split.
Qed.

(* the gatekeeper's listener: outdated users go, with their rows (cascade) *)
Lemma gk_block_spec t0 h t1 :
  gk_block_connected t0 h = Ok tt t1 ->
  exists outd,
    db_users t1 = filter (fun r => negb (memN (fst r) outd)) (db_users t0) /\
    db_apps t1 = filter (fun a => negb (memN (a_user a) outd)) (db_apps t0) /\
    db_trks t1 = filter (fun k => negb (memN (t_user k) outd)) (db_trks t0) /\
    r_index t1 = r_index t0 /\ reorged t1 = reorged t0 /\ car_memo t1 = car_memo t0.
Proof.
  unfold gk_block_connected. destruct (outdated_users (c_delta (cfg t0)) h (gk_users t0)) as [outd|]; [|discriminate].
  intros H; inversion H; subst; clear H. exists outd. destruct outd as [|o0 os].
  - cbn [db_users db_apps db_trks r_index reorged car_memo set_gk_height].
    repeat split; symmetry; apply filter_true; intros; reflexivity.
  - repeat split.
Qed.

(* ------------------------------------------------------------------------------------------ *)
(* 3. block connection: the statement *)

(* the row's tracker completes in this block (the test of TowerMon.ledger_step on the pre-state) *)
Definition completing_row (t : tower) (txs : list N) (a : app) : bool :=
  match find_trk (db_trks t) (app_uuid a) with Some k => completing (gk_height t + 1) txs k | None => false end.
(* the row's key is absent from the table afterwards *)
Definition gone (apps' : list app) (a : app) : bool :=
  negb (existsb (fun a' => uuid_eqb (app_uuid a') (app_uuid a)) apps').

Definition forfeited_connect (t : tower) (txs : list N) (t' : tower) (v : N) : N :=
  ssum (filter (fun a => ofu v a && gone (db_apps t') a && negb (completing_row t txs a)) (db_apps t)).
Definition refunded_connect (t : tower) (txs : list N) (t' : tower) (v : N) : N :=
  ssum (filter (fun a => ofu v a && gone (db_apps t') a && completing_row t txs a) (db_apps t)).

(* Hypotheses of connect_bal on the pre-state and the block (each is needed: see the *_refuted
   theorems below, and each holds for a tower fed a consistent chain):
   S1  a tracker that completes in this block (confirmed exactly IRREVOCABLY_RESOLVED blocks below, penalty
       not in the block) is not waiting in `reorged` (its confirming block was not disconnected), and its
       dispute transaction is not mined again in this block;
   S2  a dispute first seen in this block has a penalty that is not already in the responder's index
       (a penalty cannot be confirmed before the transaction it spends);
   S3  the carrier's memo holds no `ConfirmedIn` (send_status never produces one: true of every
       reachable state, but the memo is not covered by Inv). *)
Definition connect_side (t : tower) (txs : list N) : Prop :=
  (forall k, In k (db_trks t) -> completing (gk_height t + 1) txs k = true ->
             mem_uuid (trk_uuid k) (reorged t) = false /\ memN (t_loc k) txs = false) /\
  (forall a p, In a (db_apps t) -> memN (a_loc a) txs = true -> find_trk (db_trks t) (app_uuid a) = None ->
               decrypt (a_blob a) (a_loc a) = Some p -> ti_get (r_index t) p = None) /\
  memo_ok (car_memo t).

Lemma completing_iff h txs k :
  completing h txs k = true <->
  t_conf k = true /\ h - t_height k = IRR /\ memN (t_penalty k) txs = false.
Proof.
  unfold completing, IRR, Consts.IRREVOCABLY_RESOLVED. rewrite !andb_true_iff, negb_true_iff, Z.eqb_eq. split.
  - intros [[Hc Hh] Hp]. repeat split; try assumption. lia.
  - intros [Hc [Hh Hp]]. repeat split; try assumption. lia.
Qed.

Lemma NoDup_map_inj {A B} (f : A -> B) l x y : NoDup (map f l) -> In x l -> In y l -> f x = f y -> x = y.
Proof.
  induction l as [|z l IH]; intros Hnd Hx Hy He; [destruct Hx|].
  cbn [map] in Hnd. apply NoDup_cons_iff in Hnd. destruct Hnd as [Hz Hnd].
  destruct Hx as [Hx|Hx], Hy as [Hy|Hy]; subst.
  - reflexivity.
  - exfalso. apply Hz. rewrite He. apply in_map. exact Hy.
  - exfalso. apply Hz. rewrite <- He. apply in_map. exact Hx.
  - apply IH; assumption.
Qed.

Lemma gone_filter (keep : app -> bool) l a :
  NoDup (map app_uuid l) -> In a l -> gone (filter keep l) a = negb (keep a).
Proof.
  intros Hnd Ha. unfold gone. f_equal. destruct (keep a) eqn:Ek.
  - apply existsb_exists. exists a. split; [apply filter_In; auto|apply uuid_eqb_refl].
  - destruct (existsb _ _) eqn:Ee; [|reflexivity]. apply existsb_exists in Ee. destruct Ee as [a' [Ha' He]].
    apply filter_In in Ha'. destruct Ha' as [Ha' Hk']. apply uuid_eqb_eq in He.
    rewrite (NoDup_map_inj app_uuid l a' a Hnd Ha' Ha He) in Hk'. congruence.
Qed.

Lemma ssum_split3 (p g c : app -> bool) l :
  ssum (filter p l) = ssum (filter (fun a => p a && negb (g a)) l)
                      + ssum (filter (fun a => p a && g a && c a) l)
                      + ssum (filter (fun a => p a && g a && negb (c a)) l).
Proof.
  induction l as [|a l IH]; [reflexivity|]. cbn [filter].
  destruct (p a), (g a), (c a); cbn [andb negb]; rewrite ?ssum_cons; lia.
Qed.

Lemma connect_phases le t hash txs sc t' :
  step le t (OConnect hash txs) sc = (t', OBlockRes) ->
  exists t1 t2,
    gk_block_connected (fresh t) (gk_height t + 1) = Ok tt t1 /\
    w_block_connected sc t1 (cache_block hash txs) (gk_height t + 1) = Ok tt t2 /\
    r_block_connected le sc t2 (index_block hash txs) (gk_height t + 1) = Ok tt t'.
Proof.
  cbn [step]. change (set_rpc_log t []) with (fresh t). change (gk_height (fresh t)) with (gk_height t).
  unfold Consts.LISTENER_ORDER. cbn [run_listeners].
  change (listener_connected le sc hash txs (gk_height t + 1) 0 (fresh t)) with (gk_block_connected (fresh t) (gk_height t + 1)).
  destruct (gk_block_connected (fresh t) (gk_height t + 1)) as [[] t1|] eqn:E1; cbn [bind wrap]; [|intros H; inversion H].
  change (listener_connected le sc hash txs (gk_height t + 1) 1 t1) with (w_block_connected sc t1 (cache_block hash txs) (gk_height t + 1)).
  destruct (w_block_connected sc t1 (cache_block hash txs) (gk_height t + 1)) as [[] t2|] eqn:E2; cbn [bind wrap]; [|intros H; inversion H].
  change (listener_connected le sc hash txs (gk_height t + 1) 2 t2) with (r_block_connected le sc t2 (index_block hash txs) (gk_height t + 1)).
  destruct (r_block_connected le sc t2 (index_block hash txs) (gk_height t + 1)) as [[] t3|] eqn:E3; cbn [bind wrap]; intros H; inversion H.
  subst. exists t1, t2. repeat split; assumption.
Qed.

Lemma trk_app_uuid k a : trk_uuid k = app_uuid a -> t_loc k = a_loc a /\ t_user k = a_user a.
Proof. unfold trk_uuid, app_uuid. intros H. inversion H. auto. Qed.

(* Block connection: for every user that still has a row afterwards, the balance moves by exactly the
   rows that disappear without completing (forfeited); the rows that disappear because their tracker
   completes are refunded slot for slot. *)
Theorem connect_bal le t hash txs sc t' :
  Inv t -> connect_side t txs -> step le t (OConnect hash txs) sc = (t', OBlockRes) ->
  forall v, has_row t' v = true ->
    has_row t v = true /\
    avail t' v = avail t v + refunded_connect t txs t' v /\
    held_t t' v + refunded_connect t txs t' v + forfeited_connect t txs t' v = held_t t v /\
    bal t' v + forfeited_connect t txs t' v = bal t v.
Proof.
  intros HI [S1 [S2 S3]] Hstep v Hrow.
  destruct (connect_phases le t hash txs sc t' Hstep) as [t1 [t2 [E1 [E2 E3]]]].
  assert (HI0 : Inv (fresh t)) by (eapply inv_frame; [|exact HI]; repeat split).
  pose proof (gk_block_connected_pres Inv (sa_block Inv inv_stable) (fresh t) (gk_height t + 1) HI0) as HI1.
  rewrite E1 in HI1. cbn [pres] in HI1.
  pose proof (w_block_connected_pres Inv inv_wr sc t1 (cache_block hash txs) (gk_height t + 1) HI1) as HI2.
  rewrite E2 in HI2. cbn [pres] in HI2.
  apply gk_block_spec in E1. destruct E1 as [outd [G1 [G2 [G3 [G4 [G5 G6]]]]]].
  change (db_users (fresh t)) with (db_users t) in G1. change (db_apps (fresh t)) with (db_apps t) in G2.
  change (db_trks (fresh t)) with (db_trks t) in G3. change (r_index (fresh t)) with (r_index t) in G4.
  change (reorged (fresh t)) with (reorged t) in G5.
  assert (G6' : memo_ok (car_memo t1)).
  { rewrite G6. cbn [car_memo fresh set_rpc_log]. exact S3. }
  apply w_block_spec in E2. destruct E2 as [tb [invalid [HB [Hinv [W1 [W2 [W3 [W4 W5]]]]]]]].
  destruct HB as [B1 B2 B3 B4 [news [B5 B6]]]. apply ua_fields in B1. destruct B1 as [_ [B1u B1a]].
  apply (r_block_spec le sc t2 hash txs _ t' HI2) in E3. destruct E3 as [completed [rej [C1 [C2 [C3 [R1 R2]]]]]].
  destruct (R2 v) as [Rm Ra]. clear R2.
  (* v survives the purge *)
  assert (Hu2 : db_users t2 = filter (fun r => negb (memN (fst r) outd)) (db_users t)) by congruence.
  assert (Hget : aget (db_users t2) v = if negb (memN v outd) then aget (db_users t) v else None).
  { rewrite Hu2. apply (aget_filter_key (fun k => negb (memN k outd))). }
  unfold has_row in Hrow. rewrite Rm in Hrow.
  assert (Hout : memN v outd = false).
  { destruct (memN v outd) eqn:E; [|reflexivity]. unfold amem in Hrow. rewrite Hget in Hrow. cbn in Hrow. discriminate. }
  rewrite Hout in Hget. cbn [negb] in Hget.
  assert (Hav2 : avail t2 v = avail t v) by (unfold avail; rewrite Hget; reflexivity).
  (* the appointments table afterwards *)
  set (keep := fun a => negb (memN (a_user a) outd) && (negb (mem_uuid (app_uuid a) invalid)
                        && (negb (mem_uuid (app_uuid a) completed) && negb (mem_uuid (app_uuid a) rej)))).
  assert (HA3 : db_apps t' = filter keep (db_apps t)).
  { rewrite R1, W1, B1a, G2. unfold del. rewrite !filter_filter. reflexivity. }
  assert (Pg : forall a, In a (db_apps t) -> gone (db_apps t') a = negb (keep a)).
  { intros a Ha. rewrite HA3. apply gone_filter; [apply inv_apps_nodup; exact HI|exact Ha]. }
  (* a row of v is refunded iff its tracker completes *)
  assert (P2 : forall a, In a (db_apps t) -> a_user a = v ->
                         negb (mem_uuid (app_uuid a) invalid) && mem_uuid (app_uuid a) completed = completing_row t txs a).
  { intros a Ha Hav. destruct (completing_row t txs a) eqn:Ecr.
    - unfold completing_row in Ecr. destruct (find_trk (db_trks t) (app_uuid a)) as [k|] eqn:Ek; [|discriminate].
      apply find_trk_Some in Ek. destruct Ek as [Hk Hku]. destruct (S1 k Hk Ecr) as [Sr Sl].
      apply completing_iff in Ecr. destruct Ecr as [Hc [Hh Hp]].
      destruct (trk_app_uuid k a Hku) as [Hkl Hkuu].
      assert (HkI : mem_uuid (app_uuid a) invalid = false).
      { destruct (mem_uuid (app_uuid a) invalid) eqn:E; [|reflexivity]. apply mem_uuid_In in E. apply Hinv in E.
        cbn [fst app_uuid] in E. congruence. }
      rewrite HkI. cbn [negb andb]. apply mem_uuid_In. rewrite <- Hku. apply C3; try assumption.
      + rewrite W2. apply filter_In. split.
        * rewrite B5. apply in_or_app. left. rewrite G3. apply filter_In. split; [exact Hk|].
          rewrite Hkuu, Hav, Hout. reflexivity.
        * rewrite Hku, HkI. reflexivity.
      + rewrite W4, B3, G5. exact Sr.
    - destruct (mem_uuid (app_uuid a) invalid) eqn:EI; cbn [negb andb]; [reflexivity|].
      destruct (mem_uuid (app_uuid a) completed) eqn:EC; [|reflexivity]. exfalso.
      apply mem_uuid_In in EC. destruct (C2 _ EC) as [k [Hk2 [Hku [Hp [Hc Hh]]]]].
      rewrite W2 in Hk2. apply filter_In in Hk2. destruct Hk2 as [Hkb _]. rewrite B5 in Hkb.
      apply in_app_or in Hkb. destruct Hkb as [Hk1|Hkn].
      + rewrite G3 in Hk1. apply filter_In in Hk1. destruct Hk1 as [Hk0 _].
        assert (Hf : find_trk (db_trks t) (app_uuid a) = Some k).
        { rewrite <- Hku. apply find_trk_unique; [apply inv_trks_nodup; exact HI|exact Hk0]. }
        unfold completing_row in Ecr. rewrite Hf in Ecr.
        assert (Hcp : completing (gk_height t + 1) txs k = true) by (apply completing_iff; auto). congruence.
      + destruct (B6 k Hkn) as [Hnone [a' [Ha'1 [Ha'u [Ha'l [Ha'd Ha'c]]]]]].
        rewrite G2 in Ha'1. apply filter_In in Ha'1. destruct Ha'1 as [Ha'0 Ha'o].
        assert (Hnone0 : find_trk (db_trks t) (app_uuid a') = None).
        { destruct (find_trk (db_trks t) (app_uuid a')) as [k0|] eqn:E0; [|reflexivity]. exfalso.
          apply find_trk_Some in E0. destruct E0 as [Hk0 Hk0u]. apply (find_trk_None _ _ Hnone).
          rewrite <- Ha'u, <- Hk0u. apply in_map. rewrite G3. apply filter_In. split; [exact Hk0|].
          destruct (trk_app_uuid k0 a' Hk0u) as [_ Hk0uu]. rewrite Hk0uu. exact Ha'o. }
        pose proof (S2 a' (t_penalty k) Ha'0 Ha'l Hnone0 Ha'd) as Hidx.
        apply (Ha'c Hc G6'). rewrite G4. exact Hidx. }
  (* the refund is the slots of the completing rows that disappear *)
  assert (Href : ssum (filter (fun a => ofu v a && mem_uuid (app_uuid a) completed) (db_apps t2)) = refunded_connect t txs t' v).
  { rewrite W1, B1a, G2. unfold del, refunded_connect. rewrite !filter_filter. f_equal. apply filter_ext_in'. intros a Ha.
    rewrite (Pg a Ha). unfold keep. destruct (ofu v a) eqn:Eo.
    - apply ofu_true in Eo. pose proof (P2 a Ha Eo) as Hp2. rewrite Eo, Hout.
      destruct (mem_uuid (app_uuid a) invalid), (mem_uuid (app_uuid a) completed), (mem_uuid (app_uuid a) rej),
        (completing_row t txs a); cbn [negb andb] in *; congruence.
    - cbn [andb]. rewrite !andb_false_r. reflexivity. }
  (* the rows that stay *)
  assert (Hheld' : held_t t' v = ssum (filter (fun a => ofu v a && negb (gone (db_apps t') a)) (db_apps t))).
  { transitivity (ssum (filter (ofu v) (filter keep (db_apps t)))); [unfold held_t; rewrite HA3; reflexivity|].
    rewrite filter_filter. f_equal. apply filter_ext_in'. intros a Ha. rewrite (Pg a Ha), negb_involutive. apply andb_comm. }
  pose proof (ssum_split3 (ofu v) (gone (db_apps t')) (completing_row t txs) (db_apps t)) as Hsplit.
  fold (held_t t v) in Hsplit. fold (refunded_connect t txs t' v) in Hsplit. fold (forfeited_connect t txs t' v) in Hsplit.
  rewrite <- Hheld' in Hsplit. rewrite Href, Hav2 in Ra.
  split; [unfold has_row, amem in *; rewrite <- Hget; exact Hrow|].
  split; [exact Ra|]. split; [lia|]. unfold bal. lia.
Qed.

(* ------------------------------------------------------------------------------------------ *)
(* the gatekeeper's height and the configuration along a step *)

Lemma refund_loop_height : forall us t t', refund_loop t us = Ok tt t' -> gk_height t' = gk_height t.
Proof.
  induction us as [|uuid us IH]; intros t t'; cbn [refund_loop]; [intros H; inversion H; reflexivity|].
  destruct (find_app (db_apps t) uuid) as [a|]; [|discriminate].
  destruct (gk_get t (a_user a)) as [ui|]; [|discriminate].
  destruct (u32_add (u_slots ui) (slots_of (b_len (a_blob a)))) as [s|]; [|discriminate].
  intros H. apply IH in H. exact H.
Qed.

Lemma delete_height t us r t' : gk_delete_appointments t us r = Ok tt t' -> gk_height t' = gk_height t.
Proof.
  unfold gk_delete_appointments. destruct r.
  - destruct (refund_loop t us) as [[] t1|] eqn:E; cbn [bind]; [|discriminate].
    apply refund_loop_height in E. intros H; inversion H; subst. exact E.
  - intros H; inversion H; reflexivity.
Qed.

Lemma r_block_height le sc t2 b h t3 : r_block_connected le sc t2 b h = Ok tt t3 -> gk_height t3 = gk_height t2.
Proof.
  unfold r_block_connected.
  destruct (ti_update (r_index (set_car_height t2 h)) b) as [idx|]; [|discriminate].
  destruct (check_conf_loop le _ h _ _ []) as [completed tc|] eqn:Ec; cbn [bind]; [|discriminate].
  apply check_conf_spec in Ec. destruct Ec as [Hc _]. apply ua_height in Hc.
  change (gk_height (set_r_index (set_car_height t2 h) idx)) with (gk_height t2) in Hc.
  destruct (match completed with [] => Ok tt tc | _ => gk_delete_appointments tc completed true end) as [[] td|] eqn:Ed;
    cbn [bind]; [|discriminate].
  assert (Hd : gk_height td = gk_height tc).
  { destruct completed; [inversion Ed; reflexivity|apply delete_height in Ed; exact Ed]. }
  destruct (match reorged td with [] => Ok [] td | _ :: _ => reorged_loop sc h (reorged td) (set_reorged td []) [] end)
    as [rej1 t4|] eqn:Er.
  2:{ destruct (reorged td); [discriminate|]. rewrite Er. cbn [bind]. discriminate. }
  assert (H4 : gk_height t4 = gk_height td).
  { destruct (reorged td); [inversion Er; reflexivity|]. apply reorged_loop_ua in Er. apply ua_height in Er. exact Er. }
  assert (Hb : (match reorged td with [] => Ok [] td | x :: l => reorged_loop sc h (x :: l) (set_reorged td []) [] end) = Ok rej1 t4).
  { destruct (reorged td); exact Er. }
  rewrite Hb. cbn [bind]. clear Hb Er.
  destruct (u32_sub h (Z.to_N Consts.CONFIRMATIONS_BEFORE_RETRY)) as [lim|]; [|discriminate].
  destruct (stale_loop sc h _ t4 []) as [rej2 t5|] eqn:Es; cbn [bind]; [|discriminate].
  apply stale_loop_ua in Es. apply ua_height in Es.
  destruct (match rej1 ++ rej2 with [] => Ok tt t5 | l => gk_delete_appointments t5 l false end) as [[] t6|] eqn:E6;
    cbn [bind]; [|discriminate].
  assert (H6 : gk_height t6 = gk_height t5).
  { destruct (rej1 ++ rej2); [inversion E6; reflexivity|apply delete_height in E6; exact E6]. }
  intros H; inversion H; subst t3. cbn [gk_height set_car_memo]. congruence.
Qed.

Lemma gk_block_height t0 h t1 : gk_block_connected t0 h = Ok tt t1 -> gk_height t1 = h.
Proof.
  unfold gk_block_connected. destruct (outdated_users _ _ _); [|discriminate]. intros H; inversion H; reflexivity.
Qed.

Lemma connect_height le t hash txs sc t' :
  step le t (OConnect hash txs) sc = (t', OBlockRes) -> gk_height t' = gk_height t + 1.
Proof.
  intros Hstep. destruct (connect_phases le t hash txs sc t' Hstep) as [t1 [t2 [E1 [E2 E3]]]].
  apply gk_block_height in E1. apply r_block_height in E3. apply w_block_spec in E2.
  destruct E2 as [tb [invalid [HB [_ [_ [_ [_ [_ [_ Hh]]]]]]]]].
  pose proof (ua_height _ _ (bl_ua _ _ _ HB)) as Hb. congruence.
Qed.

Lemma register_height le t u sc t' x : step le t (ORegister u) sc = (t', x) -> gk_height t' = gk_height t.
Proof.
  cbn [step wrap]. unfold gk_add_update_user.
  destruct (gk_get (set_rpc_log t []) u) as [ui|].
  - destruct (u32_add (u_slots ui) (c_slots (cfg (set_rpc_log t [])))); cbn [wrap]; intros H; inversion H; reflexivity.
  - destruct (u32_add (gk_height (set_rpc_log t [])) (c_duration (cfg (set_rpc_log t [])))); [|cbn [wrap]; intros H; inversion H; reflexivity].
    destruct (amem (db_users (set_rpc_log t [])) u); cbn [wrap]; intros H; inversion H; reflexivity.
Qed.

Lemma store_height t a t2 : w_store_appointment t a = Ok tt t2 -> gk_height t2 = gk_height t.
Proof.
  unfold w_store_appointment. destruct (find_app (db_apps t) (app_uuid a)); [intros H; inversion H; reflexivity|].
  destruct (amem (db_users t) (a_user a)); intros H; inversion H; reflexivity.
Qed.

Lemma triggered_height sc t a d t2 : w_store_triggered sc t a d = Ok tt t2 -> gk_height t2 = gk_height t.
Proof.
  unfold w_store_triggered. destruct (decrypt (a_blob a) d) as [p|].
  - destruct (w_store_ok t a); [|intros H; inversion H; reflexivity].
    destruct (w_store_appointment t a) as [[] t1|] eqn:E1; cbn [bind]; [|discriminate]. apply store_height in E1.
    destruct (r_handle_breach sc t1 (app_uuid a) d p) as [s t3|] eqn:E2; cbn [bind]; [|discriminate].
    apply handle_breach_ua in E2. apply ua_height in E2.
    destruct (status_rejected s); intros H; [apply delete_height in H|inversion H; subst]; congruence.
  - destruct (find_app (db_apps t) (app_uuid a)); intros H; [apply delete_height in H; exact H|inversion H; reflexivity].
Qed.

Lemma add_height le t signer loc b delay sig sc t' r :
  step le t (OAdd signer loc b delay sig) sc = (t', OAddRes r) -> gk_height t' = gk_height t.
Proof.
  cbn [step wrap]. unfold w_add_appointment. change (set_rpc_log t []) with (fresh t).
  destruct (authenticate (fresh t) signer) as [u|]; [|cbn; intros H; inversion H; reflexivity].
  destruct (gk_get (fresh t) u) as [ui|] eqn:Eg; [|cbn; intros H; inversion H; reflexivity].
  destruct (N.leb (u_expiry ui) (gk_height (fresh t))); [cbn; intros H; inversion H; reflexivity|].
  destruct (find_trk (db_trks (fresh t)) (loc, u)); [cbn; intros H; inversion H; reflexivity|].
  unfold gk_add_update_appointment. rewrite Eg.
  match goal with |- context [if ?c then _ else _] => destruct c end; cbn [bind]; [|cbn; intros H; inversion H; reflexivity].
  cbv zeta. match goal with |- context [ti_get ?c loc] => destruct (ti_get c loc) as [d|] end.
  - match goal with |- context [w_store_triggered sc ?t1 ?a d] => destruct (w_store_triggered sc t1 a d) as [[] t2|] eqn:E2 end;
      cbn [bind wrap]; try match goal with |- context [if ?c then _ else _] => destruct c end;
      intros H; inversion H; subst; apply triggered_height in E2; exact E2.
  - match goal with |- context [w_store_appointment ?t1 ?a] => destruct (w_store_appointment t1 a) as [[] t2|] eqn:E2 end;
      cbn [bind wrap]; try match goal with |- context [if ?c then _ else _] => destruct c end;
      intros H; inversion H; subst; apply store_height in E2; exact E2.
Qed.

Lemma disconnect_height le t sc t' :
  last_hash t <> None -> step le t ODisconnect sc = (t', OBlockRes) -> gk_height t' = gk_height t - 1.
Proof.
  intros Hl. cbn [step]. change (last_hash (set_rpc_log t [])) with (last_hash t).
  destruct (last_hash t) as [hash|]; [|contradiction].
  unfold Consts.LISTENER_ORDER. cbn [run_listeners].
  change (listener_disconnected hash (gk_height (set_rpc_log t [])) 0 (set_rpc_log t []))
    with (gk_block_disconnected (set_rpc_log t []) (gk_height t)).
  unfold gk_block_disconnected, u32_sub. destruct (N.leb 1 (gk_height t)); cbn [bind wrap]; [|intros H; inversion H].
  match goal with |- context [listener_disconnected hash ?h 1 ?t1] =>
    change (listener_disconnected hash h 1 t1) with (w_block_disconnected t1 hash h) end.
  unfold w_block_disconnected, u32_sub. cbn [gk_height set_rpc_log].
  destruct (N.leb 1 (gk_height t)); cbn [bind wrap]; intros H; inversion H. reflexivity.
Qed.

Lemma cfg_stable c : StableAll (fun t => cfg t = c).
Proof.
  constructor; [constructor; [constructor|]|..]; intros; try assumption.
  - destruct H as [Hc _]. congruence.
Qed.

Lemma step_cfg le t o sc : not_abort (snd (step le t o sc)) -> cfg (fst (step le t o sc)) = cfg t.
Proof. intros H. apply (step_pres (fun t' => cfg t' = cfg t) (cfg_stable (cfg t)) le t o sc eq_refl H). Qed.

(* ------------------------------------------------------------------------------------------ *)
(* 5. the monitor's ghost ledger along the model's own trace *)

Definition lget (l : list (N * (N * N))) (v : N) : N * N := match aget l v with Some y => y | None => (0, 0) end.

Lemma lget_put l u x v : lget (ledger_put l u x) v = if N.eqb v u then x else lget l v.
Proof.
  unfold lget, ledger_put. cbn [aget]. destruct (N.eqb v u) eqn:E; [reflexivity|]. rewrite aget_remove, E. reflexivity.
Qed.

(* the ledger accounts for every user the tower holds: granted = balance + forfeited *)
Definition Led (t : tower) (l : list (N * (N * N))) : Prop :=
  forall v, has_row t v = true -> fst (lget l v) = bal t v + snd (lget l v).

(* the first check of TowerMon.mon_C07 *)
Definition conservation_ok (l : list (N * (N * N))) (post : obs) : bool :=
  forallb (fun r => let '(g, f) := match aget l (fst r) with Some y => y | None => (0, 0) end in
                    N.eqb g (u_slots (snd r) + held post (fst r) + f)) (o_users post).

Lemma mon_C07_conservation c m pre o x post :
  exists rest, fst (mon_C07 c m pre o x post) = chk (conservation_ok (ledger_step c m pre o x post) post) 7 ++ rest.
Proof. eexists. reflexivity. Qed.

Lemma mon_C07_ledger c m pre o x post : snd (mon_C07 c m pre o x post) = ledger_step c m pre o x post.
Proof. reflexivity. Qed.

Lemma aget_In_nodup {V} (m : amap V) k v : NoDup (map fst m) -> In (k, v) m -> aget m k = Some v.
Proof.
  induction m as [|[k' v'] m IH]; intros Hnd Hi; [destruct Hi|].
  cbn [map fst] in Hnd. apply NoDup_cons_iff in Hnd. destruct Hnd as [Hk Hnd]. cbn [aget].
  destruct Hi as [Hi|Hi].
  - inversion Hi; subst. rewrite N.eqb_refl. reflexivity.
  - destruct (N.eqb k k') eqn:E; [|apply IH; assumption].
    apply N.eqb_eq in E. subst k'. exfalso. apply Hk. change k with (fst (k, v)). apply in_map. exact Hi.
Qed.

Lemma Led_conservation t l : Inv t -> Led t l -> conservation_ok l (observe t) = true.
Proof.
  intros HI HL. unfold conservation_ok. apply forallb_forall. intros [v ui] Hin. cbn [fst snd observe o_users] in *.
  pose proof (aget_In_nodup _ _ _ (inv_users_nodup t HI) Hin) as Hget.
  assert (Hrow : has_row t v = true) by (unfold has_row, amem; rewrite Hget; reflexivity).
  specialize (HL v Hrow). unfold lget in HL. unfold bal, avail in HL. rewrite Hget in HL.
  rewrite <- held_t_obs. destruct (aget l v) as [[g f]|]; cbn [fst snd] in HL; apply N.eqb_eq; lia.
Qed.

Lemma Led_same t t' l : same_ledger t t' -> Led t l -> Led t' l.
Proof.
  intros Hs HL v Hrow. destruct (same_ledger_bal t t' Hs v) as [Hg Hb]. rewrite Hb. apply HL.
  unfold has_row, amem in *. rewrite <- Hg. exact Hrow.
Qed.

(* what a step answers *)
Lemma step_out_shape le t o sc t' x :
  step le t o sc = (t', x) ->
  match o, x with
  | ORegister _, ORegisterRes _ | OAdd _ _ _ _ _, OAddRes _ | OGet _ _, OGetRes _ | OGetSub _, OSubRes _
  | OConnect _ _, OBlockRes | ODisconnect, OBlockRes | _, OAbort _ => True
  | _, _ => False
  end.
Proof.
  destruct o; cbn [step].
  - destruct (gk_add_update_user _ _); cbn [wrap]; intros H; inversion H; exact I.
  - destruct (w_add_appointment _ _ _ _ _ _ _); cbn [wrap]; intros H; inversion H; exact I.
  - destruct (w_get_appointment _ _ _); cbn [wrap]; intros H; inversion H; exact I.
  - destruct (w_get_subscription_info _ _); cbn [wrap]; intros H; inversion H; exact I.
  - destruct (run_listeners _ _ _); cbn [wrap]; intros H; inversion H; exact I.
  - destruct (last_hash _); [|intros H; inversion H; exact I].
    destruct (run_listeners _ _ _); cbn [wrap]; intros H; inversion H; exact I.
Qed.

(* registration *)
Lemma led_register le c t m u sc t' r :
  Inv t -> cfg t = c -> Led t (m_ledger m) -> step le t (ORegister u) sc = (t', ORegisterRes r) ->
  Led t' (ledger_step c m (observe t) (ORegister u) (ORegisterRes r) (observe t')).
Proof.
  intros HI Hc HL Hstep. pose proof (register_bal le t u sc t' r HI Hstep) as Hb. destruct r as [s st e|].
  2:{ cbn [ledger_step]. apply (Led_same t t'); assumption. }
  destruct Hb as [Hnew [Hold [_ [_ Hoth]]]]. rewrite Hc in *.
  unfold ledger_step. change (has_user (observe t) u) with (amem (db_users t) u).
  change (ledger_get m u) with (lget (m_ledger m) u).
  intros v Hrow. destruct (N.eqb v u) eqn:Ev.
  - apply N.eqb_eq in Ev. subst v. destruct (amem (db_users t) u) eqn:Em.
    + specialize (HL u Em). destruct (lget (m_ledger m) u) as [g f]. rewrite lget_put, N.eqb_refl.
      cbn [fst snd] in *. rewrite (Hold eq_refl). lia.
    + rewrite lget_put, N.eqb_refl. cbn [fst snd]. rewrite (Hnew eq_refl). lia.
  - assert (Hv : v <> u) by (apply N.eqb_neq; exact Ev). destruct (Hoth v Hv) as [Hg Hbv].
    assert (Hrow0 : has_row t v = true) by (unfold has_row, amem in *; rewrite <- Hg; exact Hrow).
    specialize (HL v Hrow0). rewrite Hbv.
    destruct (amem (db_users t) u); [destruct (lget (m_ledger m) u) as [g f]|]; rewrite lget_put, Ev; exact HL.
Qed.

(* add_appointment *)
Lemma led_add le c t m signer loc b delay sig sc t' r :
  Inv t -> Led t (m_ledger m) ->
  match signer with Some u => bal t u < U32MOD | None => True end ->
  step le t (OAdd signer loc b delay sig) sc = (t', OAddRes r) ->
  Led t' (ledger_step c m (observe t) (OAdd signer loc b delay sig) (OAddRes r) (observe t')).
Proof.
  intros HI HL Hside Hstep. pose proof (add_bal le t signer loc b delay sig sc t' r HI Hstep) as Hb.
  destruct r as [st sg sl e| |e|].
  2:{ replace (ledger_step c m (observe t) (OAdd signer loc b delay sig) (OAddRes AddAuthOrSlots) (observe t')) with (m_ledger m)
        by (destruct signer; reflexivity). apply (Led_same t t'); assumption. }
  2:{ replace (ledger_step c m (observe t) (OAdd signer loc b delay sig) (OAddRes (AddExpired e)) (observe t')) with (m_ledger m)
        by (destruct signer; reflexivity). apply (Led_same t t'); assumption. }
  2:{ replace (ledger_step c m (observe t) (OAdd signer loc b delay sig) (OAddRes AddTriggered) (observe t')) with (m_ledger m)
        by (destruct signer; reflexivity). apply (Led_same t t'); assumption. }
  destruct Hb as [u [Hs [_ [_ [Hnw Hoth]]]]]. subst signer. destruct (Hnw Hside) as [_ Hbal]. clear Hnw.
  destruct (add_success_authentic le t sc (Some u) loc b delay sig t' st sg sl e Hstep) as [u' [ui [Hs' [Hg _]]]].
  inversion Hs'; subst u'. clear Hs'.
  assert (Hrowu : has_row t u = true).
  { unfold has_row, amem. rewrite <- (inv_sync t HI u). unfold gk_get in Hg. rewrite Hg. reflexivity. }
  unfold ledger_step. change (o_apps (observe t')) with (db_apps t').
  change (existsb (fun a => uuid_eqb (app_uuid a) (loc, u) && blob_eqb (a_blob a) b) (db_apps t'))
    with (held_version (db_apps t') loc u b).
  change (ledger_get m u) with (lget (m_ledger m) u).
  intros v Hrow. destruct (N.eqb v u) eqn:Ev.
  - apply N.eqb_eq in Ev. subst v. specialize (HL u Hrowu).
    destruct (held_version (db_apps t') loc u b).
    + rewrite Hbal. exact HL.
    + destruct (lget (m_ledger m) u) as [g f]. rewrite lget_put, N.eqb_refl. cbn [fst snd] in *. lia.
  - assert (Hv : v <> u) by (apply N.eqb_neq; exact Ev). destruct (Hoth v Hv) as [Hgv [_ Hbv]].
    assert (Hrow0 : has_row t v = true) by (unfold has_row, amem in *; rewrite <- Hgv; exact Hrow).
    specialize (HL v Hrow0). rewrite Hbv.
    destruct (held_version (db_apps t') loc u b); [exact HL|].
    destruct (lget (m_ledger m) u) as [g f]. rewrite lget_put, Ev. exact HL.
Qed.

(* block connection: the fold of ledger_step adds, user by user, the rows that disappear without completing *)
Lemma fold_forfeit (h : N) (txs : list N) (post_apps : list app) (pre_trks : list trk) : forall apps l v,
  lget (fold_left (fun l' a =>
                   if existsb (fun a' => uuid_eqb (app_uuid a') (app_uuid a)) post_apps then l'
                   else match find_trk pre_trks (app_uuid a) with
                        | Some k => if completing h txs k then l'
                                    else let '(g, f) := match aget l' (a_user a) with Some y => y | None => (0, 0) end in
                                         ledger_put l' (a_user a) (g, f + slots_of (b_len (a_blob a)))
                        | None => let '(g, f) := match aget l' (a_user a) with Some y => y | None => (0, 0) end in
                                  ledger_put l' (a_user a) (g, f + slots_of (b_len (a_blob a)))
                        end) apps l) v
  = (fst (lget l v),
     snd (lget l v) + ssum (filter (fun a => ofu v a && gone post_apps a
                                            && negb (match find_trk pre_trks (app_uuid a) with
                                                     | Some k => completing h txs k | None => false end)) apps)).
Proof.
  induction apps as [|a apps IH]; intros l v.
  - cbn [fold_left filter ssum fold_right]. destruct (lget l v) as [g f]. cbn [fst snd]. f_equal. lia.
  - cbn [fold_left]. rewrite IH. clear IH. cbn [filter]. unfold gone at 2.
    assert (Hbump : forall l0, lget (let '(g, f) := match aget l0 (a_user a) with Some y => y | None => (0, 0) end in
                                     ledger_put l0 (a_user a) (g, f + slots_of (b_len (a_blob a)))) v
                               = if ofu v a then (fst (lget l0 v), snd (lget l0 v) + aslots a) else lget l0 v).
    { intros l0. change (match aget l0 (a_user a) with Some y => y | None => (0, 0) end) with (lget l0 (a_user a)).
      destruct (lget l0 (a_user a)) as [g f] eqn:El. rewrite lget_put. unfold ofu. rewrite (N.eqb_sym v (a_user a)).
      destruct (N.eqb (a_user a) v) eqn:Ev; [|reflexivity]. apply N.eqb_eq in Ev. subst v. rewrite El. reflexivity. }
    destruct (existsb (fun a' => uuid_eqb (app_uuid a') (app_uuid a)) post_apps).
    { cbn [negb]. rewrite andb_false_r. cbn [andb]. reflexivity. }
    cbn [negb]. rewrite andb_true_r.
    destruct (find_trk pre_trks (app_uuid a)) as [k|].
    + destruct (completing h txs k).
      * cbn [negb]. rewrite andb_false_r. reflexivity.
      * cbn [negb]. rewrite andb_true_r. rewrite Hbump. destruct (ofu v a); [|reflexivity].
        rewrite ssum_cons. cbn [fst snd]. f_equal. lia.
    + cbn [negb]. rewrite andb_true_r. rewrite Hbump. destruct (ofu v a); [|reflexivity].
      rewrite ssum_cons. cbn [fst snd]. f_equal. lia.
Qed.

Lemma lget_filter (p : N -> bool) l v : p v = true -> lget (filter (fun e => p (fst e)) l) v = lget l v.
Proof. intros H. unfold lget. rewrite (aget_filter_key p), H. reflexivity. Qed.

Lemma led_connect le c t m hash txs sc t' :
  Inv t -> m_height m = gk_height t -> Led t (m_ledger m) -> connect_side t txs ->
  step le t (OConnect hash txs) sc = (t', OBlockRes) ->
  Led t' (ledger_step c m (observe t) (OConnect hash txs) OBlockRes (observe t')) /\
  Led t' (filter (fun e => has_user (observe t') (fst e))
                 (ledger_step c m (observe t) (OConnect hash txs) OBlockRes (observe t'))).
Proof.
  intros HI Hh HL Hside Hstep.
  assert (H1 : Led t' (ledger_step c m (observe t) (OConnect hash txs) OBlockRes (observe t'))).
  { intros v Hrow. destruct (connect_bal le t hash txs sc t' HI Hside Hstep v Hrow) as [Hrow0 [_ [_ Hbal]]].
    specialize (HL v Hrow0). unfold ledger_step. rewrite Hh.
    change (o_apps (observe t)) with (db_apps t). change (o_apps (observe t')) with (db_apps t').
    change (o_trks (observe t)) with (db_trks t).
    rewrite (fold_forfeit (gk_height t + 1) txs (db_apps t') (db_trks t) (db_apps t) (m_ledger m) v).
    cbn [fst snd]. fold (forfeited_connect t txs t' v) in Hbal. unfold forfeited_connect, completing_row in Hbal. lia. }
  split; [exact H1|]. intros v Hrow.
  rewrite (lget_filter (fun k => has_user (observe t') k)); [apply H1; exact Hrow|exact Hrow].
Qed.

(* Side conditions of a step (hypotheses of the trace-level theorem; see add_bal, connect_bal):
   - OAdd by u: the `as u32` cast of add_update_appointment does not wrap (balance below 2^32);
   - OConnect: connect_side (consistent chain, carrier memo without ConfirmedIn);
   - ODisconnect: the responder's index is not empty.  On an empty index the model's step does nothing
     while TowerMon.mon_step still decrements m_height: the monitor's height and the tower's then differ
     and `completing` is evaluated at the wrong height from there on. *)
Definition step_side (t : tower) (o : op) : Prop :=
  match o with
  | OAdd signer _ _ _ _ => match signer with Some u => bal t u < U32MOD | None => True end
  | OConnect _ txs => connect_side t txs
  | ODisconnect => last_hash t <> None
  | _ => True
  end.

Definition next_m (c : config) (m : mstate) (t : tower) (o : op) (sc : script) (x : out) (t' : tower) : mstate :=
  snd (mon_step c m (observe t) o sc x (rpcs_of t') (observe t')).

Lemma mon_step_ledger c m pre o sc x rpcs post :
  m_ledger (snd (mon_step c m pre o sc x rpcs post)) =
  match o, x with
  | OConnect _ _, OBlockRes => filter (fun e => has_user post (fst e)) (ledger_step c m pre o x post)
  | _, _ => ledger_step c m pre o x post
  end.
Proof. unfold mon_step, mon_C07. destruct (mon_C08 m pre o sc x post) as [f8 last]. destruct o, x; reflexivity. Qed.

Lemma mon_step_height c m pre o sc x rpcs post :
  m_height (snd (mon_step c m pre o sc x rpcs post)) =
  match o, x with
  | OConnect _ _, OBlockRes => m_height m + 1
  | ODisconnect, OBlockRes => m_height m - 1
  | _, _ => m_height m
  end.
Proof. unfold mon_step, mon_C07. destruct (mon_C08 m pre o sc x post) as [f8 last]. destruct o, x; reflexivity. Qed.

(* the conservation check of mon_C07 is part of what mon_step reports *)
Lemma mon_step_reports_conservation c m pre o sc x rpcs post :
  conservation_ok (ledger_step c m pre o x post) post = false -> In 7 (fst (mon_step c m pre o sc x rpcs post)).
Proof.
  intros H. unfold mon_step. destruct (mon_C07_conservation c m pre o x post) as [rest Hr].
  destruct (mon_C07 c m pre o x post) as [f7 led]. destruct (mon_C08 m pre o sc x post) as [f8 last].
  cbn [fst] in *. subst f7. rewrite H. cbn [chk].
  do 4 (apply in_or_app; right). apply in_or_app; left. left. reflexivity.
Qed.

Lemma mon_step_sound le c t m o sc t' x :
  Inv t -> cfg t = c -> m_height m = gk_height t -> Led t (m_ledger m) -> step_side t o ->
  step le t o sc = (t', x) -> not_abort x ->
  Led t' (ledger_step c m (observe t) o x (observe t')) /\
  Led t' (m_ledger (next_m c m t o sc x t')) /\
  m_height (next_m c m t o sc x t') = gk_height t'.
Proof.
  intros HI Hc Hh HL Hside Hstep Hna. unfold next_m. rewrite mon_step_ledger, mon_step_height.
  pose proof (step_out_shape le t o sc t' x Hstep) as Hshape.
  destruct o as [u|signer loc b delay sig|signer loc|signer|hash txs|]; destruct x as [r|r|r|r| |s]; try contradiction.
  - pose proof (led_register le c t m u sc t' r HI Hc HL Hstep) as H1.
    split; [exact H1|]. split; [exact H1|]. rewrite (register_height le t u sc t' _ Hstep). exact Hh.
  - pose proof (led_add le c t m signer loc b delay sig sc t' r HI HL Hside Hstep) as H1.
    split; [exact H1|]. split; [exact H1|]. rewrite (add_height le t signer loc b delay sig sc t' r Hstep). exact Hh.
  - pose proof (get_bal le t signer loc sc t' _ Hstep) as Hs.
    destruct (get_unchanged le t sc signer loc) as [r' Hr']. rewrite Hr' in Hstep. inversion Hstep; subst.
    cbn [ledger_step]. split; [apply (Led_same t (fresh t)); assumption|]. split; [apply (Led_same t (fresh t)); assumption|exact Hh].
  - pose proof (getsub_bal le t signer sc t' _ Hstep) as Hs.
    destruct (getsub_unchanged le t sc signer) as [r' Hr']. rewrite Hr' in Hstep. inversion Hstep; subst.
    cbn [ledger_step]. split; [apply (Led_same t (fresh t)); assumption|]. split; [apply (Led_same t (fresh t)); assumption|exact Hh].
  - destruct (led_connect le c t m hash txs sc t' HI Hh HL Hside Hstep) as [H1 H2].
    split; [exact H1|]. split; [exact H2|]. rewrite (connect_height le t hash txs sc t' Hstep), Hh. reflexivity.
  - pose proof (disconnect_bal le t sc t' _ Hstep) as Hs. cbn [ledger_step].
    split; [apply (Led_same t t'); assumption|]. split; [apply (Led_same t t'); assumption|].
    rewrite (disconnect_height le t sc t' Hside Hstep), Hh. reflexivity.
Qed.

(* the conservation check along a history, with the monitor state threaded by mon_step itself *)
Definition is_abort (x : out) : bool := match x with OAbort _ => true | _ => false end.

Fixpoint c07_run (le : bool) (c : config) (t : tower) (m : mstate) (h : list (op * script)) : list bool :=
  match h with
  | [] => []
  | (o, sc) :: r =>
      let '(t1, x) := step le t o sc in
      conservation_ok (ledger_step c m (observe t) o x (observe t1)) (observe t1)
      :: (if is_abort x then [] else c07_run le c t1 (next_m c m t o sc x t1) r)
  end.

Fixpoint run_side (le : bool) (t : tower) (h : list (op * script)) : Prop :=
  match h with
  | [] => True
  | (o, sc) :: r => step_side t o /\ run_side le (fst (step le t o sc)) r
  end.

Lemma run_no_abort_inv le t o sc r t1 x :
  step le t o sc = (t1, x) -> Forall not_abort (snd (run le t ((o, sc) :: r))) ->
  not_abort x /\ is_abort x = false /\ Forall not_abort (snd (run le t1 r)).
Proof.
  intros Es. cbn [run]. rewrite Es.
  destruct x; try (destruct (run le t1 r) as [t2 xs]; cbn [snd]; intros H; inversion H; subst; repeat split; assumption).
  cbn [snd]. intros H; inversion H; subst. contradiction.
Qed.

Theorem ledger_conserved_from le c : forall h t m,
  Inv t -> cfg t = c -> m_height m = gk_height t -> Led t (m_ledger m) ->
  run_side le t h -> Forall not_abort (snd (run le t h)) ->
  Forall (fun ok => ok = true) (c07_run le c t m h).
Proof.
  induction h as [|[o sc] h IH]; intros t m HI Hc Hh HL Hside Hna; [constructor|].
  cbn [c07_run]. cbn [run_side] in Hside. destruct Hside as [Hs1 Hs2].
  destruct (step le t o sc) as [t1 x] eqn:Es. cbn [fst] in Hs2.
  destruct (run_no_abort_inv le t o sc h t1 x Es Hna) as [Hx [Hxa Hna1]].
  destruct (mon_step_sound le c t m o sc t1 x HI Hc Hh HL Hs1 Es Hx) as [L1 [L2 L3]].
  assert (HI1 : Inv t1).
  { pose proof (step_pres Inv inv_stable le t o sc HI) as Hp. rewrite Es in Hp. apply Hp. exact Hx. }
  assert (Hc1 : cfg t1 = c).
  { pose proof (step_cfg le t o sc) as Hp. rewrite Es in Hp. cbn [fst snd] in Hp. rewrite (Hp Hx). exact Hc. }
  constructor.
  - apply Led_conservation; assumption.
  - rewrite Hxa. apply IH; assumption.
Qed.

(* THE PROPERTY (C07, conservation): from bootstrap, along every history in which no step aborted and the
   side conditions hold, the conservation check of TowerMon.mon_C07, evaluated on the model's own
   observations with the ghost ledger threaded by TowerMon.mon_step, passes after every step. *)
Theorem ledger_conserved le c h0 blocks t0 h :
  init c h0 blocks = Some t0 -> run_side le t0 h -> Forall not_abort (snd (run le t0 h)) ->
  Forall (fun ok => ok = true) (c07_run le c t0 (m_init h0) h).
Proof.
  intros Hi Hside Hna. pose proof (inv_init c h0 blocks t0 Hi) as HI.
  unfold init in Hi. destruct (ti_new _ _); [|discriminate]. destruct (ti_new _ _); [|discriminate].
  inversion Hi; subst t0; clear Hi.
  apply ledger_conserved_from; try assumption; try reflexivity.
  intros v Hrow. discriminate.
Qed.

(* ------------------------------------------------------------------------------------------ *)
(* the side conditions are decidable: boolean forms (used by the non-vacuity examples) *)

Definition is_none {A} (o : option A) : bool := match o with None => true | Some _ => false end.

Definition connect_sideb (t : tower) (txs : list N) : bool :=
  forallb (fun k => implb (completing (gk_height t + 1) txs k)
                          (negb (mem_uuid (trk_uuid k) (reorged t)) && negb (memN (t_loc k) txs))) (db_trks t)
  && forallb (fun a => implb (memN (a_loc a) txs && is_none (find_trk (db_trks t) (app_uuid a)))
                             (match decrypt (a_blob a) (a_loc a) with
                              | Some p => is_none (ti_get (r_index t) p) | None => true end)) (db_apps t)
  && forallb (fun e => match snd e with ConfirmedIn _ => false | _ => true end) (car_memo t).

Lemma aget_In {V} (m : amap V) k v : aget m k = Some v -> In (k, v) m.
Proof.
  induction m as [|[k' v'] m IH]; cbn [aget]; [discriminate|].
  destruct (N.eqb k k') eqn:E; [|intros H; right; apply IH; exact H].
  apply N.eqb_eq in E. subst k'. intros H; inversion H. left. reflexivity.
Qed.

Lemma connect_sideb_sound t txs : connect_sideb t txs = true -> connect_side t txs.
Proof.
  unfold connect_sideb, connect_side. rewrite !andb_true_iff, !forallb_forall. intros [[H1 H2] H3]. split; [|split].
  - intros k Hk Hc. specialize (H1 k Hk). rewrite Hc in H1. cbn [implb] in H1. apply andb_true_iff in H1.
    destruct H1 as [Ha Hb]. apply negb_true_iff in Ha, Hb. split; assumption.
  - intros a p Ha Hl Hf Hd. specialize (H2 a Ha). rewrite Hl, Hf, Hd in H2. cbn [andb is_none implb] in H2.
    destruct (ti_get (r_index t) p); [discriminate|reflexivity].
  - intros tx s Hg h Hs. apply aget_In in Hg. specialize (H3 _ Hg). cbn [snd] in H3. subst s. discriminate.
Qed.

Definition step_sideb (t : tower) (o : op) : bool :=
  match o with
  | OAdd signer _ _ _ _ => match signer with Some u => N.ltb (bal t u) U32MOD | None => true end
  | OConnect _ txs => connect_sideb t txs
  | ODisconnect => negb (is_none (last_hash t))
  | _ => true
  end.

Lemma step_sideb_sound t o : step_sideb t o = true -> step_side t o.
Proof.
  destruct o as [u|signer loc b delay sig|signer loc|signer|hash txs|]; cbn [step_sideb step_side]; try (intros; exact I).
  - destruct signer; [apply N.ltb_lt|intros; exact I].
  - apply connect_sideb_sound.
  - destruct (last_hash t); [intros _; discriminate|discriminate].
Qed.

Fixpoint run_sideb (le : bool) (t : tower) (h : list (op * script)) : bool :=
  match h with
  | [] => true
  | (o, sc) :: r => step_sideb t o && run_sideb le (fst (step le t o sc)) r
  end.

Lemma run_sideb_sound le : forall h t, run_sideb le t h = true -> run_side le t h.
Proof.
  induction h as [|[o sc] h IH]; intros t; cbn [run_sideb run_side]; [intros; exact I|].
  rewrite andb_true_iff. intros [H1 H2]. split; [apply step_sideb_sound; exact H1|apply IH; exact H2].
Qed.

Definition no_abortb (xs : list out) : bool := forallb (fun x => negb (is_abort x)) xs.

Lemma no_abortb_sound xs : no_abortb xs = true -> Forall not_abort xs.
Proof.
  unfold no_abortb. rewrite forallb_forall. intros H. apply Forall_forall. intros x Hx. specialize (H x Hx).
  destruct x; try exact I. discriminate.
Qed.

(* ------------------------------------------------------------------------------------------ *)
(* witnesses: a history exercising everything, and the necessity of each hypothesis *)

Definition reach (le : bool) (c : config) (h0 : N) (blocks : list (N * list N)) (h : list (op * script)) : option tower :=
  match init c h0 blocks with
  | Some t0 => let '(t, xs) := run le t0 h in if no_abortb xs then Some t else None
  | None => None
  end.

Lemma reach_inv le c h0 blocks h t : reach le c h0 blocks h = Some t -> Inv t.
Proof.
  unfold reach. destruct (init c h0 blocks) as [t0|] eqn:Ei; [|discriminate].
  pose proof (inv_reachable le c h0 blocks t0 h Ei) as Hr.
  destruct (run le t0 h) as [t1 xs]. cbn [fst snd] in Hr.
  destruct (no_abortb xs) eqn:En; [|discriminate]. intros H; inversion H; subst. apply Hr. apply no_abortb_sound. exact En.
Qed.

Definition ex_cfg : config := mk_config 10 1000 10.
Definition ex_blob (k p len : N) : blob := mk_blob k (Some p) len.
Definition ex_blocks : list (N * list N) := [(900, []); (899, [])].
Definition ex_prefix : list (op * script) :=
  [ (ORegister 1, []);
    (OAdd (Some 1) 50 (ex_blob 50 51 3000) 20 7, []);                 (* 2 slots *)
    (OAdd (Some 1) 60 (ex_blob 60 61 100) 20 8, []);                  (* 1 slot *)
    (* both disputes are mined; penalty 51 is accepted by the node, penalty 61 is rejected *)
    (OConnect 1001 [50; 60], [(51, (G_not_found, A_ok)); (61, (G_not_found, A_code (-26)))]);
    (OConnect 1002 [51], []) ]                                        (* penalty 51 confirmed at height 102 *)
  ++ map (fun i => (OConnect (2000 + N.of_nat i) [], [])) (seq 0 99). (* ... up to height 201 *)
(* the block at height 202 completes the tracker: the 2 slots come back *)
Definition ex_hist : list (op * script) := ex_prefix ++ [(OConnect 3000 [], [])].

(* --- the `as u32` wrap of add_update_appointment (hypothesis bal < 2^32 of add_bal) --- *)
Definition wrap_cfg : config := mk_config U32MAX 1000 10.
Definition wrap_hist : list (op * script) :=
  [ (ORegister 1, []);
    (OAdd (Some 1) 50 (mk_blob 50 None (U32MAX * 2048)) 20 7, []);    (* takes all 2^32-1 slots *)
    (ORegister 1, []) ].                                              (* 2^32-1 more *)
Definition wrap_op : op := OAdd (Some 1) 50 (mk_blob 50 None 2048) 20 9.   (* replaced by a 1-slot version *)

Theorem add_bal_wrap_refuted :
  exists le t loc b delay sig sc t' st sg sl e u,
    Inv t /\ step le t (OAdd (Some u) loc b delay sig) sc = (t', OAddRes (AddOk st sg sl e)) /\
    held_version (db_apps t') loc u b = true /\ bal t' u <> bal t u.
Proof.
  destruct (reach true wrap_cfg 100 ex_blocks wrap_hist) as [t|] eqn:Er; [|vm_compute in Er; discriminate].
  pose proof (reach_inv _ _ _ _ _ _ Er) as HI.
  exists true, t, 50, (mk_blob 50 None 2048), 20, 9, [], (fst (step true t wrap_op [])).
  vm_compute in Er. inversion Er; subst t. clear Er.
  do 4 eexists. exists 1. split; [exact HI|]. split; [vm_compute; reflexivity|]. split; [vm_compute; reflexivity|].
  vm_compute. discriminate.
Qed.

(* ... and it is reachable: the conservation check fails on an abort-free history from bootstrap *)
Theorem ledger_conserved_needs_no_wrap :
  exists le c h0 blocks t0 h,
    init c h0 blocks = Some t0 /\ Forall not_abort (snd (run le t0 h)) /\
    ~ Forall (fun ok => ok = true) (c07_run le c t0 (m_init h0) h).
Proof.
  destruct (init wrap_cfg 100 ex_blocks) as [t0|] eqn:Ei; [|vm_compute in Ei; discriminate].
  exists true, wrap_cfg, 100, ex_blocks, t0, (wrap_hist ++ [(wrap_op, [])]). split; [exact Ei|].
  vm_compute in Ei. inversion Ei; subst t0. clear Ei. split.
  - apply no_abortb_sound. vm_compute. reflexivity.
  - intros H. rewrite Forall_forall in H. specialize (H false). assert (Hf : false = true); [|discriminate].
    apply H. vm_compute. tauto.
Qed.

(* --- the hypotheses of connect_bal, one by one (boolean forms of the four clauses of connect_side) --- *)
Definition s1a_b (t : tower) (txs : list N) : bool :=
  forallb (fun k => implb (completing (gk_height t + 1) txs k) (negb (mem_uuid (trk_uuid k) (reorged t)))) (db_trks t).
Definition s1b_b (t : tower) (txs : list N) : bool :=
  forallb (fun k => implb (completing (gk_height t + 1) txs k) (negb (memN (t_loc k) txs))) (db_trks t).
Definition s2_b (t : tower) (txs : list N) : bool :=
  forallb (fun a => implb (memN (a_loc a) txs && is_none (find_trk (db_trks t) (app_uuid a)))
                          (match decrypt (a_blob a) (a_loc a) with
                           | Some p => is_none (ti_get (r_index t) p) | None => true end)) (db_apps t).
Definition s3_b (t : tower) : bool :=
  forallb (fun e => match snd e with ConfirmedIn _ => false | _ => true end) (car_memo t).

Definition connect_fails (le : bool) (t : tower) (hash : N) (txs : list N) (sc : script) (v : N) : Prop :=
  let t' := fst (step le t (OConnect hash txs) sc) in
  snd (step le t (OConnect hash txs) sc) = OBlockRes /\ has_row t' v = true /\
  bal t' v + forfeited_connect t txs t' v <> bal t v.

(* S1, first half: a completing tracker that sits in `reorged` is skipped by check_confirmations; if the node
   then rejects its dispute the row is deleted without refund.  (State obtained from a reachable one by
   writing `reorged`; no reachable state is known to violate this clause.) *)
Theorem connect_bal_needs_not_reorged :
  exists le t hash txs sc v,
    Inv t /\ s1b_b t txs = true /\ s2_b t txs = true /\ s3_b t = true /\ connect_fails le t hash txs sc v.
Proof.
  destruct (reach true ex_cfg 100 ex_blocks ex_prefix) as [t|] eqn:Er; [|vm_compute in Er; discriminate].
  pose proof (reach_inv _ _ _ _ _ _ Er) as HI.
  exists true, (set_reorged t [(50, 1)]), 3000, [], [(50, (G_not_found, A_code (-26)))], 1.
  split; [eapply inv_frame; [|exact HI]; repeat split|].
  vm_compute in Er. inversion Er; subst t. clear Er HI.
  split; [vm_compute; reflexivity|]. split; [vm_compute; reflexivity|]. split; [vm_compute; reflexivity|].
  unfold connect_fails. split; [vm_compute; reflexivity|]. split; [vm_compute; reflexivity|]. vm_compute. discriminate.
Qed.

(* S1, second half: the dispute of a completing tracker is mined again in the completing block and the node
   rejects the penalty: the watcher deletes the row (no refund) before the responder can complete it. *)
Theorem connect_bal_needs_dispute_not_remined :
  exists le t hash txs sc v,
    Inv t /\ s1a_b t txs = true /\ s2_b t txs = true /\ s3_b t = true /\ connect_fails le t hash txs sc v.
Proof.
  destruct (reach true ex_cfg 100 ex_blocks ex_prefix) as [t|] eqn:Er; [|vm_compute in Er; discriminate].
  pose proof (reach_inv _ _ _ _ _ _ Er) as HI.
  exists true, t, 3000, [50], [(51, (G_not_found, A_code (-26)))], 1. split; [exact HI|].
  vm_compute in Er. inversion Er; subst t. clear Er HI.
  split; [vm_compute; reflexivity|]. split; [vm_compute; reflexivity|]. split; [vm_compute; reflexivity|].
  unfold connect_fails. split; [vm_compute; reflexivity|]. split; [vm_compute; reflexivity|]. vm_compute. discriminate.
Qed.

(* S2: the penalty was confirmed exactly IRREVOCABLY_RESOLVED blocks before its dispute shows up: the tracker is
   created as ConfirmedIn(h - 100) by the watcher and completed by the responder in the same block; the
   row is refunded although it had no tracker in the pre-state (the monitor counts it as forfeited). *)
Definition s2_blocks : list (N * list N) := map (fun i => (800 + N.of_nat i, [])) (seq 0 100).
Definition s2_hist : list (op * script) :=
  [ (ORegister 1, []); (OConnect 1001 [71], []); (OAdd (Some 1) 70 (ex_blob 70 71 100) 20 7, []) ]
  ++ map (fun i => (OConnect (2000 + N.of_nat i) [], [])) (seq 0 99).

Theorem connect_bal_needs_penalty_not_indexed :
  exists le t hash txs sc v,
    Inv t /\ s1a_b t txs = true /\ s1b_b t txs = true /\ s3_b t = true /\ connect_fails le t hash txs sc v.
Proof.
  destruct (reach true ex_cfg 100 s2_blocks s2_hist) as [t|] eqn:Er; [|vm_compute in Er; discriminate].
  pose proof (reach_inv _ _ _ _ _ _ Er) as HI.
  exists true, t, 3000, [70], [], 1. split; [exact HI|].
  vm_compute in Er. inversion Er; subst t. clear Er HI.
  split; [vm_compute; reflexivity|]. split; [vm_compute; reflexivity|]. split; [vm_compute; reflexivity|].
  unfold connect_fails. split; [vm_compute; reflexivity|]. split; [vm_compute; reflexivity|]. vm_compute. discriminate.
Qed.

(* S3: a `ConfirmedIn` in the carrier's memo has the same effect.  (State obtained from a reachable one by
   writing the memo; send_status never produces ConfirmedIn.) *)
Definition s3_hist : list (op * script) :=
  [ (ORegister 1, []); (OAdd (Some 1) 80 (ex_blob 80 81 100) 20 7, []) ].

Theorem connect_bal_needs_memo_ok :
  exists le t hash txs sc v,
    Inv t /\ s1a_b t txs = true /\ s1b_b t txs = true /\ s2_b t txs = true /\ connect_fails le t hash txs sc v.
Proof.
  destruct (reach true ex_cfg 100 ex_blocks s3_hist) as [t|] eqn:Er; [|vm_compute in Er; discriminate].
  pose proof (reach_inv _ _ _ _ _ _ Er) as HI.
  exists true, (set_car_memo t [(81, ConfirmedIn 1)]), 3000, [80], [], 1.
  split; [eapply inv_frame; [|exact HI]; repeat split|].
  vm_compute in Er. inversion Er; subst t. clear Er HI.
  split; [vm_compute; reflexivity|]. split; [vm_compute; reflexivity|]. split; [vm_compute; reflexivity|].
  unfold connect_fails. split; [vm_compute; reflexivity|]. split; [vm_compute; reflexivity|]. vm_compute. discriminate.
Qed.

(* ODisconnect with an empty responder index: the model's step does nothing, TowerMon.mon_step decrements
   m_height all the same; a later completion is then judged at the wrong height by ledger_step and the
   conservation check fails on a correct, abort-free trace (a false alarm of the monitor). *)
Definition disc_hist : list (op * script) :=
  [ (ORegister 1, []);
    (OAdd (Some 1) 50 (ex_blob 50 51 3000) 20 7, []);
    (OConnect 1001 [50], [(51, (G_not_found, A_ok))]);
    (OConnect 1002 [51], []);
    (ODisconnect, []) ]
  ++ map (fun i => (OConnect (2000 + N.of_nat i) [], [])) (seq 0 100).

Theorem ledger_conserved_needs_disconnect_side :
  exists le c h0 blocks t0 h,
    init c h0 blocks = Some t0 /\ Forall not_abort (snd (run le t0 h)) /\
    ~ Forall (fun ok => ok = true) (c07_run le c t0 (m_init h0) h).
Proof.
  destruct (init ex_cfg 100 []) as [t0|] eqn:Ei; [|vm_compute in Ei; discriminate].
  exists true, ex_cfg, 100, [], t0, disc_hist. split; [exact Ei|].
  vm_compute in Ei. inversion Ei; subst t0. clear Ei. split.
  - apply no_abortb_sound. vm_compute. reflexivity.
  - intros H. rewrite Forall_forall in H. specialize (H false). assert (Hf : false = true); [|discriminate].
    apply H. vm_compute. tauto.
Qed.

(* ------------------------------------------------------------------------------------------ *)
(* Two of the hypotheses of connect_bal are invariants of the reachable states: the carrier's memo holds no
   ConfirmedIn, and every uuid waiting in `reorged` has a tracker recorded above the gatekeeper's height
   (its confirming block was disconnected), so it cannot complete in the next block. *)

Definition RInv (t : tower) : Prop :=
  memo_ok (car_memo t) /\
  forall u, In u (reorged t) -> exists k, In k (db_trks t) /\ trk_uuid k = u /\ gk_height t < t_height k.

Lemma core_reorged t t' : core t' = core t -> reorged t' = reorged t.
Proof. unfold core. intros H. inversion H. reflexivity. Qed.

Lemma reorged_loop_reorged sc h : forall us t rej rej' t', reorged_loop sc h us t rej = Ok rej' t' -> reorged t' = reorged t.
Proof.
  induction us as [|uuid us IH]; intros t rej rej' t'; cbn [reorged_loop]; [intros H; inversion H; reflexivity|].
  destruct (find_trk (db_trks t) uuid) as [k|]; [|apply IH].
  destruct (send_transaction sc t (t_dispute k)) as [s t1] eqn:E1. apply send_spec in E1. destruct E1 as [Hc1 _].
  apply core_reorged in Hc1.
  destruct s as [hh|hh| |c]; [discriminate| | |intros H; apply IH in H; congruence].
  - destruct (send_transaction sc t1 (t_penalty k)) as [s2 t2] eqn:E2. apply send_spec in E2. destruct E2 as [Hc2 _].
    apply core_reorged in Hc2. destruct (status_rejected s2); intros H; apply IH in H; [congruence|].
    change (reorged (set_trk_status t2 uuid h false)) with (reorged t2) in H. congruence.
  - destruct (send_transaction sc t1 (t_penalty k)) as [s2 t2] eqn:E2. apply send_spec in E2. destruct E2 as [Hc2 _].
    apply core_reorged in Hc2. destruct (status_rejected s2); intros H; apply IH in H; [congruence|].
    change (reorged (set_trk_status t2 uuid h false)) with (reorged t2) in H. congruence.
Qed.

Lemma stale_loop_reorged sc h : forall us t rej rej' t', stale_loop sc h us t rej = Ok rej' t' -> reorged t' = reorged t.
Proof.
  induction us as [|uuid us IH]; intros t rej rej' t'; cbn [stale_loop]; [intros H; inversion H; reflexivity|].
  destruct (find_trk (db_trks t) uuid) as [k|]; [|discriminate].
  destruct (send_transaction sc t (t_penalty k)) as [s t1] eqn:E1. apply send_spec in E1. destruct E1 as [Hc1 _].
  apply core_reorged in Hc1.
  destruct s as [hh|hh| |c]; intros H; apply IH in H; [| | |congruence].
  - change (reorged (set_trk_status t1 uuid hh true)) with (reorged t1) in H. congruence.
  - change (reorged (set_trk_status t1 uuid hh false)) with (reorged t1) in H. congruence.
  - change (reorged (set_trk_status t1 uuid h false)) with (reorged t1) in H. congruence.
Qed.

Lemma refund_loop_reorged : forall us t t', refund_loop t us = Ok tt t' -> reorged t' = reorged t.
Proof.
  induction us as [|uuid us IH]; intros t t'; cbn [refund_loop]; [intros H; inversion H; reflexivity|].
  destruct (find_app (db_apps t) uuid) as [a|]; [|discriminate].
  destruct (gk_get t (a_user a)) as [ui|]; [|discriminate].
  destruct (u32_add (u_slots ui) (slots_of (b_len (a_blob a)))) as [s|]; [|discriminate].
  intros H. apply IH in H. exact H.
Qed.

Lemma delete_reorged t us r t' : gk_delete_appointments t us r = Ok tt t' -> reorged t' = reorged t.
Proof.
  unfold gk_delete_appointments. destruct r.
  - destruct (refund_loop t us) as [[] t1|] eqn:E; cbn [bind]; [|discriminate].
    apply refund_loop_reorged in E. intros H; inversion H; subst. exact E.
  - intros H; inversion H; reflexivity.
Qed.

(* after a block connection `reorged` and the carrier's memo are empty *)
Lemma r_block_clears le sc t2 b h t3 : r_block_connected le sc t2 b h = Ok tt t3 -> reorged t3 = [] /\ car_memo t3 = [].
Proof.
  unfold r_block_connected.
  destruct (ti_update (r_index (set_car_height t2 h)) b) as [idx|]; [|discriminate].
  destruct (check_conf_loop le _ h _ _ []) as [completed tc|] eqn:Ec; cbn [bind]; [|discriminate]. clear Ec.
  destruct (match completed with [] => Ok tt tc | _ => gk_delete_appointments tc completed true end) as [[] td|] eqn:Ed;
    cbn [bind]; [|discriminate]. clear Ed.
  destruct (match reorged td with [] => Ok [] td | _ :: _ => reorged_loop sc h (reorged td) (set_reorged td []) [] end)
    as [rej1 t4|] eqn:Er.
  2:{ destruct (reorged td); [discriminate|]. rewrite Er. cbn [bind]. discriminate. }
  assert (H4 : reorged t4 = []).
  { destruct (reorged td) eqn:Ert; [inversion Er; subst; exact Ert|]. apply reorged_loop_reorged in Er. exact Er. }
  assert (Hb : (match reorged td with [] => Ok [] td | x :: l => reorged_loop sc h (x :: l) (set_reorged td []) [] end) = Ok rej1 t4).
  { destruct (reorged td); exact Er. }
  rewrite Hb. cbn [bind]. clear Hb Er.
  destruct (u32_sub h (Z.to_N Consts.CONFIRMATIONS_BEFORE_RETRY)) as [lim|]; [|discriminate].
  destruct (stale_loop sc h _ t4 []) as [rej2 t5|] eqn:Es; cbn [bind]; [|discriminate].
  apply stale_loop_reorged in Es.
  destruct (match rej1 ++ rej2 with [] => Ok tt t5 | l => gk_delete_appointments t5 l false end) as [[] t6|] eqn:E6;
    cbn [bind]; [|discriminate].
  assert (H6 : reorged t6 = reorged t5).
  { destruct (rej1 ++ rej2); [inversion E6; reflexivity|apply delete_reorged in E6; exact E6]. }
  intros H; inversion H; subst t3. cbn [reorged car_memo set_car_memo]. split; [congruence|reflexivity].
Qed.

Lemma RInv_clear t : reorged t = [] -> car_memo t = [] -> RInv t.
Proof.
  intros Hr Hm. split.
  - rewrite Hm. intros tx s Hg. discriminate.
  - rewrite Hr. intros u [].
Qed.

Lemma connect_RInv le t hash txs sc t' : step le t (OConnect hash txs) sc = (t', OBlockRes) -> RInv t'.
Proof.
  intros Hstep. destruct (connect_phases le t hash txs sc t' Hstep) as [t1 [t2 [_ [_ E3]]]].
  apply r_block_clears in E3. destruct E3 as [Hr Hm]. apply RInv_clear; assumption.
Qed.

(* ODisconnect: the trackers confirmed in the disconnected block (height = the gatekeeper's old height) join *)
Lemma disconnect_RInv le t sc t' : RInv t -> step le t ODisconnect sc = (t', OBlockRes) -> RInv t'.
Proof.
  intros [Rm Rr]. cbn [step].
  destruct (last_hash (set_rpc_log t [])) as [hash|]; [|intros H; inversion H; subst; split; assumption].
  unfold Consts.LISTENER_ORDER. cbn [run_listeners].
  change (listener_disconnected hash (gk_height (set_rpc_log t [])) 0 (set_rpc_log t []))
    with (gk_block_disconnected (set_rpc_log t []) (gk_height t)).
  unfold gk_block_disconnected, u32_sub. destruct (N.leb 1 (gk_height t)) eqn:El; cbn [bind wrap]; [|intros H; inversion H].
  apply N.leb_le in El.
  match goal with |- context [listener_disconnected hash ?h 1 ?t1] =>
    change (listener_disconnected hash h 1 t1) with (w_block_disconnected t1 hash h) end.
  unfold w_block_disconnected, u32_sub. cbn [gk_height set_rpc_log].
  destruct (N.leb 1 (gk_height t)); cbn [bind wrap]; [|intros H; inversion H].
  match goal with |- context [listener_disconnected hash ?h 2 ?t1] =>
    change (listener_disconnected hash h 2 t1) with (r_block_disconnected t1 hash h) end.
  unfold r_block_disconnected. cbn [bind wrap]. intros H; inversion H; subst t'; clear H. split.
  - exact Rm.
  - cbn [reorged db_trks gk_height set_reorged set_r_index set_car_height set_w_height set_w_cache set_gk_height set_rpc_log].
    intros u Hu. apply in_app_or in Hu. destruct Hu as [Hu|Hu].
    + destruct (Rr u Hu) as [k [Hk [Hku Hkh]]]. exists k. repeat split; try assumption. lia.
    + apply filter_In in Hu. destruct Hu as [Hu _]. apply in_map_iff in Hu. destruct Hu as [k [Hku Hk]].
      apply filter_In in Hk. destruct Hk as [Hk Hc]. apply andb_true_iff in Hc. destruct Hc as [_ Hc].
      apply N.eqb_eq in Hc. exists k. repeat split; try assumption. lia.
Qed.

(* add_appointment keeps every tracker that was there (the only rows it may delete are under a key without tracker) *)
Lemma add_tracker_keeps t uuid d p s :
  reorged (r_add_tracker t uuid d p s) = reorged t /\ car_memo (r_add_tracker t uuid d p s) = car_memo t /\
  forall k, In k (db_trks t) -> In k (db_trks (r_add_tracker t uuid d p s)).
Proof.
  unfold r_add_tracker. destruct s; try (repeat split; auto; fail);
    destruct (find_trk (db_trks t) uuid); try (repeat split; auto; fail);
    destruct (find_app (db_apps t) uuid); try (repeat split; auto; fail);
    (split; [reflexivity|]; split; [reflexivity|]; intros k Hk; cbn [db_trks p_insert_trk set_db_trks]; apply in_or_app; left; exact Hk).
Qed.

Definition keeps (uuid : N * N) (t t' : tower) : Prop :=
  reorged t' = reorged t /\ (memo_ok (car_memo t) -> memo_ok (car_memo t')) /\
  forall k, In k (db_trks t) -> trk_uuid k <> uuid -> In k (db_trks t').

Lemma keeps_trans uuid a b c : keeps uuid a b -> keeps uuid b c -> keeps uuid a c.
Proof. intros [A1 [A2 A3]] [B1 [B2 B3]]. split; [congruence|]. split; [tauto|]. intros k Hk Hn. apply B3; [apply A3|]; assumption. Qed.

Lemma keeps_delete uuid t : keeps uuid t (db_delete_apps t [uuid]).
Proof.
  split; [reflexivity|]. split; [tauto|]. intros k Hk Hn. unfold db_delete_apps. cbn [db_trks set_db_trks set_db_apps].
  apply filter_In. split; [exact Hk|]. rewrite mem_uuid_single. destruct (uuid_eqb (trk_uuid k) uuid) eqn:E; [|reflexivity].
  apply uuid_eqb_eq in E. contradiction.
Qed.

Lemma keeps_store uuid t a t2 : w_store_appointment t a = Ok tt t2 -> keeps uuid t t2.
Proof.
  unfold w_store_appointment. destruct (find_app (db_apps t) (app_uuid a)).
  - intros H; inversion H; subst. split; [reflexivity|]. split; [tauto|]. intros k Hk _. exact Hk.
  - destruct (amem (db_users t) (a_user a)); intros H; inversion H; subst;
      (split; [reflexivity|]; split; [tauto|]; intros k Hk _; exact Hk).
Qed.

Lemma keeps_handle_breach uuid0 sc t uuid d p s t' : r_handle_breach sc t uuid d p = Ok s t' -> keeps uuid0 t t'.
Proof.
  intros H. apply handle_breach_spec in H. destruct H as [tm [Hc [_ [Ht Hm]]]].
  assert (Hk : keeps uuid0 t tm).
  { split; [apply core_reorged; exact Hc|]. split; [intros Hmo; apply Hm in Hmo; tauto|].
    intros k Hk _. unfold core in Hc. inversion Hc as [[E1 E2 E3 E4 E5 E6 E7 E8 E9 E10]]. rewrite E6. exact Hk. }
  subst t'. destruct (status_accepted s); [|exact Hk].
  eapply keeps_trans; [exact Hk|]. destruct (add_tracker_keeps tm uuid d p s) as [A1 [A2 A3]].
  split; [exact A1|]. split; [rewrite A2; tauto|]. intros k Hkk _. apply A3. exact Hkk.
Qed.

Lemma keeps_triggered sc t a d t2 : w_store_triggered sc t a d = Ok tt t2 -> keeps (app_uuid a) t t2.
Proof.
  unfold w_store_triggered. destruct (decrypt (a_blob a) d) as [p|].
  - destruct (w_store_ok t a);
      [|intros H; inversion H; subst; split; [reflexivity|]; split; [tauto|]; intros k Hk _; exact Hk].
    destruct (w_store_appointment t a) as [[] t1|] eqn:E1; cbn [bind]; [|discriminate].
    apply (keeps_store (app_uuid a)) in E1.
    destruct (r_handle_breach sc t1 (app_uuid a) d p) as [s t3|] eqn:E2; cbn [bind]; [|discriminate].
    apply (keeps_handle_breach (app_uuid a)) in E2.
    destruct (status_rejected s).
    + unfold gk_delete_appointments. intros H; inversion H; subst.
      eapply keeps_trans; [exact E1|]. eapply keeps_trans; [exact E2|apply keeps_delete].
    + intros H; inversion H; subst. eapply keeps_trans; eassumption.
  - destruct (find_app (db_apps t) (app_uuid a)).
    + unfold gk_delete_appointments. intros H; inversion H; subst. apply keeps_delete.
    + intros H; inversion H; subst. split; [reflexivity|]. split; [tauto|]. intros k Hk _. exact Hk.
Qed.

Lemma add_RInv le t signer loc b delay sig sc t' r :
  RInv t -> step le t (OAdd signer loc b delay sig) sc = (t', OAddRes r) -> RInv t'.
Proof.
  intros HR Hstep.
  assert (Hfresh : RInv (fresh t)) by exact HR.
  assert (Hk : t' = fresh t \/ exists u, find_trk (db_trks t) (loc, u) = None /\ keeps (loc, u) t t').
  { revert Hstep. cbn [step wrap]. unfold w_add_appointment. change (set_rpc_log t []) with (fresh t).
    destruct (authenticate (fresh t) signer) as [u|]; [|cbn; intros H; inversion H; left; reflexivity].
    destruct (gk_get (fresh t) u) as [ui|] eqn:Eg; [|cbn; intros H; inversion H; left; reflexivity].
    destruct (N.leb (u_expiry ui) (gk_height (fresh t))); [cbn; intros H; inversion H; left; reflexivity|].
    destruct (find_trk (db_trks (fresh t)) (loc, u)) eqn:Ek; [cbn; intros H; inversion H; left; reflexivity|].
    unfold gk_add_update_appointment. rewrite Eg.
    match goal with |- context [if ?c then _ else _] => destruct c end; cbn [bind]; [|cbn; intros H; inversion H; left; reflexivity].
    intros H. right. exists u. split; [exact Ek|]. revert H. cbv zeta.
    match goal with |- context [ti_get ?c loc] => destruct (ti_get c loc) as [d|] end.
    - match goal with |- context [w_store_triggered sc ?t1 ?a d] => destruct (w_store_triggered sc t1 a d) as [[] t2|] eqn:E2 end;
        cbn [bind wrap]; try match goal with |- context [if ?c then _ else _] => destruct c end;
        intros H; inversion H; subst; apply keeps_triggered in E2; exact E2.
    - match goal with |- context [w_store_appointment ?t1 ?a] => destruct (w_store_appointment t1 a) as [[] t2|] eqn:E2 end;
        cbn [bind wrap]; try match goal with |- context [if ?c then _ else _] => destruct c end;
        intros H; inversion H; subst; apply (keeps_store (loc, u)) in E2; exact E2. }
  destruct Hk as [Hk|[u [Hnone [K1 [K2 K3]]]]]; [subst t'; exact HR|].
  destruct HR as [Rm Rr]. split; [apply K2; exact Rm|].
  rewrite K1, (add_height le t signer loc b delay sig sc t' r Hstep).
  intros w Hw. destruct (Rr w Hw) as [k [Hk [Hku Hkh]]]. exists k. split; [|split; assumption].
  apply K3; [exact Hk|]. intros He. apply (find_trk_None _ _ Hnone). rewrite <- He. apply in_map. exact Hk.
Qed.

Lemma register_RInv le t u sc t' r : RInv t -> step le t (ORegister u) sc = (t', ORegisterRes r) -> RInv t'.
Proof.
  intros HR. cbn [step wrap]. unfold gk_add_update_user.
  destruct (gk_get (set_rpc_log t []) u) as [ui|].
  - destruct (u32_add (u_slots ui) (c_slots (cfg (set_rpc_log t [])))); cbn [wrap]; intros H; inversion H; subst; exact HR.
  - destruct (u32_add (gk_height (set_rpc_log t [])) (c_duration (cfg (set_rpc_log t [])))); [|cbn [wrap]; intros H; inversion H].
    destruct (amem (db_users (set_rpc_log t [])) u); cbn [wrap]; intros H; inversion H; subst; exact HR.
Qed.

Lemma step_RInv le t o sc t' x : RInv t -> step le t o sc = (t', x) -> not_abort x -> RInv t'.
Proof.
  intros HR Hstep Hna. pose proof (step_out_shape le t o sc t' x Hstep) as Hshape.
  destruct o as [u|signer loc b delay sig|signer loc|signer|hash txs|]; destruct x as [r|r|r|r| |s]; try contradiction.
  - eapply register_RInv; eassumption.
  - eapply add_RInv; eassumption.
  - destruct (get_unchanged le t sc signer loc) as [r' Hr']. rewrite Hr' in Hstep. inversion Hstep; subst. exact HR.
  - destruct (getsub_unchanged le t sc signer) as [r' Hr']. rewrite Hr' in Hstep. inversion Hstep; subst. exact HR.
  - eapply connect_RInv; eassumption.
  - eapply disconnect_RInv; eassumption.
Qed.

(* what is left of connect_side for the environment to guarantee (a consistent chain):
   E1  the dispute of a tracker completing in this block is not mined again in it;
   E2  a dispute first seen in this block has a penalty that is not in the responder's index already. *)
Definition chain_side (t : tower) (txs : list N) : Prop :=
  (forall k, In k (db_trks t) -> completing (gk_height t + 1) txs k = true -> memN (t_loc k) txs = false) /\
  (forall a p, In a (db_apps t) -> memN (a_loc a) txs = true -> find_trk (db_trks t) (app_uuid a) = None ->
               decrypt (a_blob a) (a_loc a) = Some p -> ti_get (r_index t) p = None).

Lemma connect_side_from t txs : Inv t -> RInv t -> chain_side t txs -> connect_side t txs.
Proof.
  intros HI [Rm Rr] [E1 E2]. split; [|split; assumption].
  intros k Hk Hc. split; [|apply E1; assumption].
  destruct (mem_uuid (trk_uuid k) (reorged t)) eqn:Em; [|reflexivity]. exfalso.
  apply mem_uuid_In in Em. destruct (Rr _ Em) as [k' [Hk' [Hku Hkh]]].
  pose proof (NoDup_map_inj trk_uuid (db_trks t) k' k (inv_trks_nodup t HI) Hk' Hk Hku) as He. subst k'.
  apply completing_iff in Hc. destruct Hc as [_ [Hh _]].
  unfold IRR, Consts.IRREVOCABLY_RESOLVED in Hh. lia.
Qed.

(* the environment's side of the bargain, step by step (see step_side; the clauses of connect_side that
   are invariants of the tower are gone) *)
Definition step_env (t : tower) (o : op) : Prop :=
  match o with
  | OAdd signer _ _ _ _ => match signer with Some u => bal t u < U32MOD | None => True end
  | OConnect _ txs => chain_side t txs
  | ODisconnect => last_hash t <> None
  | _ => True
  end.

Fixpoint run_env (le : bool) (t : tower) (h : list (op * script)) : Prop :=
  match h with
  | [] => True
  | (o, sc) :: r => step_env t o /\ run_env le (fst (step le t o sc)) r
  end.

Lemma step_side_from t o : Inv t -> RInv t -> step_env t o -> step_side t o.
Proof.
  intros HI HR. destruct o; cbn [step_env step_side]; try tauto. apply connect_side_from; assumption.
Qed.

Theorem ledger_conserved_env_from le c : forall h t m,
  Inv t -> RInv t -> cfg t = c -> m_height m = gk_height t -> Led t (m_ledger m) ->
  run_env le t h -> Forall not_abort (snd (run le t h)) ->
  Forall (fun ok => ok = true) (c07_run le c t m h).
Proof.
  induction h as [|[o sc] h IH]; intros t m HI HR Hc Hh HL Hside Hna; [constructor|].
  cbn [c07_run]. cbn [run_env] in Hside. destruct Hside as [Hs1 Hs2].
  apply (step_side_from t o HI HR) in Hs1.
  destruct (step le t o sc) as [t1 x] eqn:Es. cbn [fst] in Hs2.
  destruct (run_no_abort_inv le t o sc h t1 x Es Hna) as [Hx [Hxa Hna1]].
  destruct (mon_step_sound le c t m o sc t1 x HI Hc Hh HL Hs1 Es Hx) as [L1 [L2 L3]].
  assert (HI1 : Inv t1).
  { pose proof (step_pres Inv inv_stable le t o sc HI) as Hp. rewrite Es in Hp. apply Hp. exact Hx. }
  assert (Hc1 : cfg t1 = c).
  { pose proof (step_cfg le t o sc) as Hp. rewrite Es in Hp. cbn [fst snd] in Hp. rewrite (Hp Hx). exact Hc. }
  pose proof (step_RInv le t o sc t1 x HR Es Hx) as HR1.
  constructor.
  - apply Led_conservation; assumption.
  - rewrite Hxa. apply IH; assumption.
Qed.

(* THE PROPERTY (C07, conservation), final form: from bootstrap, along every history in which no step aborted,
   fed a consistent chain (chain_side), never disconnecting below the responder's index and with balances
   below 2^32 at each add_appointment, the conservation check of TowerMon.mon_C07 passes after every step. *)
Theorem ledger_conserved_env le c h0 blocks t0 h :
  init c h0 blocks = Some t0 -> run_env le t0 h -> Forall not_abort (snd (run le t0 h)) ->
  Forall (fun ok => ok = true) (c07_run le c t0 (m_init h0) h).
Proof.
  intros Hi Hside Hna. pose proof (inv_init c h0 blocks t0 Hi) as HI.
  unfold init in Hi. destruct (ti_new _ _); [|discriminate]. destruct (ti_new _ _); [|discriminate].
  inversion Hi; subst t0; clear Hi.
  apply ledger_conserved_env_from; try assumption; try reflexivity.
  - apply RInv_clear; reflexivity.
  - intros v Hrow. discriminate.
Qed.

(* so nobody holds more than they were granted: in every such reachable state, held <= granted *)
Corollary held_le_granted t l v : Led t l -> has_row t v = true -> held_t t v <= fst (lget l v).
Proof. intros HL Hrow. specialize (HL v Hrow). unfold bal in HL. lia. Qed.

Lemma run_side_env le : forall h t, run_side le t h -> run_env le t h.
Proof.
  induction h as [|[o sc] h IH]; intros t; cbn [run_side run_env]; [tauto|].
  intros [H1 H2]. split; [|apply IH; exact H2].
  destruct o; cbn [step_side step_env] in *; try tauto. destruct H1 as [S1 [S2 _]]. split; [|exact S2].
  intros k Hk Hc. apply (S1 k Hk Hc).
Qed.

(* tower and monitor state after a history (for the examples) *)
Fixpoint m_run (le : bool) (c : config) (t : tower) (m : mstate) (h : list (op * script)) : tower * mstate :=
  match h with
  | [] => (t, m)
  | (o, sc) :: r =>
      let '(t1, x) := step le t o sc in
      if is_abort x then (t1, m) else m_run le c t1 (next_m c m t o sc x t1) r
  end.
