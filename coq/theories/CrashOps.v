(* CrashOps.v — C03 at OPERATION level: the durable trace of every operation of the tower.
   For each operation of Tower.v (register, add_appointment including the trigger-in-cache path, the
   reads, block connection with its three listeners, block disconnection) the sequence of MICRO
   steps it goes through, in program order, following the code line by line:
     MStmt s   one durable write = one SQL statement (Crash.stmt): an autocommit statement issued
               through DatabaseManager::{store_data, update_data, remove_data} (hook H2 labels
               store:pre/post, write:pre/post) or one explicit transaction (labels txn-*:pre-commit /
               post-commit);
     MRpc r    one node RPC (sendrawtransaction / getrawtransaction; labels rpc:pre/post);
     MAck      the instant the reply (for add_appointment: the signed receipt) is returned.
   A crash leaves the effect of a prefix: crash_at k = the tables after the first k micro steps.
   restart = main()'s bootstrap on those tables (Crash.recover: the gatekeeper reloads table users,
   the carrier's memo and the reorged set start empty) at the last known block.
   Loops whose iteration order the code takes from a HashMap/HashSet (the breaches of a block, the
   reorged trackers) are traces "up to the order of their iterations": a segment Par of groups.
   Definitions only; the theorems are in CrashOpsProofs.v. *)
From TeosModel Require Import Base ListAux TxIndex Tower TowerStable TowerInv Crash.
From TeosModel.Gen Require Consts Bootstrap.
Local Open Scope N_scope.

Inductive micro :=
| MStmt (s : stmt)
| MRpc (r : rpc_event)
| MAck.

Definition stmts_of (l : list micro) : list stmt :=
  flat_map (fun m => match m with MStmt s => [s] | _ => [] end) l.
Definition rpcs_of_micro (l : list micro) : list rpc_event :=
  flat_map (fun m => match m with MRpc r => [r] | _ => [] end) l.

(* a trace is a list of segments: Seq = in this order; Par = one group per iteration of a loop over a
   hash container, the groups in the order the model iterates (the code: in any order) *)
Inductive seg :=
| Seq (l : list micro)
| Par (gs : list (list micro)).

Definition flat_seg (s : seg) : list micro := match s with Seq l => l | Par gs => concat gs end.
Definition flat_segs (l : list seg) : list micro := flat_map flat_seg l.

(* ------------------------------------------------------------------------------------------ *)
(* Carrier: one RPC per call, except a send answered from the per-block memo *)

Definition tr_send (sc : script) (t : tower) (tx : N) : list micro :=
  match aget (car_memo t) tx with
  | Some _ => []
  | None => [MRpc (mk_rpc K_send tx (send_status t (snd (script_get sc tx))))]
  end.

Definition tr_in_mempool (sc : script) (t : tower) (tx : N) : list micro :=
  [MRpc (mk_rpc K_getraw tx (InMempoolSince (if fst (in_mempool sc t tx) then 1 else 0)))].

(* ------------------------------------------------------------------------------------------ *)
(* Gatekeeper *)

(* add_update_user: UPDATE users (existing user) / INSERT INTO users (new user, unwrapped) *)
Definition tr_add_update_user (t : tower) (u : N) : list micro :=
  match gk_get t u with
  | Some ui =>
      match u32_add (u_slots ui) (c_slots (cfg t)) with
      | None => []
      | Some s =>
          let e := match u32_add (u_expiry ui) (c_duration (cfg t)) with Some e => e | None => U32MAX end in
          [MStmt (SUpdUser u (mk_uinfo s (u_start ui) e))]
      end
  | None =>
      match u32_add (gk_height t) (c_duration (cfg t)) with
      | None => []
      | Some e => [MStmt (SInsUser u (mk_uinfo (c_slots (cfg t)) (gk_height t) e))]
      end
  end.

(* add_update_appointment: the charge, UPDATE users, BEFORE the appointment is stored *)
Definition tr_charge (t : tower) (u : N) (uuid : N * N) (blen : N) : list micro :=
  match gk_get t u with
  | None => []
  | Some ui =>
      let used := match find_app (db_apps t) uuid with Some a => slots_of (b_len (a_blob a)) | None => 0 end in
      let required := slots_of blen in
      if N.leb required (u_slots ui + used) then
        [MStmt (SUpdUser u (mk_uinfo ((u_slots ui + used - required) mod U32MOD) (u_start ui) (u_expiry ui)))]
      else []
  end.

(* delete_appointments(uuids, refund = true): the balances are raised in memory, uuid by uuid ... *)
Fixpoint refund_updates (t : tower) (us : list (N * N)) : list (N * N) :=
  match us with
  | [] => []
  | uuid :: r =>
      match find_app (db_apps t) uuid with
      | None => []
      | Some a =>
          match gk_get t (a_user a) with
          | None => []
          | Some ui =>
              match u32_add (u_slots ui) (slots_of (b_len (a_blob a))) with
              | None => []
              | Some s => (a_user a, s) :: refund_updates (p_refund_user t (a_user a) ui s) r
              end
          end
      end
  end.

(* ... and collected in `updated_users: HashMap` (insert overwrites): one entry per user, its last value *)
Fixpoint last_writes (l : list (N * N)) : list (N * N) :=
  match l with
  | [] => []
  | p :: r => if amem r (fst p) then last_writes r else p :: last_writes r
  end.

(* then ONE transaction: DELETE FROM appointments WHERE UUID IN (..); UPDATE users SET available_slots
   per updated user; COMMIT.  Without refund: the same transaction with no user update, or, for a
   single uuid, the autocommit DELETE of remove_appointment *)
Definition tr_delete (t : tower) (us : list (N * N)) (refund : bool) : list micro :=
  if refund then
    [MStmt (STxn (SDelApps us :: map (fun p => SUpdSlots (fst p) (snd p)) (last_writes (refund_updates t us))))]
  else
    match us with
    | [uuid] => [MStmt (SDelApps [uuid])]
    | _ => [MStmt (STxn [SDelApps us])]
    end.

(* Gatekeeper::filtered_block_connected: batch_remove_users, one transaction, only if somebody is outdated *)
Definition tr_gk_block (t : tower) (h : N) : list micro :=
  match outdated_users (c_delta (cfg t)) h (gk_users t) with
  | None => []
  | Some [] => []
  | Some out => [MStmt (STxn [SDelUsers out])]
  end.

(* ------------------------------------------------------------------------------------------ *)
(* Responder *)

(* add_tracker: INSERT INTO trackers (a constraint failure is only logged) *)
Definition tr_add_tracker (uuid : N * N) (dispute penalty : N) (s : cstatus) : list micro :=
  match s with
  | ConfirmedIn h => [MStmt (SInsTrk (mk_trk (fst uuid) (snd uuid) dispute penalty h true))]
  | InMempoolSince h => [MStmt (SInsTrk (mk_trk (fst uuid) (snd uuid) dispute penalty h false))]
  | _ => []
  end.

(* handle_breach: [getrawtransaction; [sendrawtransaction]] THEN the tracker *)
Definition tr_handle_breach (sc : script) (t : tower) (uuid : N * N) (dispute penalty : N) : list micro :=
  match ti_get (r_index t) penalty with
  | Some bh =>
      match ti_get_height (r_index t) bh with
      | Some h => tr_add_tracker uuid dispute penalty (ConfirmedIn (Z.to_N h))
      | None => []
      end
  | None =>
      let im := in_mempool sc t penalty in
      tr_in_mempool sc t penalty ++
      (if fst im then tr_add_tracker uuid dispute penalty (InMempoolSince (car_height (snd im)))
       else tr_send sc (snd im) penalty ++
            tr_add_tracker uuid dispute penalty (fst (send_transaction sc (snd im) penalty)))
  end.

(* check_confirmations: UPDATE trackers for every penalty confirmed in this block *)
Fixpoint tr_check_conf (txids : list N) (h : N) (snapshot : list trk) (t : tower) : list micro :=
  match snapshot with
  | [] => []
  | k :: r =>
      let uuid := trk_uuid k in
      if memN (t_penalty k) txids then
        match find_trk (db_trks t) uuid with
        | None => []
        | Some _ =>
            let t1 := set_trk_status t uuid h true in
            MStmt (SUpdTrk uuid h true) ::
            tr_check_conf txids h r (set_reorged t1 (filter (fun u => negb (uuid_eqb u uuid)) (reorged t1)))
        end
      else tr_check_conf txids h r t
  end.

(* handle_reorged_txs: per reorged tracker (HashSet order): send dispute, send penalty, UPDATE trackers *)
Fixpoint tr_reorged (sc : script) (h : N) (us : list (N * N)) (t : tower) : list (list micro) :=
  match us with
  | [] => []
  | uuid :: r =>
      match find_trk (db_trks t) uuid with
      | None => tr_reorged sc h r t
      | Some k =>
          let s1 := send_transaction sc t (t_dispute k) in
          match fst s1 with
          | ConfirmedIn _ => [tr_send sc t (t_dispute k)]
          | Rejected _ => tr_send sc t (t_dispute k) :: tr_reorged sc h r (snd s1)
          | InMempoolSince _ | IrrevocablyResolved =>
              let s2 := send_transaction sc (snd s1) (t_penalty k) in
              if status_rejected (fst s2) then
                (tr_send sc t (t_dispute k) ++ tr_send sc (snd s1) (t_penalty k)) :: tr_reorged sc h r (snd s2)
              else
                (tr_send sc t (t_dispute k) ++ tr_send sc (snd s1) (t_penalty k) ++ [MStmt (SUpdTrk uuid h false)])
                :: tr_reorged sc h r (set_trk_status (snd s2) uuid h false)
          end
      end
  end.

(* rebroadcast_stale_txs: per stale tracker (SQL order = the order the trackers were inserted in, which for
   trackers created in one block is the HashMap order of that block's breaches): send penalty, UPDATE
   trackers unless rejected *)
Fixpoint tr_stale (sc : script) (h : N) (us : list (N * N)) (t : tower) : list (list micro) :=
  match us with
  | [] => []
  | uuid :: r =>
      match find_trk (db_trks t) uuid with
      | None => []
      | Some k =>
          let s1 := send_transaction sc t (t_penalty k) in
          match fst s1 with
          | Rejected _ => tr_send sc t (t_penalty k) :: tr_stale sc h r (snd s1)
          | ConfirmedIn hh =>
              (tr_send sc t (t_penalty k) ++ [MStmt (SUpdTrk uuid hh true)]) :: tr_stale sc h r (set_trk_status (snd s1) uuid hh true)
          | InMempoolSince hh =>
              (tr_send sc t (t_penalty k) ++ [MStmt (SUpdTrk uuid hh false)]) :: tr_stale sc h r (set_trk_status (snd s1) uuid hh false)
          | IrrevocablyResolved =>
              (tr_send sc t (t_penalty k) ++ [MStmt (SUpdTrk uuid h false)]) :: tr_stale sc h r (set_trk_status (snd s1) uuid h false)
          end
      end
  end.

Definition tr_r_block (le : bool) (sc : script) (t : tower) (b : iblock N) (h : N) : list seg :=
  let t0 := set_car_height t h in
  let txids := keys_of (ib_data b) in
  match ti_update (r_index t0) b with
  | None => []
  | Some idx =>
      let t1 := set_r_index t0 idx in
      Par (map (fun m => [m]) (tr_check_conf txids h (db_trks t1) t1)) ::     (* load_penalties_summaries: a HashMap *)
      match check_conf_loop le txids h (db_trks t1) t1 [] with
      | Abort _ _ => []
      | Ok completed t2 =>
          Seq (match completed with [] => [] | _ => tr_delete t2 completed true end) ::
          match (match completed with [] => Ok tt t2 | _ => gk_delete_appointments t2 completed true end) with
          | Abort _ _ => []
          | Ok _ t3 =>
              Par (match reorged t3 with [] => [] | us => tr_reorged sc h us (set_reorged t3 []) end) ::
              match (match reorged t3 with [] => Ok [] t3 | us => reorged_loop sc h us (set_reorged t3 []) [] end) with
              | Abort _ _ => []
              | Ok rej1 t4 =>
                  match u32_sub h (Z.to_N Consts.CONFIRMATIONS_BEFORE_RETRY) with
                  | None => []
                  | Some lim =>
                      let stale := map trk_uuid (filter (fun k => negb (t_conf k) && N.leb (t_height k) lim) (db_trks t4)) in
                      Par (tr_stale sc h stale t4) ::
                      match stale_loop sc h stale t4 [] with
                      | Abort _ _ => []
                      | Ok rej2 t5 => [Seq (match rej1 ++ rej2 with [] => [] | l => tr_delete t5 l false end)]
                      end
                  end
              end
          end
      end
  end.

(* ------------------------------------------------------------------------------------------ *)
(* Watcher *)

(* store_appointment: UPDATE appointments when the row exists, INSERT INTO appointments otherwise (an INSERT
   that fails on the foreign key changes nothing: Crash.exec; the caller then answers UnknownUser) *)
Definition tr_store_appointment (t : tower) (a : app) : list micro :=
  match find_app (db_apps t) (app_uuid a) with
  | Some _ => [MStmt (SUpdApp a)]
  | None => [MStmt (SInsApp a)]
  end.

(* store_triggered_appointment: store, hand to the responder, wipe if it bounced; invalid blob: the
   replaced version (if any) is deleted, nothing is stored *)
Definition tr_store_triggered (sc : script) (t : tower) (a : app) (dispute : N) : list micro :=
  match decrypt (a_blob a) dispute with
  | Some penalty =>
      tr_store_appointment t a ++
      if negb (w_store_ok t a) then [] else
      match w_store_appointment t a with
      | Abort _ _ => []
      | Ok _ t1 =>
          tr_handle_breach sc t1 (app_uuid a) dispute penalty ++
          match r_handle_breach sc t1 (app_uuid a) dispute penalty with
          | Abort _ _ => []
          | Ok s t2 => if status_rejected s then tr_delete t2 [app_uuid a] false else []
          end
      end
  | None =>
      match find_app (db_apps t) (app_uuid a) with
      | Some _ => tr_delete t [app_uuid a] false
      | None => []
      end
  end.

(* add_appointment: charge (UPDATE users), then the store path, then the receipt is returned *)
Definition tr_add_appointment (sc : script) (t : tower) (signer : option N)
           (loc : N) (b : blob) (delay sig : N) : list micro :=
  match authenticate t signer with
  | None => [MAck]
  | Some u =>
      match gk_get t u with
      | None => [MAck]
      | Some ui =>
          if N.leb (u_expiry ui) (gk_height t) then [MAck]
          else
            let a := mk_app loc u b delay sig (w_height t) in
            match find_trk (db_trks t) (loc, u) with
            | Some _ => [MAck]
            | None =>
                tr_charge t u (loc, u) (b_len b) ++
                match gk_add_update_appointment t u (loc, u) (b_len b) with
                | Abort _ _ => []
                | Ok None _ => [MAck]
                | Ok (Some _) t1 =>
                    match ti_get (w_cache t1) loc with
                    | Some dispute =>
                        tr_store_triggered sc t1 a dispute ++
                        match w_store_triggered sc t1 a dispute with Ok _ _ => [MAck] | Abort _ _ => [] end
                    | None =>
                        tr_store_appointment t1 a ++
                        match w_store_appointment t1 a with Ok _ _ => [MAck] | Abort _ _ => [] end
                    end
                end
            end
      end
  end.

(* handle_breaches: per breached locator (HashMap order) every row with that locator (SQL order) *)
Fixpoint tr_breach_uuid_loop (sc : script) (dispute : N) (us : list (N * N)) (t : tower) (invalid : list (N * N))
  : list micro :=
  match us with
  | [] => []
  | uuid :: r =>
      match find_app (db_apps t) uuid with
      | None => tr_breach_uuid_loop sc dispute r t invalid
      | Some a =>
          match decrypt (a_blob a) dispute with
          | Some penalty =>
              tr_handle_breach sc t uuid dispute penalty ++
              match r_handle_breach sc t uuid dispute penalty with
              | Abort _ _ => []
              | Ok s t1 => tr_breach_uuid_loop sc dispute r t1 (if status_rejected s then invalid ++ [uuid] else invalid)
              end
          | None => tr_breach_uuid_loop sc dispute r t (invalid ++ [uuid])
          end
      end
  end.

Fixpoint tr_breach_loop (sc : script) (disputes : list N) (t : tower) (invalid : list (N * N)) : list (list micro) :=
  match disputes with
  | [] => []
  | d :: r =>
      let us := map app_uuid (filter (fun a => N.eqb (a_loc a) d) (db_apps t)) in
      tr_breach_uuid_loop sc d us t invalid ::
      match breach_uuid_loop sc d us t invalid with
      | Abort _ _ => []
      | Ok inv t1 => tr_breach_loop sc r t1 inv
      end
  end.

Definition tr_w_block (sc : script) (t : tower) (b : iblock N) (h : N) : list seg :=
  match ti_update (w_cache t) b with
  | None => []
  | Some c =>
      let t1 := set_w_cache t c in
      let breaches := filter (fun d => existsb (fun a => N.eqb (a_loc a) d) (db_apps t1)) (keys_of (ib_data b)) in
      Par (tr_breach_loop sc breaches t1 []) ::
      match breach_loop sc breaches t1 [] with
      | Abort _ _ => []
      | Ok invalid t2 => [Seq (match invalid with [] => [] | l => tr_delete t2 l false end)]
      end
  end.

(* ------------------------------------------------------------------------------------------ *)
(* the listeners in the generated order, and the operations *)

Definition tr_listener_connected (le : bool) (sc : script) (hash : N) (txs : list N) (h : N) (which : Z) (t : tower)
  : list seg :=
  if Z.eqb which 0 then [Seq (tr_gk_block t h)]
  else if Z.eqb which 1 then tr_w_block sc t (cache_block hash txs) h
  else tr_r_block le sc t (index_block hash txs) h.

Fixpoint tr_listeners (f : Z -> tower -> res unit) (tr : Z -> tower -> list seg) (order : list Z) (t : tower)
  : list seg :=
  match order with
  | [] => []
  | w :: r => tr w t ++ match f w t with Ok _ t1 => tr_listeners f tr r t1 | Abort _ _ => [] end
  end.

Definition ack_if_ok {A} (r : res A) : list micro := match r with Ok _ _ => [MAck] | Abort _ _ => [] end.

(* the durable trace of one operation, started in state t with the node answering by sc *)
Definition op_segs (le : bool) (t : tower) (o : op) (sc : script) : list seg :=
  let t := set_rpc_log t [] in
  match o with
  | ORegister u => [Seq (tr_add_update_user t u ++ ack_if_ok (gk_add_update_user t u))]
  | OAdd signer loc b delay sig => [Seq (tr_add_appointment sc t signer loc b delay sig)]
  | OGet signer loc => [Seq (ack_if_ok (w_get_appointment t signer loc))]
  | OGetSub signer => [Seq (ack_if_ok (w_get_subscription_info t signer))]
  | OConnect hash txs =>
      tr_listeners (listener_connected le sc hash txs (gk_height t + 1))
                   (tr_listener_connected le sc hash txs (gk_height t + 1)) Consts.LISTENER_ORDER t
  | ODisconnect => []     (* block_disconnected x3: memory only *)
  end.

Definition op_micro (le : bool) (t : tower) (o : op) (sc : script) : list micro := flat_segs (op_segs le t o sc).
Definition op_stmts (le : bool) (t : tower) (o : op) (sc : script) : list stmt := stmts_of (op_micro le t o sc).

(* the tables after a kill once the first k micro steps have completed *)
Definition crash_at (le : bool) (k : nat) (t : tower) (o : op) (sc : script) : db :=
  execs (db_of t) (stmts_of (firstn k (op_micro le t o sc))).

(* restart after a kill during an operation started in t: main() bootstraps at the last known block,
   which is not advanced before the poll delivering the block has returned (see poll_trace below), so
   heights and both indexes are rebuilt as they were before the operation; the gatekeeper's map is
   loaded from table users; the carrier's memo, the reorged set and the RPC log start empty *)
Definition volatile_reset (t : tower) : tower := set_rpc_log (set_car_memo t []) [].
Definition restart (t : tower) (d : db) : tower := recover (volatile_reset t) d.

(* ------------------------------------------------------------------------------------------ *)
(* polls and the last known block (chain_monitor.rs, main.rs; flags regenerated in Gen/Bootstrap.v) *)

Record dstate := mk_ds { ds_db : db; ds_lkb : option N }.

Inductive pmicro :=
| PM (m : micro)
| PPersist (hash : N).              (* INSERT OR REPLACE INTO last_known_block *)

Definition pexec (s : dstate) (m : pmicro) : dstate :=
  match m with
  | PM (MStmt st) => mk_ds (exec (ds_db s) st) (ds_lkb s)
  | PM _ => s
  | PPersist h => mk_ds (ds_db s) (Some h)
  end.

(* the blocks a poll delivers (disconnections from the tip down, then connections upward) *)
Fixpoint poll_blocks (le : bool) (t : tower) (blocks : list (op * script)) : list pmicro :=
  match blocks with
  | [] => []
  | (o, sc) :: r => map PM (op_micro le t o sc) ++ poll_blocks le (fst (step le t o sc)) r
  end.

(* ... and only then, if the polled tip is better, its hash is persisted *)
Definition poll_trace (le : bool) (t : tower) (blocks : list (op * script)) (polled_tip : N) : list pmicro :=
  poll_blocks le t blocks ++ (if Bootstrap.POLL_PERSISTS_BETTER_TIP then [PPersist polled_tip] else []).

Definition poll_crash_at (le : bool) (k : nat) (t : tower) (blocks : list (op * script)) (polled_tip : N) (s0 : dstate) : dstate :=
  fold_left pexec (firstn k (poll_trace le t blocks polled_tip)) s0.

(* main(): bootstrap at the stored last known block, else at the node's best tip, which is persisted
   at once iff the generated flag says so *)
Definition bootstrap_tip (stored : option N) (node_best : N) : N :=
  match stored with Some h => h | None => node_best end.
Definition lkb_after_bootstrap (stored : option N) (node_best : N) : option N :=
  match stored with
  | Some h => Some h
  | None => if Bootstrap.BOOTSTRAP_PERSISTS_TIP then Some node_best else None
  end.

(* ------------------------------------------------------------------------------------------ *)
(* vocabulary of the statements of C03 *)

(* a statement that removes the appointment row `uuid` (and, by cascade, its tracker) *)
Fixpoint deletes_fuel (fuel : nat) (uuid : N * N) (s : stmt) : bool :=
  match s with
  | SDelApps us => mem_uuid uuid us
  | SDelUsers us => memN (snd uuid) us
  | STxn l => match fuel with O => false | S f => existsb (deletes_fuel f uuid) l end
  | _ => false
  end.
Definition deletes (uuid : N * N) (s : stmt) : bool := deletes_fuel 2 uuid s.

(* a statement that replaces the content of row `uuid` (an update by its owner) *)
Fixpoint replaces_fuel (fuel : nat) (uuid : N * N) (s : stmt) : bool :=
  match s with
  | SUpdApp a => uuid_eqb (app_uuid a) uuid
  | STxn l => match fuel with O => false | S f => existsb (replaces_fuel f uuid) l end
  | _ => false
  end.
Definition replaces (uuid : N * N) (s : stmt) : bool := replaces_fuel 2 uuid s.

Definition has_app (d : db) (uuid : N * N) : bool := existsb (fun a => uuid_eqb (app_uuid a) uuid) (d_apps d).
Definition has_trk (d : db) (uuid : N * N) : bool := existsb (fun k => uuid_eqb (trk_uuid k) uuid) (d_trks d).

(* an update that makes the blob need fewer slots than the stored version holds *)
Definition shrinking_update (t : tower) (o : op) : Prop :=
  match o with
  | OAdd (Some u) loc b _ _ =>
      exists a0, find_app (db_apps t) (loc, u) = Some a0 /\ slots_of (b_len b) < slots_of (b_len (a_blob a0))
  | _ => False
  end.

(* statements that only remove rows or touch trackers: none can raise a balance *)
Fixpoint harmless_fuel (fuel : nat) (s : stmt) : bool :=
  match s with
  | SDelUsers _ | SDelApps _ | SInsTrk _ | SUpdTrk _ _ _ => true
  | STxn l => match fuel with O => false | S f => forallb (harmless_fuel f) l end
  | _ => false
  end.
Definition harmless (s : stmt) : bool := harmless_fuel 2 s.

(* the trackers' rows up to the stamp of unconfirmed ones (InMempoolSince h: h is when the node was
   last given the penalty) *)
Definition trk_nostamp (k : trk) : trk :=
  if t_conf k then k else mk_trk (t_loc k) (t_user k) (t_dispute k) (t_penalty k) 0 false.
Definition db_nostamp (d : db) : db := mk_db (d_users d) (d_apps d) (map trk_nostamp (d_trks d)).

(* what an operation legitimately adds to a user's slots when it completes: the subscription slots of
   a registration, for the registering user *)
Definition grant (t : tower) (o : op) (v : N) : N :=
  match o with ORegister u => if N.eqb v u then c_slots (cfg t) else 0 | _ => 0 end.

(* ------------------------------------------------------------------------------------------ *)
(* a concrete reachable tower (bootstrapped at height 120 on 100 empty blocks; two users; user 1 holds
   a 3-slot appointment, user 2 a 1-slot one) and an update shrinking user 1's appointment to 1 slot:
   the witness of never_grants_refuted and of the non-vacuity examples *)
Definition ex_dummy : tower :=
  mk_tower (mk_config 0 0 0) [] 0 [] [] [] 0 (mk_txindex [] [] [] 0%Z 0) (mk_txindex [] [] [] 0%Z 0) 0 [] [] [].
Definition ex_cfg : config := mk_config 10 300 5.
Definition ex_blocks : list (N * list N) := map (fun k => (1000 + N.of_nat k, @nil N)) (seq 0 100).
Definition ex_t0 : tower := match init ex_cfg 120 ex_blocks with Some t => t | None => ex_dummy end.
Definition ex_hist : list (op * script) :=
  [(ORegister 1, []); (ORegister 2, []); (OAdd (Some 1) 7 (mk_blob 7 (Some 9) 4100) 20 1, []);
   (OAdd (Some 2) 8 (mk_blob 8 (Some 19) 100) 20 2, [])].
Definition ex_t : tower := fst (run true ex_t0 ex_hist).
Definition ex_shrink : op := OAdd (Some 1) 7 (mk_blob 7 (Some 9) 100) 20 3.
