(* Crypto.v — model of teos-common/src/cryptography.rs and Locator::new.
   (a) the AEAD as a CONSTRUCTION over abstract keystream / tag / key-hash functions (Section AEAD):
       seal, open, encrypt, decrypt — the RFC 8439 shape the chacha20poly1305 crate implements
       (ciphertext = plaintext xor keystream, tag over the ciphertext appended, tag compared before
       anything is decrypted, key = H(txid bytes), constant nonce, no associated data);
   (b) a CONCRETE instance in Gallina: SHA-256 (FIPS 180-4), ChaCha20, Poly1305 and their RFC 8439
       AEAD composition, executable by vm_compute / extraction;
   (c) zbase32 (lightning::util::base32, ZBase32 alphabet) and the recoverable-signature container
       of lightning::util::message_signing, the signed digest, and the locator.
   Bytes are N (< 256).  No proofs in this file. *)
From TeosModel Require Import Base BtcCodec.
From TeosModel.Gen Require Consts CryptoParams.
Local Open Scope N_scope.

(* ================================================================================== *)
(* (a) the construction                                                                *)
(* ================================================================================== *)

(* in-place xor of a buffer with a keystream (apply_keystream): the buffer's length is kept *)
Fixpoint xor_with (m ks : bytes) : bytes :=
  match m, ks with
  | [], _ => []
  | _, [] => m
  | x :: m', k :: ks' => N.lxor x k :: xor_with m' ks'
  end.

Definition TAG_LEN : nat := 16.

(* a tag is TAG_LEN bytes (Poly1305's output always is; see poly1305_length in CryptoProofs.v);
   for an arbitrary function the value is cut / zero-filled to that size *)
Definition tag_fit (n : nat) (l : bytes) : bytes := firstn n (l ++ repeat 0 n).

Fixpoint cr_bytes_eqb (a b : bytes) : bool :=
  match a, b with
  | [], [] => true
  | x :: a', y :: b' => (x =? y) && cr_bytes_eqb a' b'
  | _, _ => false
  end.

Inductive cr_dec_result :=
| DecOk (t : btx)
| DecAead                 (* DecryptingError::AED: too short or tag mismatch *)
| DecEncode (e : btc_derr).   (* DecryptingError::Encode: the plaintext is not exactly one transaction *)

Section AEAD.
  Context (stream : bytes -> nat -> bytes)   (* key -> length -> keystream for the payload *)
          (tag : bytes -> bytes -> bytes)    (* key -> ciphertext -> authentication tag *)
          (H : bytes -> bytes).              (* txid bytes -> AEAD key *)

  Definition tagN (key ct : bytes) : bytes := tag_fit TAG_LEN (tag key ct).

  (* Aead::encrypt: postfix tag *)
  Definition ae_seal (key m : bytes) : bytes :=
    let ct := xor_with m (stream key (length m)) in
    ct ++ tagN key ct.

  (* Aead::decrypt: Err if shorter than a tag; the tag over the ciphertext is compared first
     (constant-time comparison = equality); only then is the keystream applied *)
  Definition ae_open (key c : bytes) : option bytes :=
    if Nat.ltb (length c) TAG_LEN then None
    else
      let n := (length c - TAG_LEN)%nat in
      let ct := firstn n c in
      let tg := skipn n c in
      if cr_bytes_eqb (tagN key ct) tg then Some (xor_with ct (stream key (length ct))) else None.

  Definition ae_encrypt (t : btx) (k : bytes) : bytes := ae_seal (H k) (tx_encode t).

  Definition ae_decrypt_r (c k : bytes) : cr_dec_result :=
    match ae_open (H k) c with
    | None => DecAead
    | Some p => match tx_deserialize p with
                | inl t => DecOk t
                | inr e => DecEncode e
                end
    end.

  Definition ae_decrypt (c k : bytes) : option btx :=
    match ae_decrypt_r c k with DecOk t => Some t | _ => None end.

  (* The events a successful `open` of something other than the sealed blob under its own key
     exhibits.  They are what the cryptographic assumptions (Poly1305 one-time-MAC security with a
     ChaCha20-derived key, SHA-256 collision resistance) exclude; they are stated, not assumed. *)
  Definition key_hash_collision (k k' : bytes) : Prop := k <> k' /\ H k = H k'.
  (* the same tag for two different (key, ciphertext) pairs *)
  Definition tag_collision (K ct K' ct' : bytes) : Prop :=
    (K, ct) <> (K', ct') /\ tagN K ct = tagN K' ct'.
  (* a valid tag tg' for a ciphertext ct' that was never sealed under K (only ct was) *)
  Definition tag_forgery (K ct ct' tg' : bytes) : Prop :=
    ct' <> ct /\ tagN K ct' = tg'.
End AEAD.

(* ================================================================================== *)
(* (b) the concrete instance                                                           *)
(* ================================================================================== *)

Definition MASK32 : N := 4294967295.
Definition w32 (x : N) : N := N.land x MASK32.
Definition add32 (a b : N) : N := w32 (a + b).
Definition rotl32 (x n : N) : N := N.lor (w32 (N.shiftl x n)) (N.shiftr x (32 - n)).
Definition rotr32 (x n : N) : N := N.lor (N.shiftr x n) (w32 (N.shiftl x (32 - n))).
Definition lxor3 (a b c : N) : N := N.lxor (N.lxor a b) c.

Definition cr_be_bytes (n : nat) (v : N) : bytes := rev (le_bytes n v).
Definition cr_be_val (bs : bytes) : N := le_val (rev bs).

(* consecutive chunks of n elements (the last one may be shorter); fuel >= length l suffices *)
Fixpoint cr_chunks {A} (fuel n : nat) (l : list A) : list (list A) :=
  match l, fuel with
  | [], _ => []
  | _, O => []
  | _, S f => firstn n l :: cr_chunks f n (skipn n l)
  end.

(* ---------- SHA-256 (FIPS 180-4) ---------- *)
Definition SHA_K : list N :=
  [1116352408; 1899447441; 3049323471; 3921009573; 961987163; 1508970993; 2453635748; 2870763221;
   3624381080; 310598401; 607225278; 1426881987; 1925078388; 2162078206; 2614888103; 3248222580;
   3835390401; 4022224774; 264347078; 604807628; 770255983; 1249150122; 1555081692; 1996064986;
   2554220882; 2821834349; 2952996808; 3210313671; 3336571891; 3584528711; 113926993; 338241895;
   666307205; 773529912; 1294757372; 1396182291; 1695183700; 1986661051; 2177026350; 2456956037;
   2730485921; 2820302411; 3259730800; 3345764771; 3516065817; 3600352804; 4094571909; 275423344;
   430227734; 506948616; 659060556; 883997877; 958139571; 1322822218; 1537002063; 1747873779;
   1955562222; 2024104815; 2227730452; 2361852424; 2428436474; 2756734187; 3204031479; 3329325298].

Definition SHA_H0 : list N :=
  [1779033703; 3144134277; 1013904242; 2773480762; 1359893119; 2600822924; 528734635; 1541459225].

Definition sha_ch (x y z : N) : N := N.lxor (N.land x y) (N.land (N.lxor x MASK32) z).
Definition sha_maj (x y z : N) : N := lxor3 (N.land x y) (N.land x z) (N.land y z).
Definition sha_bsig0 (x : N) : N := lxor3 (rotr32 x 2) (rotr32 x 13) (rotr32 x 22).
Definition sha_bsig1 (x : N) : N := lxor3 (rotr32 x 6) (rotr32 x 11) (rotr32 x 25).
Definition sha_ssig0 (x : N) : N := lxor3 (rotr32 x 7) (rotr32 x 18) (N.shiftr x 3).
Definition sha_ssig1 (x : N) : N := lxor3 (rotr32 x 17) (rotr32 x 19) (N.shiftr x 10).

(* the 64 rounds over a sliding window w of the 16 most recent schedule words (w[0] = W_t) *)
Fixpoint sha_rounds (ks : list N) (w : list N) (s : list N) : list N :=
  match ks with
  | [] => s
  | k :: ks' =>
    let g i := nth i s 0 in
    let wt := nth 0 w 0 in
    let t1 := w32 (g 7%nat + sha_bsig1 (g 4%nat) + sha_ch (g 4%nat) (g 5%nat) (g 6%nat) + k + wt) in
    let t2 := w32 (sha_bsig0 (g 0%nat) + sha_maj (g 0%nat) (g 1%nat) (g 2%nat)) in
    let wnew := w32 (sha_ssig1 (nth 14 w 0) + nth 9 w 0 + sha_ssig0 (nth 1 w 0) + wt) in
    sha_rounds ks' (tl w ++ [wnew])
               [add32 t1 t2; g 0%nat; g 1%nat; g 2%nat; add32 (g 3%nat) t1; g 4%nat; g 5%nat; g 6%nat]
  end.

Fixpoint cr_map2 {A B C} (f : A -> B -> C) (a : list A) (b : list B) : list C :=
  match a, b with
  | x :: a', y :: b' => f x y :: cr_map2 f a' b'
  | _, _ => []
  end.

Definition sha_block (s : list N) (block : bytes) : list N :=
  cr_map2 add32 s (sha_rounds SHA_K (map cr_be_val (cr_chunks 16 4 block)) s).

Definition sha_pad (msg : bytes) : bytes :=
  let l := length msg in
  msg ++ [128] ++ repeat 0 ((64 - (l + 9) mod 64) mod 64)%nat ++ cr_be_bytes 8 (8 * N.of_nat l).

Definition sha256 (msg : bytes) : bytes :=
  let p := sha_pad msg in
  flat_map (cr_be_bytes 4) (fold_left sha_block (cr_chunks (length p) 64 p) SHA_H0).

(* ---------- ChaCha20 (RFC 8439 section 2.3 / 2.4) ---------- *)
Definition cr_upd (l : list N) (i : nat) (v : N) : list N := firstn i l ++ v :: skipn (S i) l.

Definition cc_qr (s : list N) (a b c d : nat) : list N :=
  let xa := nth a s 0 in let xb := nth b s 0 in let xc := nth c s 0 in let xd := nth d s 0 in
  let xa := add32 xa xb in let xd := rotl32 (N.lxor xd xa) 16 in
  let xc := add32 xc xd in let xb := rotl32 (N.lxor xb xc) 12 in
  let xa := add32 xa xb in let xd := rotl32 (N.lxor xd xa) 8 in
  let xc := add32 xc xd in let xb := rotl32 (N.lxor xb xc) 7 in
  cr_upd (cr_upd (cr_upd (cr_upd s a xa) b xb) c xc) d xd.

Definition cc_double_round (s : list N) : list N :=
  let s := cc_qr s 0 4 8 12 in let s := cc_qr s 1 5 9 13 in
  let s := cc_qr s 2 6 10 14 in let s := cc_qr s 3 7 11 15 in
  let s := cc_qr s 0 5 10 15 in let s := cc_qr s 1 6 11 12 in
  let s := cc_qr s 2 7 8 13 in cc_qr s 3 4 9 14.

Fixpoint cr_iter {A} (n : nat) (f : A -> A) (x : A) : A :=
  match n with O => x | S n' => cr_iter n' f (f x) end.

(* "expand 32-byte k" *)
Definition CC_CONST : list N := [1634760805; 857760878; 2036477234; 1797285236].

(* one 64-byte keystream block; key 32 bytes, nonce 12 bytes, 32-bit block counter *)
Definition chacha_block (key : bytes) (counter : N) (nonce : bytes) : bytes :=
  let init := CC_CONST ++ map le_val (cr_chunks 8 4 key) ++ [w32 counter] ++ map le_val (cr_chunks 3 4 nonce) in
  flat_map (le_bytes 4) (cr_map2 add32 init (cr_iter 10 cc_double_round init)).

Fixpoint chacha_blocks (nblocks : nat) (key : bytes) (counter : N) (nonce : bytes) : bytes :=
  match nblocks with
  | O => []
  | S n' => chacha_block key counter nonce ++ chacha_blocks n' key (counter + 1) nonce
  end.

(* n keystream bytes starting at block `counter` *)
Definition chacha_stream (key nonce : bytes) (counter : N) (n : nat) : bytes :=
  firstn n (chacha_blocks ((n + 63) / 64) key counter nonce).

(* ---------- Poly1305 (RFC 8439 section 2.5) ---------- *)
Definition P1305 : N := 1361129467683753853853498429727072845819.   (* 2^130 - 5 *)
Definition P1305_CLAMP : N := 21267647620597763993911028882763415551. (* 0x0ffffffc0ffffffc0ffffffc0fffffff *)

Fixpoint poly_blocks (fuel : nat) (r acc : N) (msg : bytes) : N :=
  match msg, fuel with
  | [], _ => acc
  | _, O => acc
  | _, S f =>
    let n := le_val (firstn 16 msg ++ [1]) in
    poly_blocks f r (((acc + n) * r) mod P1305) (skipn 16 msg)
  end.

Definition poly1305 (key msg : bytes) : bytes :=
  let r := N.land (le_val (firstn 16 key)) P1305_CLAMP in
  let s := le_val (firstn 16 (skipn 16 key)) in
  le_bytes 16 (poly_blocks (length msg) r 0 msg + s).

(* ---------- AEAD_CHACHA20_POLY1305 (RFC 8439 section 2.8) ---------- *)
Definition pad16 (l : bytes) : bytes := repeat 0 ((16 - length l mod 16) mod 16)%nat.

Definition aead_mac_data (aad ct : bytes) : bytes :=
  aad ++ pad16 aad ++ ct ++ pad16 ct ++
  le_bytes 8 (N.of_nat (length aad)) ++ le_bytes 8 (N.of_nat (length ct)).

(* the Poly1305 key is the first 32 bytes of keystream block 0; the payload uses blocks 1.. *)
Definition cc_tag (nonce aad : bytes) (key ct : bytes) : bytes :=
  poly1305 (firstn 32 (chacha_block key 0 nonce)) (aead_mac_data aad ct).
Definition cc_stream (nonce : bytes) (key : bytes) (n : nat) : bytes := chacha_stream key nonce 1 n.

Definition aead_seal (key nonce aad pt : bytes) : bytes := ae_seal (cc_stream nonce) (cc_tag nonce aad) key pt.
Definition aead_open (key nonce aad c : bytes) : option bytes := ae_open (cc_stream nonce) (cc_tag nonce aad) key c.

(* cryptography::encrypt / decrypt: nonces as generated from the source, no associated data *)
Definition c_encrypt (t : btx) (k : bytes) : bytes :=
  ae_encrypt (cc_stream CryptoParams.ENC_NONCE) (cc_tag CryptoParams.ENC_NONCE []) sha256 t k.
Definition c_decrypt_r (c k : bytes) : cr_dec_result :=
  ae_decrypt_r (cc_stream CryptoParams.DEC_NONCE) (cc_tag CryptoParams.DEC_NONCE []) sha256 c k.
Definition c_decrypt (c k : bytes) : option btx :=
  ae_decrypt (cc_stream CryptoParams.DEC_NONCE) (cc_tag CryptoParams.DEC_NONCE []) sha256 c k.

(* ================================================================================== *)
(* (c) locator, zbase32, signature container                                           *)
(* ================================================================================== *)

(* Locator::new(txid) = txid[LOCATOR_FROM..LOCATOR_TO]: indexing a Txid indexes its byte array in
   serialisation order (the reverse of the order the hex display uses) *)
Definition cr_locator (k : bytes) : bytes :=
  firstn (Z.to_nat (CryptoParams.LOCATOR_TO - CryptoParams.LOCATOR_FROM))
         (skipn (Z.to_nat CryptoParams.LOCATOR_FROM) k).

(* u8 arithmetic *)
Definition shl8 (x k : N) : N := N.land (N.shiftl x k) 255.

(* b"ybndrfg8ejkmcpqxot1uwisza345h769" (checked against the text in CryptoVectors.v) *)
Definition ZBASE_ALPHABET : bytes :=
  [121; 98; 110; 100; 114; 102; 103; 56; 101; 106; 107; 109; 99; 112; 113; 120; 111; 116; 49; 117; 119; 105; 115; 122; 97; 51; 52; 53; 104; 55; 54; 57].

(* ZBASE_INV_ALPHABET, indexed by to_ascii_uppercase(c).wrapping_sub(b'0') *)
Definition ZBASE_INV : list Z :=
  [-1; 18; -1; 25; 26; 27; 30; 29; 7; 31; -1; -1; -1; -1; -1; -1; -1; 24; 1; 12; 3; 8; 5; 6; 28;
   21; 9; 10; -1; 11; 2; 16; 13; 14; 4; 22; 17; 19; -1; 20; 15; 0; 23]%Z.

(* encode_data, one chunk: the chunk is copied into a zeroed 5-byte buffer *)
Definition crzb_enc_chunk (c : bytes) : list N :=
  let b i := nth i c 0 in
  [ N.shiftr (N.land (b 0%nat) 248) 3;
    N.lor (shl8 (N.land (b 0%nat) 7) 2) (N.shiftr (N.land (b 1%nat) 192) 6);
    N.shiftr (N.land (b 1%nat) 62) 1;
    N.lor (shl8 (N.land (b 1%nat) 1) 4) (N.shiftr (N.land (b 2%nat) 240) 4);
    N.lor (shl8 (N.land (b 2%nat) 15) 1) (N.shiftr (b 3%nat) 7);
    N.shiftr (N.land (b 3%nat) 124) 2;
    N.lor (shl8 (N.land (b 3%nat) 3) 3) (N.shiftr (N.land (b 4%nat) 224) 5);
    N.land (b 4%nat) 31 ].

Fixpoint crzb_enc_data (fuel : nat) (data : bytes) : list N :=
  match data, fuel with
  | [], _ => []
  | _, O => []
  | _, S f => crzb_enc_chunk (firstn 5 data) ++ crzb_enc_data f (skipn 5 data)
  end.

(* Alphabet::ZBase32.encode: characters as their ASCII codes *)
Definition crzb_encode (data : bytes) : bytes :=
  map (fun q => nth (N.to_nat q) ZBASE_ALPHABET 0)
      (firstn ((length data * 8 + 4) / 5) (crzb_enc_data (length data) data)).

Definition ascii_upper (c : N) : N := if (97 <=? c) && (c <=? 122) then c - 32 else c.

(* alphabet.get(c.to_ascii_uppercase().wrapping_sub(b'0') as usize): None or -1 = invalid *)
Definition crzb_inv (c : N) : option N :=
  let i := (ascii_upper c + 256 - 48) mod 256 in
  match nth_error ZBASE_INV (N.to_nat i) with
  | Some v => if (v <? 0)%Z then None else Some (Z.to_N v)
  | None => None
  end.

Fixpoint cr_opt_map_all {A B} (f : A -> option B) (l : list A) : option (list B) :=
  match l with
  | [] => Some []
  | x :: r => match f x, cr_opt_map_all f r with
              | Some y, Some ys => Some (y :: ys)
              | _, _ => None
              end
  end.

(* decode_data, one chunk of values copied into a zeroed 8-byte buffer *)
Definition crzb_dec_chunk (v : list N) : bytes :=
  let b i := nth i v 0 in
  [ N.lor (shl8 (b 0%nat) 3) (N.shiftr (b 1%nat) 2);
    N.lor (N.lor (shl8 (b 1%nat) 6) (shl8 (b 2%nat) 1)) (N.shiftr (b 3%nat) 4);
    N.lor (shl8 (b 3%nat) 4) (N.shiftr (b 4%nat) 1);
    N.lor (N.lor (shl8 (b 4%nat) 7) (shl8 (b 5%nat) 2)) (N.shiftr (b 6%nat) 3);
    N.lor (shl8 (b 6%nat) 5) (b 7%nat) ].

Fixpoint crzb_dec_data (fuel : nat) (vals : list N) : bytes :=
  match vals, fuel with
  | [], _ => []
  | _, O => []
  | _, S f => crzb_dec_chunk (firstn 8 vals) ++ crzb_dec_data f (skipn 8 vals)
  end.

(* Alphabet::ZBase32.decode *)
Definition crzb_decode (s : bytes) : option bytes :=
  let l := length s in
  let m := (l mod 8)%nat in
  if Nat.eqb m 1 || Nat.eqb m 3 || Nat.eqb m 6 then None
  else match cr_opt_map_all crzb_inv s with
       | None => None
       | Some vals =>
         let ret := crzb_dec_data l vals in
         let n := (l * 5 / 8)%nat in
         if forallb (fun c => c =? 0) (skipn n ret) then Some (firstn n ret) else None
       end.

(* message_signing: SigRec = (31 + recovery id) :: 64-byte compact signature, zbase32 text *)
Definition SIGREC_BASE : N := 31.
Definition sigrec_encode (rid : N) (compact : bytes) : bytes := (SIGREC_BASE + rid) :: compact.

(* sigrec_decode: length 65, RecoveryId::from_i32(byte - 31) accepts 0..3 *)
Definition sigrec_decode (b : bytes) : option (N * bytes) :=
  match b with
  | p :: compact =>
    if Nat.eqb (length b) 65 && (SIGREC_BASE <=? p) && (p <=? SIGREC_BASE + 3)
    then Some (p - SIGREC_BASE, compact) else None
  | [] => None
  end.

Definition lnsig_encode (rid : N) (compact : bytes) : bytes := crzb_encode (sigrec_encode rid compact).
Definition lnsig_decode (s : bytes) : option (N * bytes) :=
  match crzb_decode s with Some b => sigrec_decode b | None => None end.

(* the digest that is signed: sha256d("Lightning Signed Message:" ++ msg) *)
(* b"Lightning Signed Message:" (checked against the text in CryptoVectors.v) *)
Definition LN_MESSAGE_PREFIX : bytes :=
  [76; 105; 103; 104; 116; 110; 105; 110; 103; 32; 83; 105; 103; 110; 101; 100; 32; 77; 101; 115; 115; 97; 103; 101; 58].
Definition ln_digest (msg : bytes) : bytes := sha256 (sha256 (LN_MESSAGE_PREFIX ++ msg)).

(* ================================================================================== *)
(* monitors (boolean form of the property on the implementation's observations) and     *)
(* the entry points of the extracted driver                                             *)
(* ================================================================================== *)

(* "the locator of k is its first 16 bytes": stated on the bytes, independently of `locator`
   above (which follows what the source says today) *)
Definition mon17_locator (k loc : bytes) : bool := cr_bytes_eqb loc (firstn 16 k).

(* two signature texts denote the same 65-byte value (zbase32 decoding ignores letter case, so
   one value has several spellings) *)
Definition sig_same_value (s s' : bytes) : bool :=
  match crzb_decode s, crzb_decode s' with
  | Some a, Some b => cr_bytes_eqb a b
  | _, _ => false
  end.

(* (msg', sig') is an alteration of the signed (msg, sig) unless the message is unchanged and the
   text still denotes the same signature value; an alteration must not verify for the signer *)
Definition mon17_sig_mutation (msg msg' sig sig' : bytes) (verifies : bool) : bool :=
  if cr_bytes_eqb msg msg' && sig_same_value sig sig' then true else negb verifies.

Definition c17_tx_encode := tx_encode.
Definition c17_tx_deserialize := tx_deserialize.
Definition c17_tx_wf := tx_wf.
Definition c17_encrypt := c_encrypt.
Definition c17_decrypt_r := c_decrypt_r.
Definition c17_locator := cr_locator.
Definition c17_ln_digest := ln_digest.
Definition c17_sig_encode := lnsig_encode.
Definition c17_sig_decode := lnsig_decode.
Definition c17_mon_locator := mon17_locator.
Definition c17_sig_same_value := sig_same_value.
Definition c17_mon_sig_mutation := mon17_sig_mutation.
