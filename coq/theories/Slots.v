(* Slots.v — teos-common/src/appointment.rs, as it is written:

     pub fn compute_appointment_slots(blob_size: usize, blob_max_size: usize) -> u32 {
         (blob_size as f32 / blob_max_size as f32).ceil() as u32
     }

   in IEEE-754 binary32 arithmetic (Flocq, IEEE754.BinarySingleNaN at prec 24 / emax 128):
     `usize as f32`   = conversion of the integer, round to nearest, ties to even   (f32_of_Z)
     `/`              = correctly rounded division, round to nearest even           (f32_div)
     `.ceil()`        = round to integral toward +infinity                          (f32_ceil)
     `as u32`         = truncate toward zero, saturate to [0, 2^32-1], NaN -> 0     (f32_to_u32)
   Every function below computes over Z/positive (no real numbers): the kernel evaluates it
   with vm_compute and the extracted OCaml runs it.  Definitions only; proofs in SlotsProofs.v. *)
From Coq Require Import ZArith NArith.
From Flocq Require Import Core.Core IEEE754.BinarySingleNaN.

Definition f32_prec : Z := 24.
Definition f32_emax : Z := 128.
#[global] Instance f32_prec_gt_0 : FLX.Prec_gt_0 f32_prec := eq_refl.
#[global] Instance f32_prec_lt_emax : Prec_lt_emax f32_prec f32_emax := eq_refl.

Definition f32 : Set := binary_float f32_prec f32_emax.

(* `n as f32` for an integer n (a usize is at most 2^64-1 < 2^128: the conversion never
   overflows; above 2^24 it rounds) *)
Definition f32_of_Z (n : Z) : f32 :=
  binary_normalize f32_prec f32_emax f32_prec_gt_0 f32_prec_lt_emax mode_NE n 0 false.

Definition f32_div (x y : f32) : f32 :=
  @Bdiv f32_prec f32_emax f32_prec_gt_0 f32_prec_lt_emax mode_NE x y.

Definition f32_ceil (x : f32) : f32 :=
  @Bnearbyint f32_prec f32_emax f32_prec_lt_emax mode_UP x.

Definition U32_MAX : Z := 2 ^ 32 - 1.

(* Rust's float -> unsigned integer `as`: NaN -> 0, -inf and negatives -> 0, +inf and anything
   above u32::MAX -> u32::MAX, otherwise the value truncated toward zero *)
Definition f32_to_u32 (x : f32) : Z :=
  match x with
  | B754_nan => 0
  | B754_infinity true => 0
  | B754_infinity false => U32_MAX
  | B754_zero _ => 0
  | B754_finite _ _ _ _ => Z.max 0 (Z.min U32_MAX (@Btrunc f32_prec f32_emax x))
  end.

(* the function; arguments are the two usize values, result the u32 *)
Definition compute_appointment_slots_f32 (blob_size blob_max_size : Z) : N :=
  Z.to_N (f32_to_u32 (f32_ceil (f32_div (f32_of_Z blob_size) (f32_of_Z blob_max_size)))).

(* The exact-arithmetic value the property speaks of: the least number of blob_max_size-byte
   slots that hold blob_size bytes. *)
Definition ceil_div (n d : Z) : Z := (n + (d - 1)) / d.

(* Transport bounds on the size of an encrypted blob the tower can be handed.  The HTTP body cap
   is generated (Gen/Consts.v, ADD_APPOINTMENT_BODY_LEN).  The internal gRPC API uses tonic's
   DEFAULT maximum decoding message size, which is tonic's own constant
   (tonic-0.11 src/codec/mod.rs: DEFAULT_MAX_RECV_MESSAGE_SIZE = 4 * 1024 * 1024), not set
   anywhere in /repo and therefore NOT generated: it is restated here by hand. *)
Definition TONIC_DEFAULT_MAX_RECV_MESSAGE_SIZE : Z := 4194304.

(* largest integer up to which every integer is a binary32 value *)
Definition F32_EXACT_INT_BOUND : Z := 2 ^ 24.
