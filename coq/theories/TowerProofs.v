(* TowerProofs.v — one-step theorems about the sequential tower model: the authentication and
   subscription gate (C06, C09), receipts (C08), registration arithmetic (C09). *)
From TeosModel Require Import Base ListAux TxIndex Tower.
From TeosModel.Gen Require Consts.
From Coq Require Import Lia.

Local Open Scope N_scope.

(* the state an API step starts from: only the ghost RPC log is reset *)
Definition fresh (t : tower) : tower := set_rpc_log t [].

Lemma fresh_fields t :
  gk_users (fresh t) = gk_users t /\ gk_height (fresh t) = gk_height t /\ db_users (fresh t) = db_users t /\
  db_apps (fresh t) = db_apps t /\ db_trks (fresh t) = db_trks t /\ w_height (fresh t) = w_height t /\
  w_cache (fresh t) = w_cache t /\ cfg (fresh t) = cfg t.
Proof. repeat split. Qed.

(* who a request is from, as far as the gate is concerned *)
Definition authentic (t : tower) (signer : option N) : Prop :=
  exists u ui, signer = Some u /\ gk_get t u = Some ui /\ gk_height t < u_expiry ui.

Lemma authenticate_Some t signer u :
  authenticate t signer = Some u -> signer = Some u /\ amem (gk_users t) u = true.
Proof.
  unfold authenticate. destruct signer as [v|]; [|discriminate].
  destruct (amem (gk_users t) v) eqn:E; [|discriminate]. intros H. inversion H. subst. auto.
Qed.

Lemma amem_get {V} (m : amap V) k : amem m k = true -> exists v, aget m k = Some v.
Proof. unfold amem. destruct (aget m k) as [v|]; [eauto|discriminate]. Qed.

(* ---------------- add_appointment ---------------- *)
(* ---- the owner's row at store time ------------------------------------------------------------
   Watcher::store_appointment answers UnknownUser when the INSERT fails on the foreign key.  A user the
   gatekeeper knows has its row (memory = table users in every reachable state), and the charge keeps it. *)
(* user_row_ok is defined next to w_store_ok in Tower.v *)

Lemma amem_update_user (m : list (N * uinfo)) u ui v :
  amem (map (fun r => if N.eqb (fst r) u then (u, ui) else r) m) v = amem m v.
Proof.
  unfold amem. induction m as [|[k x] m IH]; [reflexivity|]. cbn [map fst aget].
  destruct (N.eqb k u) eqn:E; cbn [aget].
  - apply N.eqb_eq in E. subst k. destruct (N.eqb v u); [reflexivity|exact IH].
  - destruct (N.eqb v k); [reflexivity|exact IH].
Qed.

Lemma store_ok_after_charge t u ui' a :
  amem (db_users t) u = true -> a_user a = u -> w_store_ok (p_set_user t u ui') a = true.
Proof.
  intros Hm Ha. unfold w_store_ok. destruct (find_app _ _); [reflexivity|].
  unfold p_set_user, db_update_user. cbn [db_users set_db_users gk_put set_gk_users]. rewrite Ha, amem_update_user. exact Hm.
Qed.

Lemma stored_flag_true (c : txindex N) loc b t1 a :
  w_store_ok t1 a = true ->
  match ti_get c loc with
  | Some dispute => match decrypt b dispute with Some _ => w_store_ok t1 a | None => true end
  | None => w_store_ok t1 a
  end = true.
Proof. intros H. destruct (ti_get c loc) as [d|]; [destruct (decrypt b d)|]; auto. Qed.

Theorem add_success_authentic le t sc signer loc b delay sig t' st sg sl e :
  step le t (OAdd signer loc b delay sig) sc = (t', OAddRes (AddOk st sg sl e)) ->
  authentic t signer.
Proof.
  cbn [step wrap]. unfold w_add_appointment. change (set_rpc_log t []) with (fresh t).
  destruct (authenticate (fresh t) signer) as [u|] eqn:Ea; [|cbn; intros H; inversion H].
  apply authenticate_Some in Ea. destruct Ea as [Hs _].
  destruct (gk_get (fresh t) u) as [ui|] eqn:Eg; [|cbn; intros H; inversion H].
  destruct (N.leb (u_expiry ui) (gk_height (fresh t))) eqn:El; [cbn; intros H; inversion H|].
  intros _. exists u, ui. repeat split; auto. apply N.leb_gt in El. exact El.
Qed.

Theorem add_refused_unchanged le t sc signer loc b delay sig :
  ~ authentic t signer ->
  exists r, step le t (OAdd signer loc b delay sig) sc = (fresh t, r) /\
            (r = OAddRes AddAuthOrSlots \/ (exists e, r = OAddRes (AddExpired e)) \/ (exists s, r = OAbort s)).
Proof.
  intros Hn. cbn [step wrap]. unfold w_add_appointment. change (set_rpc_log t []) with (fresh t).
  destruct (authenticate (fresh t) signer) as [u|] eqn:Ea.
  - apply authenticate_Some in Ea. destruct Ea as [Hs Hm].
    destruct (gk_get (fresh t) u) as [ui|] eqn:Eg.
    + destruct (N.leb (u_expiry ui) (gk_height (fresh t))) eqn:El.
      * eexists. split; [reflexivity|]. right. left. eauto.
      * exfalso. apply Hn. exists u, ui. repeat split; auto. apply N.leb_gt in El. exact El.
    + eexists. split; [reflexivity|]. left. reflexivity.
  - eexists. split; [reflexivity|]. left. reflexivity.
Qed.

(* the expired reply states the expiry *)
Theorem add_expired_states_expiry le t sc u ui loc b delay sig :
  amem (gk_users t) u = true -> gk_get t u = Some ui -> u_expiry ui <= gk_height t ->
  step le t (OAdd (Some u) loc b delay sig) sc = (fresh t, OAddRes (AddExpired (u_expiry ui))).
Proof.
  intros Hm Hg He. cbn [step wrap]. unfold w_add_appointment, authenticate.
  change (set_rpc_log t []) with (fresh t).
  change (gk_users (fresh t)) with (gk_users t). rewrite Hm.
  change (gk_get (fresh t) u) with (gk_get t u). rewrite Hg.
  change (gk_height (fresh t)) with (gk_height t).
  apply N.leb_le in He. rewrite He. reflexivity.
Qed.

(* ---------------- get_appointment / get_subscription_info: reads never change the state ---------------- *)
Theorem get_unchanged le t sc signer loc :
  exists r, step le t (OGet signer loc) sc = (fresh t, r).
Proof.
  cbn [step wrap]. unfold w_get_appointment. change (set_rpc_log t []) with (fresh t).
  destruct (authenticate (fresh t) signer) as [u|]; [|eexists; reflexivity].
  destruct (gk_get (fresh t) u) as [ui|]; [|eexists; reflexivity].
  destruct (N.leb (u_expiry ui) (gk_height (fresh t))); [eexists; reflexivity|].
  destruct (find_trk (db_trks (fresh t)) (loc, u)), (find_app (db_apps (fresh t)) (loc, u)); eexists; reflexivity.
Qed.

Theorem get_success_authentic le t sc signer loc t' r :
  step le t (OGet signer loc) sc = (t', OGetRes r) ->
  (r = GetAuth \/ (exists e, r = GetExpired e)) \/ authentic t signer.
Proof.
  cbn [step wrap]. unfold w_get_appointment. change (set_rpc_log t []) with (fresh t).
  destruct (authenticate (fresh t) signer) as [u|] eqn:Ea; [|cbn; intros H; inversion H; auto].
  apply authenticate_Some in Ea. destruct Ea as [Hs _].
  destruct (gk_get (fresh t) u) as [ui|] eqn:Eg; [|cbn; intros H; inversion H; left; left; reflexivity].
  destruct (N.leb (u_expiry ui) (gk_height (fresh t))) eqn:El; [cbn; intros H; inversion H; left; right; eauto|].
  intros _. right. exists u, ui. repeat split; auto. apply N.leb_gt in El. exact El.
Qed.

(* what a successful read reveals is the signer's own record *)
Theorem get_reveals_own le t sc u loc t' r :
  step le t (OGet (Some u) loc) sc = (t', OGetRes r) ->
  match r with
  | GetApp l b d => exists a, find_app (db_apps t) (loc, u) = Some a /\ l = a_loc a /\ b = a_blob a /\ d = a_delay a
  | GetTrk d p => exists k, find_trk (db_trks t) (loc, u) = Some k /\ d = t_dispute k /\ p = t_penalty k
  | _ => True
  end.
Proof.
  cbn [step wrap]. unfold w_get_appointment. change (set_rpc_log t []) with (fresh t).
  destruct (authenticate (fresh t) (Some u)) as [v|] eqn:Ea; [|cbn; intros H; inversion H; exact I].
  apply authenticate_Some in Ea. destruct Ea as [Hs _]. inversion Hs. subst v.
  destruct (gk_get (fresh t) u) as [ui|]; [|cbn; intros H; inversion H; exact I].
  destruct (N.leb (u_expiry ui) (gk_height (fresh t))); [cbn; intros H; inversion H; exact I|].
  change (db_trks (fresh t)) with (db_trks t). change (db_apps (fresh t)) with (db_apps t).
  destruct (find_trk (db_trks t) (loc, u)) as [k|] eqn:Ek, (find_app (db_apps t) (loc, u)) as [a|] eqn:Eap;
    cbn; intros H; inversion H; subst; eauto.
Qed.

Theorem getsub_unchanged le t sc signer :
  exists r, step le t (OGetSub signer) sc = (fresh t, r).
Proof.
  cbn [step wrap]. unfold w_get_subscription_info. change (set_rpc_log t []) with (fresh t).
  destruct (authenticate (fresh t) signer) as [u|]; [|eexists; reflexivity].
  destruct (gk_get (fresh t) u) as [ui|]; [|eexists; reflexivity].
  destruct (N.leb (u_expiry ui) (gk_height (fresh t))); eexists; reflexivity.
Qed.

Theorem getsub_success_authentic le t sc signer t' s e locs :
  step le t (OGetSub signer) sc = (t', OSubRes (SubOk s e locs)) -> authentic t signer.
Proof.
  cbn [step wrap]. unfold w_get_subscription_info. change (set_rpc_log t []) with (fresh t).
  destruct (authenticate (fresh t) signer) as [u|] eqn:Ea; [|cbn; intros H; inversion H].
  apply authenticate_Some in Ea. destruct Ea as [Hs _].
  destruct (gk_get (fresh t) u) as [ui|] eqn:Eg; [|cbn; intros H; inversion H].
  destruct (N.leb (u_expiry ui) (gk_height (fresh t))) eqn:El; [cbn; intros H; inversion H|].
  intros _. exists u, ui. repeat split; auto. apply N.leb_gt in El. exact El.
Qed.
