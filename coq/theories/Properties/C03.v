(* C03 — tower crash at any instant and restart loses no acknowledged work.
   Statements only.  What is a theorem here: referential integrity of the database after ANY crash
   (a crash leaves the effect of a prefix of atomic statements), for every statement sequence
   whatever the code issues; recovery from any such database yields the tower invariant; the
   primitive table updates of the tower model are such statements; the bootstrap/persist rules read
   from main.rs and chain_monitor.rs.
   OPERATION level (second half of this file): every operation of the tower model has a durable
   trace (CrashOps.op_micro: SQL statements, node RPCs and the instant of the reply, in program order,
   tied to the code's H2 crash-point labels by the check); the model's step IS the execution of that
   trace; for every reachable tower, operation, node script and crash index: integrity and the tower
   invariant after restart, "never grants slots" (REFUTED in general: the known interrupted shrinking
   update; proved outside it, with the exact window), the in-flight cost, "acknowledged work survives"
   (rows disappear only through an explicit delete of the trace), "no receipt before the data is
   durable", and the idempotence lemmas of replay.  The replay equivalence as a whole ("answered
   exactly as in an uninterrupted run") stays decided by fault enumeration on the real code (see the
   check), and is REFUTED for a crash after a poll that delivered only a prefix of the blocks (F4). *)
From TeosModel Require Import Base TxIndex Tower TowerStable TowerInv TowerLedger Crash CrashOps CrashOpsProofs.
From TeosModel.Gen Require Bootstrap.
Local Open Scope N_scope.

(* no dangling records, ever: every statement preserves integrity ... *)
Theorem C03_statement_preserves_integrity d s : DbInv d -> DbInv (exec d s).
Proof. exact (exec_inv d s). Qed.

(* ... hence every crash prefix of every statement sequence *)
Theorem C03_no_dangling_after_any_crash d l n : DbInv d -> DbInv (execs d (firstn n l)).
Proof. exact (crash_prefix_inv d l n). Qed.

(* restart: memory rebuilt from the tables (Gatekeeper::new loads users; the reorged set starts
   empty); the tower invariant holds whatever the memory was before the crash *)
Theorem C03_recover_invariant t_shell d : DbInv d -> Inv (recover t_shell d).
Proof. exact (recover_inv t_shell d). Qed.

(* the tower's own writes are such statements (tie to Tower.v) *)
Theorem C03_primitives_are_statements t :
  (forall a, find_app (db_apps t) (app_uuid a) = None -> amem (db_users t) (a_user a) = true ->
             db_of (p_insert_app t a) = exec (db_of t) (SInsApp a)) /\
  (forall a, db_of (p_update_app t a) = exec (db_of t) (SUpdApp a)) /\
  (forall k a0, find_trk (db_trks t) (trk_uuid k) = None -> find_app (db_apps t) (trk_uuid k) = Some a0 ->
                db_of (p_insert_trk t k) = exec (db_of t) (SInsTrk k)) /\
  (forall uuid h c, db_of (set_trk_status t uuid h c) = exec (db_of t) (SUpdTrk uuid h c)) /\
  (forall us, db_of (db_delete_apps t us) = exec (db_of t) (SDelApps us)) /\
  (forall out, db_of (p_purge t out) = exec (db_of t) (SDelUsers out)) /\
  (forall u ui, db_of (p_set_user t u ui) = exec (db_of t) (SUpdUser u ui)) /\
  (forall u ui, amem (db_users t) u = false -> db_of (p_new_user t u ui) = exec (db_of t) (SInsUser u ui)) /\
  (forall u ui s, db_of (p_refund_user t u ui s) = exec (db_of t) (SUpdSlots u s)).
Proof.
  repeat split; intros;
    first [ apply prim_insert_app_is_stmt; assumption
          | eapply prim_insert_trk_is_stmt; eassumption
          | apply prim_new_user_is_stmt; assumption
          | reflexivity ].
Qed.

(* a crash between the charge and the store of an add_appointment costs the user exactly
   required - used slots: at most the slots of the request in flight *)
Theorem C03_inflight_costs_at_most_request t u ui required used :
  gk_get t u = Some ui -> required <= u_slots ui + used ->
  u_slots ui + used < U32MOD ->
  (u_slots ui + used - required) mod U32MOD + required = u_slots ui + used.
Proof. exact (charge_then_crash_costs_at_most_request t u ui required used). Qed.

(* the persistence rules of the code, regenerated from main.rs / chain_monitor.rs on every run: the
   bootstrap tip is persisted when none is stored (after the repair of F18); a poll persists the
   polled tip when it is better (this is what makes F4 possible), never when it is worse *)
Theorem C03_persistence_rules :
  Bootstrap.BOOTSTRAP_PERSISTS_TIP = true /\ Bootstrap.POLL_PERSISTS_BETTER_TIP = true /\
  Bootstrap.POLL_PERSISTS_WORSE_TIP = false.
Proof. repeat split; reflexivity. Qed.

(* ... and nobody else writes the last known block (main()'s bootstrap and the Better arm of the poll are the only
   call sites): it never moves in the middle of a poll, which is what poll_crash_at / lkb_persisted_after_poll assume *)
Theorem C03_last_known_block_writers : Bootstrap.LAST_KNOWN_BLOCK_WRITERS = 2%nat.
Proof. reflexivity. Qed.

(* the executable integrity check used on recovered databases accepts a consistent one *)
Example C03_integrity_check_nonvacuous :
  db_inv_b (mk_db [(1, mk_uinfo 3 100 200)] [mk_app 7 1 (mk_blob 7 (Some 9) 100) 10 1 100]
                  [mk_trk 7 1 7 9 101 false]) = true /\
  db_inv_b (mk_db [] [mk_app 7 1 (mk_blob 7 (Some 9) 100) 10 1 100] []) = false.
Proof. vm_compute. auto. Qed.

Print Assumptions C03_statement_preserves_integrity.
Print Assumptions C03_no_dangling_after_any_crash.
Print Assumptions C03_recover_invariant.
Print Assumptions C03_primitives_are_statements.
Print Assumptions C03_inflight_costs_at_most_request.
Print Assumptions C03_persistence_rules.
Print Assumptions C03_last_known_block_writers.

(* ============================== operation level ============================== *)

(* REFINEMENT: the table effect of any operation of the sequential tower model is the execution of
   its durable trace; the RPCs it logs are the trace's RPC steps, in order *)
Theorem C03_op_is_its_trace le t o sc :
  not_abort (snd (step le t o sc)) ->
  db_of (fst (step le t o sc)) = execs (db_of t) (stmts_of (op_micro le t o sc)).
Proof. exact (op_is_its_trace le t o sc). Qed.

Theorem C03_op_rpcs_are_its_trace le t o sc :
  not_abort (snd (step le t o sc)) ->
  rev (rpc_log (fst (step le t o sc))) = rpcs_of_micro (op_micro le t o sc).
Proof. exact (op_rpcs_are_its_trace le t o sc). Qed.

(* a kill after ANY number k of micro steps of ANY operation of a reachable tower: no dangling
   records, and the restarted tower satisfies the tower invariant on exactly those tables *)
Theorem C03_crash_integrity le k t o sc :
  Inv t -> DbInv (crash_at le k t o sc) /\ Inv (restart t (crash_at le k t o sc)).
Proof. exact (crash_integrity le k t o sc). Qed.

Theorem C03_restart_keeps_tables t d : db_of (restart t d) = d.
Proof. exact (db_of_restart t d). Qed.

Theorem C03_crash_after_last_step le t o sc k :
  not_abort (snd (step le t o sc)) -> (length (op_micro le t o sc) <= k)%nat ->
  crash_at le k t o sc = db_of (fst (step le t o sc)).
Proof. exact (crash_after_last_step le t o sc k). Qed.

(* NEVER GRANTS: false as stated ... *)
Theorem C03_never_grants_refuted :
  exists le t o sc k v,
    Inv t /\ not_abort (snd (step le t o sc)) /\ grant t o v = 0 /\
    balance (db_of (restart t (crash_at le k t o sc))) v > balance (db_of t) v.
Proof. exact never_grants_refuted. Qed.

(* ... true outside the interrupted shrinking update (grant = the subscription slots a registration adds) ... *)
Theorem C03_never_grants_outside_shrinking_update le t o sc k v :
  Inv t -> not_abort (snd (step le t o sc)) -> ~ shrinking_update t o ->
  balance (db_of (restart t (crash_at le k t o sc))) v <= balance (db_of t) v + grant t o v.
Proof. exact (never_grants_outside_shrinking_update le t o sc k v). Qed.

(* ... and it fails ONLY between the charge and the store of such an update *)
Theorem C03_grant_only_in_shrinking_window le t o sc k v :
  Inv t -> not_abort (snd (step le t o sc)) ->
  balance (crash_at le k t o sc) v > balance (db_of t) v + grant t o v ->
  exists loc b delay sig ui,
    o = OAdd (Some v) loc b delay sig /\ shrinking_update t o /\ gk_get t v = Some ui /\
    d_users (crash_at le k t o sc) = charged_users t v (add_charge t v ui loc b) /\
    d_apps (crash_at le k t o sc) = db_apps t.
Proof. exact (grant_only_in_shrinking_window le t o sc k v). Qed.

(* every crash prefix of a block connection (purge, breaches, confirmations, the refund transaction,
   reorg and stale rebroadcasts, drops): no balance above the one before the block *)
Theorem C03_connect_never_grants le t hash txs sc :
  Inv t -> not_abort (snd (step le t (OConnect hash txs) sc)) ->
  all_prefixes (le_all (db_of t)) (db_of t) (op_stmts le t (OConnect hash txs) sc).
Proof. exact (connect_never_grants le t hash txs sc). Qed.

(* IN-FLIGHT COST: the requester loses at most the slots of the request being processed *)
Theorem C03_inflight_cost le t signer loc b delay sig sc k v :
  Inv t ->
  (forall u ui, signer = Some u -> gk_get t u = Some ui -> u_slots ui + used_by t loc u < U32MOD) ->
  let d' := db_of (restart t (crash_at le k t (OAdd signer loc b delay sig) sc)) in
  let cost := if (match signer with Some u => N.eqb v u | None => false end) then slots_of (b_len b) else 0 in
  balance (db_of t) v <= balance d' v + cost /\ davail (db_of t) v <= davail d' v + cost.
Proof. exact (inflight_cost le t signer loc b delay sig sc k v). Qed.

Theorem C03_register_never_costs le t u sc k v :
  Inv t -> balance (db_of t) v <= balance (db_of (restart t (crash_at le k t (ORegister u) sc))) v.
Proof. exact (register_never_costs le t u sc k v). Qed.

(* ACKNOWLEDGED WORK SURVIVES.  Statement level, for every statement sequence: a row present before
   and absent after implies a DELETE naming it (or its owner: cascade) was executed; its content
   changes only through an UPDATE naming it *)
Theorem C03_rows_only_deleted_explicitly l d uuid :
  (has_app d uuid = true -> has_app (execs d l) uuid = true \/ exists s, In s l /\ deletes uuid s = true) /\
  (has_trk d uuid = true -> has_trk (execs d l) uuid = true \/ exists s, In s l /\ deletes uuid s = true).
Proof. exact (rows_only_deleted_explicitly l d uuid). Qed.

Theorem C03_row_content_kept l d a :
  In a (d_apps d) ->
  In a (d_apps (execs d l)) \/ exists s, In s l /\ (deletes (app_uuid a) s = true \/ replaces (app_uuid a) s = true).
Proof. exact (row_content_kept l d a). Qed.

(* ... operation level: the receipt was returned before the kill (MAck among the first k micro steps);
   whatever is executed later (`later`: any statements of completed or interrupted operations), after
   a restart the row is there, or a DELETE naming it / its owner is in the traces, or it was dropped
   as invalid on arrival (trigger in the cache, blob undecryptable, nothing stored) *)
Theorem C03_acked_survives le t signer loc b delay sig sc k later st sg sl e :
  snd (step le t (OAdd signer loc b delay sig) sc) = OAddRes (AddOk st sg sl e) ->
  In MAck (firstn k (op_micro le t (OAdd signer loc b delay sig) sc)) ->
  exists u, signer = Some u /\
    let d := db_of (restart t (execs (crash_at le k t (OAdd signer loc b delay sig) sc) later)) in
    (has_app d (loc, u) = true \/
     (exists s, In s (op_stmts le t (OAdd signer loc b delay sig) sc ++ later) /\ deletes (loc, u) s = true) \/
     (exists dispute, ti_get (w_cache t) loc = Some dispute /\ decrypt b dispute = None /\
                      find_app (db_apps t) (loc, u) = None)).
Proof. exact (acked_survives le t signer loc b delay sig sc k later st sg sl e). Qed.

(* no receipt before the data is durable: nothing follows MAck, every statement precedes it *)
Theorem C03_ack_after_durable le t o sc m1 m2 :
  op_micro le t o sc = m1 ++ MAck :: m2 -> m2 = [] /\ stmts_of m1 = op_stmts le t o sc.
Proof. exact (ack_after_durable le t o sc m1 m2). Qed.

(* REPLAY, as far as proved (see CrashOpsProofs.replay_idempotent_partial for what is missing) *)
Theorem C03_replay_idempotent_partial :
  (forall le k t blocks tip s0, (k <= length (poll_blocks le t blocks))%nat ->
     ds_lkb (poll_crash_at le k t blocks tip s0) = ds_lkb s0) /\
  (forall t h t1, Inv t -> gk_block_connected t h = Ok tt t1 -> tr_gk_block (restart t (db_of t1)) h = []) /\
  (forall sc t hash txs h t',
     (forall a, In a (db_apps t) -> In (a_loc a) txs -> find_trk (db_trks t) (app_uuid a) <> None) ->
     w_block_connected sc t (cache_block hash txs) h = Ok tt t' ->
     exists invalid, db_of t' = match invalid with [] => db_of t | _ => exec (db_of t) (SDelApps invalid) end) /\
  (forall d k k', trk_uuid k' = trk_uuid k -> exec (exec d (SInsTrk k)) (SInsTrk k') = exec d (SInsTrk k)) /\
  (forall d us, exec (exec d (SDelApps us)) (SDelApps us) = exec d (SDelApps us)) /\
  (forall d us, exec (exec d (SDelUsers us)) (SDelUsers us) = exec d (SDelUsers us)) /\
  (forall d uuid h c, exec (exec d (SUpdTrk uuid h c)) (SUpdTrk uuid h c) = exec d (SUpdTrk uuid h c)).
Proof. exact replay_idempotent_partial. Qed.

Theorem C03_lkb_persisted_after_poll le t blocks tip s0 :
  Bootstrap.POLL_PERSISTS_BETTER_TIP = true ->
  ds_lkb (poll_crash_at le (S (length (poll_blocks le t blocks))) t blocks tip s0) = Some tip.
Proof. exact (lkb_persisted_after_poll le t blocks tip s0). Qed.

(* ---- non-vacuity: a concrete reachable tower (CrashOps.ex_t) and concrete operations ---- *)
Definition mk (m : micro) : N :=
  match m with
  | MStmt (SInsUser _ _) => 1 | MStmt (SUpdUser _ _) => 2 | MStmt (SUpdSlots _ _) => 3 | MStmt (SDelUsers _) => 4
  | MStmt (SInsApp _) => 5 | MStmt (SUpdApp _) => 6 | MStmt (SDelApps _) => 7 | MStmt (SInsTrk _) => 8
  | MStmt (SUpdTrk _ _ _) => 9 | MStmt (STxn _) => 10 | MRpc (mk_rpc K_getraw _ _) => 20 | MRpc (mk_rpc K_send _ _) => 21
  | MAck => 30
  end.

Example C03_ex_reachable : Inv ex_t /\ length (db_apps ex_t) = 2%nat /\ balance (db_of ex_t) 1 = 10 /\ balance (db_of ex_t) 2 = 10.
Proof. split; [exact ex_t_inv|]. vm_compute. auto. Qed.

(* the shrinking update: UPDATE users, UPDATE appointments, receipt *)
Example C03_ex_update_trace : map mk (op_micro true ex_t ex_shrink []) = [2; 6; 30].
Proof. vm_compute. reflexivity. Qed.

(* ... killed after its first micro step: user 1 holds 12 slots instead of 10 (the witness of the refutation);
   killed after the second or later: 10 again *)
Example C03_ex_update_window :
  balance (crash_at true 1 ex_t ex_shrink []) 1 = 12 /\ balance (crash_at true 2 ex_t ex_shrink []) 1 = 10 /\
  shrinking_update ex_t ex_shrink.
Proof. split; [vm_compute; reflexivity|]. split; [vm_compute; reflexivity|]. eexists. split; [vm_compute; reflexivity|vm_compute; reflexivity]. Qed.

(* a new appointment (INSERT), acknowledged: the hypotheses of C03_acked_survives are met *)
Example C03_ex_acked :
  let o := OAdd (Some 2) 9 (mk_blob 9 (Some 29) 2049) 20 4 in
  map mk (op_micro true ex_t o []) = [2; 5; 30] /\
  snd (step true ex_t o []) = OAddRes (AddOk 120 4 7 420) /\ In MAck (firstn 3 (op_micro true ex_t o [])) /\
  balance (crash_at true 1 ex_t o []) 2 = 8 /\ balance (crash_at true 2 ex_t o []) 2 = 10.
Proof. vm_compute. repeat split; auto. Qed.

(* a block with the dispute of user 1's appointment: getrawtransaction, sendrawtransaction, INSERT INTO trackers;
   with a node that rejects the penalty: the two RPCs and the DELETE of the appointment *)
Example C03_ex_connect_breach :
  map mk (op_micro true ex_t (OConnect 5000 [7]) []) = [20; 21; 8] /\
  map mk (op_micro true ex_t (OConnect 5000 [7]) [(9, (G_not_found, A_code (-26)))]) = [20; 21; 7] /\
  not_abort (snd (step true ex_t (OConnect 5000 [7]) [])).
Proof. vm_compute. auto. Qed.

(* the appointment arriving AFTER its trigger (dispute 9 in the cache): charge, INSERT, the two RPCs, tracker, receipt *)
Example C03_ex_add_triggered :
  let t1 := fst (step true ex_t (OConnect 5000 [9]) []) in
  map mk (op_micro true t1 (OAdd (Some 2) 9 (mk_blob 9 (Some 29) 100) 20 4) []) = [2; 5; 20; 21; 8; 30] /\
  map mk (op_micro true t1 (OAdd (Some 2) 9 (mk_blob 9 None 100) 20 4) []) = [2; 30].
Proof. vm_compute. auto. Qed.

(* registration: INSERT for a new user, UPDATE for a known one; the reads: only the reply *)
Example C03_ex_register_get :
  map mk (op_micro true ex_t (ORegister 3) []) = [1; 30] /\ map mk (op_micro true ex_t (ORegister 1) []) = [2; 30] /\
  map mk (op_micro true ex_t (OGet (Some 1) 7) []) = [30] /\ map mk (op_micro true ex_t ODisconnect []) = [].
Proof. vm_compute. auto. Qed.

Print Assumptions C03_op_is_its_trace.
Print Assumptions C03_op_rpcs_are_its_trace.
Print Assumptions C03_crash_integrity.
Print Assumptions C03_restart_keeps_tables.
Print Assumptions C03_crash_after_last_step.
Print Assumptions C03_never_grants_refuted.
Print Assumptions C03_never_grants_outside_shrinking_update.
Print Assumptions C03_grant_only_in_shrinking_window.
Print Assumptions C03_connect_never_grants.
Print Assumptions C03_inflight_cost.
Print Assumptions C03_register_never_costs.
Print Assumptions C03_rows_only_deleted_explicitly.
Print Assumptions C03_row_content_kept.
Print Assumptions C03_acked_survives.
Print Assumptions C03_ack_after_durable.
Print Assumptions C03_replay_idempotent_partial.
Print Assumptions C03_lkb_persisted_after_poll.
