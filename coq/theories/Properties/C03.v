(* C03 — tower crash at any instant and restart loses no acknowledged work.
   Statements only.  What is a theorem here: referential integrity of the database after ANY crash
   (a crash leaves the effect of a prefix of atomic statements), for every statement sequence
   whatever the code issues; recovery from any such database yields the tower invariant; the
   primitive table updates of the tower model are such statements; the bootstrap/persist rules read
   from main.rs and chain_monitor.rs.
   OPERATION level (second half of this file): every operation of the tower model has a durable
   trace (CrashOps.op_micro: SQL statements, node RPCs and the instant of the reply, in program order,
   tied to the code's H2 crash-point labels by the check); the model's step IS the execution of that
   trace; for every reachable tower, operation, node script and crash index: integrity and the tower
   invariant after restart, "never grants slots" (REFUTED in general: the known interrupted shrinking
   update; proved outside it, with the exact window), the in-flight cost, "acknowledged work survives"
   (rows disappear only through an explicit delete of the trace), "no receipt before the data is
   durable", and the idempotence lemmas of replay.  The replay equivalence as a whole ("answered
   exactly as in an uninterrupted run") stays decided by fault enumeration on the real code (see the
   check), and is REFUTED for a crash after a poll that delivered only a prefix of the blocks (F4). *)
From TeosModel Require Import Base TxIndex Tower TowerStable TowerInv TowerLedger Crash CrashOps CrashOpsProofs CrashReplay CrashReplayProofs.
From TeosModel.Gen Require Bootstrap.
Local Open Scope N_scope.

(* no dangling records, ever: every statement preserves integrity ... *)
Theorem C03_statement_preserves_integrity d s : DbInv d -> DbInv (exec d s).
Proof. exact (exec_inv d s). Qed.

(* ... hence every crash prefix of every statement sequence *)
Theorem C03_no_dangling_after_any_crash d l n : DbInv d -> DbInv (execs d (firstn n l)).
Proof. exact (crash_prefix_inv d l n). Qed.

(* restart: memory rebuilt from the tables (Gatekeeper::new loads users; the reorged set starts
   empty); the tower invariant holds whatever the memory was before the crash *)
Theorem C03_recover_invariant t_shell d : DbInv d -> Inv (recover t_shell d).
Proof. exact (recover_inv t_shell d). Qed.

(* the tower's own writes are such statements (tie to Tower.v) *)
Theorem C03_primitives_are_statements t :
  (forall a, find_app (db_apps t) (app_uuid a) = None -> amem (db_users t) (a_user a) = true ->
             db_of (p_insert_app t a) = exec (db_of t) (SInsApp a)) /\
  (forall a, db_of (p_update_app t a) = exec (db_of t) (SUpdApp a)) /\
  (forall k a0, find_trk (db_trks t) (trk_uuid k) = None -> find_app (db_apps t) (trk_uuid k) = Some a0 ->
                db_of (p_insert_trk t k) = exec (db_of t) (SInsTrk k)) /\
  (forall uuid h c, db_of (set_trk_status t uuid h c) = exec (db_of t) (SUpdTrk uuid h c)) /\
  (forall us, db_of (db_delete_apps t us) = exec (db_of t) (SDelApps us)) /\
  (forall out, db_of (p_purge t out) = exec (db_of t) (SDelUsers out)) /\
  (forall u ui, db_of (p_set_user t u ui) = exec (db_of t) (SUpdUser u ui)) /\
  (forall u ui, amem (db_users t) u = false -> db_of (p_new_user t u ui) = exec (db_of t) (SInsUser u ui)) /\
  (forall u ui s, db_of (p_refund_user t u ui s) = exec (db_of t) (SUpdSlots u s)).
Proof.
  repeat split; intros;
    first [ apply prim_insert_app_is_stmt; assumption
          | eapply prim_insert_trk_is_stmt; eassumption
          | apply prim_new_user_is_stmt; assumption
          | reflexivity ].
Qed.

(* a crash between the charge and the store of an add_appointment costs the user exactly
   required - used slots: at most the slots of the request in flight *)
Theorem C03_inflight_costs_at_most_request t u ui required used :
  gk_get t u = Some ui -> required <= u_slots ui + used ->
  u_slots ui + used < U32MOD ->
  (u_slots ui + used - required) mod U32MOD + required = u_slots ui + used.
Proof. exact (charge_then_crash_costs_at_most_request t u ui required used). Qed.

(* the persistence rules of the code, regenerated from main.rs / chain_monitor.rs on every run: the
   bootstrap tip is persisted when none is stored (after the repair of F18); a poll persists the
   polled tip when it is better (this is what makes F4 possible), never when it is worse *)
Theorem C03_persistence_rules :
  Bootstrap.BOOTSTRAP_PERSISTS_TIP = true /\ Bootstrap.POLL_PERSISTS_BETTER_TIP = true /\
  Bootstrap.POLL_PERSISTS_WORSE_TIP = false.
Proof. repeat split; reflexivity. Qed.

(* ... and nobody else writes the last known block (main()'s bootstrap and the Better arm of the poll are the only
   call sites): it never moves in the middle of a poll, which is what poll_crash_at / lkb_persisted_after_poll assume *)
Theorem C03_last_known_block_writers : Bootstrap.LAST_KNOWN_BLOCK_WRITERS = 2%nat.
Proof. reflexivity. Qed.

(* the executable integrity check used on recovered databases accepts a consistent one *)
Example C03_integrity_check_nonvacuous :
  db_inv_b (mk_db [(1, mk_uinfo 3 100 200)] [mk_app 7 1 (mk_blob 7 (Some 9) 100) 10 1 100]
                  [mk_trk 7 1 7 9 101 false]) = true /\
  db_inv_b (mk_db [] [mk_app 7 1 (mk_blob 7 (Some 9) 100) 10 1 100] []) = false.
Proof. vm_compute. auto. Qed.

Print Assumptions C03_statement_preserves_integrity.
Print Assumptions C03_no_dangling_after_any_crash.
Print Assumptions C03_recover_invariant.
Print Assumptions C03_primitives_are_statements.
Print Assumptions C03_inflight_costs_at_most_request.
Print Assumptions C03_persistence_rules.
Print Assumptions C03_last_known_block_writers.

(* ============================== operation level ============================== *)

(* REFINEMENT: the table effect of any operation of the sequential tower model is the execution of
   its durable trace; the RPCs it logs are the trace's RPC steps, in order *)
Theorem C03_op_is_its_trace le t o sc :
  not_abort (snd (step le t o sc)) ->
  db_of (fst (step le t o sc)) = execs (db_of t) (stmts_of (op_micro le t o sc)).
Proof. exact (op_is_its_trace le t o sc). Qed.

Theorem C03_op_rpcs_are_its_trace le t o sc :
  not_abort (snd (step le t o sc)) ->
  rev (rpc_log (fst (step le t o sc))) = rpcs_of_micro (op_micro le t o sc).
Proof. exact (op_rpcs_are_its_trace le t o sc). Qed.

(* a kill after ANY number k of micro steps of ANY operation of a reachable tower: no dangling
   records, and the restarted tower satisfies the tower invariant on exactly those tables *)
Theorem C03_crash_integrity le k t o sc :
  Inv t -> DbInv (crash_at le k t o sc) /\ Inv (restart t (crash_at le k t o sc)).
Proof. exact (crash_integrity le k t o sc). Qed.

Theorem C03_restart_keeps_tables t d : db_of (restart t d) = d.
Proof. exact (db_of_restart t d). Qed.

Theorem C03_crash_after_last_step le t o sc k :
  not_abort (snd (step le t o sc)) -> (length (op_micro le t o sc) <= k)%nat ->
  crash_at le k t o sc = db_of (fst (step le t o sc)).
Proof. exact (crash_after_last_step le t o sc k). Qed.

(* NEVER GRANTS: false as stated ... *)
Theorem C03_never_grants_refuted :
  exists le t o sc k v,
    Inv t /\ not_abort (snd (step le t o sc)) /\ grant t o v = 0 /\
    balance (db_of (restart t (crash_at le k t o sc))) v > balance (db_of t) v.
Proof. exact never_grants_refuted. Qed.

(* ... true outside the interrupted shrinking update (grant = the subscription slots a registration adds) ... *)
Theorem C03_never_grants_outside_shrinking_update le t o sc k v :
  Inv t -> not_abort (snd (step le t o sc)) -> ~ shrinking_update t o ->
  balance (db_of (restart t (crash_at le k t o sc))) v <= balance (db_of t) v + grant t o v.
Proof. exact (never_grants_outside_shrinking_update le t o sc k v). Qed.

(* ... and it fails ONLY between the charge and the store of such an update *)
Theorem C03_grant_only_in_shrinking_window le t o sc k v :
  Inv t -> not_abort (snd (step le t o sc)) ->
  balance (crash_at le k t o sc) v > balance (db_of t) v + grant t o v ->
  exists loc b delay sig ui,
    o = OAdd (Some v) loc b delay sig /\ shrinking_update t o /\ gk_get t v = Some ui /\
    d_users (crash_at le k t o sc) = charged_users t v (add_charge t v ui loc b) /\
    d_apps (crash_at le k t o sc) = db_apps t.
Proof. exact (grant_only_in_shrinking_window le t o sc k v). Qed.

(* every crash prefix of a block connection (purge, breaches, confirmations, the refund transaction,
   reorg and stale rebroadcasts, drops): no balance above the one before the block *)
Theorem C03_connect_never_grants le t hash txs sc :
  Inv t -> not_abort (snd (step le t (OConnect hash txs) sc)) ->
  all_prefixes (le_all (db_of t)) (db_of t) (op_stmts le t (OConnect hash txs) sc).
Proof. exact (connect_never_grants le t hash txs sc). Qed.

(* IN-FLIGHT COST: the requester loses at most the slots of the request being processed *)
Theorem C03_inflight_cost le t signer loc b delay sig sc k v :
  Inv t ->
  (forall u ui, signer = Some u -> gk_get t u = Some ui -> u_slots ui + used_by t loc u < U32MOD) ->
  let d' := db_of (restart t (crash_at le k t (OAdd signer loc b delay sig) sc)) in
  let cost := if (match signer with Some u => N.eqb v u | None => false end) then slots_of (b_len b) else 0 in
  balance (db_of t) v <= balance d' v + cost /\ davail (db_of t) v <= davail d' v + cost.
Proof. exact (inflight_cost le t signer loc b delay sig sc k v). Qed.

Theorem C03_register_never_costs le t u sc k v :
  Inv t -> balance (db_of t) v <= balance (db_of (restart t (crash_at le k t (ORegister u) sc))) v.
Proof. exact (register_never_costs le t u sc k v). Qed.

(* ACKNOWLEDGED WORK SURVIVES.  Statement level, for every statement sequence: a row present before
   and absent after implies a DELETE naming it (or its owner: cascade) was executed; its content
   changes only through an UPDATE naming it *)
Theorem C03_rows_only_deleted_explicitly l d uuid :
  (has_app d uuid = true -> has_app (execs d l) uuid = true \/ exists s, In s l /\ deletes uuid s = true) /\
  (has_trk d uuid = true -> has_trk (execs d l) uuid = true \/ exists s, In s l /\ deletes uuid s = true).
Proof. exact (rows_only_deleted_explicitly l d uuid). Qed.

Theorem C03_row_content_kept l d a :
  In a (d_apps d) ->
  In a (d_apps (execs d l)) \/ exists s, In s l /\ (deletes (app_uuid a) s = true \/ replaces (app_uuid a) s = true).
Proof. exact (row_content_kept l d a). Qed.

(* ... operation level: the receipt was returned before the kill (MAck among the first k micro steps);
   whatever is executed later (`later`: any statements of completed or interrupted operations), after
   a restart the row is there, or a DELETE naming it / its owner is in the traces, or it was dropped
   as invalid on arrival (trigger in the cache, blob undecryptable, nothing stored) *)
Theorem C03_acked_survives le t signer loc b delay sig sc k later st sg sl e :
  snd (step le t (OAdd signer loc b delay sig) sc) = OAddRes (AddOk st sg sl e) ->
  In MAck (firstn k (op_micro le t (OAdd signer loc b delay sig) sc)) ->
  exists u, signer = Some u /\
    let d := db_of (restart t (execs (crash_at le k t (OAdd signer loc b delay sig) sc) later)) in
    (has_app d (loc, u) = true \/
     (exists s, In s (op_stmts le t (OAdd signer loc b delay sig) sc ++ later) /\ deletes (loc, u) s = true) \/
     (exists dispute, ti_get (w_cache t) loc = Some dispute /\ decrypt b dispute = None /\
                      find_app (db_apps t) (loc, u) = None)).
Proof. exact (acked_survives le t signer loc b delay sig sc k later st sg sl e). Qed.

(* no receipt before the data is durable: nothing follows MAck, every statement precedes it *)
Theorem C03_ack_after_durable le t o sc m1 m2 :
  op_micro le t o sc = m1 ++ MAck :: m2 -> m2 = [] /\ stmts_of m1 = op_stmts le t o sc.
Proof. exact (ack_after_durable le t o sc m1 m2). Qed.

(* REPLAY, as far as proved (see CrashOpsProofs.replay_idempotent_partial for what is missing) *)
Theorem C03_replay_idempotent_partial :
  (forall le k t blocks tip s0, (k <= length (poll_blocks le t blocks))%nat ->
     ds_lkb (poll_crash_at le k t blocks tip s0) = ds_lkb s0) /\
  (forall t h t1, Inv t -> gk_block_connected t h = Ok tt t1 -> tr_gk_block (restart t (db_of t1)) h = []) /\
  (forall sc t hash txs h t',
     (forall a, In a (db_apps t) -> In (a_loc a) txs -> find_trk (db_trks t) (app_uuid a) <> None) ->
     w_block_connected sc t (cache_block hash txs) h = Ok tt t' ->
     exists invalid, db_of t' = match invalid with [] => db_of t | _ => exec (db_of t) (SDelApps invalid) end) /\
  (forall d k k', trk_uuid k' = trk_uuid k -> exec (exec d (SInsTrk k)) (SInsTrk k') = exec d (SInsTrk k)) /\
  (forall d us, exec (exec d (SDelApps us)) (SDelApps us) = exec d (SDelApps us)) /\
  (forall d us, exec (exec d (SDelUsers us)) (SDelUsers us) = exec d (SDelUsers us)) /\
  (forall d uuid h c, exec (exec d (SUpdTrk uuid h c)) (SUpdTrk uuid h c) = exec d (SUpdTrk uuid h c)).
Proof. exact replay_idempotent_partial. Qed.

Theorem C03_lkb_persisted_after_poll le t blocks tip s0 :
  Bootstrap.POLL_PERSISTS_BETTER_TIP = true ->
  ds_lkb (poll_crash_at le (S (length (poll_blocks le t blocks))) t blocks tip s0) = Some tip.
Proof. exact (lkb_persisted_after_poll le t blocks tip s0). Qed.

(* ============================== replay equivalence ============================== *)
(* "after catching up with the chain the tower answers exactly as an uninterrupted run would" - as far as it is
   TRUE and proved.  The node of the replay is the node of the first attempt, later: CrashReplay.consistent (same
   verdict, or acceptable-then-confirmed: -27).  FALSE in general: the recorded finding
   tracker-never-created-penalty-confirmed-while-down ... *)
Theorem C03_replay_block_refuted :
  exists le t o sc1 sc2 k,
    Inv t /\ at_poll_boundary t /\ consistent t sc1 sc2 /\
    not_abort (snd (step le t o sc1)) /\
    not_abort (snd (step le (restart t (crash_at le k t o sc1)) o sc2)) /\
    ~ eq_up_to_stamp (db_of (fst (step le (restart t (crash_at le k t o sc1)) o sc2)))
                     (db_of (fst (step le t o sc1))) /\
    has_app (db_of (fst (step le (restart t (crash_at le k t o sc1)) o sc2))) (7, 1) = true /\
    has_trk (db_of (fst (step le (restart t (crash_at le k t o sc1)) o sc2))) (7, 1) = false /\
    has_trk (db_of (fst (step le t o sc1))) (7, 1) = true.
Proof. exact replay_block_refuted. Qed.

(* ... TRUE outside that class (replay_ok: per breached row, same verdict, or confirmed meanwhile AND the tracker was
   already inserted) for the gatekeeper and watcher listeners of a block, kill after the purge and ANY number j of the
   watcher's tracker inserts: the replay ends in EXACTLY the tables of the uninterrupted run at that point *)
Theorem C03_replay_gatekeeper_watcher sc1 sc2 tA hash txs j tg tA' tB' :
  Inv tA -> at_poll_boundary tA ->
  gk_block_connected tA (gk_height tA + 1) = Ok tt tg ->
  w_block_connected sc1 tg (cache_block hash txs) (gk_height tA + 1) = Ok tt tA' ->
  let dB := execs (db_of tg) (firstn j (w_inserts sc1 tg txs)) in
  replay_ok tg dB txs sc1 sc2 ->
  gw_connected sc2 (restart tA dB) hash txs = Ok tt tB' ->
  db_of tB' = db_of tA'.
Proof. exact (gw_replay sc1 sc2 tA hash txs j tg tA' tB'). Qed.

(* the watcher's listener IS the execution of (tracker inserts of the breached rows ++ DELETE of the invalid ones), a
   pure function of the appointments, the responder's index, the carrier's height and the node's answers: dB above
   is a crash prefix of the real trace *)
Theorem C03_watcher_is_its_pure_trace sc t hash txs h t' :
  memo_coherent sc t -> w_block_connected sc t (cache_block hash txs) h = Ok tt t' ->
  db_of t' = execs (db_of t) (w_inserts sc t txs ++ w_delete (w_invalid sc t txs)).
Proof. exact (w_pure sc t hash txs h t'). Qed.

Theorem C03_watcher_replay sc1 sc2 tA tB hash txs h j tA' tB' :
  memo_coherent sc1 tA -> memo_coherent sc2 tB ->
  r_index tB = r_index tA -> car_height tB = car_height tA ->
  db_of tB = execs (db_of tA) (firstn j (w_inserts sc1 tA txs)) ->
  replay_ok tA (db_of tB) txs sc1 sc2 ->
  w_block_connected sc1 tA (cache_block hash txs) h = Ok tt tA' ->
  w_block_connected sc2 tB (cache_block hash txs) h = Ok tt tB' ->
  db_of tB' = db_of tA'.
Proof. exact (watcher_replay sc1 sc2 tA tB hash txs h j tA' tB'). Qed.

Theorem C03_insert_block_replay l j d : ins_only l -> execs (execs d (firstn j l)) l = execs d l.
Proof. exact (ins_block_replay l j d). Qed.

(* the purge replayed after its commit by a tower whose gatekeeper was reloaded from the purged table: nothing to do *)
Theorem C03_gatekeeper_replay_done tA h tA' tB :
  Inv tA -> gk_block_connected tA h = Ok tt tA' ->
  cfg tB = cfg tA -> gk_users tB = db_users tA' ->
  gk_block_connected tB h = Ok tt (set_gk_height tB h).
Proof. exact (gatekeeper_replay_done tA h tA' tB). Qed.

(* what is left of the block is the responder's pass, which the replay starts from the SAME tables, index, heights
   and reorged set (only the carrier's memo and the RPC log differ); its equivalence up to the stamp is NOT proved *)
Theorem C03_replay_block_upto_responder sc1 sc2 tA hash txs j tg tw tBw :
  Inv tA -> at_poll_boundary tA ->
  gk_block_connected tA (gk_height tA + 1) = Ok tt tg ->
  w_block_connected sc1 tg (cache_block hash txs) (gk_height tA + 1) = Ok tt tw ->
  let dB := execs (db_of tg) (firstn j (w_inserts sc1 tg txs)) in
  replay_ok tg dB txs sc1 sc2 ->
  gw_connected sc2 (restart tA dB) hash txs = Ok tt tBw ->
  db_of tBw = db_of tw /\ r_index tBw = r_index tw /\ car_height tBw = car_height tw /\ reorged tBw = reorged tw /\
  gk_height tBw = gk_height tw /\ w_height tBw = w_height tw /\ cfg tBw = cfg tw.
Proof. exact (replay_block_upto_responder sc1 sc2 tA hash txs j tg tw tBw). Qed.

(* the responder's pass of the replay: same tables / gatekeeper map / index / empty reorged set at its start, memos that
   differ but are sound, rejections stable between the two scripts: equal up to the stamp of unconfirmed trackers *)
Theorem C03_responder_replay le sc1 sc2 tA tB b h tA' tB' :
  mem_eq tA tB -> reorged tA = [] -> r_index tB = r_index tA ->
  memo_sound sc1 tA -> memo_sound sc2 tB -> rej_stable tA sc1 sc2 ->
  r_block_connected le sc1 tA b h = Ok tt tA' -> r_block_connected le sc2 tB b h = Ok tt tB' ->
  eq_up_to_stamp (db_of tB') (db_of tA').
Proof. exact (responder_replay le sc1 sc2 tA tB b h tA' tB'). Qed.

(* REPLAY EQUIVALENCE OF A BLOCK (operation level).  t reachable, at a poll boundary; OConnect with the node answering
   sc1, killed when ng + j statements of its durable trace (CrashOps.op_stmts) are done: ng = the gatekeeper's (0 or 1),
   j <= the watcher's tracker inserts, i.e. anywhere from the purge's commit to just before the watcher's DELETE;
   restart; OConnect of the same block with the node answering sc2.  Outside the recorded class (replay_ok) and with
   stable rejections (rej_stable): the tables are those of the uninterrupted run up to the stamp of unconfirmed
   trackers.  (Kills before the purge's commit: C03_replay_connect_before; inside the responder's own statements: not covered.) *)
Theorem C03_replay_connect le t hash txs sc1 sc2 j tg :
  Inv t -> at_poll_boundary t ->
  not_abort (snd (step le t (OConnect hash txs) sc1)) ->
  gk_block_connected (TowerProofs.fresh t) (gk_height t + 1) = Ok tt tg ->
  (j <= length (w_inserts sc1 tg txs))%nat ->
  let ng := length (stmts_of (tr_gk_block (TowerProofs.fresh t) (gk_height t + 1))) in
  let d := execs (db_of t) (firstn (ng + j) (op_stmts le t (OConnect hash txs) sc1)) in
  replay_ok tg d txs sc1 sc2 -> rej_stable t sc1 sc2 ->
  not_abort (snd (step le (restart t d) (OConnect hash txs) sc2)) ->
  eq_up_to_stamp (db_of (fst (step le (restart t d) (OConnect hash txs) sc2))) (db_of (fst (step le t (OConnect hash txs) sc1))).
Proof. exact (replay_connect le t hash txs sc1 sc2 j tg). Qed.

(* ... and a kill BEFORE anything of the block is durable (in particular before the purge's commit: the gatekeeper's map
   reloaded from the unpurged table outdates the same users): the restarted tower holds the tables of before the block *)
Theorem C03_replay_connect_before le t hash txs sc1 sc2 tg :
  Inv t -> at_poll_boundary t ->
  not_abort (snd (step le t (OConnect hash txs) sc1)) ->
  gk_block_connected (TowerProofs.fresh t) (gk_height t + 1) = Ok tt tg ->
  replay_ok tg (db_of tg) txs sc1 sc2 -> rej_stable t sc1 sc2 ->
  not_abort (snd (step le (restart t (db_of t)) (OConnect hash txs) sc2)) ->
  eq_up_to_stamp (db_of (fst (step le (restart t (db_of t)) (OConnect hash txs) sc2))) (db_of (fst (step le t (OConnect hash txs) sc1))).
Proof. exact (replay_connect_before le t hash txs sc1 sc2 tg). Qed.

Theorem C03_gatekeeper_replay_before tA h tg tB :
  Inv tA -> gk_block_connected tA h = Ok tt tg ->
  cfg tB = cfg tA -> gk_users tB = db_users tA -> db_of tB = db_of tA ->
  exists tgB, gk_block_connected tB h = Ok tt tgB /\ db_of tgB = db_of tg /\ gk_users tgB = db_users tg.
Proof. exact (gatekeeper_replay_before tA h tg tB). Qed.

(* every crash index k of the operation is such a statement index *)
Theorem C03_crash_index_is_statement_index le t o sc k :
  exists n, crash_at le k t o sc = execs (db_of t) (firstn n (op_stmts le t o sc)).
Proof. unfold crash_at, op_stmts. destruct (stmts_firstn (op_micro le t o sc) k) as [n Hn]. exists n. rewrite Hn. reflexivity. Qed.

(* multi-block polls: the last known block is written after the listeners of ALL blocks (Gen/Bootstrap), so a kill in
   block i has blocks 1..i-1 delivered again: the watcher's pass over a block it had COMPLETED changes nothing *)
Theorem C03_watcher_replay_completed sc1 sc2 tA tB hash txs h tA' tB' :
  Inv tA -> memo_coherent sc1 tA -> memo_coherent sc2 tB ->
  r_index tB = r_index tA -> car_height tB = car_height tA ->
  db_of tB = db_of tA' ->
  replay_ok tA (db_of tB) txs sc1 sc2 ->
  w_block_connected sc1 tA (cache_block hash txs) h = Ok tt tA' ->
  w_block_connected sc2 tB (cache_block hash txs) h = Ok tt tB' ->
  db_of tB' = db_of tA'.
Proof. exact (watcher_replay_completed sc1 sc2 tA tB hash txs h tA' tB'). Qed.

Theorem C03_lkb_written_after_all_blocks :
  Bootstrap.POLL_PERSISTS_BETTER_TIP = true /\ Bootstrap.LAST_KNOWN_BLOCK_WRITERS = 2%nat /\
  forall le k t blocks tip s0, (k <= length (poll_blocks le t blocks))%nat ->
    ds_lkb (poll_crash_at le k t blocks tip s0) = ds_lkb s0.
Proof. split; [reflexivity|]. split; [reflexivity|]. exact lkb_not_advanced_mid_poll. Qed.

(* API operations.  register is one statement: a kill leaves the tables before or after it *)
Theorem C03_register_crash_two_states le t u sc k :
  not_abort (snd (step le t (ORegister u) sc)) ->
  crash_at le k t (ORegister u) sc = db_of t \/
  crash_at le k t (ORegister u) sc = db_of (fst (step le t (ORegister u) sc)).
Proof. exact (register_crash_two_states le t u sc k). Qed.

(* ... and its resubmission is not idempotent (registration is additive by design) *)
Theorem C03_register_resubmission_refuted :
  exists le t u sc k,
    Inv t /\ let t2 := restart t (crash_at le k t (ORegister u) sc) in
    balance (db_of (fst (step le t2 (ORegister u) sc))) u =
    balance (db_of (fst (step le t (ORegister u) sc))) u + c_slots (cfg t).
Proof. exact register_resubmission_refuted. Qed.

(* add_appointment, the receipt lost in the kill (every statement done), the client resubmits to the restarted tower:
   same receipt data, EXACTLY the tables of the uninterrupted run *)
Theorem C03_add_resubmission_reply_lost le t u loc b delay sig sc sc' t' st sg sl e :
  Inv t -> ti_get (w_cache t) loc = None ->
  step le t (OAdd (Some u) loc b delay sig) sc = (t', OAddRes (AddOk st sg sl e)) ->
  let t2 := restart t (db_of t') in
  db_of (fst (step le t2 (OAdd (Some u) loc b delay sig) sc')) = db_of t' /\
  snd (step le t2 (OAdd (Some u) loc b delay sig) sc') = OAddRes (AddOk st sg sl e).
Proof. exact (add_resubmission_reply_lost le t u loc b delay sig sc sc' t' st sg sl e). Qed.

(* ... killed between the charge and the store, the resubmission is charged again (the in-flight cost) *)
Theorem C03_add_resubmission_in_window_refuted :
  exists le t o sc k u,
    Inv t /\ let t2 := restart t (crash_at le k t o sc) in
    d_apps (db_of (fst (step le t2 o sc))) = d_apps (db_of (fst (step le t o sc))) /\
    balance (db_of (fst (step le t2 o sc))) u + 2 = balance (db_of (fst (step le t o sc))) u.
Proof. exact add_resubmission_in_window_refuted. Qed.

(* ---- non-vacuity: a concrete reachable tower (CrashOps.ex_t) and concrete operations ---- *)
Definition mk (m : micro) : N :=
  match m with
  | MStmt (SInsUser _ _) => 1 | MStmt (SUpdUser _ _) => 2 | MStmt (SUpdSlots _ _) => 3 | MStmt (SDelUsers _) => 4
  | MStmt (SInsApp _) => 5 | MStmt (SUpdApp _) => 6 | MStmt (SDelApps _) => 7 | MStmt (SInsTrk _) => 8
  | MStmt (SUpdTrk _ _ _) => 9 | MStmt (STxn _) => 10 | MRpc (mk_rpc K_getraw _ _) => 20 | MRpc (mk_rpc K_send _ _) => 21
  | MAck => 30
  end.

Example C03_ex_reachable : Inv ex_t /\ length (db_apps ex_t) = 2%nat /\ balance (db_of ex_t) 1 = 10 /\ balance (db_of ex_t) 2 = 10.
Proof. split; [exact ex_t_inv|]. vm_compute. auto. Qed.

(* the shrinking update: UPDATE users, UPDATE appointments, receipt *)
Example C03_ex_update_trace : map mk (op_micro true ex_t ex_shrink []) = [2; 6; 30].
Proof. vm_compute. reflexivity. Qed.

(* ... killed after its first micro step: user 1 holds 12 slots instead of 10 (the witness of the refutation);
   killed after the second or later: 10 again *)
Example C03_ex_update_window :
  balance (crash_at true 1 ex_t ex_shrink []) 1 = 12 /\ balance (crash_at true 2 ex_t ex_shrink []) 1 = 10 /\
  shrinking_update ex_t ex_shrink.
Proof. split; [vm_compute; reflexivity|]. split; [vm_compute; reflexivity|]. eexists. split; [vm_compute; reflexivity|vm_compute; reflexivity]. Qed.

(* a new appointment (INSERT), acknowledged: the hypotheses of C03_acked_survives are met *)
Example C03_ex_acked :
  let o := OAdd (Some 2) 9 (mk_blob 9 (Some 29) 2049) 20 4 in
  map mk (op_micro true ex_t o []) = [2; 5; 30] /\
  snd (step true ex_t o []) = OAddRes (AddOk 120 4 7 420) /\ In MAck (firstn 3 (op_micro true ex_t o [])) /\
  balance (crash_at true 1 ex_t o []) 2 = 8 /\ balance (crash_at true 2 ex_t o []) 2 = 10.
Proof. vm_compute. repeat split; auto. Qed.

(* a block with the dispute of user 1's appointment: getrawtransaction, sendrawtransaction, INSERT INTO trackers;
   with a node that rejects the penalty: the two RPCs and the DELETE of the appointment *)
Example C03_ex_connect_breach :
  map mk (op_micro true ex_t (OConnect 5000 [7]) []) = [20; 21; 8] /\
  map mk (op_micro true ex_t (OConnect 5000 [7]) [(9, (G_not_found, A_code (-26)))]) = [20; 21; 7] /\
  not_abort (snd (step true ex_t (OConnect 5000 [7]) [])).
Proof. vm_compute. auto. Qed.

(* the appointment arriving AFTER its trigger (dispute 9 in the cache): charge, INSERT, the two RPCs, tracker, receipt *)
Example C03_ex_add_triggered :
  let t1 := fst (step true ex_t (OConnect 5000 [9]) []) in
  map mk (op_micro true t1 (OAdd (Some 2) 9 (mk_blob 9 (Some 29) 100) 20 4) []) = [2; 5; 20; 21; 8; 30] /\
  map mk (op_micro true t1 (OAdd (Some 2) 9 (mk_blob 9 None 100) 20 4) []) = [2; 30].
Proof. vm_compute. auto. Qed.

(* registration: INSERT for a new user, UPDATE for a known one; the reads: only the reply *)
Example C03_ex_register_get :
  map mk (op_micro true ex_t (ORegister 3) []) = [1; 30] /\ map mk (op_micro true ex_t (ORegister 1) []) = [2; 30] /\
  map mk (op_micro true ex_t (OGet (Some 1) 7) []) = [30] /\ map mk (op_micro true ex_t ODisconnect []) = [].
Proof. vm_compute. auto. Qed.

(* replay: the example block (dispute of user 1's appointment), consistent scripts (the penalty confirmed while down):
   a kill after the tracker INSERT (3 micro steps) replays to the same tables; the hypotheses of
   C03_replay_gatekeeper_watcher hold for j = 1 (replay_ok through its second disjunct) and fail for j = 0 *)
Example C03_ex_replay :
  consistent ex_t ex_sc1 ex_sc2 /\ at_poll_boundary ex_t /\
  db_of (fst (step true (restart ex_t (crash_at true 3 ex_t ex_block ex_sc1)) ex_block ex_sc2)) = db_of (fst (step true ex_t ex_block ex_sc1)) /\
  length (w_inserts ex_sc1 ex_t [7]) = 1%nat /\
  has_trk (execs (db_of ex_t) (firstn 1 (w_inserts ex_sc1 ex_t [7]))) (7, 1) = true /\
  has_trk (execs (db_of ex_t) (firstn 0 (w_inserts ex_sc1 ex_t [7]))) (7, 1) = false /\
  node_status ex_sc1 ex_t 9 = InMempoolSince 120 /\ node_status ex_sc2 ex_t 9 = IrrevocablyResolved.
Proof. split; [exact ex_scripts_consistent|]. split; [exact ex_t_boundary|]. vm_compute. repeat split; reflexivity. Qed.

(* the hypotheses of C03_replay_connect hold on the example (kill after the tracker INSERT: j = 1; the penalty confirmed
   while down: replay_ok through its second disjunct), so its conclusion applies *)
Example C03_ex_replay_connect :
  eq_up_to_stamp
    (db_of (fst (step true (restart ex_t (execs (db_of ex_t) (firstn (0 + 1) (op_stmts true ex_t ex_block ex_sc1)))) ex_block ex_sc2)))
    (db_of (fst (step true ex_t ex_block ex_sc1))).
Proof.
  apply (C03_replay_connect true ex_t 5000 [7] ex_sc1 ex_sc2 1 (set_gk_height (TowerProofs.fresh ex_t) 121)).
  - exact ex_t_inv.
  - exact ex_t_boundary.
  - vm_compute. exact I.
  - vm_compute. reflexivity.
  - vm_compute. apply le_n.
  - intros a p Hin Hl Hd Hi. right.
    assert (Ha : a = mk_app 7 1 (mk_blob 7 (Some 9) 4100) 20 1 120 \/ a = mk_app 8 2 (mk_blob 8 (Some 19) 100) 20 2 120).
    { revert Hin. vm_compute. intros [H|[H|[]]]; [left|right]; symmetry; exact H. }
    destruct Ha as [-> | ->].
    + vm_compute in Hd. inversion Hd; subst p. vm_compute. repeat split; reflexivity.
    + exfalso. revert Hl. vm_compute. intros [H|[]]; discriminate H.
  - intros tx. unfold ex_sc1, ex_sc2, script_get. cbn [aget]. destruct (N.eqb tx 9); vm_compute; reflexivity.
  - vm_compute. exact I.
Qed.

(* resubmission after a lost reply on the example tower: hypotheses of C03_add_resubmission_reply_lost *)
Example C03_ex_resubmission :
  let o := OAdd (Some 2) 9 (mk_blob 9 (Some 29) 2049) 20 4 in
  ti_get (w_cache ex_t) 9 = None /\ snd (step true ex_t o []) = OAddRes (AddOk 120 4 7 420) /\
  db_of (fst (step true (restart ex_t (db_of (fst (step true ex_t o [])))) o [])) = db_of (fst (step true ex_t o [])).
Proof. vm_compute. repeat split; reflexivity. Qed.

Print Assumptions C03_op_is_its_trace.
Print Assumptions C03_op_rpcs_are_its_trace.
Print Assumptions C03_crash_integrity.
Print Assumptions C03_restart_keeps_tables.
Print Assumptions C03_crash_after_last_step.
Print Assumptions C03_never_grants_refuted.
Print Assumptions C03_never_grants_outside_shrinking_update.
Print Assumptions C03_grant_only_in_shrinking_window.
Print Assumptions C03_connect_never_grants.
Print Assumptions C03_inflight_cost.
Print Assumptions C03_register_never_costs.
Print Assumptions C03_rows_only_deleted_explicitly.
Print Assumptions C03_row_content_kept.
Print Assumptions C03_acked_survives.
Print Assumptions C03_ack_after_durable.
Print Assumptions C03_replay_idempotent_partial.
Print Assumptions C03_lkb_persisted_after_poll.
Print Assumptions C03_replay_block_refuted.
Print Assumptions C03_replay_gatekeeper_watcher.
Print Assumptions C03_watcher_is_its_pure_trace.
Print Assumptions C03_watcher_replay.
Print Assumptions C03_insert_block_replay.
Print Assumptions C03_gatekeeper_replay_done.
Print Assumptions C03_replay_block_upto_responder.
Print Assumptions C03_register_crash_two_states.
Print Assumptions C03_register_resubmission_refuted.
Print Assumptions C03_add_resubmission_reply_lost.
Print Assumptions C03_add_resubmission_in_window_refuted.
Print Assumptions C03_watcher_replay_completed.
Print Assumptions C03_lkb_written_after_all_blocks.
Print Assumptions C03_responder_replay.
Print Assumptions C03_replay_connect.
Print Assumptions C03_crash_index_is_statement_index.
Print Assumptions C03_replay_connect_before.
Print Assumptions C03_gatekeeper_replay_before.
