(* C03 — tower crash at any instant and restart loses no acknowledged work.
   Statements only.  What is a theorem here: referential integrity of the database after ANY crash
   (a crash leaves the effect of a prefix of atomic statements), for every statement sequence
   whatever the code issues; recovery from any such database yields the tower invariant; the
   primitive table updates of the tower model are such statements; the bootstrap/persist rules read
   from main.rs and chain_monitor.rs.  The replay equivalence ("answered exactly as in an
   uninterrupted run") is decided by fault enumeration on the real code (see the check), and is
   REFUTED for a crash after a poll that delivered only a prefix of the blocks (F4). *)
From TeosModel Require Import Base TxIndex Tower TowerStable TowerInv Crash.
From TeosModel.Gen Require Bootstrap.
Local Open Scope N_scope.

(* no dangling records, ever: every statement preserves integrity ... *)
Theorem C03_statement_preserves_integrity d s : DbInv d -> DbInv (exec d s).
Proof. exact (exec_inv d s). Qed.

(* ... hence every crash prefix of every statement sequence *)
Theorem C03_no_dangling_after_any_crash d l n : DbInv d -> DbInv (execs d (firstn n l)).
Proof. exact (crash_prefix_inv d l n). Qed.

(* restart: memory rebuilt from the tables (Gatekeeper::new loads users; the reorged set starts
   empty); the tower invariant holds whatever the memory was before the crash *)
Theorem C03_recover_invariant t_shell d : DbInv d -> Inv (recover t_shell d).
Proof. exact (recover_inv t_shell d). Qed.

(* the tower's own writes are such statements (tie to Tower.v) *)
Theorem C03_primitives_are_statements t :
  (forall a, find_app (db_apps t) (app_uuid a) = None -> amem (db_users t) (a_user a) = true ->
             db_of (p_insert_app t a) = exec (db_of t) (SInsApp a)) /\
  (forall a, db_of (p_update_app t a) = exec (db_of t) (SUpdApp a)) /\
  (forall k a0, find_trk (db_trks t) (trk_uuid k) = None -> find_app (db_apps t) (trk_uuid k) = Some a0 ->
                db_of (p_insert_trk t k) = exec (db_of t) (SInsTrk k)) /\
  (forall uuid h c, db_of (set_trk_status t uuid h c) = exec (db_of t) (SUpdTrk uuid h c)) /\
  (forall us, db_of (db_delete_apps t us) = exec (db_of t) (SDelApps us)) /\
  (forall out, db_of (p_purge t out) = exec (db_of t) (SDelUsers out)) /\
  (forall u ui, db_of (p_set_user t u ui) = exec (db_of t) (SUpdUser u ui)) /\
  (forall u ui, amem (db_users t) u = false -> db_of (p_new_user t u ui) = exec (db_of t) (SInsUser u ui)) /\
  (forall u ui s, db_of (p_refund_user t u ui s) = exec (db_of t) (SUpdSlots u s)).
Proof.
  repeat split; intros;
    first [ apply prim_insert_app_is_stmt; assumption
          | eapply prim_insert_trk_is_stmt; eassumption
          | apply prim_new_user_is_stmt; assumption
          | reflexivity ].
Qed.

(* a crash between the charge and the store of an add_appointment costs the user exactly
   required - used slots: at most the slots of the request in flight *)
Theorem C03_inflight_costs_at_most_request t u ui required used :
  gk_get t u = Some ui -> required <= u_slots ui + used ->
  u_slots ui + used < U32MOD ->
  (u_slots ui + used - required) mod U32MOD + required = u_slots ui + used.
Proof. exact (charge_then_crash_costs_at_most_request t u ui required used). Qed.

(* the persistence rules of the code, regenerated from main.rs / chain_monitor.rs on every run: the
   bootstrap tip is persisted when none is stored (after the repair of F18); a poll persists the
   polled tip when it is better (this is what makes F4 possible), never when it is worse *)
Theorem C03_persistence_rules :
  Bootstrap.BOOTSTRAP_PERSISTS_TIP = true /\ Bootstrap.POLL_PERSISTS_BETTER_TIP = true /\
  Bootstrap.POLL_PERSISTS_WORSE_TIP = false.
Proof. repeat split; reflexivity. Qed.

(* the executable integrity check used on recovered databases accepts a consistent one *)
Example C03_integrity_check_nonvacuous :
  db_inv_b (mk_db [(1, mk_uinfo 3 100 200)] [mk_app 7 1 (mk_blob 7 (Some 9) 100) 10 1 100]
                  [mk_trk 7 1 7 9 101 false]) = true /\
  db_inv_b (mk_db [] [mk_app 7 1 (mk_blob 7 (Some 9) 100) 10 1 100] []) = false.
Proof. vm_compute. auto. Qed.

Print Assumptions C03_statement_preserves_integrity.
Print Assumptions C03_no_dangling_after_any_crash.
Print Assumptions C03_recover_invariant.
Print Assumptions C03_primitives_are_statements.
Print Assumptions C03_inflight_costs_at_most_request.
Print Assumptions C03_persistence_rules.
