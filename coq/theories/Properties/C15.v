(* C15 — every HTTP request gets a documented answer; bad ones change nothing.
   Statements only; proofs are `exact` of lemmas in HttpProofs.v.  The model (Http.v: respond, HttpTower.v:
   hserve) is defined over the tables tools/translate_http.py regenerates from teos/src/api/http.rs,
   teos/src/api/internal.rs and teos-common/src/errors.rs on every run (Gen/Http.v), so every theorem below
   is re-checked against what the code says now.  All of them quantify over EVERY request (method class,
   target, content-length, content-type class, serde's verdict on the body for each request type) and
   every answer of the internal API. *)
From Coq Require Import ZArith NArith List Bool.
From TeosModel Require Import Base TxIndex Tower TowerProofs HttpBase Http HttpTower HttpProofs.
From TeosModel.Gen Require Import Http.
Import ListNotations.
Local Open Scope Z_scope.

(* Every answer is 200, 4xx or 503 - whatever the request and whatever the internal API returns (including a
   tonic code match_status has no row for, and the code tonic reports when the handler task died). *)
Theorem C15_status_documented rq g :
  rp_status (respond rq g) = 200 \/ 400 <= rp_status (respond rq g) < 500 \/ rp_status (respond rq g) = 503.
Proof. exact (status_documented rq g). Qed.

(* A request addressed to an endpoint that takes a body, with that endpoint's method and a content-length within
   the endpoint's cap - whatever its content-type and whatever its body: if the internal API answers (does not
   abort) with one of the codes internal.rs can produce, then any answer other than 200 is a JSON error object
   whose code is one of the documented ones and is not the catch-all UNEXPECTED_ERROR.  (Full statement: since the
   fix 8a3c402 handle_rejection answers warp's UnsupportedMediaType itself; HttpProofs.error_body_needs_media_type_row
   shows what the answer is without that row.) *)
Theorem C15_error_body_documented rq g i rt cap len :
  nth_error H_ROUTES i = Some rt ->
  rt_cap rt = Some cap ->
  hfirst_segment (rq_target rq) = rt_name rt ->
  rq_method rq = rt_method rt ->
  rq_clen rq = Some len -> len <= cap ->
  hinternal_answer rt g ->
  rp_status (respond rq g) <> 200 ->
  exists c, rp_code (respond rq g) = Some c /\ In c HDoc_CODES /\ c <> H_ERR_UNEXPECTED_ERROR.
Proof. exact (error_body_documented rq g i rt cap len). Qed.

(* Every tonic code a method of the internal API can return (its own Status::new sites and
   check_service_unavailable) has a row of its own in match_status - never the catch-all - and that row's
   error code is a documented one. *)
Theorem C15_internal_codes_mapped rt ia c :
  In rt H_ROUTES -> rt_internal rt = Some ia -> In c (ia_codes ia) ->
  exists st code, hassoc c H_MATCH_STATUS = Some (st, code) /\ hmatch_status c = (st, code) /\
                  In code HDoc_CODES /\ code <> H_ERR_UNEXPECTED_ERROR.
Proof. exact (internal_codes_mapped rt ia c). Qed.

(* Whenever the HTTP layer forwards a request, the request went through every field check of its route and
   every requirement of the unwrap()s of the internal API method behind it holds (appointment present, locator
   of LOCATOR_LEN bytes): the internal handler cannot abort on a request field.  The answer is then exactly the
   internal API's answer run through parse_grpc_response / match_status. *)
Theorem C15_validated_before_unwrap rq g :
  rp_forwarded (respond rq g) = true ->
  exists i rt ia fs,
    nth_error H_ROUTES i = Some rt /\ rt_internal rt = Some ia /\
    nth i (rq_bodies rq) (BodyErr []) = BodyOk fs /\
    hrun_checks (rt_checks rt) fs = None /\
    (forall f c, In (f, c) (ia_requires ia) -> hcond_holds fs f c = true) /\
    respond rq g = hgrpc_reply g.
Proof. exact (validated_before_unwrap rq g). Qed.

(* An HTTP request answered with anything but 200 leaves the tower state as it was (up to the ghost RPC log
   the core resets at the start of every operation), in every tower state, reachable or not, whatever
   operation `den` of the core the request denotes - provided the core does not abort (C11's sites) and the
   users the gatekeeper knows have their rows in table users (user_row_ok; every reachable state has it:
   TowerInv.inv_user_rows - otherwise the repaired store refuses an appointment that was already charged). *)
Theorem C15_non200_unchanged le t reachable rq den sc t' r :
  (forall u, user_row_ok t u) ->
  (forall o, den = Some o -> his_api_op o = true) ->
  (forall o s, den = Some o -> snd (step le t o sc) <> OAbort s) ->
  hserve le t reachable rq den sc = (t', r) ->
  rp_status r <> 200 ->
  fresh t' = fresh t.
Proof. exact (non200_unchanged le t reachable rq den sc t' r). Qed.

(* The tables read from the code are the documented ones (pinned in Http.v): endpoints, methods and body caps;
   the handlers' field checks with their codes; the numeric error codes; the catch-all; the statuses of
   handle_rejection; and, for every tonic code, the row of match_status. *)
Theorem C15_tables_as_documented :
  map (fun rt => (rt_name rt, rt_method rt, rt_cap rt)) H_ROUTES = HDoc_ENDPOINTS /\
  map (fun rt => (rt_name rt, rt_checks rt)) H_ROUTES = HDoc_CHECKS /\
  [H_ERR_MISSING_FIELD; H_ERR_EMPTY_FIELD; H_ERR_WRONG_FIELD_TYPE; H_ERR_WRONG_FIELD_SIZE; H_ERR_WRONG_FIELD_FORMAT;
   H_ERR_INVALID_REQUEST_FORMAT; H_ERR_INVALID_SIGNATURE_OR_SUBSCRIPTION_ERROR; H_ERR_SERVICE_UNAVAILABLE;
   H_ERR_APPOINTMENT_ALREADY_TRIGGERED; H_ERR_APPOINTMENT_NOT_FOUND; H_ERR_REGISTRATION_RESOURCE_EXHAUSTED] = HDoc_CODES /\
  H_ERR_UNEXPECTED_ERROR = HDoc_UNEXPECTED /\
  H_MATCH_STATUS_DEFAULT = (400, HDoc_UNEXPECTED) /\
  H_OK_STATUS = 200 /\ H_REJ_BODY_STATUS = 400 /\ H_REJ_API_STATUS = 400 /\
  H_REJ_WARP_ROWS = HDoc_WARP_ROWS.
Proof. exact tables_as_documented. Qed.

Theorem C15_match_status_as_documented c : hassoc c H_MATCH_STATUS = hdoc_answer c.
Proof. exact (match_status_as_documented c). Qed.

(* ---------------- non-vacuity ---------------- *)
Definition ex_user_id33 : list (hfield * Z) := [(FUserId, 33)].
Definition ex_add_ok : list (hfield * Z) := [(FAppointment, 1); (FAppLocator, 16); (FAppBlob, 120); (FAppDelay, 4); (FSignature, 104)].
Definition ex_target (name : hbytes) : hbytes := 47%N :: name.
Definition ex_nobody : hbody := BodyErr [].

(* a proper registration is forwarded and answered 200; resource exhausted is answered 400 / 65 *)
Example C15_ex_register_ok :
  respond (mk_hrequest MPost (ex_target HDoc_register) (Some 80) CtJson [BodyOk ex_user_id33]) GOk = mk_hreply 200 None true.
Proof. vm_compute. reflexivity. Qed.
Example C15_ex_register_exhausted :
  respond (mk_hrequest MPost (ex_target HDoc_register) (Some 80) CtJson [BodyOk ex_user_id33]) (GErr 8) = mk_hreply 400 (Some 65) true.
Proof. vm_compute. reflexivity. Qed.
(* the hypotheses of C15_error_body_documented are met by it (route 0, cap 87) *)
Example C15_ex_error_body_hypotheses :
  nth_error H_ROUTES 0 = Some H_ROUTE_register /\ rt_cap H_ROUTE_register = Some 87 /\
  hfirst_segment (ex_target HDoc_register) = rt_name H_ROUTE_register /\ hinternal_answer H_ROUTE_register (GErr 8).
Proof.
  repeat split; try (vm_compute; reflexivity).
  right. exists H_INTERNAL_register, 8. repeat split. vm_compute. tauto.
Qed.
(* a 15-byte locator is refused by the handler (wrong size, code 4) and NOT forwarded *)
Example C15_ex_short_locator :
  respond (mk_hrequest MPost (ex_target HDoc_add_appointment) (Some 300) CtJson
             [ex_nobody; BodyOk [(FAppointment, 1); (FAppLocator, 15); (FAppBlob, 120); (FAppDelay, 4); (FSignature, 104)]]) GOk
  = mk_hreply 400 (Some 4) false.
Proof. vm_compute. reflexivity. Qed.
(* a proper appointment is forwarded; the not-found / unauthenticated / unavailable answers *)
Example C15_ex_add_forwarded :
  rp_forwarded (respond (mk_hrequest MPost (ex_target HDoc_add_appointment) (Some 300) CtJson [ex_nobody; BodyOk ex_add_ok]) (GErr 16)) = true /\
  respond (mk_hrequest MPost (ex_target HDoc_add_appointment) (Some 300) CtJson [ex_nobody; BodyOk ex_add_ok]) (GErr 16) = mk_hreply 401 (Some 7) true /\
  respond (mk_hrequest MPost (ex_target HDoc_add_appointment) (Some 300) CtJson [ex_nobody; BodyOk ex_add_ok]) (GErr 14) = mk_hreply 503 (Some 32) true.
Proof. vm_compute. repeat split; reflexivity. Qed.
(* serde's message decides the code: "missing field `user_id` at line 1 column 2" -> 1 *)
Example C15_ex_missing_field :
  respond (mk_hrequest MPost (ex_target HDoc_register) (Some 2) CtAbsent
             [BodyErr [109;105;115;115;105;110;103;32;102;105;101;108;100;32;96;117;115;101;114;95;105;100;96]%N]) GOk
  = mk_hreply 400 (Some 1) false.
Proof. vm_compute. reflexivity. Qed.
(* warp's own rejections that handle_rejection hands back: too large 413, no content-length 411, GET on a POST route 405, unknown path 405
   (the GET-only ping route turns every unknown POST into "method not allowed"), all without a JSON body *)
Example C15_ex_warp_rejections :
  respond (mk_hrequest MPost (ex_target HDoc_register) (Some 88) CtJson [BodyOk ex_user_id33]) GOk = mk_hreply 413 None false /\
  respond (mk_hrequest MPost (ex_target HDoc_register) None CtJson [BodyOk ex_user_id33]) GOk = mk_hreply 411 None false /\
  respond (mk_hrequest MGet (ex_target HDoc_register) None CtAbsent []) GOk = mk_hreply 405 None false /\
  respond (mk_hrequest MPost (ex_target [120%N]) (Some 0) CtAbsent []) GOk = mk_hreply 405 None false /\
  respond (mk_hrequest MGet (ex_target HDoc_ping) None CtAbsent []) GOk = mk_hreply 200 None false.
Proof. vm_compute. repeat split; reflexivity. Qed.
(* an unsupported content-type on an existing endpoint: 415 with the JSON error 'invalid request format' *)
Example C15_ex_unsupported_media_type :
  respond (mk_hrequest MPost (ex_target HDoc_register) (Some 80) CtOther [BodyOk ex_user_id33]) GOk = mk_hreply 415 (Some 6) false.
Proof. vm_compute. reflexivity. Qed.
(* the catch-all is what an unmapped tonic code (Internal = 13) or a dead handler gets: excluded by hinternal_answer *)
Example C15_ex_catch_all :
  respond (mk_hrequest MPost (ex_target HDoc_register) (Some 80) CtJson [BodyOk ex_user_id33]) (GErr 13) = mk_hreply 400 (Some 255) true.
Proof. vm_compute. reflexivity. Qed.
(* the tower link is not vacuous: on a real state, registering again at the slot maximum is answered 400 / 65 and
   nothing changes; with bitcoind unreachable 503 / 32 and nothing changes; a new user gets 200 and a row *)
Example C15_ex_tower_link :
  match init (mk_config 4000000000%N 500%N 20%N) 120%N (map (fun k => ((1000 + N.of_nat k)%N, [])) (seq 0 100)) with
  | Some t0 =>
      let '(t1, _) := step true t0 (ORegister 1%N) [] in
      let rq := mk_hrequest MPost (ex_target HDoc_register) (Some 80) CtJson [BodyOk ex_user_id33] in
      let '(t2, r2) := hserve true t1 true rq (Some (ORegister 1%N)) [] in
      let '(t3, r3) := hserve true t1 false rq (Some (ORegister 1%N)) [] in
      let '(t4, r4) := hserve true t1 true rq (Some (ORegister 2%N)) [] in
      (r2, r3, rp_status r4, length (db_users t2), length (db_users t3), length (db_users t4))
  | None => (mk_hreply 0 None false, mk_hreply 0 None false, 0, 0%nat, 0%nat, 0%nat)
  end = (mk_hreply 400 (Some 65) true, mk_hreply 503 (Some 32) true, 200, 1%nat, 1%nat, 2%nat).
Proof. vm_compute. reflexivity. Qed.
Example C15_ex_his_api_op : his_api_op (ORegister 1%N) = true /\ his_api_op ODisconnect = false.
Proof. split; reflexivity. Qed.

Print Assumptions C15_status_documented.
Print Assumptions C15_error_body_documented.
Print Assumptions C15_internal_codes_mapped.
Print Assumptions C15_validated_before_unwrap.
Print Assumptions C15_non200_unchanged.
Print Assumptions C15_tables_as_documented.
Print Assumptions C15_match_status_as_documented.
