(* C20 — effective configuration is command line over file over defaults; unsafe configurations are
   refused.  Statements only, over the descriptors that tools/translate_config.py regenerates from
   teos/src/config.rs, cli_config.rs and conf_template.toml on every run (Gen/Config.v).
   The premises "the generated descriptors conform" are discharged by computation on those descriptors,
   so a change of the source that breaks the property breaks this file. *)
Require Import TeosModel.Base TeosModel.Config TeosModel.ConfigProofs.
Require TeosModel.Gen.Config.
Module G := TeosModel.Gen.Config.
Local Open Scope N_scope.

Definition D : descr := G.teosd_descr.          (* struct Config, Config::default(), struct Opt, patch_with_options *)
Definition V : vdescr := G.teosd_vdescr.        (* get_auth_method, verify *)
Definition Dc : docs := teosd_docs G.conf_template_entries.   (* conf_template.toml + bitcoind's names and ports *)
Definition Dcli : descr := G.teoscli_descr.         (* teos-cli: cli_config.rs *)

(* ---------- the premises, evaluated on the generated descriptors ---------- *)
Definition teosd_shape : vshape := Eval vm_compute in
  match verify_shape (v_stmts V) with Some sh => sh | None => mk_vshape [] [] [] [] [] [] [] 0 end.

Lemma teosd_conforms : conforms D one_shot_names = true.            Proof. vm_compute. reflexivity. Qed.
Lemma cli_conforms : conforms Dcli [] = true.                        Proof. vm_compute. reflexivity. Qed.
Lemma teosd_shape_ok : verify_shape (v_stmts V) = Some teosd_shape.  Proof. vm_compute. reflexivity. Qed.
Lemma teosd_scrutinee : scrutinee_documented V Dc = true.            Proof. vm_compute. reflexivity. Qed.
Lemma teosd_auth_table : auth_table_ok V teosd_shape = true.         Proof. vm_compute. reflexivity. Qed.
Lemma teosd_networks : networks_documented teosd_shape Dc = true.    Proof. vm_compute. reflexivity. Qed.
Lemma teosd_defaults : defaults_documented D Dc = true.              Proof. vm_compute. reflexivity. Qed.
Lemma cli_defaults : defaults_documented Dcli cli_docs = true.       Proof. vm_compute. reflexivity. Qed.

(* ---------- precedence ----------
   For every field of struct Config (every setting), every file (absent, unreadable, refused by toml, or
   any set of well-typed `key = value` lines — `file_seen` is what the daemon takes from it), every
   command line: after from_file + patch_with_options the setting has the command-line value if the
   option was given (a flag: if it is set), else the file value if present, else the value of
   Config::default(); the two one-shot switches have the value of the command-line flag. *)
Theorem C20_precedence : forall (f : fieldd) (file : option layer) (cl : cli),
  In f (d_fields D) ->
  cget (patch D cl (load D file)) (f_name f) =
    if mem_str (f_name f) one_shot_names then VBool (cli_flag cl (f_name f))
    else match cli_given D cl (f_name f) with
         | Some v => v
         | None => match lget (file_seen D file) (f_name f) with
                   | Some v => v
                   | None => f_default f
                   end
         end.
Proof. exact (precedence_sound D one_shot_names teosd_conforms). Qed.

(* ... and Config::default() is the documented default: conf_template.toml for every key it lists,
   except the three credentials (sample values in the template; documented as "must be set": empty)
   and btc_rpc_port (0 = not set; the network decides) *)
Theorem C20_defaults_documented : forall f, In f (d_fields D) -> doc_default Dc f = f_default f.
Proof.
  intros f Hf. apply cval_eqb_eq. pose proof teosd_defaults as H. unfold defaults_documented in H.
  rewrite forallb_forall in H. exact (H f Hf).
Qed.

(* the same for teos-cli (cli_config.rs), which has no one-shot switch and no verify *)
Theorem C20_precedence_cli : forall (f : fieldd) (file : option layer) (cl : cli),
  In f (d_fields Dcli) ->
  cget (run_cli Dcli file cl) (f_name f) =
    match cli_given Dcli cl (f_name f) with
    | Some v => v
    | None => match lget (file_seen Dcli file) (f_name f) with
              | Some v => v
              | None => f_default f
              end
    end.
Proof. exact (precedence_sound Dcli [] cli_conforms). Qed.

(* the options the command line is documented to have (README, docker/entrypoint.sh, --help) exist,
   with the documented kind *)
Definition documented_cli_options : list (text * okind) := Eval vm_compute in
  [(T "api_bind", OValue TStr); (T "api_port", OValue TU16); (T "rpc_bind", OValue TStr); (T "rpc_port", OValue TU16);
   (T "btc_network", OValue TStr); (T "btc_rpc_user", OValue TStr); (T "btc_rpc_password", OValue TStr);
   (T "btc_rpc_cookie", OValue TStr); (T "btc_rpc_connect", OValue TStr); (T "btc_rpc_port", OValue TU16);
   (T "tor_control_port", OValue TU16); (T "onion_hidden_service_port", OValue TU16);
   (T "debug", OFlag); (T "deps_debug", OFlag); (T "tor_support", OFlag); (T "overwrite_key", OFlag);
   (T "force_update", OFlag)].

Theorem C20_cli_inventory : forall n k, In (n, k) documented_cli_options -> find_opt (d_opts D) n = Some k.
Proof.
  intros n k H. repeat (destruct H as [H|H]; [inversion H; subst; reflexivity|]). contradiction.
Qed.

(* ---------- the one-shot switches ---------- *)
Theorem C20_one_shot : forall (name : text) (file : option layer) (cl : cli),
  In name one_shot_names ->
  cget (patch D cl (load D file)) name = VBool (cli_flag cl name).
Proof.
  intros name file cl H. destruct (one_shot_is_field D _ teosd_conforms name H) as [f [Hf E]]. subst name.
  exact (one_shot_sound D _ teosd_conforms f file cl Hf H).
Qed.

(* ---------- verify ----------
   verify succeeds iff user and password are both non-empty and the cookie is empty, or user and
   password are both empty and the cookie is not — and the network is one of the accepted names. *)
Theorem C20_verify_accepts_iff : forall c : config,
  snd (verify V c) = VOk <->
  ((configured c n_user /\ configured c n_password /\ ~ configured c n_cookie) \/
   (~ configured c n_user /\ ~ configured c n_password /\ configured c n_cookie)) /\
  In (str_of (cget c n_network)) (accepted_networks teosd_shape).
Proof. exact (verify_accepts_iff V Dc teosd_shape teosd_shape_ok teosd_scrutinee teosd_auth_table). Qed.

(* the accepted names, computed from the generated normalisation list and port table: the four
   documented ones and bitcoind's own chain names `main` and `test` *)
Theorem C20_accepted_networks :
  accepted_networks teosd_shape =
  map T ["mainnet"; "testnet"; "main"; "test"; "regtest"; "signet"]%string.
Proof. vm_compute. reflexivity. Qed.

(* what the property asks: a configuration that is accepted has exactly one of {user and password,
   cookie} configured, and a known network *)
Theorem C20_accepted_is_safe : forall c : config,
  snd (verify V c) = VOk ->
  exactly_one_auth (is_empty_val (cget c n_user)) (is_empty_val (cget c n_password))
                   (is_empty_val (cget c n_cookie)) = true /\
  In (str_of (cget c n_network)) (accepted_networks teosd_shape).
Proof.
  intros c H. apply C20_verify_accepts_iff in H as [Ha Hn]. split; [|exact Hn]. apply clean_exactly_one.
  apply clean_auth_iff. unfold configured in Ha.
  destruct (is_empty_val (cget c n_user)), (is_empty_val (cget c n_password)), (is_empty_val (cget c n_cookie));
    intuition congruence.
Qed.

(* the converse of the literal reading is false: user + cookie without password is "exactly one method
   configured" (the cookie) and a known network, yet it is refused (get_auth_method: Multiple) *)
Definition ex_stray_user : config := Eval vm_compute in
  [(T "btc_rpc_user", VStr (T "u")); (T "btc_rpc_password", VStr []); (T "btc_rpc_cookie", VStr (T "c"));
   (T "btc_network", VStr (T "regtest")); (T "btc_rpc_port", VNum 0)].

Theorem C20_verify_accepts_iff_literal_refuted : exists c : config,
  exactly_one_auth (is_empty_val (cget c n_user)) (is_empty_val (cget c n_password))
                   (is_empty_val (cget c n_cookie)) = true /\
  mem_str (str_of (cget c n_network)) (accepted_networks teosd_shape) = true /\
  snd (verify V c) <> VOk.
Proof. exists ex_stray_user. vm_compute. repeat split; discriminate. Qed.

(* ---------- the port ----------
   After a successful verify the port is the configured one unless that is 0, in which case it is the
   row the network selects.  An explicit `btc_rpc_port = 0` (file or command line) is therefore
   indistinguishable from "not set" (C20_explicit_zero_is_unset below). *)
Theorem C20_port_default : forall c : config,
  snd (verify V c) = VOk ->
  exists p, port_of teosd_shape (str_of (cget c n_network)) = Some p /\
            cget (fst (verify V c)) n_port =
            if N.eqb (num_of (cget c n_port)) 0 then VNum p else cget c n_port.
Proof. exact (verify_port V teosd_shape teosd_shape_ok). Qed.

Theorem C20_port_table :
  map (fun net => (net, port_of teosd_shape net)) (accepted_networks teosd_shape) =
  map (fun np => (T (fst np), Some (snd np)))
      [("mainnet", 8332); ("testnet", 18332); ("main", 8332); ("test", 18332); ("regtest", 18443); ("signet", 38332)]%string.
Proof. vm_compute. reflexivity. Qed.

(* verify changes nothing but the port and the network name, which becomes bitcoind's chain name *)
Theorem C20_verify_keeps_settings : forall (c : config) (n : text),
  n <> n_network -> n <> n_port -> cget (fst (verify V c)) n = cget c n.
Proof. exact (verify_preserves V teosd_shape teosd_shape_ok). Qed.

Theorem C20_network_normalised : forall c : config,
  snd (verify V c) = VOk ->
  str_of (cget (fst (verify V c)) n_network) = norm_net teosd_shape (str_of (cget c n_network)).
Proof. exact (verify_network V teosd_shape teosd_shape_ok). Qed.

(* ---------- the monitor ----------
   `mon_fails` is the property as the check evaluates it on the implementation's observations
   (drv_config.ml): precedence against the DOCUMENTED defaults, one-shot switches, "accepted => exactly
   one method and a known network", "one cleanly configured method and a documented network => accepted",
   the documented port, verify changing nothing else.  On the model it never fails. *)
Theorem C20_monitor_holds : forall (file : option layer) (cl : cli),
  mon_fails D Dc file cl (run_daemon D V file cl) = [].
Proof.
  exact (monitor_holds D V Dc teosd_shape teosd_conforms teosd_defaults teosd_shape_ok teosd_scrutinee
                       teosd_auth_table teosd_networks).
Qed.

Theorem C20_monitor_holds_cli : forall (file : option layer) (cl : cli),
  mon_fails_cli Dcli cli_docs file cl (run_cli Dcli file cl) = [].
Proof. exact (monitor_cli_holds Dcli cli_docs cli_conforms cli_defaults). Qed.

(* ---------- non-vacuity and the limits of the statements (kernel computations) ---------- *)
Definition ex_file : option layer := Eval vm_compute in
  Some [(T "btc_rpc_user", VStr (T "u")); (T "btc_rpc_password", VStr (T "p")); (T "api_port", VNum 1);
        (T "rpc_port", VNum 7); (T "overwrite_key", VBool true); (T "debug", VBool true); (T "btc_network", VStr (T "regtest"))].
Definition ex_cli : cli := Eval vm_compute in
  mk_cli [(T "api_port", VNum 2); (T "btc_network", VStr (T "testnet"))] [T "force_update"].
Definition ex_view (c : config) : list cval :=
  map (cget c) (map T ["api_port"; "rpc_port"; "tor_control_port"; "debug"; "overwrite_key"; "force_update";
                       "btc_network"; "btc_rpc_port"]%string).

(* command line over file (api_port, btc_network), file over default (rpc_port, debug), default
   (tor_control_port); overwrite_key = true in the file is ignored, force_update comes from the flag;
   testnet selects 18332 and becomes `test` *)
Example C20_example_run :
  let oc := run_daemon D V ex_file ex_cli in
  (oc_result oc, ex_view (oc_final oc)) =
  (VOk, [VNum 2; VNum 7; VNum 9051; VBool true; VBool false; VBool true; VStr (T "test"); VNum 18332]).
Proof. vm_compute. reflexivity. Qed.

(* Config::default() alone is refused: the credentials have to be configured *)
Example C20_defaults_refused : exists m, oc_result (run_daemon D V None (mk_cli [] [])) = VErr m.
Proof. vm_compute. eexists. reflexivity. Qed.

(* user + password + cookie, and an unknown network, are refused *)
Example C20_multiple_refused : exists m,
  oc_result (run_daemon D V ex_file (mk_cli [(n_cookie, VStr (T "c"))] [])) = VErr m.
Proof. vm_compute. eexists. reflexivity. Qed.

Example C20_unknown_network_refused : exists m,
  oc_result (run_daemon D V ex_file (mk_cli [(n_network, VStr (T "bitcoin"))] [])) = VErr m.
Proof. vm_compute. eexists. reflexivity. Qed.

(* an explicit port 0 on the command line does not override the file's port with "0": it is taken
   as "not set" by verify and replaced by the network's default *)
Example C20_explicit_zero_is_unset :
  let file := Some [(n_user, VStr (T "u")); (n_password, VStr (T "p")); (n_port, VNum 1234)] in
  cget (oc_final (run_daemon D V file (mk_cli [(n_port, VNum 0)] []))) n_port = VNum 8332.
Proof. vm_compute. reflexivity. Qed.

(* a file with one out-of-range value is refused as a whole by toml: every other line of it is
   ignored too (from_file prints a message and goes on with Config::default()) *)
Example C20_refused_file_is_no_file :
  let file := Some [(T "api_port", VNum 70000); (T "rpc_port", VNum 1234)] in
  file_seen D file = [] /\ cget (load D file) (T "rpc_port") = VNum 8814.
Proof. vm_compute. split; reflexivity. Qed.

(* an explicitly empty value on the command line overrides a non-empty file value (and then counts
   as "not configured") *)
Example C20_empty_cli_value_wins :
  oc_result (run_daemon D V ex_file (mk_cli [(n_password, VStr [])] [])) <> VOk.
Proof. vm_compute. discriminate. Qed.

Print Assumptions C20_precedence.
Print Assumptions C20_defaults_documented.
Print Assumptions C20_precedence_cli.
Print Assumptions C20_cli_inventory.
Print Assumptions C20_one_shot.
Print Assumptions C20_verify_accepts_iff.
Print Assumptions C20_accepted_networks.
Print Assumptions C20_accepted_is_safe.
Print Assumptions C20_verify_accepts_iff_literal_refuted.
Print Assumptions C20_port_default.
Print Assumptions C20_port_table.
Print Assumptions C20_verify_keeps_settings.
Print Assumptions C20_network_normalised.
Print Assumptions C20_monitor_holds.
Print Assumptions C20_monitor_holds_cli.
