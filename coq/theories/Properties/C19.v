(* C19 — recent-block look-ups equal the last N blocks of the active chain.
   This file contains statements only; every proof is `exact <lemma>`. *)
From TeosModel Require Import Base ListAux TxIndex TxIndexProofs.
From TeosModel.Gen Require Consts.
Section C19.
  Context {V : Type}.
  Local Open Scope nat_scope.

  (* Bootstrap: an index built from N chained blocks represents exactly those blocks, the tip being
     the height passed in (the height of the newest block). *)
  Theorem C19_new_refines (newest_first : list (iblock V)) (height : Z) :
    NoDup (map ib_hash newest_first) -> NoDup (all_keys (rev newest_first)) ->
    exists t, ti_new newest_first height = Some t /\
              RepW (length newest_first) t {| w_blocks := rev newest_first; w_tip := height |}.
  Proof. exact (new_refines newest_first height). Qed.

  (* Main refinement: for every capacity n, every index t representing a window w, and every
     sequence of connections / disconnections satisfying hypotheses (a) [disconnected hashes are
     the back of the queue] and (b) [no key in two live blocks], the run does not abort and every
     look-up answers as the list-of-blocks window does: get k = the value k has in the live block
     containing it, get_height h = the true height of live block h, None otherwise. *)
  Theorem C19_txindex_refines_window n (t : txindex V) (w : window V) ops :
    RepW n t w -> valid_ops n w ops ->
    exists t', ti_run t ops = Some t' /\
      RepW n t' (w_run n w ops) /\
      (forall k, ti_get t' k = w_get (w_run n w ops) k) /\
      (forall h, ti_get_height t' h = w_get_height (w_run n w ops) h).
  Proof.
    intros HR Hv. destruct (run_refines n ops t w HR Hv) as [t' [Hrun HR']].
    exists t'. split; [exact Hrun|]. split; [exact HR'|]. split.
    - intros k. exact (get_refines n t' _ k HR').
    - intros h. exact (get_height_refines n t' _ h HR').
  Qed.

  (* What a window look-up is: exactly the entries of the blocks in the window. *)
  Theorem C19_window_get_exact (w : window V) k v :
    NoDup (all_keys (w_blocks w)) ->
    (w_get w k = Some v <-> exists b, In b (w_blocks w) /\ aget (ib_data b) k = Some v).
  Proof. exact (w_get_iff w k v). Qed.

  (* The window is always a suffix of the active chain and its tip is the true height of the
     chain's last block: entries of disconnected or aged-out blocks are never in it. *)
  Theorem C19_window_on_chain n h0 ops c (w : window V) :
    OnChain h0 c w -> valid_ops n w ops -> OnChain h0 (c_run c ops) (w_run n w ops).
  Proof. exact (onchain_run n h0 ops c w). Qed.

  Theorem C19_height_is_chain_index h0 c (w : window V) pre h p :
    OnChain h0 c w -> c = pre ++ w_blocks w ->
    positionN h (map ib_hash (w_blocks w)) = Some p ->
    w_get_height w h = Some (h0 + Z.of_nat (length pre + p))%Z.
  Proof. exact (onchain_height h0 c w pre h p). Qed.

  (* A full window is exactly the last n blocks of the chain, and a poll (k disconnections then
     at least k connections) leaves a full window full. *)
  Theorem C19_full_window_is_last_n n h0 c (w : window V) :
    OnChain h0 c w -> length (w_blocks w) = n -> w_blocks w = lastn n c.
  Proof. exact (onchain_full_lastn n h0 c w). Qed.

  Theorem C19_poll_refills n (w : window V) hs bs :
    length (w_blocks w) = n -> length hs <= length bs ->
    length (w_blocks (w_run n w (map (@TDisconnect V) hs ++ map (@TConnect V) bs))) = n.
  Proof. exact (poll_refills n w hs bs). Qed.
End C19.

(* The sizes the daemon instantiates the two indexes with (teos/src/main.rs, regenerated on every
   run): the watcher's locator cache covers the 6 newest blocks, the responder's index 100. *)
Theorem C19_production_sizes :
  (Consts.WATCHER_CACHE_FROM = 0 /\ Consts.WATCHER_CACHE_TO = 6 /\ Consts.RESPONDER_INDEX_SIZE = 100)%Z.
Proof. repeat split; reflexivity. Qed.

(* ---------- non-vacuity and the limits of the statement (kernel computations) ---------- *)
Definition ex_b (h : N) (ks : list N) : iblock N := {| ib_hash := h; ib_data := map (fun k => (k, h)) ks |}.
Definition ex_new : option (txindex N) := ti_new [ex_b 12 [5; 6]; ex_b 11 [3]; ex_b 10 [1; 2]] 102.
Definition ex_ops : list (tiop N) :=
  [TConnect (ex_b 13 [7]); TDisconnect 13; TDisconnect 12; TConnect (ex_b 22 [5; 8]);
   TConnect (ex_b 23 [6]); TConnect (ex_b 24 [9])].

(* the hypotheses of the refinement theorem are met by a history with a 2-block reorg in which a
   key (5) re-appears in the replacement block *)
Example C19_nonvacuous :
  valid_ops 3 {| w_blocks := rev [ex_b 12 [5; 6]; ex_b 11 [3]; ex_b 10 [1; 2]]; w_tip := 102 |} ex_ops.
Proof. apply valid_opsb_sound. vm_compute. reflexivity. Qed.

Example C19_example_run :
  match ex_new with
  | Some t => match ti_run t ex_ops with
              | Some t' => (ti_get t' 5, ti_get t' 6, ti_get t' 3, ti_get t' 7,
                            ti_get_height t' 24, ti_get_height t' 22, ti_get_height t' 11)
              | None => (None, None, None, None, None, None, None)
              end
  | None => (None, None, None, None, None, None, None)
  end = (Some 22, Some 23, None, None, Some 104%Z, Some 102%Z, None)%N.
Proof. vm_compute. reflexivity. Qed.

(* between a disconnection and the refill the window is the truncated suffix: the tower never
   re-fetches older blocks (DESIGN.md section 9) *)
Example C19_window_shrinks_during_reorg :
  match ex_new with
  | Some t => option_map (fun t' => length (ti_blocks t')) (ti_run t [TDisconnect 12])
  | None => None
  end = Some 2%nat.
Proof. vm_compute. reflexivity. Qed.

(* hypothesis (b) is necessary: with key 1 both in the oldest block and in the block being
   connected, evicting the oldest block drops the key although a live block contains it *)
Example C19_dup_key_refuted :
  match ex_new with
  | Some t => match ti_run t [TConnect (ex_b 13 [1])] with
              | Some t' => (ti_get t' 1,
                            w_get (w_run 3 {| w_blocks := rev [ex_b 12 [5; 6]; ex_b 11 [3]; ex_b 10 [1; 2]];
                                              w_tip := 102 |} [TConnect (ex_b 13 [1])]) 1)
              | None => (None, None)
              end
  | None => (None, None)
  end = (None, Some 13%N).
Proof. vm_compute. reflexivity. Qed.

Print Assumptions C19_production_sizes.
Print Assumptions C19_new_refines.
Print Assumptions C19_txindex_refines_window.
Print Assumptions C19_window_get_exact.
Print Assumptions C19_window_on_chain.
Print Assumptions C19_height_is_chain_index.
Print Assumptions C19_full_window_is_last_n.
Print Assumptions C19_poll_refills.
