(* C14 — the client trusts a tower only on valid signatures and survives any reply.
   Statements only (proofs in ClientFlowProofs.v), Print Assumptions, non-vacuity Examples.
   Signatures are abstracted to what net/http.rs decides about them: `RReceipt .. sig_ok` (receipt.verify(tower_id)),
   AAccept / AWrongKey / ABadSig (recovers to the tower id / to another id / undecodable). *)
From TeosModel Require Import Base Db Client ClientProofs ClientFlow ClientFlowProofs.

(* registertower stores a registration ONLY IF the receipt verifies under the supplied tower id and strictly extends
   the subscription the client holds (expiry in memory, slots of the tower's row: `reg_extends`); then exactly one
   registration receipt row is appended; in every other case the database is unchanged; and a verifying, extending
   receipt IS stored unless the handler panics (it never does in a reachable state: C14_no_reply_aborts). *)
Theorem C14_registration_gate s t rp :
  (snd (f_register s t t rp) = OOk ->
     exists slots start expiry, rp = RReceipt slots start expiry true /\ reg_extends (f_c s) t slots expiry = true /\ poisoned s = false /\
       tbl (c_db (f_c (fst (f_register s t t rp)))) T_registration_receipts =
       tbl (c_db (f_c s)) T_registration_receipts ++ [[t; slots; start; expiry; REG_SIG]]) /\
  (snd (f_register s t t rp) <> OOk -> c_db (f_c (fst (f_register s t t rp))) = c_db (f_c s)) /\
  (forall slots start expiry, rp = RReceipt slots start expiry true -> reg_extends (f_c s) t slots expiry = true -> poisoned s = false ->
     snd (f_register s t t rp) = OOk \/ exists site, snd (f_register s t t rp) = OPanic site).
Proof. exact (registration_gate s t rp). Qed.
Print Assumptions C14_registration_gate.

(* An acknowledgement signed with another key flags the tower, on the notification path and on the retry path,
   without panicking, WHATEVER is already stored for the tower (fix d35e2bc): a proof row is there afterwards (the one
   already stored is kept), the status is misbehaving; when no proof was stored before, the receipt of the proof is
   stored too (replacing the tower's own receipt for that locator, if there was one). *)
Theorem C14_flagged_on_notification s l t st :
  FInv s -> poisoned s = false -> knownc (f_c s) t -> is_reachable st = true ->
  wt_has_appointment (f_c s) t l = false ->
  let s' := fst (rev_tower s l t st AWrongKey) in
  snd (rev_tower s l t st AWrongKey) = None /\ Mrow (c_db (f_c s')) t /\ stat (f_c s') t = Some Misbehaving /\
  (~ Mrow (c_db (f_c s)) t -> Rrow (c_db (f_c s')) t l) /\ In (ReqAdd t l) (f_log s') /\ poisoned s' = false.
Proof. exact (flagged_on_notification s l t st). Qed.
Print Assumptions C14_flagged_on_notification.

Theorem C14_flagged_on_retry s t l more :
  FInv s -> poisoned s = false -> knownc (f_c s) t ->
  let s' := fst (task_step s t (RunErr (EMisbehaving l)) more) in
  snd (task_step s t (RunErr (EMisbehaving l)) more) = OutFailed (EMisbehaving l) /\
  Mrow (c_db (f_c s')) t /\ stat (f_c s') t = Some Misbehaving /\ poisoned s' = false.
Proof. exact (flagged_on_retry s t l more). Qed.
Print Assumptions C14_flagged_on_retry.

(* the store-level facts behind it (every history, every database of the invariant): flag_misbehaving_tower's store
   succeeds on a registered tower whatever rows exist, and leaves a proof row of the tower *)
Theorem C14_flagging_never_fails c t l sb u g rc :
  Inv c -> c_poisoned c = false -> knownc c t -> snd (wt_flag_misbehaving_tower c t l sb u g rc) = ROk.
Proof. exact (flag_ok c t l sb u g rc). Qed.
Print Assumptions C14_flagging_never_fails.

(* "stores the proof" means the OFFENDING receipt: whenever the flagging stores a proof for a tower (none was stored), the
   proof row (tower, locator, recovered id) is there and the receipt stored for (tower, locator) is the one of the proof -
   also when a receipt of that very appointment was already stored (a retry interrupted between storing the receipt and
   deleting the pending row, sent again after the restart): it is replaced, so the persisted triple proves the misbehaviour.
   Monitor 1408 checks this on the plugin's database. *)
Theorem C14_stored_proof_is_the_offending_receipt d t l sb u g rc d' :
  DbInv d -> exists_misbehaving_proof d t = false -> flag_store d t l sb u g rc = DbOk d' ->
  find_pk CS d' T_misbehaving_proofs [t] = Some (proof_row t l rc) /\
  find_pk CS d' T_appointment_receipts [l; t] = Some (receipt_row t l sb u g).
Proof. exact (flag_store_backs_proof d t l sb u g rc d'). Qed.
Print Assumptions C14_stored_proof_is_the_offending_receipt.

(* "... and stops all further sending to it": FULL statement (fixes 70d4134, 9d6311c, d35e2bc).
   From every reachable state in which a misbehaviour proof of tower t is stored, NO operation - notification, manager
   iteration, retry attempt, registertower (which may fail to connect), retrytower, abandontower of another tower,
   restart - sends an appointment to t ... *)
Theorem C14_misbehaviour_flagged ops o t :
  let s := frun f_init ops in
  exists_misbehaving_proof (c_db (f_c s)) t = true ->
  exists new, f_log (fst (fstep s o)) = f_log s ++ new /\ existsb (is_add_to t) new = false.
Proof. exact (misbehaviour_flagged ops o t). Qed.
Print Assumptions C14_misbehaviour_flagged.

(* ... hence none along any continuation during which the proof stays stored (`flagged_along`; a proof row is deleted
   only together with its tower, by abandontower: C18_abandon_exact) ... *)
Theorem C14_misbehaviour_flagged_along ops1 ops2 t :
  let s1 := frun f_init ops1 in let s2 := frun s1 ops2 in
  flagged_along t s1 ops2 = true ->
  existsb (is_add_to t) (skipn (length (f_log s1)) (f_log s2)) = false.
Proof. exact (misbehaviour_flagged_along ops1 ops2 t). Qed.
Print Assumptions C14_misbehaviour_flagged_along.

(* ... because the in-memory status cannot leave misbehaving while the proof is stored, in any reachable state *)
Theorem C14_misbehaving_is_kept ops t :
  let s := frun f_init ops in poisoned s = false ->
  exists_misbehaving_proof (c_db (f_c s)) t = true -> knownc (f_c s) t -> stat (f_c s) t = Some Misbehaving.
Proof. exact (misbehaving_is_kept ops t). Qed.
Print Assumptions C14_misbehaving_is_kept.

Theorem C14_notification_skips_misbehaving s l t rp :
  rev_tower s l t Misbehaving rp = (s, None) \/ rev_tower s l t Misbehaving rp = (s, Some (SClient Site_poisoned)).
Proof. exact (rev_tower_skips_misbehaving s l t rp). Qed.
Print Assumptions C14_notification_skips_misbehaving.

Theorem C14_retry_refuses_misbehaving s t su :
  aget (c_towers (f_c s)) t = Some su -> su_status su = Misbehaving -> aget (c_retriers (f_c s)) t = None ->
  f_manual_retry s t = (s, OErr E_not_retryable) \/ f_manual_retry s t = (s, OPanic (SClient Site_poisoned)).
Proof. exact (manual_retry_refuses_misbehaving s t su). Qed.
Print Assumptions C14_retry_refuses_misbehaving.

(* the former counterexamples (registertower against a flagged tower that refuses the connection, further revocations,
   manager iterations, a retry attempt, then a second wrong-key reply): nothing is sent to the flagged tower, the
   status stays misbehaving, the second flagging does not abort and keeps the first proof *)
Example C14_former_counterexample :
  let s1 := frun f_init (firstn 2 w_c14_ops) in
  let s2 := frun f_init w_c14_ops in
  exists_misbehaving_proof (c_db (f_c s1)) 0 = true /\
  existsb (is_add_to 0) (skipn (length (f_log s1)) (f_log s2)) = false /\
  stat (f_c s2) 0 = Some Misbehaving /\ poisoned s2 = false /\
  snd (fstep s2 (FRevocation 2 [] [(0, AWrongKey)])) = OOk /\
  tbl (c_db (f_c s2)) T_misbehaving_proofs = tbl (c_db (f_c s1)) T_misbehaving_proofs.
Proof. vm_compute. repeat split. Qed.

(* No reply aborts: FULL statement (no guard, no exception).  In every state of EVERY operation sequence, for every
   reply class to register and add_appointment, on the notification path and in a retry attempt: no panic site is
   reached, the model's loop fuel is never exhausted, a finished retry task leaves no Running retrier; and the retry
   manager never panics (Retrier::start has no panic site left: fixes 29264ec, 9d6311c; Retrier::run: 8108569). *)
Theorem C14_no_reply_aborts ops :
  let s := frun f_init ops in poisoned s = false ->
  (forall t rp site, snd (fstep s (FRegister t rp)) <> OPanic site) /\
  (forall l order replies, snd (fstep s (FRevocation l order replies)) = OOk) /\
  (forall elapsed site, snd (fstep s (FManagerTick elapsed)) <> OPanic site) /\
  (forall t a, In t (f_tasks s) ->
     let s1 := fst (run_attempt s t a) in let r := snd (run_attempt s t a) in
     (match r with RunAbort _ | RunFuel => False | _ => True end) /\
     (forall site, snd (task_step s1 t r (at_more a)) <> OutAbort site) /\
     (match snd (task_step s1 t r (at_more a)) with
      | OutDelivered | OutIdle _ | OutFailed _ =>
        rstat (fst (task_step s1 t r (at_more a))) t <> Some RRunning /\ ~ In t (f_tasks (fst (task_step s1 t r (at_more a))))
      | _ => True end)).
Proof. exact (no_reply_aborts ops). Qed.
Print Assumptions C14_no_reply_aborts.

(* non-vacuity: a renewal that extends is stored, one that does not (same expiry / no more slots) is not *)
Example C14_gate_example :
  let s := frun f_init [FRegister 0 (w_good 1)] in
  snd (f_register s 0 0 (w_good 2)) = OOk /\ snd (f_register s 0 0 (w_good 1)) = OErr E_expiry /\
  snd (f_register s 0 0 (RReceipt 110 10 1300 true)) = OErr E_slots /\ snd (f_register s 0 0 (RReceipt 200 10 1300 false)) = OErr E_bad_signature.
Proof. vm_compute. repeat split. Qed.

(* non-vacuity of the three branches of the repaired flagging: no record yet / the tower's own receipt is stored for the
   locator (used to abort: F9 proof variant) / a proof is already stored (used to abort: duplicate proof) *)
Example C14_flagging_branches :
  let c0 := srun wt_new [SRegister 1 11 100 5 200 901] in
  let c1 := srun wt_new [SRegister 1 11 100 5 200 901; SReceipt 1 7 99 6 301 401] in
  let f c l := sstep c (SMisbehaving 1 l 6 302 402 77) in
  snd (f c0 7) = ROk /\ tbl (c_db (fst (f c0 7))) T_misbehaving_proofs = [[1; 7; 77]]%N /\
  snd (f c1 7) = ROk /\ tbl (c_db (fst (f c1 7))) T_misbehaving_proofs = [[1; 7; 77]]%N /\
  tbl (c_db (fst (f c1 7))) T_appointment_receipts = [[7; 1; 6; 302; 402]]%N /\
  snd (f (fst (f c1 7)) 8) = ROk /\ tbl (c_db (fst (f (fst (f c1 7)) 8))) T_misbehaving_proofs = [[1; 7; 77]]%N /\
  c_poisoned (fst (f (fst (f c1 7)) 8)) = false.
Proof. vm_compute. repeat split. Qed.
