(* C14 — the client trusts a tower only on valid signatures and survives any reply.
   Statements only (proofs in ClientFlowProofs.v), Print Assumptions, non-vacuity Examples.
   Signatures are abstracted to what net/http.rs decides about them: `RReceipt .. sig_ok` (receipt.verify(tower_id)),
   AAccept / AWrongKey / ABadSig (recovers to the tower id / to another id / undecodable). *)
From TeosModel Require Import Base Db Client ClientFlow ClientFlowProofs.

(* registertower stores a registration ONLY IF the receipt verifies under the supplied tower id and strictly extends
   the subscription the client holds (expiry in memory, slots of the tower's row: `reg_extends`); then exactly one
   registration receipt row is appended; in every other case the database is unchanged; and a verifying, extending
   receipt IS stored unless the handler panics (it never does in a state of the invariant: C14_no_reply_aborts). *)
Theorem C14_registration_gate s t rp :
  (snd (f_register s t t rp) = OOk ->
     exists slots start expiry, rp = RReceipt slots start expiry true /\ reg_extends (f_c s) t slots expiry = true /\ poisoned s = false /\
       tbl (c_db (f_c (fst (f_register s t t rp)))) T_registration_receipts =
       tbl (c_db (f_c s)) T_registration_receipts ++ [[t; slots; start; expiry; REG_SIG]]) /\
  (snd (f_register s t t rp) <> OOk -> c_db (f_c (fst (f_register s t t rp))) = c_db (f_c s)) /\
  (forall slots start expiry, rp = RReceipt slots start expiry true -> reg_extends (f_c s) t slots expiry = true -> poisoned s = false ->
     snd (f_register s t t rp) = OOk \/ exists site, snd (f_register s t t rp) = OPanic site).
Proof. exact (registration_gate s t rp). Qed.
Print Assumptions C14_registration_gate.

(* An acknowledgement signed with another key flags the tower (proof row + receipt row stored, status misbehaving) on
   the notification path and on the retry path, without panicking, when the tower is not flagged yet. *)
Theorem C14_flagged_on_notification s l t st :
  FInv s -> poisoned s = false -> knownc (f_c s) t -> is_reachable st = true ->
  wt_has_appointment (f_c s) t l = false -> ~ Mrow (c_db (f_c s)) t ->
  let s' := fst (rev_tower s l t st AWrongKey) in
  snd (rev_tower s l t st AWrongKey) = None /\ Mrow (c_db (f_c s')) t /\ stat (f_c s') t = Some Misbehaving /\
  Rrow (c_db (f_c s')) t l /\ In (ReqAdd t l) (f_log s').
Proof. exact (flagged_on_notification s l t st). Qed.
Print Assumptions C14_flagged_on_notification.

Theorem C14_flagged_on_retry s t l more :
  FInv s -> poisoned s = false -> knownc (f_c s) t -> In l (retrier_pending s t) -> ~ Mrow (c_db (f_c s)) t ->
  let s' := fst (task_step s t (RunErr (EMisbehaving l)) more) in
  snd (task_step s t (RunErr (EMisbehaving l)) more) = OutFailed (EMisbehaving l) /\
  Mrow (c_db (f_c s')) t /\ stat (f_c s') t = Some Misbehaving.
Proof. exact (flagged_on_retry s t l more). Qed.
Print Assumptions C14_flagged_on_retry.

(* what does hold of "stops all further sending": while the in-memory status is misbehaving the notification path
   skips the tower (no request, no state change) and retrytower refuses it *)
Theorem C14_notification_skips_misbehaving s l t rp :
  rev_tower s l t Misbehaving rp = (s, None) \/ rev_tower s l t Misbehaving rp = (s, Some (SClient Site_poisoned)).
Proof. exact (rev_tower_skips_misbehaving s l t rp). Qed.
Print Assumptions C14_notification_skips_misbehaving.

Theorem C14_retry_refuses_misbehaving s t su :
  aget (c_towers (f_c s)) t = Some su -> su_status su = Misbehaving -> aget (c_retriers (f_c s)) t = None ->
  f_manual_retry s t = (s, OErr E_not_retryable) \/ f_manual_retry s t = (s, OPanic (SClient Site_poisoned)).
Proof. exact (manual_retry_refuses_misbehaving s t su). Qed.
Print Assumptions C14_retry_refuses_misbehaving.

(* "... and stops all further sending to it": REFUTED.
   (1) genuine defect replayed on the real plugin: `registertower` against a flagged tower that refuses the connection
       overwrites the misbehaving status; the next revocation is handed to a retrier which sends it to the tower;
   (2) model witness inside the guards (no registertower involved): the manager starts a stopped retrier of a tower
       flagged in the meantime, Retrier::start overwrites the status with temporary unreachable, the retrier sends. *)
Theorem C14_misbehaviour_flagged_refuted :
  exists ops1 ops2 t, let s1 := frun f_init ops1 in let s2 := frun s1 ops2 in
    exists_misbehaving_proof (c_db (f_c s1)) t = true /\
    existsb (is_add_to t) (skipn (length (f_log s1)) (f_log s2)) = true.
Proof. exact misbehaviour_flagged_refuted. Qed.
Print Assumptions C14_misbehaviour_flagged_refuted.

Theorem C14_misbehaviour_flagged_refuted_guarded :
  exists ops1 ops2 t, let s1 := frun f_init ops1 in let s2 := frun s1 ops2 in
    ops_ok f_init (ops1 ++ ops2) = true /\
    exists_misbehaving_proof (c_db (f_c s1)) t = true /\
    existsb (is_add_to t) (skipn (length (f_log s1)) (f_log s2)) = true.
Proof. exact misbehaviour_flagged_refuted_guarded. Qed.
Print Assumptions C14_misbehaviour_flagged_refuted_guarded.

(* No reply aborts: in every state of every guarded operation sequence, for every reply class to register and
   add_appointment, on the notification path and in a retry attempt: no panic site is reached, the model's loop fuel is
   never exhausted, and a finished retry task leaves no Running retrier — EXCEPT the acknowledgement signed with
   another key from a tower whose proof is already stored (duplicate proof: flag_misbehaving_tower panics). *)
Theorem C14_no_reply_aborts ops :
  ops_fresh f_init ops = true -> let s := frun f_init ops in poisoned s = false ->
  (forall t rp site, snd (fstep s (FRegister t rp)) <> OPanic site) /\
  (forall l order replies, snd (fstep s (FRevocation l order replies)) = OOk \/
       exists t, reply_for replies t = AWrongKey /\ snd (fstep s (FRevocation l order replies)) = OPanic PROOF_SITE) /\
  (forall t a, In t (f_tasks s) ->
     let s1 := fst (run_attempt s t a) in let r := snd (run_attempt s t a) in
     (match r with RunAbort _ | RunFuel => False | _ => True end) /\
     (forall site, snd (task_step s1 t r (at_more a)) = OutAbort site -> site = PROOF_SITE /\ Mrow (c_db (f_c s1)) t) /\
     (match snd (task_step s1 t r (at_more a)) with
      | OutDelivered | OutIdle _ | OutFailed _ =>
        rstat (fst (task_step s1 t r (at_more a))) t <> Some RRunning /\ ~ In t (f_tasks (fst (task_step s1 t r (at_more a))))
      | _ => True end)).
Proof. exact (no_reply_aborts ops). Qed.
Print Assumptions C14_no_reply_aborts.

(* the exception is real (genuine defect, replayed on the real plugin): the full statement is REFUTED *)
Theorem C14_no_reply_aborts_refuted :
  exists ops l, snd (fstep (frun f_init ops) (FRevocation l [] [(0, AWrongKey)])) = OPanic (SClient Site_store_misbehaving_proof_unwrap).
Proof. exact no_reply_aborts_refuted. Qed.
Print Assumptions C14_no_reply_aborts_refuted.

(* non-vacuity: a renewal that extends is stored, one that does not (same expiry / no more slots) is not *)
Example C14_gate_example :
  let s := frun f_init [FRegister 0 (w_good 1)] in
  snd (f_register s 0 0 (w_good 2)) = OOk /\ snd (f_register s 0 0 (w_good 1)) = OErr E_expiry /\
  snd (f_register s 0 0 (RReceipt 110 10 1300 true)) = OErr E_slots /\ snd (f_register s 0 0 (RReceipt 200 10 1300 false)) = OErr E_bad_signature.
Proof. vm_compute. repeat split. Qed.
