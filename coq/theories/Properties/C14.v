(* C14 — the client trusts a tower only on valid signatures and survives any reply.
   Statements only (proofs in ClientFlowProofs.v), Print Assumptions, non-vacuity Examples. *)
From TeosModel Require Import Base Db Client ClientFlow ClientFlowProofs.

(* REFUTED for ALL operation sequences: `registertower` against a known tower that refuses the connection overwrites the
   misbehaving status; the next revocation is handed to a retrier which sends it to the tower. *)
Theorem C14_misbehaviour_flagged_refuted :
  exists ops1 ops2 t, let s1 := frun f_init ops1 in let s2 := frun s1 ops2 in
    exists_misbehaving_proof (c_db (f_c s1)) t = true /\
    existsb (is_add_to t) (skipn (length (f_log s1)) (f_log s2)) = true.
Proof. exact misbehaviour_flagged_refuted. Qed.
Print Assumptions C14_misbehaviour_flagged_refuted.

(* REFUTED for ALL operation sequences: after that, a second wrong-key acknowledgement aborts in flag_misbehaving_tower
   (duplicate proof) with the client mutex held. *)
Theorem C14_no_reply_aborts_refuted :
  exists ops l, snd (fstep (frun f_init ops) (FRevocation l [] [(0, AWrongKey)])) = OPanic (SClient Site_store_misbehaving_proof_unwrap).
Proof. exact no_reply_aborts_refuted. Qed.
Print Assumptions C14_no_reply_aborts_refuted.
