(* C10 — concurrent requests and block events behave as if executed one at a time.
   Statements only (proofs: ConcTowerProofs.v, ConcBreach.v, ConcLin.v, ConcReg.v, ConcPurge.v, ConcCoarse.v, ConcDisc.v, ConcComm.v, ConcRW.v, ConcMix.v, TowerCache.v).  Model: ConcTower.v — the thread
   programs of register / add_appointment / get_appointment / get_subscription_info / block connected / block disconnected at
   lock-acquisition granularity, `run_sched` = all interleavings at EVENT granularity (every lock
   acquisition, release, action under locks and atomic height access is a step of its own).

   PROVED, for all states, parameters and ALL schedules:
     C10_thread_programs_refine_sequential_model   a program run alone = Tower.step
     C10_no_missed_breach                          add || block with the dispute: accepted => tracker, or row gone, or -27
     C10_no_missed_breach_refined                  the same with the hypothesis on the locator cache discharged from the C19
                                                   refinement: cache represents a window (RepW), capacity >= 1, block valid
     C10_cache_refinement_init, C10_cache_refinement_step   RepW is established by init and kept by every step under the
                                                   chain discipline: a reachable invariant
     C10_guard_spanning_lookup_and_store_is_necessary   with the cache guard dropped before the store the breach is missed
     C10_tables_are_statement_sequences, C10_no_orphan_records   any number of threads: FK integrity always
     C10_lock_protects_data, C10_slot_rmw_atomic, C10_data_stable_while_locked
                                                   any number of threads: while a thread holds `users`
                                                   (resp. any lock) nobody else changes the user map (resp. that
                                                   lock's data): read-modify-write under one guard loses no update
     C10_single_charge_if_row_visible              the strongest true form of "charged once"
     C10_reads_linearizable                        get || get || ... : state and replies of every sequential order
     C10_registrations_linearizable                register || register || ... (any number, same or different users):
                                                   state and receipts of SOME sequential order
     C10_concurrent_topups_all_counted             n concurrent renewals of one user: balance = initial + n top-ups
     C10_acknowledged_registration_survives_purge  register || the gatekeeper's purge (ONE critical section of `users`
                                                   since the repair): RegOk(s, start, e) acknowledged => the user is
                                                   registered with exactly these values, or that subscription is itself
                                                   outdated at the block's height.  Never acknowledged and deleted
     C10_add_purge_no_abort, C10_get_never_aborts  whatever the other threads do (the purging block included):
                                                   add_appointment aborts nowhere but in the responder's get_height unwrap
                                                   (unreachable: C11), get_appointment nowhere; they die only of a lock
                                                   somebody else poisoned
     C10_add_purge_refused, C10_get_purge_refused  the schedules that used to kill the tower (user purged between
                                                   authentication and charge / expiry test): refused, nothing poisoned
     C10_writer_among_readers_runs_alone           any number of readers (get_appointment, get_subscription_info) || ONE
                                                   arbitrary thread (request or block events): that thread's reply and the
                                                   final state are those of its run alone = of every sequential order
     C10_get_disconnect_linearizable, C10_getsub_disconnect_linearizable
                                                   reader || block disconnected: state and BOTH replies of a sequential order
     C10_reader_against_one_thread                 reader || ANY thread: linearizability reduced to a sequential statement
                                                   (every mix of the reader's reads over the other thread's solo states
                                                   answers like the reader before or after it)
     C10_get_add_off_trigger_linearizable          get_appointment || add_appointment whose locator is not in the cache
     C10_get_register_linearizable, C10_getsub_register_linearizable
                                                   reader || register (same or other user): state and BOTH replies of a
                                                   sequential order
     C10_register_disconnect_linearizable          register || block disconnected: state and replies of a sequential order
     C10_coarse_runs_are_fine_runs                 every run_coarse execution (what the controlled scheduler replays) is a
                                                   run_sched execution: the theorems cover every run of the harness
     C10_coarse_configs_are_settled, C10_preemption_before_an_action_is_not_coarse
                                                   the converse fails exactly at preemptions before an action / a release
                                                   (atomic height accesses): not replayed by the harness - the documented limit
   REFUTED by a witness schedule (each is replayed on the real code by the check):
     C10_single_charge_refuted                     two identical submissions are charged twice
     C10_add_connect_not_linearizable              height stamps of neither order (the three guarantees hold)
     C10_reader_reply_not_linearizable             get || add with the dispute already in the cache: the reader is told
                                                   "appointment" (stored, tracker not yet inserted): reply of neither order
     C10_reader_purge_reply_not_linearizable       get / get_subscription_info || the purging block: "not found" / "no locators"
                                                   (the reader's sections straddle the purge): reply of neither order
     C10_reader_add_reply_not_linearizable         get_subscription_info || add of the same user: balance after the charge,
                                                   locators before the store: reply of neither order
     C10_register_add_replies_not_linearizable     register || add of the same user: the receipt carries the balance after the
                                                   renewal and the expiry before it: replies of neither order (state: reg ; add)
     C10_reader_block_reply_not_linearizable       get || a block without purge (it expires the subscription and carries the
                                                   dispute): expiry test before, tables after: reply of neither order
   Hence `get || anything` is settled: state and the other thread's reply always (C10_writer_among_readers_runs_alone);
   the reader's own reply is that of a sequential order against a disconnection, a registration, readers and - for
   get_appointment - add_appointment off the trigger path (proved), NOT against add_appointment on the trigger path, the
   purge, a block that changes two things the reader looks at in different critical sections (height and tables), nor -
   for get_subscription_info - an add_appointment of the same user (refuted).  What remains OPEN for readers: a block
   that changes only one of the two (C10_reader_against_one_thread reduces it to the block's solo states).
   OPEN (no proof, no counterexample; the exhaustive controlled exploration of the check finds every final
   state of these pairs equal to a sequential order within its preemption bound, up to the height stamps):
     add || add (different appointment), add || disconnect, register || add of ANOTHER user, register || the watcher's
     and the responder's part of a block - as far as the final STATE goes; the REPLIES of writer pairs are checked on
     the real tower by the `linear` monitor (the orders ending in the run's final state must contain one with the run's
     replies): where a request's critical sections straddle the other thread's write the receipt mixes two orders
     (known findings `linear:*`, e.g. C10_register_add_replies_not_linearizable).
   For these pairs "equal to a sequential order" can only hold modulo the ORDER OF ROWS in the gatekeeper's map and the
   tables (gk_put moves the user to the front, INSERT appends): two threads that write different users / different
   appointments leave the rows in the order of their critical sections, which need not be the order of either
   sequential run (the check compares sorted rows).  A proof needs the model's look-ups to be invariant under row
   permutation first; not attempted here. *)
From TeosModel Require Import Base TxIndex Tower TowerInv Crash ConcTower ConcTowerProofs ConcBreach ConcLin ConcReg ConcPurge ConcCoarse ConcDisc ConcComm ConcRW ConcMix.
From TeosModel Require Import TxIndexProofs TowerLive TowerCache.
From Coq Require Import Permutation.
From TeosModel.Gen Require Consts.
Local Open Scope N_scope.

(* The thread program of an operation, run with no interference, is the sequential step of Tower.v:
   the sequential model (C01-C09, C11) and the concurrent model share every line of logic. *)
Theorem C10_thread_programs_refine_sequential_model le sc t o :
  unwrap (exec (prog_of_op le sc t o) (set_rpc_log t [])) = step le t o sc.
Proof. exact (exec_is_step le sc t o). Qed.

(* ---- no missed breach ---------------------------------------------------------------------------
   add_appointment(user u, locator loc, blob b)  ||  block `hash` at height h carrying transactions txs,
   loc among them.  Whatever the schedule: if the request is accepted and both threads return, then in the
   final state the appointment (loc, u) has a tracker, or its row is gone (dropped as undecryptable /
   rejected by the node, or deleted with its owner), or the node answered 'already in chain' (-27) for
   the penalty inside the blob (now or memoised before).  Never stored and unwatched.
   Hypothesis on the cache: once updated with the block it finds the block's locators (C19: true when the
   evicted block does not share the key). *)
Theorem C10_no_missed_breach le sc t0 u loc b delay sig hash txs h sched tf r :
  In loc txs ->
  (forall c, ti_update (w_cache t0) (cache_block hash txs) = Some c -> ti_get c loc <> None) ->
  run_sched t0 [add_p sc (Some u) loc b delay sig; (connect_p le sc hash txs h ;;; Ret tt) ;;; Ret OBlockRes] sched
  = (tf, [Some (TOut (OAddRes r)); Some (TOut OBlockRes)]) ->
  match r with
  | AddOk _ _ _ _ =>
      (find_app (db_apps tf) (loc, u) = None \/ find_trk (db_trks tf) (loc, u) <> None) \/
      (exists p, b_pay b = Some p /\
                 (snd (script_get sc p) = A_code Consts.RPC_VERIFY_ALREADY_IN_CHAIN \/
                  aget (car_memo t0) p = Some IrrevocablyResolved))
  | _ => True
  end.
Proof. intros Hin Hc. exact (accepted_then_watched_or_gone le sc t0 u loc b txs Hin hash h Hc delay sig sched tf r). Qed.

(* The guard is necessary: the same request with the locator-cache guard dropped between the look-up and the
   store (everything else unchanged) leaves the appointment stored and unwatched although its dispute is
   in the processed block and in the cache. *)
Theorem C10_guard_spanning_lookup_and_store_is_necessary :
  let r := run_sched w_reg [add_short [] (Some 1) 7 w_blob 20 1; w_connect_dispute] w_short_guard in
  snd r = [Some (TOut (OAddRes (AddOk 120 1 9 520))); Some (TOut OBlockRes)] /\
  map a_loc (db_apps (fst r)) = [7] /\ db_trks (fst r) = [] /\
  ti_get (w_cache (fst r)) 7 = Some 7.
Proof. exact short_guard_misses_the_breach. Qed.

(* the second thread above IS the thread program of the block event *)
Example C10_block_thread_is_prog_of_op le sc t0 hash txs :
  prog_of_op le sc t0 (OConnect hash txs) = (connect_p le sc hash txs (gk_height t0 + 1) ;;; Ret tt) ;;; Ret OBlockRes.
Proof. reflexivity. Qed.

(* non-vacuity: a reachable state, a block carrying the dispute, the cache hypothesis, and a schedule that
   interleaves the two threads and ends with the appointment accepted and watched *)
Example C10_no_missed_breach_instance :
  In 7 [7] /\
  (forall c, ti_update (w_cache w_reg) (cache_block 2001 [7]) = Some c -> ti_get c 7 <> None) /\
  let r := run_sched w_reg [w_add; w_connect_dispute] w_stamps in
  snd r = [Some (TOut (OAddRes (AddOk 120 1 9 520))); Some (TOut OBlockRes)] /\
  find_trk (db_trks (fst r)) (7, 1) <> None.
Proof.
  split; [left; reflexivity|]. split.
  - intros c H. vm_compute in H. inversion H. subst c. vm_compute. discriminate.
  - vm_compute. split; [reflexivity|discriminate].
Qed.

(* The same with hypotheses on the reachable state and the chain only: the locator cache (capacity n >= 1) represents a
   window w of blocks (TxIndexProofs.RepW, the invariant C19 proves of every index built by ti_new and updated under
   the chain discipline), and the connected block is valid in that window (valid_op: fresh hash, distinct keys, no
   key of a block still in the window - in particular none of the block that gets evicted). *)
Theorem C10_no_missed_breach_refined le sc t0 u loc b delay sig hash txs h n w sched tf r :
  In loc txs ->
  RepW n (w_cache t0) w -> (0 < n)%nat -> valid_op w (TConnect (cache_block hash txs)) ->
  run_sched t0 [add_p sc (Some u) loc b delay sig; (connect_p le sc hash txs h ;;; Ret tt) ;;; Ret OBlockRes] sched
  = (tf, [Some (TOut (OAddRes r)); Some (TOut OBlockRes)]) ->
  match r with
  | AddOk _ _ _ _ =>
      (find_app (db_apps tf) (loc, u) = None \/ find_trk (db_trks tf) (loc, u) <> None) \/
      (exists p, b_pay b = Some p /\
                 (snd (script_get sc p) = A_code Consts.RPC_VERIFY_ALREADY_IN_CHAIN \/
                  aget (car_memo t0) p = Some IrrevocablyResolved))
  | _ => True
  end.
Proof.
  intros Hin HR Hn Hv. exact (accepted_then_watched_or_gone_refined le sc t0 u loc b txs hash h delay sig n w sched tf r Hin HR Hn Hv).
Qed.

(* ... and RepW is an invariant of the reachable tower: `init` establishes it (bootstrap blocks with distinct hashes, no
   locator in two of them) and every step of the sequential tower keeps it as long as the operation it performs on the
   cache is valid in the window (the chain discipline: TxIndex.valid_op); BigInv / envb: TowerLive's invariant and
   envelope (C11).  So the hypotheses of C10_no_missed_breach_refined are the reachable invariant + the chain discipline. *)
Theorem C10_cache_refinement_init c h0 blocks t :
  init c h0 blocks = Some t ->
  let l := map (fun b : N * list N => cache_block (fst b) (snd b))
               (sublist (Z.to_nat Consts.WATCHER_CACHE_FROM) (Z.to_nat Consts.WATCHER_CACHE_TO) blocks) in
  NoDup (map (@ib_hash N) l) -> NoDup (all_keys (rev l)) ->
  RepW (length l) (w_cache t) (mk_window (rev l) (Z.of_N h0)).
Proof. exact (cache_refines_init c h0 blocks t). Qed.

Theorem C10_cache_refinement_step le t o sc n w :
  BigInv t -> envb t o = true -> RepW n (w_cache t) w ->
  (forall c, cache_op t o = Some c -> valid_op w c) ->
  RepW n (w_cache (fst (step le t o sc))) (match cache_op t o with Some c => w_step n w c | None => w end).
Proof. exact (cache_refines_step le t o sc n w). Qed.

(* ---- no record without its owner ------------------------------------------------------------------
   Any number of threads running thread programs of the quantifier, any schedule, aborts included: the
   tables are the initial tables after a sequence of the SQL statements of Crash.v, hence unique keys and
   referential integrity (every appointment has its user row, every tracker its appointment row). *)
Theorem C10_tables_are_statement_sequences le sc t0 t (opss : list (list op)) sched :
  exists l, db_of (cf_tower (run_config (init_config t (map (prog_of_thread le sc t0) opss)) sched)) = execs (db_of t) l.
Proof. exact (tables_are_statement_sequences le sc t0 t opss sched). Qed.

Theorem C10_no_orphan_records le sc t0 t (opss : list (list op)) sched :
  DbInv (db_of t) -> DbInv (db_of (fst (run_sched t (map (prog_of_thread le sc t0) opss) sched))).
Proof. exact (no_orphan_records_all_schedules le sc t0 t opss sched). Qed.

Example C10_no_orphan_records_instance : DbInv (db_of w_reg) /\ db_users w_reg <> [].
Proof.
  split; [|vm_compute; discriminate].
  apply dbinv_of_inv.
  apply (inv_reachable true (mk_config 10 400 10) 120 w_blocks (w_boot (mk_config 10 400 10)) [(ORegister 1, []); (ORegister 2, [])]).
  - vm_compute. reflexivity.
  - vm_compute. repeat constructor.
Qed.

(* ---- slot updates are never lost --------------------------------------------------------------------
   Every action of every thread program touches the data of a lock only while holding it (what Rust's
   Mutex<T> guarantees by typing), and every program returns holding nothing. *)
Theorem C10_lock_protects_data le sc t0 ops : guark G_prot [] (prog_of_thread le sc t0 ops) (fun h _ => h = []).
Proof. exact (lock_protects_data le sc t0 ops). Qed.

(* Hence: while thread i holds `users`, no step of any other thread changes the gatekeeper's user map.
   register (add_update_user), the charge (add_update_appointment) and the refund (delete_appointments) read
   and write a balance inside ONE critical section of `users` (ConcTower.add_update_user_p, charge_p,
   delete_apps_p): the value written is computed from the current balance, whatever the interleaving and
   however many threads. *)
Theorem C10_slot_rmw_atomic le sc t0 t opss sched i j thi c' :
  let c := run_config (init_config t (progs_of le sc t0 opss)) sched in
  nth_error (cf_threads c) i = Some thi -> holds thi L_users = true -> i <> j ->
  step_thread c j = Some c' ->
  gk_users (cf_tower c') = gk_users (cf_tower c).
Proof. exact (users_map_stable_while_locked le sc t0 t opss sched i j thi c'). Qed.

Theorem C10_data_stable_while_locked le sc t0 t opss sched i j thi c' l :
  let c := run_config (init_config t (progs_of le sc t0 opss)) sched in
  nth_error (cf_threads c) i = Some thi -> holds thi l = true -> i <> j ->
  step_thread c j = Some c' ->
  (l = L_cache -> w_cache (cf_tower c') = w_cache (cf_tower c)) /\
  (l = L_users -> gk_users (cf_tower c') = gk_users (cf_tower c)) /\
  (l = L_db -> db_users (cf_tower c') = db_users (cf_tower c) /\ db_apps (cf_tower c') = db_apps (cf_tower c) /\
               db_trks (cf_tower c') = db_trks (cf_tower c)) /\
  (l = L_carrier -> car_memo (cf_tower c') = car_memo (cf_tower c) /\ car_height (cf_tower c') = car_height (cf_tower c)) /\
  (l = L_txindex -> r_index (cf_tower c') = r_index (cf_tower c)) /\
  (l = L_reorged -> reorged (cf_tower c') = reorged (cf_tower c)).
Proof. exact (data_stable_while_locked le sc t0 t opss sched i j thi c' l). Qed.

(* non-vacuity: a configuration in which a thread holds `users` while another one is ready to move *)
Example C10_slot_rmw_instance :
  let c := run_config (init_config w_reg (progs_of true [] w_reg [[ORegister 1]; [ORegister 1]])) (repeat 0%nat 5) in
  match nth_error (cf_threads c) 0 with Some th => holds th L_users | None => false end = true /\
  match step_thread c 1 with Some _ => true | None => false end = true.
Proof. vm_compute. split; reflexivity. Qed.

(* ---- single charge ------------------------------------------------------------------------------------
   FALSE of the code as it is: two concurrent identical submissions are both charged. *)
Theorem C10_single_charge_refuted :
  exists t add sched u,
    let r := run_sched t [add; add] sched in
    snd r = [Some (TOut (OAddRes (AddOk 120 1 9 520))); Some (TOut (OAddRes (AddOk 120 1 8 520)))] /\
    slots_of_user (fst r) u = Some 8 /\ length (db_apps (fst r)) = 1%nat /\
    slots_of_user t u = Some 10 /\
    (* either sequential order charges once *)
    slots_of_user (fst (run_sched t [add; add] (in_order [0; 1]%nat))) u = Some 9 /\
    slots_of_user (fst (run_sched t [add; add] (in_order [1; 0]%nat))) u = Some 9.
Proof. exists w_reg, w_add, w_double_charge, 1. exact two_identical_adds_charged_twice. Qed.

(* The strongest true form: the charge of add_update_appointment is the difference to the row it SEES; a
   submission that sees the stored row of the same size is free.  (The double charge is exactly the case in
   which the first submission's row is not yet in the table when the second reads the stored length.) *)
Theorem C10_single_charge_if_row_visible t u uuid blen ui a :
  gk_get t u = Some ui -> u_slots ui < U32MOD ->
  find_app (db_apps t) uuid = Some a -> slots_of (b_len (a_blob a)) = slots_of blen ->
  gk_add_update_appointment t u uuid blen = Ok (Some (u_slots ui)) (p_set_user t u ui).
Proof.
  intros Hg Hlt Hf Hs. unfold gk_add_update_appointment. rewrite Hg, Hf, Hs.
  replace (u_slots ui + slots_of blen - slots_of blen) with (u_slots ui) by lia.
  rewrite N.mod_small by exact Hlt.
  destruct (N.leb (slots_of blen) (u_slots ui + slots_of blen)) eqn:E; [|apply N.leb_gt in E; lia].
  destruct ui; reflexivity.
Qed.

(* ---- linearizability: what is proved ------------------------------------------------------------------
   Any number of get_appointment requests (threads that only read), any schedule: the state is untouched and
   every request that returns returns what it returns when run alone — state and replies of EVERY
   sequential order. *)
Theorem C10_reads_linearizable t ps sched :
  Forall readonly ps ->
  let '(tf, outs) := run_sched t ps sched in
  tf = t /\
  forall i o, nth_error outs i = Some (Some (TOut o)) -> (forall s, o <> OAbort s) ->
              exists p, nth_error ps i = Some p /\ exec p t = Ok o t.
Proof. exact (readonly_threads_linearizable t ps sched). Qed.

Theorem C10_get_is_read_only signer loc : readonly (get_p signer loc).
Proof. exact (get_readonly signer loc). Qed.

Theorem C10_get_subscription_info_is_read_only signer : readonly (getsub_p signer).
Proof. exact (getsub_readonly signer). Qed.

Example C10_reads_instance : Forall readonly [get_p (Some 1) 7; get_p (Some 2) 7].
Proof. constructor; [apply get_readonly|]. constructor; [apply get_readonly|constructor]. Qed.

(* Any number of concurrent register requests (same or different users), any schedule in which they all
   return: final state and receipts are those of the requests executed one after the other in some order
   (seq_run: the thread programs run alone, one after the other = Tower.step by the first theorem). *)
Theorem C10_registrations_linearizable t0 (us : list N) sched tf os :
  run_sched t0 (map register_p us) sched = (tf, map (fun o => Some (TOut o)) os) ->
  (forall o s, In o os -> o <> OAbort s) ->
  exists order, Permutation order (seq 0 (length us)) /\
                seq_run (map register_p us) t0 order = (tf, map (fun i => nth i os OBlockRes) order).
Proof. exact (registrations_linearizable t0 us sched tf os). Qed.

(* ... in particular no slot top-up is lost: n concurrent renewals add n times the configured slots *)
Theorem C10_concurrent_topups_all_counted t0 u n ui sched tf os :
  gk_get t0 u = Some ui -> u_slots ui + N.of_nat n * c_slots (cfg t0) <= U32MAX ->
  run_sched t0 (repeat (register_p u) n) sched = (tf, map (fun o => Some (TOut o)) os) ->
  (forall o s, In o os -> o <> OAbort s) ->
  option_map u_slots (gk_get tf u) = Some (u_slots ui + N.of_nat n * c_slots (cfg t0)).
Proof. exact (concurrent_topups_all_counted t0 u n ui sched tf os). Qed.

(* non-vacuity: three renewals of user 1, interleaved inside and outside the critical sections, all return *)
Example C10_registrations_instance :
  let r := run_sched w_reg (repeat (register_p 1) 3) (repeat 0%nat 4 ++ repeat 1%nat 3 ++ repeat 2%nat 2 ++ repeat 0%nat 9 ++ repeat 2%nat 20 ++ repeat 1%nat 20) in
  snd r = [Some (TOut (ORegisterRes (RegOk 20 120 920))); Some (TOut (ORegisterRes (RegOk 40 120 1720)));
           Some (TOut (ORegisterRes (RegOk 30 120 1320)))] /\
  option_map u_slots (gk_get (fst r) 1) = Some 40.
Proof. vm_compute. split; reflexivity. Qed.

(* ---- the purge --------------------------------------------------------------------------------------------
   register(u)  ||  the gatekeeper's listener for the block at height h (Gatekeeper::filtered_block_connected: who
   is outdated is decided, and the users are removed from memory and from the database, in ONE critical section
   of `users`).  Whatever the schedule: if the request is answered RegOk(slots, start, expiry) and both threads
   return, then in the final state u is in the gatekeeper's memory and in table users with exactly the
   acknowledged values, or the acknowledged subscription is itself outdated at h (expiry + expiry_delta <= h:
   removed as in the sequential order register ; block).  Never acknowledged and deleted.
   Hypotheses on the initial state (true in every reachable state: TowerInv.inv_user_rows, inv_mem_nodup): the
   users the gatekeeper knows have their rows, and the map has one entry per user. *)
Theorem C10_acknowledged_registration_survives_purge u h t0 sched tf s st e :
  user_row_ok t0 u -> NoDup (map fst (gk_users t0)) ->
  run_sched t0 [register_p u; gk_connect_p h ;;; Ret OBlockRes] sched
  = (tf, [Some (TOut (ORegisterRes (RegOk s st e))); Some (TOut OBlockRes)]) ->
  (gk_get tf u = Some (mk_uinfo s st e) /\ aget (db_users tf) u = Some (mk_uinfo s st e)) \/
  e + c_delta (cfg tf) <= h.
Proof. exact (acknowledged_registration_survives_purge u h t0 sched tf s st e). Qed.

(* the second thread is the gatekeeper's part (the first listener) of the block event's thread program *)
Example C10_purge_thread_is_first_listener le sc hash txs h :
  connect_p le sc hash txs h =
  gk_connect_p h ;;; (w_connect_p sc hash txs h ;;; (r_connect_p le sc hash txs h ;;; Ret tt)).
Proof. reflexivity. Qed.

(* non-vacuity on the state of the old witness (user 1: expiry 122, no grace; block 122 purges him): the schedule
   that used to lose the renewal (the purge decides, the renewal is served, the purge removes) now serialises
   the two critical sections - purge first: a fresh subscription; renewal first: the user stays *)
Example C10_purge_instances :
  user_row_ok w_purge 1 /\ NoDup (map fst (gk_users w_purge)) /\
  let ps := [register_p 1; gk_connect_p 122 ;;; Ret OBlockRes] in
  let r1 := run_sched w_purge ps (repeat 1%nat 3 ++ repeat 0%nat 40 ++ repeat 1%nat 200 ++ repeat 0%nat 40) in
  let r2 := run_sched w_purge ps (repeat 0%nat 6 ++ repeat 1%nat 3 ++ repeat 0%nat 40 ++ repeat 1%nat 200) in
  snd r1 = [Some (TOut (ORegisterRes (RegOk 10 121 123))); Some (TOut OBlockRes)] /\
  db_users (fst r1) = [(1, mk_uinfo 10 121 123)] /\
  snd r2 = [Some (TOut (ORegisterRes (RegOk 19 120 124))); Some (TOut OBlockRes)] /\
  db_users (fst r2) = [(1, mk_uinfo 19 120 124)].
Proof. split; [vm_compute; reflexivity|]. split; [vm_compute; repeat constructor; intros []|]. vm_compute. repeat split; reflexivity. Qed.

(* A request panics only at a site of its own program, whatever the other threads (any number, the purging block
   included) do, in every schedule.  add_appointment: the only site left on its whole path is the responder's
   get_height unwrap (C11 proves it unreachable); the unwraps on the vanished user (has_subscription_expired,
   add_update_appointment) and on the failed INSERT are gone: the request is refused.  Since a thread poisons a
   lock only by panicking while holding it, add_appointment and get_appointment poison nothing. *)
Theorem C10_add_purge_no_abort sc signer loc b delay sig t ps sched j s :
  nth_error ps j = Some (add_p sc signer loc b delay sig) ->
  nth_error (snd (run_sched t ps sched)) j = Some (Some (TOut (OAbort s))) -> s = S_r_get_height_unwrap.
Proof.
  intros Hp. exact (only_own_aborts (fun s => s = S_r_get_height_unwrap) t ps sched j _ s Hp (add_sites sc signer loc b delay sig)).
Qed.

Theorem C10_get_never_aborts signer loc t ps sched j s :
  nth_error ps j = Some (get_p signer loc) ->
  nth_error (snd (run_sched t ps sched)) j = Some (Some (TOut (OAbort s))) -> False.
Proof.
  intros Hp. exact (only_own_aborts (fun _ => False) t ps sched j _ s Hp (get_sites signer loc)).
Qed.

(* the two schedules that used to kill the tower, on the same state: the user is purged after the request has
   authenticated him; the request is refused, no lock is poisoned, the block is processed *)
Theorem C10_get_purge_refused :
  let c := run_config (init_config w_purge [get_p (Some 1) 7; w_connect_purge]) w_get_purged in
  map thread_result (cf_threads c) = [Some (TOut (OGetRes GetAuth)); Some (TOut OBlockRes)] /\
  cf_poisoned c = [].
Proof. exact get_refused_when_purged_in_between. Qed.

Theorem C10_add_purge_refused :
  let c := run_config (init_config w_purge [add_p [] (Some 1) 8 (mk_blob 8 (Some 108) 77) 20 2; w_connect_purge]) w_add_purged in
  map thread_result (cf_threads c) = [Some (TOut (OAddRes AddAuthOrSlots)); Some (TOut OBlockRes)] /\
  cf_poisoned c = [] /\ db_apps (cf_tower c) = [] /\ db_users (cf_tower c) = [].
Proof. exact add_refused_when_purged_in_between. Qed.

(* ---- the two granularities ----------------------------------------------------------------------------------
   The controlled scheduler of the check replays `run_coarse` words (threads started in index order, then one letter
   per granted lock request, the thread running on to its next request).  Every such execution is an execution of
   the fine-grained semantics all the theorems above quantify over: they cover every run the harness can produce. *)
Theorem C10_coarse_runs_are_fine_runs t ps w c' :
  run_coarse (start_config t ps) w = Some c' ->
  exists sched, run_config (init_config t ps) sched = c' /\
                run_sched t ps sched = (cf_tower c', map thread_result (cf_threads c')).
Proof. exact (coarse_runs_are_fine_runs t ps w c'). Qed.

(* The converse fails, in this sense: a coarse execution only passes through configurations in which every thread
   is ended, returning, or waiting for a lock; a fine schedule that stops a thread right before an action - e.g. the
   atomic store of the gatekeeper's height, which follows the release of `users` - and lets another thread move is
   not among the words the harness replays (it cannot preempt at an atomic height access). *)
Theorem C10_coarse_configs_are_settled t ps w c' j th :
  run_coarse (start_config t ps) w = Some c' -> nth_error (cf_threads c') j = Some th ->
  match ct_st th with
  | Running (Ret _) | Running (Acq _ _) | Ended _ => True
  | Running (Rel _ _) | Running (Act _ _ _) => False
  end.
Proof. intros Hw Hn. exact (coarse_configs_are_settled t ps w c' Hw j th Hn). Qed.

Theorem C10_preemption_before_an_action_is_not_coarse t ps sched j th :
  nth_error (cf_threads (run_config (init_config t ps) sched)) j = Some th -> at_action th = true ->
  forall w, run_coarse (start_config t ps) w <> Some (run_config (init_config t ps) sched).
Proof. exact (preemption_before_an_action_is_not_coarse t ps sched j th). Qed.

(* non-vacuity: a coarse word of add || block that runs both to their end; and a fine schedule that stops the block
   between the release of `users` and the store of the height (3 events) *)
Example C10_granularity_instances :
  (match run_coarse (start_config w_reg [w_add; w_connect_dispute]) (repeat 0%nat 9 ++ repeat 1%nat 18) with
   | Some c => all_finished c | None => false end) = true /\
  (match nth_error (cf_threads (run_config (init_config w_reg [w_add; w_connect_dispute]) (repeat 1%nat 3))) 1 with
   | Some th => at_action th | None => false end) = true.
Proof. vm_compute. split; reflexivity. Qed.

(* ---- a request among readers ------------------------------------------------------------------------------------
   Any number of read-only requests (get_appointment, get_subscription_info) next to ONE arbitrary thread (a request
   or the chain monitor delivering block events), any schedule: if that thread returns, its reply and the final
   state are those of its program run alone from the initial state - i.e. of BOTH sequential orders as far as that
   thread and the state are concerned, since readers change nothing.  (The readers' own replies: next theorem.) *)
Theorem C10_writer_among_readers_runs_alone t ps sched j p o :
  nth_error ps j = Some p ->
  (forall i q, i <> j -> nth_error ps i = Some q -> readonly q) ->
  nth_error (snd (run_sched t ps sched)) j = Some (Some (TOut o)) -> (forall s, o <> OAbort s) ->
  exec p t = Ok o (fst (run_sched t ps sched)).
Proof. exact (writer_among_readers_runs_alone t ps sched j p o). Qed.

(* ---- a reader and a block disconnection ------------------------------------------------------------------------
   get_appointment (resp. get_subscription_info)  ||  block `hash` disconnected at height h.  Whatever the schedule,
   if both return: the block event's reply and the final state are those of its run alone, and the reader is told
   what it is told when run alone BEFORE the block event (from the initial state) or AFTER it (from the final
   state): state and replies of a sequential order.  (Of what the reader looks at, the disconnection changes the
   gatekeeper's height only, by one atomic store, and the reader looks at the height once.) *)
Theorem C10_get_disconnect_linearizable signer loc hash h t0 sched tf o ow :
  run_sched t0 [get_p signer loc; (disconnect_p hash h ;;; Ret tt) ;;; Ret OBlockRes] sched
  = (tf, [Some (TOut o); Some (TOut ow)]) ->
  (forall s, o <> OAbort s) -> (forall s, ow <> OAbort s) ->
  exec ((disconnect_p hash h ;;; Ret tt) ;;; Ret OBlockRes) t0 = Ok ow tf /\
  (exec (get_p signer loc) t0 = Ok o t0 \/ exec (get_p signer loc) tf = Ok o tf).
Proof.
  exact (reader_and_height_writer_linearizable t0 (h - 1) (get_p signer loc) _ sched tf o ow (get_hs signer loc) (disconnect_wg hash h)).
Qed.

Theorem C10_getsub_disconnect_linearizable signer hash h t0 sched tf o ow :
  run_sched t0 [getsub_p signer; (disconnect_p hash h ;;; Ret tt) ;;; Ret OBlockRes] sched
  = (tf, [Some (TOut o); Some (TOut ow)]) ->
  (forall s, o <> OAbort s) -> (forall s, ow <> OAbort s) ->
  exec ((disconnect_p hash h ;;; Ret tt) ;;; Ret OBlockRes) t0 = Ok ow tf /\
  (exec (getsub_p signer) t0 = Ok o t0 \/ exec (getsub_p signer) tf = Ok o tf).
Proof.
  exact (reader_and_height_writer_linearizable t0 (h - 1) (getsub_p signer) _ sched tf o ow (getsub_hs signer) (disconnect_wg hash h)).
Qed.

(* the second thread IS the thread program of the block event; and an interleaved run in which both return *)
Example C10_disconnect_thread_is_prog_of_op :
  prog_of_op true [] w_trig ODisconnect = (disconnect_p 2001 121 ;;; Ret tt) ;;; Ret OBlockRes /\
  snd (run_sched w_trig [get_p (Some 1) 7; (disconnect_p 2001 121 ;;; Ret tt) ;;; Ret OBlockRes]
         (repeat 0%nat 5 ++ repeat 1%nat 4 ++ repeat 0%nat 40 ++ repeat 1%nat 60))
  = [Some (TOut (OGetRes GetNotFound)); Some (TOut OBlockRes)].
Proof. split; vm_compute; reflexivity. Qed.

(* ---- a reader and a registration ------------------------------------------------------------------------------
   get_appointment (resp. get_subscription_info)  ||  register(v), the reader's user the same or another one.  Whatever
   the schedule, if both return: the registration's receipt and the final state are those of its run alone, and the
   reader is told what it is told when run alone before the registration (from the initial state) or after it (from
   the final state).  (The registration writes once; each of the reader's critical sections sees the state before or
   after that write, and every such mix answers like one of the two pure runs: ConcRW.)
   For get_subscription_info the subscriptions' expiries are within u32 (every reachable state: TowerLive.ExpInv). *)
Theorem C10_get_register_linearizable signer loc v t0 sched tf o ow :
  run_sched t0 [get_p signer loc; register_p v] sched = (tf, [Some (TOut o); Some (TOut ow)]) ->
  (forall s, o <> OAbort s) -> (forall s, ow <> OAbort s) ->
  exec (register_p v) t0 = Ok ow tf /\
  (exec (get_p signer loc) t0 = Ok o t0 \/ exec (get_p signer loc) tf = Ok o tf).
Proof.
  exact (reader_and_single_writer_linearizable t0 (get_p signer loc) (register_p v) sched tf o ow
           (get_readonly signer loc) (register_w1 v) (get_split_good v signer loc t0)).
Qed.

Theorem C10_getsub_register_linearizable signer v t0 sched tf o ow :
  (forall u ui, signer = Some u -> gk_get t0 u = Some ui -> u_expiry ui <= U32MAX) ->
  run_sched t0 [getsub_p signer; register_p v] sched = (tf, [Some (TOut o); Some (TOut ow)]) ->
  (forall s, o <> OAbort s) -> (forall s, ow <> OAbort s) ->
  exec (register_p v) t0 = Ok ow tf /\
  (exec (getsub_p signer) t0 = Ok o t0 \/ exec (getsub_p signer) tf = Ok o tf).
Proof.
  intros Hexp. exact (reader_and_single_writer_linearizable t0 (getsub_p signer) (register_p v) sched tf o ow
           (getsub_readonly signer) (register_w1 v) (fun n => getsub_split_good v signer t0 n Hexp)).
Qed.

(* non-vacuity: the renewal of user 1 lands between the reader's expiry test and its look at the user's info: the
   reader is told the renewed subscription (the reply of the order register ; get_subscription_info) *)
Example C10_reader_register_instances :
  snd (run_sched w_reg [getsub_p (Some 1); register_p 1] (repeat 0%nat 8 ++ repeat 1%nat 40 ++ repeat 0%nat 40))
  = [Some (TOut (OSubRes (SubOk 20 920 []))); Some (TOut (ORegisterRes (RegOk 20 120 920)))] /\
  snd (run_sched w_reg [get_p (Some 1) 7; register_p 1] (repeat 0%nat 5 ++ repeat 1%nat 40 ++ repeat 0%nat 40))
  = [Some (TOut (OGetRes GetNotFound)); Some (TOut (ORegisterRes (RegOk 20 120 920)))] /\
  (forall ui, gk_get w_reg 1 = Some ui -> u_expiry ui <= U32MAX).
Proof.
  split; [vm_compute; reflexivity|]. split; [vm_compute; reflexivity|].
  intros ui H. vm_compute in H. inversion H; subst. vm_compute. discriminate.
Qed.

(* ---- a reader and ONE arbitrary thread: the reduction -------------------------------------------------------------
   R only reads, W is any thread.  The shared state passes through the states of W's solo run from t0 (`states_of`), in
   order, and every action of R reads one of them, later actions never an earlier one (`mix`).  If every such mix run
   of R answers like R on the initial state or on W's final state, then for ALL schedules in which both return:
   W's reply and the final state are those of W's run alone, and R is told what it is told before or after W. *)
Theorem C10_reader_against_one_thread t0 PR PW sched tf o ow :
  readonly PR ->
  (forall o', mix PR t0 (states_of PW t0) o' ->
              Some o' = val (exec PR t0) \/ Some o' = val (exec PR (state_of (exec PW t0)))) ->
  run_sched t0 [PR; PW] sched = (tf, [Some (TOut o); Some (TOut ow)]) ->
  (forall s, o <> OAbort s) -> (forall s, ow <> OAbort s) ->
  exec PW t0 = Ok ow tf /\ (exec PR t0 = Ok o t0 \/ exec PR tf = Ok o tf).
Proof. exact (reader_against_one_thread t0 PR PW sched tf o ow). Qed.

(* get_appointment (any user, any locator)  ||  add_appointment whose locator is NOT in the locator cache (off the
   trigger path: the appointment is charged and stored, nothing is handed to the responder): state and both replies of
   a sequential order.  (On the trigger path it is refuted: C10_reader_reply_not_linearizable.) *)
Theorem C10_get_add_off_trigger_linearizable sc signer' loc' u loc b delay sig t0 sched tf o ow :
  ti_get (w_cache t0) loc = None ->
  run_sched t0 [get_p signer' loc'; add_p sc (Some u) loc b delay sig] sched = (tf, [Some (TOut o); Some (TOut ow)]) ->
  (forall s, o <> OAbort s) -> (forall s, ow <> OAbort s) ->
  exec (add_p sc (Some u) loc b delay sig) t0 = Ok ow tf /\
  (exec (get_p signer' loc') t0 = Ok o t0 \/ exec (get_p signer' loc') tf = Ok o tf).
Proof. exact (get_add_off_trigger_linearizable sc signer' loc' u loc b delay sig t0 sched tf o ow). Qed.

(* non-vacuity: locator 7 is not in the cache of w_reg; the reader looks at the tables between the charge and the store *)
Example C10_get_add_instance :
  ti_get (w_cache w_reg) 7 = None /\
  snd (run_sched w_reg [get_p (Some 1) 7; w_add] (repeat 0%nat 8 ++ repeat 1%nat 21 ++ repeat 0%nat 40 ++ repeat 1%nat 60))
  = [Some (TOut (OGetRes GetNotFound)); Some (TOut (OAddRes (AddOk 120 1 9 520)))].
Proof. split; vm_compute; reflexivity. Qed.

(* ---- register and a block disconnection ------------------------------------------------------------------------
   register(u)  ||  block `hash` disconnected at height h: whatever the schedule, if both return, state and replies are
   those of a sequential order - the one in which the registration's load of the gatekeeper's height and the
   disconnection's store of it were executed.  (Everything else the two threads do touches disjoint fields of the tower
   and commutes: ConcComm.first_actions_decide_the_order.)  No "modulo the stamp" is needed here: the registration
   reads the height once and the disconnection writes it once. *)
Theorem C10_register_disconnect_linearizable u hash h t0 sched tf oa ob :
  run_sched t0 [register_p u; (disconnect_p hash h ;;; Ret tt) ;;; Ret OBlockRes] sched
  = (tf, [Some (TOut oa); Some (TOut ob)]) ->
  (forall s, oa <> OAbort s) -> (forall s, ob <> OAbort s) ->
  (exists ta, exec (register_p u) t0 = Ok oa ta /\ exec ((disconnect_p hash h ;;; Ret tt) ;;; Ret OBlockRes) ta = Ok ob tf) \/
  (exists tb, exec ((disconnect_p hash h ;;; Ret tt) ;;; Ret OBlockRes) t0 = Ok ob tb /\ exec (register_p u) tb = Ok oa tf).
Proof. exact (first_actions_decide_the_order t0 _ _ sched tf oa ob (register_disconnect_decided u hash h)). Qed.

(* non-vacuity: a new user registered while block 2001 (height 121) is disconnected: the height is stored before resp.
   after the registration loads it - subscription start 120 resp. 121, both runs return *)
Example C10_register_disconnect_instances :
  let D := (disconnect_p 2001 121 ;;; Ret tt) ;;; Ret OBlockRes in
  snd (run_sched w_trig [register_p 3; D] (repeat 1%nat 1 ++ repeat 0%nat 40 ++ repeat 1%nat 60))
  = [Some (TOut (ORegisterRes (RegOk 10 120 520))); Some (TOut OBlockRes)] /\
  snd (run_sched w_trig [register_p 3; D] (repeat 0%nat 3 ++ repeat 1%nat 1 ++ repeat 0%nat 40 ++ repeat 1%nat 60))
  = [Some (TOut (ORegisterRes (RegOk 10 121 521))); Some (TOut OBlockRes)].
Proof. vm_compute. split; reflexivity. Qed.

(* ---- linearizability: what is refuted ----------------------------------------------------------------- *)

(* get_appointment || add_appointment whose dispute is already in the locator cache: the reader is told "appointment"
   (the row is stored, the responder has not yet been handed the breach), which it is told in neither sequential
   order (nothing before, the tracker after); the final state is that of the order add ; get.  A reader next to a
   writer that has several critical sections is NOT linearizable in its own reply. *)
Theorem C10_reader_reply_not_linearizable :
  let ps := [w_add; get_p (Some 1) 7] in
  snd (run_sched w_trig ps w_get_midway) =
    [Some (TOut (OAddRes (AddOk 121 1 9 520))); Some (TOut (OGetRes (GetApp 7 w_blob 20)))] /\
  snd (run_sched w_trig ps (in_order [0; 1]%nat)) =
    [Some (TOut (OAddRes (AddOk 121 1 9 520))); Some (TOut (OGetRes (GetTrk 7 107)))] /\
  snd (run_sched w_trig ps (in_order [1; 0]%nat)) =
    [Some (TOut (OAddRes (AddOk 121 1 9 520))); Some (TOut (OGetRes GetNotFound))] /\
  fst (run_sched w_trig ps w_get_midway) = fst (run_sched w_trig ps (in_order [0; 1]%nat)).
Proof. exact reader_sees_appointment_before_its_tracker. Qed.

(* a reader || the block that purges its user: the reader's last critical section (the tables) runs after the purge,
   the earlier ones (authentication, expiry test, the user's info) before it: "not found" / "subscription without
   locators", told in neither order (before: the appointment / its locator; after: authentication failure) *)
Theorem C10_reader_purge_reply_not_linearizable :
  let pg := [get_p (Some 1) 7; w_connect_purge] in
  let ps := [getsub_p (Some 1); w_connect_purge] in
  snd (run_sched w_purge pg (w_reader_purged 8)) = [Some (TOut (OGetRes GetNotFound)); Some (TOut OBlockRes)] /\
  snd (run_sched w_purge pg (in_order [0; 1]%nat)) = [Some (TOut (OGetRes (GetApp 7 w_blob 20))); Some (TOut OBlockRes)] /\
  snd (run_sched w_purge pg (in_order [1; 0]%nat)) = [Some (TOut (OGetRes GetAuth)); Some (TOut OBlockRes)] /\
  snd (run_sched w_purge ps (w_reader_purged 11)) = [Some (TOut (OSubRes (SubOk 9 122 []))); Some (TOut OBlockRes)] /\
  snd (run_sched w_purge ps (in_order [0; 1]%nat)) = [Some (TOut (OSubRes (SubOk 9 122 [7]))); Some (TOut OBlockRes)] /\
  snd (run_sched w_purge ps (in_order [1; 0]%nat)) = [Some (TOut (OSubRes SubAuth)); Some (TOut OBlockRes)].
Proof. exact readers_straddle_the_purge. Qed.

(* get_subscription_info || add_appointment of the same user: the reader is told the balance AFTER the charge and the
   locators BEFORE the store (the charge and the store are two critical sections: the source's own TODO): neither order *)
Theorem C10_reader_add_reply_not_linearizable :
  let ps := [w_add; getsub_p (Some 1)] in
  snd (run_sched w_reg ps w_getsub_midway) =
    [Some (TOut (OAddRes (AddOk 120 1 9 520))); Some (TOut (OSubRes (SubOk 9 520 [])))] /\
  snd (run_sched w_reg ps (in_order [0; 1]%nat)) =
    [Some (TOut (OAddRes (AddOk 120 1 9 520))); Some (TOut (OSubRes (SubOk 9 520 [7])))] /\
  snd (run_sched w_reg ps (in_order [1; 0]%nat)) =
    [Some (TOut (OAddRes (AddOk 120 1 9 520))); Some (TOut (OSubRes (SubOk 10 520 [])))].
Proof. exact reader_sees_the_charge_before_the_appointment. Qed.

(* get_appointment || a block WITHOUT purge: the block at whose height the reader's subscription expires, carrying the
   dispute of its appointment.  The expiry test is passed before the gatekeeper's part of the block, the tables are read
   after the watcher's: "tracker" - before the block the reader is told the appointment, after it "subscription expired" *)
Theorem C10_reader_block_reply_not_linearizable :
  let ps := [get_p (Some 1) 7; w_connect_expiry_dispute] in
  snd (run_sched w_exp ps w_get_across_block) = [Some (TOut (OGetRes (GetTrk 7 107))); Some (TOut OBlockRes)] /\
  snd (run_sched w_exp ps (in_order [0; 1]%nat)) = [Some (TOut (OGetRes (GetApp 7 w_blob 20))); Some (TOut OBlockRes)] /\
  snd (run_sched w_exp ps (in_order [1; 0]%nat)) = [Some (TOut (OGetRes (GetExpired 122))); Some (TOut OBlockRes)].
Proof. exact reader_straddles_the_expiring_block. Qed.

(* register || add_appointment of the same user (one of the pairs that were open): the add_appointment receipt carries the
   balance AFTER the renewal and the expiry BEFORE it (the expiry is read in has_subscription_expired, the balance written
   in add_update_appointment: two critical sections of `users`): the replies of neither order, the state of register ; add *)
Theorem C10_register_add_replies_not_linearizable :
  let ps := [register_p 1; w_add] in
  snd (run_sched w_reg ps w_add_across_renewal) =
    [Some (TOut (ORegisterRes (RegOk 20 120 920))); Some (TOut (OAddRes (AddOk 120 1 19 520)))] /\
  snd (run_sched w_reg ps (in_order [0; 1]%nat)) =
    [Some (TOut (ORegisterRes (RegOk 20 120 920))); Some (TOut (OAddRes (AddOk 120 1 19 920)))] /\
  snd (run_sched w_reg ps (in_order [1; 0]%nat)) =
    [Some (TOut (ORegisterRes (RegOk 19 120 920))); Some (TOut (OAddRes (AddOk 120 1 9 520)))] /\
  gk_users (fst (run_sched w_reg ps w_add_across_renewal)) = gk_users (fst (run_sched w_reg ps (in_order [0; 1]%nat))) /\
  db_apps (fst (run_sched w_reg ps w_add_across_renewal)) = db_apps (fst (run_sched w_reg ps (in_order [0; 1]%nat))).
Proof. exact receipt_mixes_the_renewal. Qed.

(* add_appointment || the block with its dispute is NOT linearizable in the height stamps (start_block 120
   next to a tracker stamped 121; the orders give 120/120 and 121/121) — while C10_no_missed_breach holds *)
Theorem C10_add_connect_not_linearizable :
  let ps := [w_add; w_connect_dispute] in
  stamps (fst (run_sched w_reg ps w_stamps)) = ([120], [121]) /\
  stamps (fst (run_sched w_reg ps (in_order [0; 1]%nat))) = ([120], [120]) /\
  stamps (fst (run_sched w_reg ps (in_order [1; 0]%nat))) = ([121], [121]).
Proof. exact add_and_block_stamps_of_neither_order. Qed.

Print Assumptions C10_thread_programs_refine_sequential_model.
Print Assumptions C10_no_missed_breach.
Print Assumptions C10_guard_spanning_lookup_and_store_is_necessary.
Print Assumptions C10_tables_are_statement_sequences.
Print Assumptions C10_no_orphan_records.
Print Assumptions C10_lock_protects_data.
Print Assumptions C10_slot_rmw_atomic.
Print Assumptions C10_data_stable_while_locked.
Print Assumptions C10_single_charge_refuted.
Print Assumptions C10_single_charge_if_row_visible.
Print Assumptions C10_reads_linearizable.
Print Assumptions C10_get_is_read_only.
Print Assumptions C10_get_subscription_info_is_read_only.
Print Assumptions C10_registrations_linearizable.
Print Assumptions C10_concurrent_topups_all_counted.
Print Assumptions C10_acknowledged_registration_survives_purge.
Print Assumptions C10_add_purge_no_abort.
Print Assumptions C10_get_never_aborts.
Print Assumptions C10_get_purge_refused.
Print Assumptions C10_add_purge_refused.
Print Assumptions C10_add_connect_not_linearizable.
Print Assumptions C10_coarse_runs_are_fine_runs.
Print Assumptions C10_coarse_configs_are_settled.
Print Assumptions C10_preemption_before_an_action_is_not_coarse.
Print Assumptions C10_writer_among_readers_runs_alone.
Print Assumptions C10_reader_reply_not_linearizable.
Print Assumptions C10_reader_purge_reply_not_linearizable.
Print Assumptions C10_reader_add_reply_not_linearizable.
Print Assumptions C10_reader_block_reply_not_linearizable.
Print Assumptions C10_register_add_replies_not_linearizable.
Print Assumptions C10_no_missed_breach_refined.
Print Assumptions C10_cache_refinement_init.
Print Assumptions C10_cache_refinement_step.
Print Assumptions C10_get_disconnect_linearizable.
Print Assumptions C10_getsub_disconnect_linearizable.
Print Assumptions C10_register_disconnect_linearizable.
Print Assumptions C10_get_register_linearizable.
Print Assumptions C10_getsub_register_linearizable.
Print Assumptions C10_reader_against_one_thread.
Print Assumptions C10_get_add_off_trigger_linearizable.

(* non-vacuity of the refined hypotheses: the locator cache of the reachable state w_reg represents a window (it was
   built by ti_new from the bootstrap blocks), its capacity is positive, and block 2001 carrying locator 7 is valid *)
Example C10_no_missed_breach_refined_instance :
  exists n w, RepW n (w_cache w_reg) w /\ (0 < n)%nat /\ valid_op w (TConnect (cache_block 2001 [7])) /\ In 7 [7].
Proof.
  set (l := map (fun b : N * list N => cache_block (fst b) (snd b))
                (sublist (Z.to_nat Consts.WATCHER_CACHE_FROM) (Z.to_nat Consts.WATCHER_CACHE_TO) w_blocks)).
  assert (Hh : NoDup (map (@ib_hash N) l)) by (vm_compute; repeat (constructor; [cbn; intuition discriminate|]); constructor).

  assert (Hk : NoDup (all_keys (rev l))) by (vm_compute; constructor).

  destruct (new_refines l 120%Z Hh Hk) as [t [Ht HR]].
  assert (E : ti_new l 120%Z = Some (w_cache w_reg)) by (vm_compute; reflexivity).

  assert (Et : Some t = Some (w_cache w_reg)) by (rewrite <- Ht; exact E).
 assert (Et' : t = w_cache w_reg) by (apply (f_equal (fun o => match o with Some x => x | None => t end)) in Et; exact Et). rewrite Et' in HR.
  exists (length l), (mk_window (rev l) 120%Z). split; [exact HR|]. split; [vm_compute; lia|].
  split; [|left; reflexivity].
  cbn [valid_op]. (split; [vm_compute; intuition discriminate|]). (split; [vm_compute; repeat constructor; intros []|]).
  intros k Hk'. vm_compute. intros [].
Qed.
