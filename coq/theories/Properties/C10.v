(* C10 — concurrent requests and block events behave as if executed one at a time.  Statements only. *)
From TeosModel Require Import Base TxIndex Tower ConcTower ConcTowerProofs.
Local Open Scope N_scope.

(* The thread program of an operation, run with no interference, is the sequential step of Tower.v:
   the sequential model (C01-C09, C11) and the concurrent model share every line of logic. *)
Theorem C10_thread_programs_refine_sequential_model le sc t o :
  (forall s, o <> OGetSub s) ->
  unwrap (exec (prog_of_op le sc t o) (set_rpc_log t [])) = step le t o sc.
Proof. exact (exec_is_step le sc t o). Qed.

Print Assumptions C10_thread_programs_refine_sequential_model.
