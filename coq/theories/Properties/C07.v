(* C07 — slot accounting: memory = disk = wire (this file); conservation law (C07_ledger.v) and
   the f32 slot formula (C07_slots.v) are in their own files.  Statements only. *)
From TeosModel Require Import Base TxIndex Tower TowerStable TowerInv TowerProofs TowerSubs.
Local Open Scope N_scope.

(* In every reachable state (no aborted handler) the balance kept in memory and the persisted one
   are the same record, user by user. *)
Theorem C07_memory_eq_disk le c h0 blocks t0 h :
  init c h0 blocks = Some t0 -> Forall not_abort (snd (run le t0 h)) ->
  forall u, aget (gk_users (fst (run le t0 h))) u = aget (db_users (fst (run le t0 h))) u.
Proof. intros Hi Hn. exact (inv_sync _ (inv_reachable le c h0 blocks t0 h Hi Hn)). Qed.

(* The numbers told to the user on registration are the persisted ones. *)
Theorem C07_register_wire_eq_disk le t sc u t' s st e :
  Inv t -> step le t (ORegister u) sc = (t', ORegisterRes (RegOk s st e)) ->
  aget (db_users t') u = Some (mk_uinfo s st e) /\ aget (gk_users t') u = Some (mk_uinfo s st e).
Proof.
  intros HI H.
  assert (Hn : not_abort (snd (step le t (ORegister u) sc))) by (rewrite H; exact I).
  pose proof (step_pres Inv inv_stable le t (ORegister u) sc HI Hn) as HI'. rewrite H in HI'. cbn [fst] in HI'.
  assert (Hm : aget (gk_users t') u = Some (mk_uinfo s st e)).
  { revert H. cbn [step wrap]. unfold gk_add_update_user. change (set_rpc_log t []) with (fresh t).
    destruct (gk_get (fresh t) u) as [ui|].
    - destruct (u32_add (u_slots ui) (c_slots (cfg (fresh t)))); cbn; intros H; inversion H; subst.
      unfold p_set_user, db_update_user, gk_put. cbn [gk_users set_db_users set_gk_users aget]. rewrite N.eqb_refl. reflexivity.
    - destruct (u32_add (gk_height (fresh t)) (c_duration (cfg (fresh t)))); [|cbn; intros H; inversion H].
      destruct (amem (db_users (fresh t)) u); cbn; intros H; inversion H; subst.
      unfold p_new_user, gk_put. cbn [gk_users set_db_users set_gk_users aget]. rewrite N.eqb_refl. reflexivity. }
  split; [rewrite <- (inv_sync t' HI'); exact Hm|exact Hm].
Qed.

(* Registration arithmetic: checked addition on renewal. *)
Theorem C07_renewal_tops_up le t sc u ui :
  gk_get t u = Some ui -> u_slots ui + c_slots (cfg t) <= U32MAX ->
  exists t' st e, step le t (ORegister u) sc = (t', ORegisterRes (RegOk (u_slots ui + c_slots (cfg t)) st e)).
Proof. intros Hg Hs. do 3 eexists. exact (register_renew le t sc u ui Hg Hs). Qed.

Print Assumptions C07_memory_eq_disk.
Print Assumptions C07_register_wire_eq_disk.
Print Assumptions C07_renewal_tops_up.
