(* C07 (slot formula part) — the f32 code of compute_appointment_slots (Slots.v) equals the exact
   ceiling the tower model charges (Tower.slots_of) for every blob the tower can receive.
   Statements only; every proof is `exact <lemma of SlotsProofs.v>`.
   The second argument is the generated constant Consts.ENCRYPTED_BLOB_MAX_SIZE (what every call
   site in /repo passes), regenerated from teos-common/src/constants.rs on every run. *)
From Coq Require Import ZArith NArith List.
Import ListNotations.
From TeosModel Require Import Slots SlotsProofs Tower.
From TeosModel.Gen Require Consts.
Local Open Scope Z_scope.

(* the value of the generated constant the statements below are instantiated at *)
Theorem C07_blob_max_size : Consts.ENCRYPTED_BLOB_MAX_SIZE = 2048.
Proof. reflexivity. Qed.

(* For ALL n in [0, 2^24]: the f32 computation is the exact ceiling, literally the function the
   tower model uses.  Proved from Flocq's correctness theorems of the four operations (no
   enumeration): see the header of SlotsProofs.v. *)
Theorem C07_slots_exact : forall n : Z, 0 <= n <= 2 ^ 24 ->
  compute_appointment_slots_f32 n Consts.ENCRYPTED_BLOB_MAX_SIZE = slots_of (Z.to_N n).
Proof. exact slots_exact_tower. Qed.

(* the same with the literal 2048 and the closed form ceil(n / 2048) = (n + 2047) / 2048 *)
Theorem C07_slots_exact_2048 : forall n : Z, 0 <= n <= 2 ^ 24 ->
  compute_appointment_slots_f32 n 2048 = Z.to_N ((n + 2047) / 2048).
Proof. exact slots_exact_2048. Qed.

(* and for every power-of-two slot size up to 2^24 *)
Theorem C07_slots_exact_pow2 : forall k n : Z, 0 <= k <= 24 -> 0 <= n <= 2 ^ 24 ->
  compute_appointment_slots_f32 n (2 ^ k) = Z.to_N (ceil_div n (2 ^ k)).
Proof. exact slots_exact_pow2. Qed.

(* The bound is sharp: 2^24+1 is the first blob size that is charged wrongly (8192 slots instead
   of 8193).  Kernel computation on the model. *)
Theorem C07_slots_wrong_above :
  compute_appointment_slots_f32 (2 ^ 24 + 1) Consts.ENCRYPTED_BLOB_MAX_SIZE = 8192%N /\
  slots_of (Z.to_N (2 ^ 24 + 1)) = 8193%N.
Proof. exact slots_wrong_above. Qed.

(* Both transports cap a request (hence the blob inside it) below 2^24 bytes: the generated HTTP
   body cap of add_appointment and tonic's default 4 MiB decoding limit of the internal gRPC API
   (TONIC_DEFAULT_MAX_RECV_MESSAGE_SIZE: tonic's constant, restated by hand in Slots.v, not
   generated).  So the formula is exact for every blob the tower can receive. *)
Theorem C07_transport_below_bound :
  Consts.ADD_APPOINTMENT_BODY_LEN <= F32_EXACT_INT_BOUND /\
  TONIC_DEFAULT_MAX_RECV_MESSAGE_SIZE <= F32_EXACT_INT_BOUND /\
  forall n, 0 <= n <= Z.max Consts.ADD_APPOINTMENT_BODY_LEN TONIC_DEFAULT_MAX_RECV_MESSAGE_SIZE ->
            compute_appointment_slots_f32 n Consts.ENCRYPTED_BLOB_MAX_SIZE = slots_of (Z.to_N n).
Proof. exact transport_below_bound. Qed.

(* "never less than one slot" is false of the code: the empty blob costs nothing ... *)
Theorem C07_slots_ge_one_refuted :
  compute_appointment_slots_f32 0 Consts.ENCRYPTED_BLOB_MAX_SIZE = 0%N.
Proof. exact slots_zero_blob. Qed.

(* ... and it is the only exception in the exact range *)
Theorem C07_slots_ge_one_nonempty : forall n : Z, 1 <= n <= 2 ^ 24 ->
  (1 <= compute_appointment_slots_f32 n Consts.ENCRYPTED_BLOB_MAX_SIZE)%N.
Proof. exact slots_ge_one_nonempty. Qed.

(* ---------- non-vacuity / the other branches of the model (kernel computations) ---------- *)
Example C07_slots_boundaries :
  List.map (fun n => compute_appointment_slots_f32 n 2048)
           [1; 2047; 2048; 2049; 4096; 4097; 2 ^ 24 - 2048; 2 ^ 24 - 2047; 2 ^ 24]%list
  = [1; 1; 1; 2; 2; 3; 8191; 8192; 8192]%N%list.
Proof. vm_compute. reflexivity. Qed.

(* x/0 = +inf saturates to u32::MAX, 0/0 = NaN casts to 0, a huge usize saturates *)
Example C07_slots_special_values :
  (compute_appointment_slots_f32 5 0, compute_appointment_slots_f32 0 0,
   compute_appointment_slots_f32 (2 ^ 64 - 1) 2048, compute_appointment_slots_f32 (2 ^ 64 - 1) 1)
  = (4294967295, 0, 4294967295, 4294967295)%N.
Proof. vm_compute. reflexivity. Qed.

Print Assumptions C07_blob_max_size.
Print Assumptions C07_slots_exact.
Print Assumptions C07_slots_exact_2048.
Print Assumptions C07_slots_exact_pow2.
Print Assumptions C07_slots_wrong_above.
Print Assumptions C07_transport_below_bound.
Print Assumptions C07_slots_ge_one_refuted.
Print Assumptions C07_slots_ge_one_nonempty.
