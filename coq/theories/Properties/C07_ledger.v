(* C07 — slot accounting is conserved (the model half: the conservation law and the ghost ledger of
   TowerMon.mon_C07 on the model's own traces).  Statements only; proofs are `exact` of lemmas in TowerLedger.v.

   Vocabulary (TowerLedger.v):  avail t u = u_slots of u's row in table users;  held_t t u = sum of
   slots_of (b_len (a_blob a)) over u's rows of table appointments (= TowerMon.held (observe t) u);
   bal t u = avail t u + held_t t u;  has_row t u = u has a row in table users;
   same_ledger t t' = memory, users, appointments, trackers and configuration are equal.

   Hypotheses that appear below, and why (each one is shown necessary by a `..._refuted` / `..._needs_...`
   theorem with a concrete witness):
   * add_bal: `bal t u < U32MOD` — add_update_appointment computes the new balance with `as u32`; when a
     replacement returns slots to a balance that then exceeds u32::MAX the cast wraps and slots vanish.
   * connect_bal: `connect_side t txs` =
       S1  a tracker that completes in this block is not waiting in `reorged` [invariant of reachable states:
           RInv] and its dispute is not mined again in this block [environment];
       S2  a dispute first seen in this block has a penalty that is not already in the responder's index
           [environment: a penalty cannot be confirmed before the transaction it spends];
       S3  the carrier's memo holds no ConfirmedIn [invariant of reachable states: RInv].
     `chain_side` is what remains for the environment (second half of S1, and S2).
   * trace level, ODisconnect: `last_hash t <> None` — on an empty responder index the model's step is a
     no-op while TowerMon.mon_step decrements m_height: the monitor then evaluates `completing` at the wrong
     height (a false alarm of the monitor, see C07_ledger_conserved_needs_disconnect_side). *)
From TeosModel Require Import Base TxIndex Tower TowerMon TowerStable TowerInv TowerProofs TowerLedger.
Local Open Scope N_scope.

(* ---------------- 1. registration ---------------- *)
(* A registration grants exactly c_slots: a new user starts with that balance, a returning user's balance
   grows by it, the reply states the persisted number, nobody else is touched. *)
Theorem C07_register_bal le t u sc t' r :
  Inv t -> step le t (ORegister u) sc = (t', ORegisterRes r) ->
  match r with
  | RegOk s st e =>
      (amem (db_users t) u = false -> bal t' u = c_slots (cfg t)) /\
      (amem (db_users t) u = true -> bal t' u = bal t u + c_slots (cfg t)) /\
      avail t' u = s /\
      db_apps t' = db_apps t /\
      (forall v, v <> u -> aget (db_users t') v = aget (db_users t) v /\ bal t' v = bal t v)
  | RegMaxSlots => same_ledger t t'
  end.
Proof. exact (register_bal le t u sc t' r). Qed.

Theorem C07_register_abort le t u sc t' s :
  step le t (ORegister u) sc = (t', OAbort s) -> same_ledger t t'.
Proof. exact (register_abort le t u sc t' s). Qed.

(* ---------------- 2. add_appointment ---------------- *)
(* Refused: nothing changes.  Accepted: the reply carries the persisted balance; it was accepted only because
   the balance stays non-negative; without u32 wrap the charge is the difference to the version replaced and
   the balance is conserved when the submitted version is held afterwards, and drops by exactly its slots
   when it was accepted and dropped (forfeited); other users' rows, appointments and balances are untouched. *)
Theorem C07_add_bal le t signer loc b delay sig sc t' r :
  Inv t -> step le t (OAdd signer loc b delay sig) sc = (t', OAddRes r) ->
  match r with
  | AddOk start sg slots e =>
      exists u, signer = Some u /\
        slots = avail t' u /\
        slots_of (b_len b) <= avail t u + used_by t loc u /\
        (bal t u < U32MOD ->
           avail t' u + slots_of (b_len b) = avail t u + used_by t loc u /\
           (if held_version (db_apps t') loc u b then bal t' u = bal t u
            else bal t' u + slots_of (b_len b) = bal t u)) /\
        (forall v, v <> u -> aget (db_users t') v = aget (db_users t) v /\
                             filter (ofu v) (db_apps t') = filter (ofu v) (db_apps t) /\ bal t' v = bal t v)
  | _ => same_ledger t t'
  end.
Proof. exact (add_bal le t signer loc b delay sig sc t' r). Qed.

Theorem C07_replace_charges_difference le t u loc b delay sig sc t' start sg slots e a0 :
  Inv t -> step le t (OAdd (Some u) loc b delay sig) sc = (t', OAddRes (AddOk start sg slots e)) ->
  find_app (db_apps t) (loc, u) = Some a0 -> bal t u < U32MOD ->
  avail t' u + slots_of (b_len b) = avail t u + slots_of (b_len (a_blob a0)).
Proof. exact (replace_charges_difference le t u loc b delay sig sc t' start sg slots e a0). Qed.

(* the hypothesis `bal t u < U32MOD` is needed: witness = config (slots 2^32-1), history wrap_hist, then wrap_op *)
Theorem C07_add_bal_wrap_refuted :
  exists le t loc b delay sig sc t' st sg sl e u,
    Inv t /\ step le t (OAdd (Some u) loc b delay sig) sc = (t', OAddRes (AddOk st sg sl e)) /\
    held_version (db_apps t') loc u b = true /\ bal t' u <> bal t u.
Proof. exact add_bal_wrap_refuted. Qed.

(* ---------------- 3. block connection ---------------- *)
(* For every user who still has a row: the rows that disappear because their tracker completes are refunded
   slot for slot (avail grows by exactly refunded_connect), every other row that disappears is forfeited,
   and balance + forfeited = the balance before. *)
Theorem C07_connect_bal le t hash txs sc t' :
  Inv t -> connect_side t txs -> step le t (OConnect hash txs) sc = (t', OBlockRes) ->
  forall v, has_row t' v = true ->
    has_row t v = true /\
    avail t' v = avail t v + refunded_connect t txs t' v /\
    held_t t' v + refunded_connect t txs t' v + forfeited_connect t txs t' v = held_t t v /\
    bal t' v + forfeited_connect t txs t' v = bal t v.
Proof. exact (connect_bal le t hash txs sc t'). Qed.

(* on reachable states (Inv, RInv) only the chain-consistency half of connect_side is a hypothesis *)
Theorem C07_connect_side_from t txs : Inv t -> RInv t -> chain_side t txs -> connect_side t txs.
Proof. exact (connect_side_from t txs). Qed.

Theorem C07_RInv_step le t o sc t' x : RInv t -> step le t o sc = (t', x) -> not_abort x -> RInv t'.
Proof. exact (step_RInv le t o sc t' x). Qed.

(* each clause of connect_side is needed (the other clauses hold in the witness) *)
Theorem C07_connect_bal_needs_not_reorged :
  exists le t hash txs sc v,
    Inv t /\ s1b_b t txs = true /\ s2_b t txs = true /\ s3_b t = true /\ connect_fails le t hash txs sc v.
Proof. exact connect_bal_needs_not_reorged. Qed.

Theorem C07_connect_bal_needs_dispute_not_remined :
  exists le t hash txs sc v,
    Inv t /\ s1a_b t txs = true /\ s2_b t txs = true /\ s3_b t = true /\ connect_fails le t hash txs sc v.
Proof. exact connect_bal_needs_dispute_not_remined. Qed.

Theorem C07_connect_bal_needs_penalty_not_indexed :
  exists le t hash txs sc v,
    Inv t /\ s1a_b t txs = true /\ s1b_b t txs = true /\ s3_b t = true /\ connect_fails le t hash txs sc v.
Proof. exact connect_bal_needs_penalty_not_indexed. Qed.

Theorem C07_connect_bal_needs_memo_ok :
  exists le t hash txs sc v,
    Inv t /\ s1a_b t txs = true /\ s1b_b t txs = true /\ s2_b t txs = true /\ connect_fails le t hash txs sc v.
Proof. exact connect_bal_needs_memo_ok. Qed.

(* ---------------- 4. the other operations ---------------- *)
Theorem C07_other_ops_bal le t o sc t' x :
  match o with OGet _ _ | OGetSub _ | ODisconnect => True | _ => False end ->
  step le t o sc = (t', x) ->
  same_ledger t t' /\ forall v, aget (db_users t') v = aget (db_users t) v /\ bal t' v = bal t v.
Proof. exact (other_ops_bal le t o sc t' x). Qed.

(* memory = disk: the gatekeeper's map and table users hold the same record for every user (TowerInv) *)
Theorem C07_mem_eq_disk t u : Inv t -> aget (gk_users t) u = aget (db_users t) u.
Proof. exact (fun HI => inv_sync t HI u). Qed.

(* ---------------- 5. the property on traces ---------------- *)
(* conservation_ok is the first check of mon_C07, and mon_step reports its failure as code 7 *)
Theorem C07_mon_C07_conservation c m pre o x post :
  exists rest, fst (mon_C07 c m pre o x post) = chk (conservation_ok (ledger_step c m pre o x post) post) 7 ++ rest.
Proof. exact (mon_C07_conservation c m pre o x post). Qed.

Theorem C07_mon_step_reports_conservation c m pre o sc x rpcs post :
  conservation_ok (ledger_step c m pre o x post) post = false -> In 7 (fst (mon_step c m pre o sc x rpcs post)).
Proof. exact (mon_step_reports_conservation c m pre o sc x rpcs post). Qed.

(* one step: the ghost ledger stays exact (granted = available + held + forfeited for every user with a row),
   and the monitor's height stays the gatekeeper's *)
Theorem C07_mon_step_sound le c t m o sc t' x :
  Inv t -> cfg t = c -> m_height m = gk_height t -> Led t (m_ledger m) -> step_side t o ->
  step le t o sc = (t', x) -> not_abort x ->
  Led t' (ledger_step c m (observe t) o x (observe t')) /\
  Led t' (m_ledger (next_m c m t o sc x t')) /\
  m_height (next_m c m t o sc x t') = gk_height t'.
Proof. exact (mon_step_sound le c t m o sc t' x). Qed.

(* every history from bootstrap in which no step aborted: the conservation check passes after every step
   (c07_run threads TowerMon.mon_step along the model's run and collects the check) *)
Theorem C07_ledger_conserved le c h0 blocks t0 h :
  init c h0 blocks = Some t0 -> run_side le t0 h -> Forall not_abort (snd (run le t0 h)) ->
  Forall (fun ok => ok = true) (c07_run le c t0 (m_init h0) h).
Proof. exact (ledger_conserved le c h0 blocks t0 h). Qed.

(* final form: only hypotheses on the environment (consistent chain, no disconnection below the index,
   balances below 2^32 when adding) *)
Theorem C07_ledger_conserved_env le c h0 blocks t0 h :
  init c h0 blocks = Some t0 -> run_env le t0 h -> Forall not_abort (snd (run le t0 h)) ->
  Forall (fun ok => ok = true) (c07_run le c t0 (m_init h0) h).
Proof. exact (ledger_conserved_env le c h0 blocks t0 h). Qed.

(* "so nobody holds more appointments than slots they were granted" *)
Theorem C07_held_le_granted t l v : Led t l -> has_row t v = true -> held_t t v <= fst (lget l v).
Proof. exact (held_le_granted t l v). Qed.

(* without the side conditions the check does fail on abort-free histories from bootstrap *)
Theorem C07_ledger_conserved_needs_no_wrap :
  exists le c h0 blocks t0 h,
    init c h0 blocks = Some t0 /\ Forall not_abort (snd (run le t0 h)) /\
    ~ Forall (fun ok => ok = true) (c07_run le c t0 (m_init h0) h).
Proof. exact ledger_conserved_needs_no_wrap. Qed.

Theorem C07_ledger_conserved_needs_disconnect_side :
  exists le c h0 blocks t0 h,
    init c h0 blocks = Some t0 /\ Forall not_abort (snd (run le t0 h)) /\
    ~ Forall (fun ok => ok = true) (c07_run le c t0 (m_init h0) h).
Proof. exact ledger_conserved_needs_disconnect_side. Qed.

(* ---------------- non-vacuity ---------------- *)
(* ex_hist: user 1 registers (10 slots), sends a 2-slot and a 1-slot appointment, both disputes are mined in
   one block (penalty 51 accepted by the node, penalty 61 rejected: that row is dropped, 1 slot forfeited),
   penalty 51 is confirmed at height 102 and the tracker completes at height 202 (2 slots refunded). *)
Example C07_ex_runs :
  match init ex_cfg 100 ex_blocks with
  | Some t0 =>
      no_abortb (snd (run true t0 ex_hist)) = true /\ run_sideb true t0 ex_hist = true /\
      length (c07_run true ex_cfg t0 (m_init 100) ex_hist) = 105%nat /\
      forallb (fun ok => ok) (c07_run true ex_cfg t0 (m_init 100) ex_hist) = true
  | None => False
  end.
Proof. vm_compute. repeat split. Qed.

(* after the registration; after the two appointments; after the breaches; before and after the completion:
   (available, held, (granted, forfeited), number of trackers, height) *)
Definition ex_view (n : nat) : option (N * N * (N * N) * nat * N) :=
  match init ex_cfg 100 ex_blocks with
  | Some t0 => let '(t, m) := m_run true ex_cfg t0 (m_init 100) (firstn n ex_hist) in
               Some (avail t 1, held_t t 1, lget (m_ledger m) 1, length (db_trks t), gk_height t)
  | None => None
  end.

Example C07_ex_registered : ex_view 1 = Some (10, 0, (10, 0), 0%nat, 100).
Proof. vm_compute. reflexivity. Qed.
Example C07_ex_accepted : ex_view 3 = Some (7, 3, (10, 0), 0%nat, 100).
Proof. vm_compute. reflexivity. Qed.
Example C07_ex_breached_one_rejected : ex_view 4 = Some (7, 2, (10, 1), 1%nat, 101).
Proof. vm_compute. reflexivity. Qed.
Example C07_ex_before_completion : ex_view 104 = Some (7, 2, (10, 1), 1%nat, 201).
Proof. vm_compute. reflexivity. Qed.
Example C07_ex_completed_refunded : ex_view 105 = Some (9, 0, (10, 1), 0%nat, 202).
Proof. vm_compute. reflexivity. Qed.

(* the hypotheses of the two trace-level theorems are satisfiable: they apply to ex_hist *)
Example C07_ex_theorem_applies t0 :
  init ex_cfg 100 ex_blocks = Some t0 ->
  run_env true t0 ex_hist /\ Forall not_abort (snd (run true t0 ex_hist)) /\
  Forall (fun ok => ok = true) (c07_run true ex_cfg t0 (m_init 100) ex_hist).
Proof.
  intros Hi.
  assert (Hs : run_side true t0 ex_hist).
  { apply run_sideb_sound. vm_compute in Hi. inversion Hi. vm_compute. reflexivity. }
  assert (Hn : Forall not_abort (snd (run true t0 ex_hist))).
  { apply no_abortb_sound. vm_compute in Hi. inversion Hi. vm_compute. reflexivity. }
  split; [apply run_side_env; exact Hs|]. split; [exact Hn|].
  exact (ledger_conserved_env true ex_cfg 100 ex_blocks t0 ex_hist Hi (run_side_env true ex_hist t0 Hs) Hn).
Qed.

Print Assumptions C07_register_bal.
Print Assumptions C07_register_abort.
Print Assumptions C07_add_bal.
Print Assumptions C07_replace_charges_difference.
Print Assumptions C07_add_bal_wrap_refuted.
Print Assumptions C07_connect_bal.
Print Assumptions C07_connect_side_from.
Print Assumptions C07_RInv_step.
Print Assumptions C07_connect_bal_needs_not_reorged.
Print Assumptions C07_connect_bal_needs_dispute_not_remined.
Print Assumptions C07_connect_bal_needs_penalty_not_indexed.
Print Assumptions C07_connect_bal_needs_memo_ok.
Print Assumptions C07_other_ops_bal.
Print Assumptions C07_mem_eq_disk.
Print Assumptions C07_mon_C07_conservation.
Print Assumptions C07_mon_step_reports_conservation.
Print Assumptions C07_mon_step_sound.
Print Assumptions C07_ledger_conserved.
Print Assumptions C07_ledger_conserved_env.
Print Assumptions C07_held_le_granted.
Print Assumptions C07_ledger_conserved_needs_no_wrap.
Print Assumptions C07_ledger_conserved_needs_disconnect_side.
Print Assumptions C07_ex_runs.
Print Assumptions C07_ex_theorem_applies.
