(* C07 — memory = disk ACROSS RESTARTS.  Statements only (proofs: CrashReach.v).
   The sequential histories of C07.v have no restart operation; here the reachable states are those of any history
   of requests, blocks and node answers interleaved with kills at ANY micro step of any operation and restarts, in any
   number and order (CrashReach.rreach).  In every such state the balance the gatekeeper answers from is the persisted
   one, user by user; what a restart loads is exactly the users table and it writes nothing; a restart with no kill in
   between changes no subscription.  The check ties `restart` to the code through the crash harness (kill points H2,
   real bootstrap), whose runs C07's check now also reads (tools/props/c07.py). *)
From TeosModel Require Import Base TxIndex Tower TowerStable TowerInv TowerLedger Crash CrashOps CrashOpsProofs CrashReach.
Local Open Scope N_scope.

Theorem C07_memory_eq_disk_across_restarts le t :
  rreach le t -> forall u, aget (gk_users t) u = aget (db_users t) u.
Proof. exact (rreach_memory_eq_disk le t). Qed.

Theorem C07_restart_loads_the_users_table t d : gk_users (restart t d) = d_users d /\ db_of (restart t d) = d.
Proof. exact (restart_loads_users t d). Qed.

Theorem C07_clean_restart_keeps_subscriptions t : Inv t ->
  forall u, aget (gk_users (restart t (db_of t))) u = aget (gk_users t) u /\
            aget (db_users (restart t (db_of t))) u = aget (db_users t) u.
Proof. exact (clean_restart_keeps_users t). Qed.

(* the ledger of C07_ledger.v (granted = available + held + forfeited, user by user) survives a clean restart:
   available, held and the set of users with a row are those of the tables, which a restart does not touch *)
Theorem C07_ledger_across_clean_restart t l : Led t l -> Led (restart t (db_of t)) l.
Proof. exact (ledger_across_clean_restart t l). Qed.

Theorem C07_restart_keeps_available_and_held t v :
  avail (restart t (db_of t)) v = avail t v /\ held_t (restart t (db_of t)) v = held_t t v /\
  bal (restart t (db_of t)) v = bal t v /\ has_row (restart t (db_of t)) v = has_row t v.
Proof. exact (restart_bal t v). Qed.

(* the premises are met by a state behind a registration, a kill inside a second one and a restart *)
Theorem C07_restart_reachable_somewhere : exists t, rreach true t /\ exists u, aget (gk_users t) u <> None.
Proof. exact rreach_somewhere. Qed.

Print Assumptions C07_memory_eq_disk_across_restarts.
Print Assumptions C07_restart_loads_the_users_table.
Print Assumptions C07_clean_restart_keeps_subscriptions.
Print Assumptions C07_restart_reachable_somewhere.
Print Assumptions C07_ledger_across_clean_restart.
Print Assumptions C07_restart_keeps_available_and_held.
