(* C18 — client store consistent, reloadable; abandon deletes exactly one tower.
   Statements only; every proof is `exact <lemma of ClientProofs.v / DbProofs.v>`.
   The model (Client.v) is the plugin's WTClient + DBM over the generic relational model Db.v
   instantiated with the schema GENERATED from the SQL in watchtower-plugin/src/dbm.rs.
   `srun wt_new ops` = the client after the operation sequence `ops` from a fresh data directory;
   `held_ops` = every removal of a pending appointment (alone or as the second half of a
   pending->accepted / pending->invalid move) names a row that is pending at that moment. *)
From TeosModel Require Import Base Db DbProofs Client ClientProofs.

(* the generated schema meets the hypothesis of the generic theorems of DbProofs.v *)
Theorem C18_schema_wf : schema_wf client_schema.
Proof. exact CS_wf. Qed.

(* Db.v, any schema: foreign keys and primary keys hold after any statement history; a DELETE
   removes exactly the named rows and their transitive ON DELETE CASCADE children *)
Theorem C18_db_integrity_any_schema s sts : schema_wf s -> db_ok s (run_stmts s (db_empty s) sts).
Proof. exact (reachable_db_ok s sts). Qed.

Theorem C18_cascade_exact_any_schema s d root d' :
  schema_wf s -> db_delete_root s d root = DbOk d' ->
  forall c r, In r (tbl d' c) <-> (In r (tbl d c) /\ ~ Doomed s d root c r).
Proof. exact (delete_exact s d root d'). Qed.

(* the client database satisfies them in every reachable state, whatever the sequence *)
Theorem C18_client_db_integrity ops : db_ok CS (c_db (srun wt_new ops)).
Proof. exact (proj1 (DbInv_srun ops wt_new DbInv_new)). Qed.

(* memory = disk: the summaries listtowers reports are the ones load_towers computes from the tables
   (address, slots, subscription window, pending and invalid locator sets) *)
Theorem C18_mem_eq_disk ops :
  held_ops wt_new ops = true -> c_poisoned (srun wt_new ops) = false -> mem_eq_diskb (srun wt_new ops) = true.
Proof. exact (mem_eq_disk ops). Qed.

(* gettowerinfo (load_tower_record) agrees with the summary in memory: same tower set, same fields,
   the bodies of exactly the pending / invalid locators, a proof iff one is stored *)
Theorem C18_gettowerinfo_eq_tables ops t :
  held_ops wt_new ops = true -> c_poisoned (srun wt_new ops) = false ->
  let c := srun wt_new ops in
  match aget (c_towers c) t with
  | Some s => exists i, load_tower_record (c_db c) t = LSome i /\
      ti_addr i = su_addr s /\ ti_slots i = su_slots s /\ ti_start i = su_start s /\ ti_expiry i = su_expiry s /\
      set_eq (su_pending s) (map (fun b => col b C_appointments_locator) (ti_pending i)) /\
      set_eq (su_invalid s) (map (fun b => col b C_appointments_locator) (ti_invalid i)) /\
      (ti_proof i = None <-> exists_misbehaving_proof (c_db c) t = false)
  | None => load_tower_record (c_db c) t = LNone
  end.
Proof. intros Hh Hp. exact (tower_info_agrees _ t (Inv_srun ops wt_new Inv_wt_new Hh) Hp). Qed.

(* a restart reproduces the summaries (up to the status, which only memory knows) ... *)
Theorem C18_reload_reproduces ops :
  held_ops wt_new ops = true -> c_poisoned (srun wt_new ops) = false ->
  towers_eqb_mod_status (c_towers (wt_reload (srun wt_new ops))) (c_towers (srun wt_new ops)) = true.
Proof. exact (reload_reproduces ops). Qed.

(* ... and after ANY history (aborts and un-held removals included) the restarted client is consistent
   with the file, reloading is idempotent, and the status follows the rule:
   proof stored => misbehaving, else pending data => temporary unreachable, else reachable *)
Theorem C18_reload_consistent ops :
  let c := wt_reload (srun wt_new ops) in
  c_poisoned c = false /\ mem_eq_diskb c = true /\ wt_reload c = c /\
  (forall t s, aget (c_towers c) t = Some s ->
     su_status s = if exists_misbehaving_proof (c_db c) t then Misbehaving
                   else match su_pending s with [] => Reachable | _ => TemporaryUnreachable end).
Proof. exact (reload_consistent ops). Qed.

(* abandon: succeeds, forgets the tower, deletes every row of the six tower-keyed tables that
   belongs to it and no row of another tower; an appointment body stays iff a pending / invalid row
   still references it (so bodies shared with other towers are kept); the other summaries are untouched *)
Theorem C18_abandon_exact ops t :
  held_ops wt_new ops = true -> c_poisoned (srun wt_new ops) = false ->
  let c := srun wt_new ops in
  amem (c_towers c) t = true ->
  snd (wt_remove_tower c t) = ROk /\
  let c' := fst (wt_remove_tower c t) in
  Inv c' /\ c_poisoned c' = false /\ aget (c_towers c') t = None /\
  (forall k, k <> t -> aget (c_towers c') k = aget (c_towers c) k) /\
  (forall tb r, tb <> T_appointments ->
     (In r (tbl (c_db c') tb) <-> In r (tbl (c_db c) tb) /\ row_of_tower tb t r = false)) /\
  (forall b, In b (tbl (c_db c') T_appointments) <->
     In b (tbl (c_db c) T_appointments) /\ ref_count (c_db c') (col b C_appointments_locator) <> 0%nat).
Proof. intros Hh Hp. exact (abandon_exact _ t (Inv_srun ops wt_new Inv_wt_new Hh) Hp). Qed.

(* every pending / invalid row has its appointment body (any sequence) *)
Theorem C18_shared_body_kept ops :
  let d := c_db (srun wt_new ops) in
  (forall r, In r (tbl d T_pending_appointments) -> has_body d (col r C_pending_appointments_locator) = true) /\
  (forall r, In r (tbl d T_invalid_appointments) -> has_body d (col r C_invalid_appointments_locator) = true).
Proof. exact (shared_body_kept ops). Qed.

(* every appointment body is referenced by a pending or invalid row (any sequence) — true since
   fix 285a1a2 (abandon used to leave unreferenced bodies, finding F10) *)
Theorem C18_no_orphan_bodies ops : no_orphan_bodiesb (c_db (srun wt_new ops)) = true.
Proof. exact (no_orphan_bodies ops). Qed.

(* delete_pending_appointment's COUNT rule on a row that IS pending: never fails, removes that
   row only, leaves every other table alone, and deletes the body iff it was the last reference *)
Theorem C18_refcount_correct_when_held ops t l :
  let d := c_db (srun wt_new ops) in
  is_pending_row d t l = true ->
  exists d', dbm_delete_pending_appointment d t l = DbOk d' /\ DbInv d' /\
  (forall c, c <> T_appointments -> c <> T_pending_appointments -> tbl d' c = tbl d c) /\
  (forall r, In r (tbl d' T_pending_appointments) <->
             In r (tbl d T_pending_appointments) /\
             proj r [C_pending_appointments_locator; C_pending_appointments_tower_id] <> [l; t]) /\
  (forall b, In b (tbl d' T_appointments) <->
             In b (tbl d T_appointments) /\ (col b C_appointments_locator <> l \/ ref_count d l <> 1%nat)).
Proof. intros d. exact (refcount_correct_when_held d t l (DbInv_srun ops wt_new DbInv_new)). Qed.

(* ---------- witnesses (kernel computations) ---------- *)
(* two towers sharing locator 7; a pending->accepted move, a pending->invalid move, a misbehaviour
   proof, a renewal, a restart, an abandon *)
Definition ex_ops : list sop :=
  [SRegister 1 11 100 5 200 901; SRegister 2 12 100 5 200 902;
   SPending 1 7 70 42; SPending 2 7 70 42; SPending 1 8 80 42; SInvalid 2 9 90 42;
   SMoveAccepted 1 7 99 6 301 401; SMoveInvalid 1 8 80 42; SRegister 1 11 150 5 300 903;
   SMisbehaving 2 6 6 302 402 77; SReload; SAbandon 1].

Example C18_nonvacuous :
  held_ops wt_new ex_ops = true /\ c_poisoned (srun wt_new ex_ops) = false /\
  map fst (c_towers (srun wt_new ex_ops)) = [2%N] /\
  tbl (c_db (srun wt_new ex_ops)) T_appointments = [[7; 70; 42]; [9; 90; 42]]%N /\
  tbl (c_db (srun wt_new ex_ops)) T_pending_appointments = [[7; 2]]%N /\
  tbl (c_db (srun wt_new ex_ops)) T_misbehaving_proofs = [[2; 6; 77]]%N.
Proof. vm_compute. repeat split; reflexivity. Qed.

(* the abandon of the example meets the hypotheses of C18_abandon_exact: tower 1 is known just before it *)
Example C18_nonvacuous_abandon :
  held_ops wt_new (removelast ex_ops) = true /\ c_poisoned (srun wt_new (removelast ex_ops)) = false /\
  amem (c_towers (srun wt_new (removelast ex_ops))) 1 = true /\
  is_pending_row (c_db (srun wt_new (removelast ex_ops))) 2 7 = true.
Proof. vm_compute. repeat split; reflexivity. Qed.

(* `held` is necessary: tower 1 releases locator 7 that only tower 2 holds as pending: COUNT = 1, the
   body is deleted and the cascade takes tower 2's pending row; memory still lists it (memory <> disk),
   nothing aborted.  (The plugin itself never makes this call: the retrier only releases rows of its own set.) *)
Definition ex_unheld : list sop :=
  [SRegister 1 11 100 5 200 901; SRegister 2 12 100 5 200 902; SPending 2 7 70 42; SRemovePending 1 7].

Theorem C18_refcount_wrong_when_not_held_refuted :
  exists ops, held_ops wt_new ops = false /\ c_poisoned (srun wt_new ops) = false /\
              mem_eq_diskb (srun wt_new ops) = false /\
              (exists s, aget (c_towers (srun wt_new ops)) 2 = Some s /\ su_pending s = [7%N]) /\
              is_pending_row (c_db (srun wt_new ops)) 2 7 = false.
Proof. exists ex_unheld. vm_compute. repeat split; try reflexivity. eexists. split; reflexivity. Qed.

(* flag_misbehaving_tower (fix d35e2bc) on the three kinds of history: nothing stored for (tower, locator) / the tower's
   own receipt already stored for it (used to unwrap a PRIMARY KEY conflict with the mutex held: F9, proof variant) / a
   proof already stored for the tower (used to unwrap the duplicate proof): never an abort, a proof row afterwards, the
   first proof kept, the receipt of the proof replaces the tower's receipt, memory = disk *)
Example C18_flag_misbehaving_branches :
  let c0 := srun wt_new [SRegister 1 11 100 5 200 901] in
  let c1 := srun wt_new [SRegister 1 11 100 5 200 901; SReceipt 1 7 99 6 301 401] in
  let f c l := sstep c (SMisbehaving 1 l 6 302 402 77) in
  snd (f c0 7) = ROk /\ tbl (c_db (fst (f c0 7))) T_misbehaving_proofs = [[1; 7; 77]]%N /\
  snd (f c1 7) = ROk /\ tbl (c_db (fst (f c1 7))) T_misbehaving_proofs = [[1; 7; 77]]%N /\
  tbl (c_db (fst (f c1 7))) T_appointment_receipts = [[7; 1; 6; 302; 402]]%N /\
  snd (f (fst (f c1 7)) 8) = ROk /\ tbl (c_db (fst (f (fst (f c1 7)) 8))) T_misbehaving_proofs = [[1; 7; 77]]%N /\
  c_poisoned (fst (f (fst (f c1 7)) 8)) = false /\ mem_eq_diskb (fst (f (fst (f c1 7)) 8)) = true /\
  wt_reload (fst (f c1 7)) = fst (f c1 7).
Proof. vm_compute. repeat split; reflexivity. Qed.

(* set_tower_status (fix 70d4134): a misbehaving tower keeps that status *)
Example C18_misbehaving_status_kept :
  let c := fst (sstep (srun wt_new [SRegister 1 11 100 5 200 901]) (SMisbehaving 1 7 6 302 402 77)) in
  map (fun kv => su_status (snd kv)) (c_towers (fst (sstep c (SSetStatus 1 TemporaryUnreachable)))) = [Misbehaving] /\
  map (fun kv => su_status (snd kv)) (c_towers (fst (sstep c (SSetStatus 1 Reachable)))) = [Misbehaving].
Proof. vm_compute. split; reflexivity. Qed.

Print Assumptions C18_schema_wf.
Print Assumptions C18_db_integrity_any_schema.
Print Assumptions C18_cascade_exact_any_schema.
Print Assumptions C18_client_db_integrity.
Print Assumptions C18_mem_eq_disk.
Print Assumptions C18_gettowerinfo_eq_tables.
Print Assumptions C18_reload_reproduces.
Print Assumptions C18_reload_consistent.
Print Assumptions C18_abandon_exact.
Print Assumptions C18_shared_body_kept.
Print Assumptions C18_no_orphan_bodies.
Print Assumptions C18_refcount_correct_when_held.
Print Assumptions C18_refcount_wrong_when_not_held_refuted.
