(* C18 — placeholder while the proofs are written; see ClientProofs.v *)
From TeosModel Require Import Base Db DbProofs Client.
