(* C06 — requests are authenticated and users are isolated from each other.
   Statements only; proofs are `exact` of lemmas in TowerProofs.v / TowerStable.v. *)
From TeosModel Require Import Base TxIndex Tower TowerProofs.
Local Open Scope N_scope.

(* A request passes the gate only when its signature recovers to a registered user whose
   subscription has not expired at the tower's current height (`authentic`). *)
Theorem C06_add_success_authentic le t sc signer loc b delay sig t' st sg sl e :
  step le t (OAdd signer loc b delay sig) sc = (t', OAddRes (AddOk st sg sl e)) -> authentic t signer.
Proof. exact (add_success_authentic le t sc signer loc b delay sig t' st sg sl e). Qed.

(* Any other signature, message or key: an authentication / subscription error (or an abort of a
   site C11 shows unreachable), and nothing changes (only the ghost RPC log is reset). *)
Theorem C06_add_refused_unchanged le t sc signer loc b delay sig :
  ~ authentic t signer ->
  exists r, step le t (OAdd signer loc b delay sig) sc = (fresh t, r) /\
            (r = OAddRes AddAuthOrSlots \/ (exists e, r = OAddRes (AddExpired e)) \/ (exists s, r = OAbort s)).
Proof. exact (add_refused_unchanged le t sc signer loc b delay sig). Qed.

Theorem C06_get_success_authentic le t sc signer loc t' r :
  step le t (OGet signer loc) sc = (t', OGetRes r) ->
  (r = GetAuth \/ (exists e, r = GetExpired e)) \/ authentic t signer.
Proof. exact (get_success_authentic le t sc signer loc t' r). Qed.

Theorem C06_getsub_success_authentic le t sc signer t' s e locs :
  step le t (OGetSub signer) sc = (t', OSubRes (SubOk s e locs)) -> authentic t signer.
Proof. exact (getsub_success_authentic le t sc signer t' s e locs). Qed.

(* Reads never change the state, whoever sends them. *)
Theorem C06_get_unchanged le t sc signer loc : exists r, step le t (OGet signer loc) sc = (fresh t, r).
Proof. exact (get_unchanged le t sc signer loc). Qed.

Theorem C06_getsub_unchanged le t sc signer : exists r, step le t (OGetSub signer) sc = (fresh t, r).
Proof. exact (getsub_unchanged le t sc signer). Qed.

(* What a successful read reveals is the record stored under the signer's own (locator, user) key. *)
Theorem C06_get_reveals_own le t sc u loc t' r :
  step le t (OGet (Some u) loc) sc = (t', OGetRes r) ->
  match r with
  | GetApp l b d => exists a, find_app (db_apps t) (loc, u) = Some a /\ l = a_loc a /\ b = a_blob a /\ d = a_delay a
  | GetTrk d p => exists k, find_trk (db_trks t) (loc, u) = Some k /\ d = t_dispute k /\ p = t_penalty k
  | _ => True
  end.
Proof. exact (get_reveals_own le t sc u loc t' r). Qed.

Print Assumptions C06_add_success_authentic.
Print Assumptions C06_add_refused_unchanged.
Print Assumptions C06_get_success_authentic.
Print Assumptions C06_getsub_success_authentic.
Print Assumptions C06_get_unchanged.
Print Assumptions C06_getsub_unchanged.
Print Assumptions C06_get_reveals_own.
