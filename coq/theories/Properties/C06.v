(* C06 — requests are authenticated and users are isolated from each other.
   Statements only; proofs are `exact` of lemmas in TowerProofs.v / TowerStable.v. *)
From TeosModel Require Import Base TxIndex Tower TowerProofs TowerIso.
Local Open Scope N_scope.

(* A request passes the gate only when its signature recovers to a registered user whose
   subscription has not expired at the tower's current height (`authentic`). *)
Theorem C06_add_success_authentic le t sc signer loc b delay sig t' st sg sl e :
  step le t (OAdd signer loc b delay sig) sc = (t', OAddRes (AddOk st sg sl e)) -> authentic t signer.
Proof. exact (add_success_authentic le t sc signer loc b delay sig t' st sg sl e). Qed.

(* Any other signature, message or key: an authentication / subscription error (or an abort of a
   site C11 shows unreachable), and nothing changes (only the ghost RPC log is reset). *)
Theorem C06_add_refused_unchanged le t sc signer loc b delay sig :
  ~ authentic t signer ->
  exists r, step le t (OAdd signer loc b delay sig) sc = (fresh t, r) /\
            (r = OAddRes AddAuthOrSlots \/ (exists e, r = OAddRes (AddExpired e)) \/ (exists s, r = OAbort s)).
Proof. exact (add_refused_unchanged le t sc signer loc b delay sig). Qed.

Theorem C06_get_success_authentic le t sc signer loc t' r :
  step le t (OGet signer loc) sc = (t', OGetRes r) ->
  (r = GetAuth \/ (exists e, r = GetExpired e)) \/ authentic t signer.
Proof. exact (get_success_authentic le t sc signer loc t' r). Qed.

Theorem C06_getsub_success_authentic le t sc signer t' s e locs :
  step le t (OGetSub signer) sc = (t', OSubRes (SubOk s e locs)) -> authentic t signer.
Proof. exact (getsub_success_authentic le t sc signer t' s e locs). Qed.

(* Reads never change the state, whoever sends them. *)
Theorem C06_get_unchanged le t sc signer loc : exists r, step le t (OGet signer loc) sc = (fresh t, r).
Proof. exact (get_unchanged le t sc signer loc). Qed.

Theorem C06_getsub_unchanged le t sc signer : exists r, step le t (OGetSub signer) sc = (fresh t, r).
Proof. exact (getsub_unchanged le t sc signer). Qed.

(* What a successful read reveals is the record stored under the signer's own (locator, user) key. *)
Theorem C06_get_reveals_own le t sc u loc t' r :
  step le t (OGet (Some u) loc) sc = (t', OGetRes r) ->
  match r with
  | GetApp l b d => exists a, find_app (db_apps t) (loc, u) = Some a /\ l = a_loc a /\ b = a_blob a /\ d = a_delay a
  | GetTrk d p => exists k, find_trk (db_trks t) (loc, u) = Some k /\ d = t_dispute k /\ p = t_penalty k
  | _ => True
  end.
Proof. exact (get_reveals_own le t sc u loc t' r). Qed.

(* ---------------------------------------------------------------------------------------------
   User isolation (TowerIso.v).  proj v t = (gatekeeper entry of v, row of v in table users, v's rows of
   table appointments, v's rows of table trackers).  is_api o = o is register / add_appointment /
   get_appointment / get_subscription_info; actor o = the registering user, resp. the user the request's
   signature recovers to (None when it recovers to nothing). *)

Theorem C06_proj_def v t :
  proj v t = mk_uview (aget (gk_users t) v) (aget (db_users t) v)
                      (filter (fun a => N.eqb (a_user a) v) (db_apps t)) (filter (fun k => N.eqb (t_user k) v) (db_trks t)).
Proof. reflexivity. Qed.

(* isolation: whatever anyone but v does through the API - another user, an unregistered key, an
   unauthenticated party - v's subscription, slots, appointments and trackers are unchanged, whether the
   handler answers or aborts, including the trigger-in-cache path of add_appointment. *)
Theorem C06_isolation le t o sc v :
  is_api o = true -> actor o <> Some v -> proj v (fst (step le t o sc)) = proj v t.
Proof. exact (isolation le t o sc v). Qed.

Theorem C06_isolation_other_user le t o sc u v :
  u <> v -> is_api o = true -> actor o = Some u -> proj v (fst (step le t o sc)) = proj v t.
Proof. exact (isolation_other_user le t o sc u v). Qed.

Theorem C06_isolation_unauthenticated le t o sc v :
  is_api o = true -> actor o = None -> proj v (fst (step le t o sc)) = proj v t.
Proof. exact (isolation_unauthenticated le t o sc v). Qed.

Theorem C06_isolation_unregistered le t o sc w v :
  is_api o = true -> actor o = Some w -> gk_get t w = None -> gk_get t v <> None ->
  proj v (fst (step le t o sc)) = proj v t.
Proof. exact (isolation_unregistered le t o sc w v). Qed.

(* same locator, two users: two rows, two independent lifecycles *)
Theorem C06_same_locator_independent le t o sc u v loc :
  u <> v -> is_api o = true -> actor o = Some u ->
  find_app (db_apps (fst (step le t o sc))) (loc, v) = find_app (db_apps t) (loc, v) /\
  find_trk (db_trks (fst (step le t o sc))) (loc, v) = find_trk (db_trks t) (loc, v).
Proof. exact (same_locator_independent le t o sc u v loc). Qed.

(* non-interference: the output (reply or abort site) of an API operation of u, and what becomes of u's
   projection and of the chain-level components, is determined by u's projection, the chain-level
   components (cfg, gatekeeper / watcher / carrier heights, locator cache, responder tx index, carrier memo)
   and the node's answers.  Nothing of any other user is revealed. *)
Theorem C06_chain_level_components t1 t2 :
  chain_eq t1 t2 <->
  cfg t1 = cfg t2 /\ gk_height t1 = gk_height t2 /\ w_height t1 = w_height t2 /\ w_cache t1 = w_cache t2 /\
  r_index t1 = r_index t2 /\ car_height t1 = car_height t2 /\ car_memo t1 = car_memo t2.
Proof. split; [intros [A B C D E F G]; auto 10|intros [A [B [C [D [E [F G]]]]]]; constructor; assumption]. Qed.

Theorem C06_noninterference le t1 t2 o sc u :
  is_api o = true -> actor o = Some u -> proj u t1 = proj u t2 /\ chain_eq t1 t2 ->
  snd (step le t1 o sc) = snd (step le t2 o sc) /\
  (proj u (fst (step le t1 o sc)) = proj u (fst (step le t2 o sc)) /\ chain_eq (fst (step le t1 o sc)) (fst (step le t2 o sc))).
Proof. exact (noninterference le t1 t2 o sc u). Qed.

Theorem C06_unauthenticated_reply le t1 t2 o sc :
  is_api o = true -> actor o = None -> snd (step le t1 o sc) = snd (step le t2 o sc).
Proof. exact (unauthenticated_reply le t1 t2 o sc). Qed.

(* the add_appointment reply itself needs even less: u's projection and two heights (not the node, not the
   caches).  user_row_ok: u's row is in table users whenever the gatekeeper knows u - true in every reachable
   state (TowerInv.inv_user_rows); without it the store after the charge is refused (the repaired
   StoredAppointment::UnknownUser path) and the reply is the authentication failure on both sides anyway, but
   the projection alone does not show the two sides agree on the row *)
Theorem C06_add_reply_depends le t1 t2 sc1 sc2 u loc b delay sig s1 s2 r1 r2 :
  user_row_ok t1 u -> user_row_ok t2 u ->
  proj u t1 = proj u t2 /\ gk_height t1 = gk_height t2 /\ w_height t1 = w_height t2 ->
  step le t1 (OAdd (Some u) loc b delay sig) sc1 = (s1, OAddRes r1) ->
  step le t2 (OAdd (Some u) loc b delay sig) sc2 = (s2, OAddRes r2) -> r1 = r2.
Proof. exact (add_reply_depends le t1 t2 sc1 sc2 u loc b delay sig s1 s2 r1 r2). Qed.

(* Non-vacuity on a concrete reachable tower (iso_tower: users 1 and 2 both hold locator 50, user 2 has a
   tracker for 60 whose dispute is still in the locator cache): user 1 replaces its (50,1), then sends a
   late appointment for 60 (trigger in cache: a tracker (60,1) is created, RPCs are sent), then a late
   garbage one (dropped).  Each changes user 1's own projection; user 2's is untouched (by the theorem). *)
Example C06_iso_tower_reachable :
  exists t, iso_tower = Some t /\
    find_app (db_apps t) (50, 1) <> None /\ find_app (db_apps t) (50, 2) <> None /\
    find_trk (db_trks t) (60, 2) <> None /\ ti_get (w_cache t) 60 = Some 60.
Proof. destruct iso_tower as [t|] eqn:E; [|vm_compute in E; discriminate]. exists t. split; [reflexivity|].
  vm_compute in E. inversion E. subst t. vm_compute. repeat split; discriminate. Qed.

Example C06_isolation_example :
  exists t, iso_tower = Some t /\
    (* the update of (50,1) *)
    proj 1 (fst (step true t iso_update [])) <> proj 1 t /\
    proj 2 (fst (step true t iso_update [])) = proj 2 t /\
    (* the late appointment: triggered straight away *)
    find_trk (db_trks (fst (step true t iso_late iso_late_script))) (60, 1) <> None /\
    rpc_log (fst (step true t iso_late iso_late_script)) <> [] /\
    proj 2 (fst (step true t iso_late iso_late_script)) = proj 2 t /\
    (* the late garbage appointment: charged and dropped *)
    proj 1 (fst (step true t iso_drop [])) <> proj 1 t /\
    find_app (db_apps (fst (step true t iso_drop []))) (60, 1) = None /\
    proj 2 (fst (step true t iso_drop [])) = proj 2 t /\
    (* (60,2), same locator as the dropped one, is still there with its tracker *)
    find_app (db_apps (fst (step true t iso_drop []))) (60, 2) <> None /\
    find_trk (db_trks (fst (step true t iso_drop []))) (60, 2) <> None.
Proof.
  destruct iso_tower as [t|] eqn:E; [|vm_compute in E; discriminate]. exists t. split; [reflexivity|].
  assert (I2 : forall o sc, is_api o = true -> actor o = Some 1 -> proj 2 (fst (step true t o sc)) = proj 2 t).
  { intros o sc Ha Hb. apply (isolation_other_user true t o sc 1 2); [discriminate|exact Ha|exact Hb]. }
  split; [vm_compute in E; inversion E; subst t; vm_compute; discriminate|].
  split; [apply I2; reflexivity|].
  split; [vm_compute in E; inversion E; subst t; vm_compute; discriminate|].
  split; [vm_compute in E; inversion E; subst t; vm_compute; discriminate|].
  split; [apply I2; reflexivity|].
  split; [vm_compute in E; inversion E; subst t; vm_compute; discriminate|].
  split; [vm_compute in E; inversion E; subst t; vm_compute; reflexivity|].
  split; [apply I2; reflexivity|].
  destruct (same_locator_independent true t iso_drop [] 1 2 60) as [Ha Hk]; [discriminate|reflexivity|reflexivity|].
  rewrite Ha, Hk. vm_compute in E; inversion E; subst t; vm_compute. split; discriminate.
Qed.

(* non-interference is not vacuous either: a tower where user 2 never existed (different tables, different
   history) that agrees with iso_tower on user 1's projection and the chain level answers user 1 the same *)
Example C06_noninterference_example :
  exists t1 t2, iso_tower = Some t1 /\ iso_tower_alone = Some t2 /\
    db_apps t1 <> db_apps t2 /\ proj 1 t1 = proj 1 t2 /\ chain_eq t1 t2 /\
    forall o sc, is_api o = true -> actor o = Some 1 -> snd (step true t1 o sc) = snd (step true t2 o sc).
Proof.
  destruct iso_tower as [t1|] eqn:E1; [|vm_compute in E1; discriminate].
  destruct iso_tower_alone as [t2|] eqn:E2; [|vm_compute in E2; discriminate].
  exists t1, t2. split; [reflexivity|]. split; [reflexivity|].
  assert (Hd : db_apps t1 <> db_apps t2) by (vm_compute in E1, E2; inversion E1; inversion E2; subst; vm_compute; discriminate).
  assert (Hp : proj 1 t1 = proj 1 t2) by (vm_compute in E1, E2; inversion E1; inversion E2; subst; vm_compute; reflexivity).
  assert (Hc : chain_eq t1 t2) by (vm_compute in E1, E2; inversion E1; inversion E2; subst; constructor; vm_compute; reflexivity).
  split; [exact Hd|]. split; [exact Hp|]. split; [exact Hc|].
  intros o sc Ha Hb. exact (proj1 (noninterference true t1 t2 o sc 1 Ha Hb (conj Hp Hc))).
Qed.

Print Assumptions C06_add_success_authentic.
Print Assumptions C06_add_refused_unchanged.
Print Assumptions C06_get_success_authentic.
Print Assumptions C06_getsub_success_authentic.
Print Assumptions C06_get_unchanged.
Print Assumptions C06_getsub_unchanged.
Print Assumptions C06_get_reveals_own.
Print Assumptions C06_proj_def.
Print Assumptions C06_isolation.
Print Assumptions C06_isolation_other_user.
Print Assumptions C06_isolation_unauthenticated.
Print Assumptions C06_isolation_unregistered.
Print Assumptions C06_same_locator_independent.
Print Assumptions C06_chain_level_components.
Print Assumptions C06_noninterference.
Print Assumptions C06_unauthenticated_reply.
Print Assumptions C06_add_reply_depends.
Print Assumptions C06_iso_tower_reachable.
Print Assumptions C06_isolation_example.
Print Assumptions C06_noninterference_example.
