(* C03 — integrity over WHOLE HISTORIES with kills and restarts.  Statements only (proofs: CrashReach.v).
   C03.v states the per-operation facts (one operation, one kill, one restart); here they are lifted by induction to
   every state reached from a bootstrap through any number of operations, kills at any micro step and restarts
   (CrashReach.rreach): the tower invariant and referential integrity of the tables hold in all of them, and the tables
   a kill leaves behind - at any micro step, with any later statement prefix - are consistent too. *)
From TeosModel Require Import Base TxIndex Tower TowerStable TowerInv Crash CrashOps CrashOpsProofs CrashReach.
Local Open Scope N_scope.

Theorem C03_invariant_across_restarts le t : rreach le t -> Inv t.
Proof. exact (rreach_inv le t). Qed.

Theorem C03_integrity_across_restarts le t : rreach le t -> DbInv (db_of t).
Proof. exact (rreach_dbinv le t). Qed.

Theorem C03_kill_tables_across_restarts le t o sc k l n :
  rreach le t -> DbInv (execs (crash_at le k t o sc) (firstn n l)).
Proof. exact (rreach_kill_tables le t o sc k l n). Qed.

(* hence every statement of the development proved under the tower invariant holds in all those states *)
Theorem C03_invariant_statements_lift (P : tower -> Prop) :
  (forall t, Inv t -> P t) -> forall le t, rreach le t -> P t.
Proof. exact (rreach_lifts P). Qed.

Print Assumptions C03_invariant_statements_lift.
Print Assumptions C03_invariant_across_restarts.
Print Assumptions C03_integrity_across_restarts.
Print Assumptions C03_kill_tables_across_restarts.
