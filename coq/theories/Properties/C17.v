(* C17 — blobs decrypt only under their dispute id; signatures bind signer and message.
   Statements only; every proof is `exact <lemma>` (or a short glue).  What is a theorem here:
   round trips (AEAD construction for ANY keystream/tag/key-hash functions, consensus codec,
   zbase32, signature container), full consumption by the decoder, the locator, and the exact
   events a successful opening of a tampered blob exhibits.  What is NOT proved (and cannot be
   without a probability theory): that those events do not happen — Poly1305/ChaCha20 MAC
   security, SHA-256 collision resistance, ECDSA unforgeability are cryptographic assumptions;
   the rejection of tampered blobs and altered signatures is observed on the implementation by
   the correspondence run (execution evidence). *)
From TeosModel Require Import Base BtcCodec BtcCodecProofs BtcCodecSound Crypto CryptoProofs ZBase32Proofs CryptoVectors.
From TeosModel.Gen Require Consts CryptoParams.
Local Open Scope N_scope.

Section C17_construction.
  (* ANY keystream function, tag function and key-derivation function *)
  Context (stream : bytes -> nat -> bytes) (tag : bytes -> bytes -> bytes) (H : bytes -> bytes).

  Theorem C17_aead_roundtrip key m : ae_open stream tag key (ae_seal stream tag key m) = Some m.
  Proof. exact (aead_roundtrip stream tag key m). Qed.

  (* decrypt (encrypt t k) k = t for every well-formed transaction and every id *)
  Theorem C17_decrypt_encrypt t k :
    tx_wf t = true -> ae_decrypt stream tag H (ae_encrypt stream tag H t k) k = Some t.
  Proof. exact (decrypt_encrypt stream tag H t k). Qed.

  (* A blob that opens although it is not the sealed blob under the sealing id exhibits an explicit
     collision: restricted, as the property is, to (a) another id on the untouched blob or (b) the
     same id on a changed / truncated / extended blob.  `body K m` is the ciphertext without its
     tag.  In (b) the input splits into a never-sealed body ct' and a valid tag for it (a forgery);
     when the 16 tag bytes are the original ones it is a collision of the tag function. *)
  Theorem C17_tamper_needs_collision k m k' c' p :
    ae_open stream tag (H k') c' = Some p ->
    (k' <> k /\ c' = ae_seal stream tag (H k) m) \/ (k' = k /\ c' <> ae_seal stream tag (H k) m) ->
    (k' <> k /\ c' = ae_seal stream tag (H k) m /\
       (key_hash_collision H k k' \/
        tag_collision tag (H k) (body stream (H k) m) (H k') (body stream (H k) m)))
    \/
    (k' = k /\ exists ct' tg', c' = ct' ++ tg' /\ length tg' = TAG_LEN /\
       tag_forgery tag (H k) (body stream (H k) m) ct' tg' /\
       (tg' = tagN tag (H k) (body stream (H k) m) ->
        tag_collision tag (H k) (body stream (H k) m) (H k) ct')).
  Proof. exact (tamper_needs_collision stream tag H k m k' c' p). Qed.

  (* single-bit flips keep the length: the flipped bit is in the body (then, the tag bytes being
     intact, two different bodies have the same tag under one key) ... *)
  Theorem C17_bitflip_needs_collision K m c' p :
    length c' = length (ae_seal stream tag K m) -> c' <> ae_seal stream tag K m ->
    ae_open stream tag K c' = Some p ->
    exists ct', length ct' = length m /\ ct' <> body stream K m /\ firstn (length m) c' = ct' /\
      (skipn (length m) c' = tagN tag K (body stream K m) ->
       tag_collision tag K (body stream K m) K ct').
  Proof. exact (tamper_same_length stream tag K m c' p). Qed.

  (* ... or in the tag, and that always fails — no assumption needed *)
  Theorem C17_tag_flip_fails K m tg' :
    length tg' = TAG_LEN -> tg' <> tagN tag K (body stream K m) ->
    ae_open stream tag K (body stream K m ++ tg') = None.
  Proof. exact (tamper_tag_only_fails stream tag K m tg'). Qed.

  (* truncations: below 16 bytes always refused; otherwise the tag of a proper prefix of the body
     would have to equal the 16 bytes following that prefix in the sealed blob *)
  Theorem C17_truncation_needs_forgery K m n p :
    (n < length (ae_seal stream tag K m))%nat -> ae_open stream tag K (firstn n (ae_seal stream tag K m)) = Some p ->
    (TAG_LEN <= n)%nat /\
    tag_forgery tag K (body stream K m) (firstn (n - TAG_LEN) (body stream K m))
                (firstn TAG_LEN (skipn (n - TAG_LEN) (ae_seal stream tag K m))).
  Proof. exact (tamper_truncation stream tag K m n p). Qed.

  Theorem C17_too_short_fails K c : (length c < TAG_LEN)%nat -> ae_open stream tag K c = None.
  Proof. exact (open_too_short stream tag K c). Qed.

  (* "blobs decrypt ONLY ...": whatever decrypts under an id is, byte for byte, the encryption of
     the resulting transaction under that id (for any keystream function yielding bytes): there is
     no second blob for a transaction — no trailing bytes, no alternative encoding *)
  Theorem C17_decrypt_only_encryptions c k t :
    (forall key n, bytes_wf (stream key n) = true) ->
    bytes_wf c = true -> ae_decrypt stream tag H c k = Some t ->
    c = ae_encrypt stream tag H t k /\ tx_wf t = true.
  Proof. exact (decrypt_only_encryptions stream tag H c k t). Qed.
End C17_construction.

(* deserialize (serialize t) = t, and deserialize consumes its whole input: anything appended to
   a serialisation is refused (with the library's "data not consumed entirely" error) *)
Theorem C17_tx_codec_roundtrip t :
  tx_wf t = true ->
  tx_decode (tx_encode t) = Some t /\
  (forall extra, extra <> [] -> tx_decode (tx_encode t ++ extra) = None) /\
  (forall extra, extra <> [] -> tx_deserialize (tx_encode t ++ extra) = inr ETrailing).
Proof. exact (tx_codec_roundtrip t). Qed.

(* the decoder accepts only canonical serialisations: deserialize p = t implies p = serialize t *)
Theorem C17_tx_decode_canonical p t :
  tx_decode p = Some t -> bytes_wf p = true -> p = tx_encode t /\ tx_wf t = true.
Proof. exact (tx_decode_canonical p t). Qed.

Theorem C17_tx_encode_injective t1 t2 :
  tx_wf t1 = true -> tx_wf t2 = true -> tx_encode t1 = tx_encode t2 -> t1 = t2.
Proof. exact (tx_encode_injective t1 t2). Qed.

(* non-minimal compact sizes are refused (so a length has one spelling) *)
Theorem C17_compact_size_minimal :
  (forall n rest, n < BTC_U64LIM -> csize_dec (csize_enc n ++ rest) = ROk n rest) /\
  (forall x rest, x < 253 -> csize_dec (253 :: le_bytes 2 x ++ rest) = RErr ENonMinimalVarInt) /\
  (forall x rest, x < 65536 -> csize_dec (254 :: le_bytes 4 x ++ rest) = RErr ENonMinimalVarInt) /\
  (forall x rest, x < 4294967296 -> csize_dec (255 :: le_bytes 8 x ++ rest) = RErr ENonMinimalVarInt).
Proof. split; [exact csize_roundtrip|exact csize_nonminimal_rejected]. Qed.

(* the concrete instance (SHA-256 key derivation, ChaCha20 keystream from block 1, Poly1305 tag
   keyed by block 0, the nonces read from the source) is an instance of the construction *)
Theorem C17_concrete_decrypt_encrypt t k : tx_wf t = true -> c_decrypt (c_encrypt t k) k = Some t.
Proof. exact (concrete_decrypt_encrypt t k). Qed.

Theorem C17_concrete_decrypt_only_encryptions c k t :
  bytes_wf c = true -> c_decrypt c k = Some t -> c = c_encrypt t k /\ tx_wf t = true.
Proof. exact (concrete_decrypt_only_encryptions c k t). Qed.

Theorem C17_concrete_seal_is_rfc8439 key nonce aad pt :
  aead_seal key nonce aad pt =
  xor_with pt (chacha_stream key nonce 1 (length pt)) ++
  poly1305 (firstn 32 (chacha_block key 0 nonce))
           (aead_mac_data aad (xor_with pt (chacha_stream key nonce 1 (length pt)))).
Proof. exact (concrete_seal_layout key nonce aad pt). Qed.

(* what the source says today (regenerated on every run): the same all-zero 12-byte nonce on both
   sides, key = SHA256(txid bytes) on both sides, consensus serialize / full-consumption
   deserialize, the message_signing wrappers, Locator::new = txid[0..LOCATOR_LEN] *)
Theorem C17_source_parameters :
  CryptoParams.ENC_NONCE = repeat 0 12 /\ CryptoParams.DEC_NONCE = CryptoParams.ENC_NONCE /\
  CryptoParams.ENC_KEY_IS_SHA256_OF_TXID_BYTES = true /\ CryptoParams.DEC_KEY_IS_SHA256_OF_TXID_BYTES = true /\
  CryptoParams.ENC_PLAINTEXT_IS_CONSENSUS_SERIALIZE = true /\
  CryptoParams.DEC_PLAINTEXT_IS_CONSENSUS_DESERIALIZE_FULL = true /\
  CryptoParams.SIGN_IS_LN_MESSAGE_SIGNING = true /\ CryptoParams.VERIFY_IS_RECOVER_THEN_EQ = true /\
  CryptoParams.LOCATOR_FROM = 0%Z /\ CryptoParams.LOCATOR_TO = Consts.LOCATOR_LEN.
Proof. repeat split; reflexivity. Qed.

(* the locator of an id is its first LOCATOR_LEN = 16 bytes, in the order in which the id is
   serialised inside transactions (the reverse of the displayed hex) *)
Theorem C17_locator_prefix k :
  cr_locator k = firstn (Z.to_nat Consts.LOCATOR_LEN) k /\ Consts.LOCATOR_LEN = 16%Z.
Proof. exact (locator_prefix k). Qed.

(* zbase32: decode (encode bs) = bs for every byte string *)
Theorem C17_zbase32_roundtrip data : bytes_wf data = true -> crzb_decode (crzb_encode data) = Some data.
Proof. exact (zbase32_roundtrip data). Qed.

(* the signature text is the zbase32 spelling (104 characters) of (31 + recovery id) :: compact64 *)
Theorem C17_sigrec_layout rid compact :
  rid < 4 -> length compact = 64%nat -> bytes_wf compact = true ->
  crzb_decode (lnsig_encode rid compact) = Some ((31 + rid) :: compact) /\
  length (lnsig_encode rid compact) = 104%nat /\
  lnsig_decode (lnsig_encode rid compact) = Some (rid, compact).
Proof. exact (sigrec_layout rid compact). Qed.

(* ---------- non-vacuity and limits (kernel computations) ---------- *)
(* a well-formed segwit transaction with two inputs, a witness stack and edge values *)
Definition ex_tx : btx :=
  {| btx_version := (-1)%Z;
     btx_in := [ {| txi_txid := repeat 7 32; txi_vout := 4294967295; txi_script := [1; 2; 3];
                    txi_seq := 4294967294; txi_witness := [[]; repeat 9 72; [255]] |};
                 {| txi_txid := repeat 0 32; txi_vout := 0; txi_script := []; txi_seq := 0;
                    txi_witness := [] |} ];
     btx_out := [ {| txo_value := 18446744073709551615; txo_script := repeat 81 253 |};
                  {| txo_value := 0; txo_script := [] |} ];
     btx_lock := 500000000 |}.
Definition ex_id : bytes := map N.of_nat (seq 1 32).
Definition ex_id2 : bytes := map N.of_nat (seq 2 32).

Example C17_nonvacuous_wf : tx_wf ex_tx = true /\ uses_segwit ex_tx = true /\ length (tx_encode ex_tx) = 448%nat.
Proof. repeat split; vm_compute; reflexivity. Qed.

(* the concrete instance on it: round trip; another id, a flipped bit (body / tag), a truncation
   and an extension are all refused by the tag check; a transaction with trailing bytes inside a
   correctly sealed blob is refused by the decoder *)
Example C17_concrete_examples :
  let c := c_encrypt ex_tx ex_id in
  c_decrypt_r c ex_id = DecOk ex_tx /\
  c_decrypt_r c ex_id2 = DecAead /\
  c_decrypt_r (N.lxor (hd 0 c) 1 :: tl c) ex_id = DecAead /\
  c_decrypt_r (removelast c ++ [N.lxor (last c 0) 128]) ex_id = DecAead /\
  c_decrypt_r (removelast c) ex_id = DecAead /\
  c_decrypt_r (c ++ [0]) ex_id = DecAead /\
  c_decrypt_r (aead_seal (sha256 ex_id) CryptoParams.ENC_NONCE [] (tx_encode ex_tx ++ [0])) ex_id = DecEncode ETrailing /\
  cr_locator ex_id = map N.of_nat (seq 1 16).
Proof. vm_compute. repeat split; reflexivity. Qed.

(* "fails" cannot be a theorem about the construction: with a tag function that ignores its
   input every tampered blob of the right shape opens — the hypothesis-free statement is refuted,
   which is why C17_tamper_needs_collision is the strongest form *)
Example C17_unconditional_rejection_refuted :
  exists (stream : bytes -> nat -> bytes) (tag : bytes -> bytes -> bytes) K m c',
    c' <> ae_seal stream tag K m /\ ae_open stream tag K c' <> None.
Proof.
  exists (fun _ n => repeat 0 n), (fun _ _ => repeat 0 16), [], [1], ([2] ++ repeat 0 16).
  split; [vm_compute; discriminate|vm_compute; discriminate].
Qed.

(* the codec: legacy form, zero-input form, and what is refused *)
Example C17_codec_examples :
  let legacy := {| btx_version := 2%Z;
                   btx_in := [ {| txi_txid := repeat 1 32; txi_vout := 1; txi_script := [81];
                                  txi_seq := 0; txi_witness := [] |} ];
                   btx_out := []; btx_lock := 0 |} in
  let empty := {| btx_version := 2%Z; btx_in := []; btx_out := []; btx_lock := 0 |} in
  tx_wf legacy = true /\ uses_segwit legacy = false /\ tx_decode (tx_encode legacy) = Some legacy /\
  tx_encode empty = [2; 0; 0; 0; 0; 1; 0; 0; 0; 0; 0; 0] /\ tx_decode (tx_encode empty) = Some empty /\
  (* the same transaction written in the BIP-144 form although it has no witness *)
  tx_deserialize ([2; 0; 0; 0; 0; 1; 1] ++ repeat 1 32 ++ [1; 0; 0; 0; 1; 81; 0; 0; 0; 0; 0; 0; 0; 0; 0; 0]) = inr ENoWitnesses /\
  tx_deserialize [2; 0; 0; 0; 0; 2; 0; 0; 0; 0; 0; 0] = inr (EUnsupportedSegwitFlag 2) /\
  tx_deserialize [2; 0; 0; 0; 0; 1; 253; 0; 0; 0; 0; 0; 0; 0] = inr ENonMinimalVarInt /\
  tx_deserialize [2; 0; 0; 0; 0; 1; 0; 0; 0; 0; 0; 0; 9] = inr ETrailing /\
  tx_deserialize [2; 0; 0; 0; 0; 1; 0; 0; 0; 0; 0] = inr EIo.
Proof. vm_compute. repeat split; reflexivity. Qed.

(* zbase32 / container on a 65-byte value; the decoder ignores letter case, so a signature VALUE
   has several spellings (the text is not unique although the value is) *)
Example C17_sig_examples :
  let compact := map N.of_nat (seq 100 64) in
  let s := lnsig_encode 1 compact in
  lnsig_decode s = Some (1, compact) /\ length s = 104%nat /\
  lnsig_decode (map ascii_upper s) = Some (1, compact) /\ map ascii_upper s <> s /\
  lnsig_decode (removelast s) = None /\ lnsig_decode (s ++ [121]) = None /\
  lnsig_decode (108 :: tl s) = None.
Proof. vm_compute. repeat split; try reflexivity; discriminate. Qed.

Print Assumptions C17_aead_roundtrip.
Print Assumptions C17_decrypt_encrypt.
Print Assumptions C17_tamper_needs_collision.
Print Assumptions C17_bitflip_needs_collision.
Print Assumptions C17_tag_flip_fails.
Print Assumptions C17_truncation_needs_forgery.
Print Assumptions C17_too_short_fails.
Print Assumptions C17_decrypt_only_encryptions.
Print Assumptions C17_tx_decode_canonical.
Print Assumptions C17_concrete_decrypt_only_encryptions.
Print Assumptions C17_tx_codec_roundtrip.
Print Assumptions C17_tx_encode_injective.
Print Assumptions C17_compact_size_minimal.
Print Assumptions C17_concrete_decrypt_encrypt.
Print Assumptions C17_concrete_seal_is_rfc8439.
Print Assumptions C17_source_parameters.
Print Assumptions C17_locator_prefix.
Print Assumptions C17_zbase32_roundtrip.
Print Assumptions C17_sigrec_layout.
