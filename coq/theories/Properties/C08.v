(* C08 — receipts bind exactly what the tower took on; stored data reads back intact.
   Statements only. *)
From TeosModel Require Import Base TxIndex Tower TowerStable TowerInv TowerProofs TowerSubs.
Local Open Scope N_scope.

(* The registration receipt carries exactly (slots, start, expiry) of the row persisted by that
   step: C09_register_new / C09_register_renew give the reply and the state in one equation; here
   the read-back of the persisted row. *)
Theorem C08_registration_receipt_is_row le t sc u t' s st e :
  Inv t -> step le t (ORegister u) sc = (t', ORegisterRes (RegOk s st e)) ->
  aget (db_users t') u = Some (mk_uinfo s st e) /\ aget (gk_users t') u = Some (mk_uinfo s st e).
Proof.
  intros HI H.
  assert (Hn : not_abort (snd (step le t (ORegister u) sc))) by (rewrite H; exact I).
  pose proof (step_pres Inv inv_stable le t (ORegister u) sc HI Hn) as HI'. rewrite H in HI'. cbn [fst] in HI'.
  assert (Hm : aget (gk_users t') u = Some (mk_uinfo s st e)).
  { revert H. cbn [step wrap]. unfold gk_add_update_user. change (set_rpc_log t []) with (fresh t).
    destruct (gk_get (fresh t) u) as [ui|].
    - destruct (u32_add (u_slots ui) (c_slots (cfg (fresh t)))); cbn; intros H; inversion H; subst.
      unfold p_set_user, db_update_user, gk_put. cbn [gk_users set_db_users set_gk_users aget]. rewrite N.eqb_refl. reflexivity.
    - destruct (u32_add (gk_height (fresh t)) (c_duration (cfg (fresh t)))); [|cbn; intros H; inversion H].
      destruct (amem (db_users (fresh t)) u); cbn; intros H; inversion H; subst.
      unfold p_new_user, gk_put. cbn [gk_users set_db_users set_gk_users aget]. rewrite N.eqb_refl. reflexivity. }
  split; [rewrite <- (inv_sync t' HI'); exact Hm|exact Hm].
Qed.

(* The appointment receipt carries the request's own signature, the tower's height at acceptance
   as start block, and the signer's expiry. *)
Theorem C08_appointment_receipt_fields le t sc signer loc b delay sig t' st sg sl e :
  step le t (OAdd signer loc b delay sig) sc = (t', OAddRes (AddOk st sg sl e)) ->
  sg = sig /\ st = w_height t /\ exists u ui, signer = Some u /\ gk_get t u = Some ui /\ e = u_expiry ui.
Proof. exact (add_receipt_fields le t sc signer loc b delay sig t' st sg sl e). Qed.

(* An accepted appointment whose dispute is not in the cache is stored exactly as submitted ... *)
Theorem C08_stored_as_submitted le t sc u loc b delay sig t' st sg sl e :
  Inv t -> ti_get (w_cache t) loc = None ->
  step le t (OAdd (Some u) loc b delay sig) sc = (t', OAddRes (AddOk st sg sl e)) ->
  find_app (db_apps t') (loc, u) = Some (mk_app loc u b delay sig (w_height t)) /\
  find_trk (db_trks t') (loc, u) = None.
Proof. exact (add_stored_reads_back le t sc u loc b delay sig t' st sg sl e). Qed.

(* ... and reading returns the stored record of the signer's own key, field for field. *)
Theorem C08_read_back le t sc u loc t' r :
  step le t (OGet (Some u) loc) sc = (t', OGetRes r) ->
  match r with
  | GetApp l b d => exists a, find_app (db_apps t) (loc, u) = Some a /\ l = a_loc a /\ b = a_blob a /\ d = a_delay a
  | GetTrk d p => exists k, find_trk (db_trks t) (loc, u) = Some k /\ d = t_dispute k /\ p = t_penalty k
  | _ => True
  end.
Proof. exact (get_reveals_own le t sc u loc t' r). Qed.

Print Assumptions C08_registration_receipt_is_row.
Print Assumptions C08_appointment_receipt_fields.
Print Assumptions C08_stored_as_submitted.
Print Assumptions C08_read_back.
