(* C08 — receipts bind exactly what the tower took on; stored data reads back intact.
   Statements only. *)
From TeosModel Require Import Base TxIndex Tower TowerStable TowerInv TowerProofs TowerSubs.
Local Open Scope N_scope.

(* The registration receipt carries exactly (slots, start, expiry) of the row persisted by that
   step: C09_register_new / C09_register_renew give the reply and the state in one equation; here
   the read-back of the persisted row. *)
Theorem C08_registration_receipt_is_row le t sc u t' s st e :
  Inv t -> step le t (ORegister u) sc = (t', ORegisterRes (RegOk s st e)) ->
  aget (db_users t') u = Some (mk_uinfo s st e) /\ aget (gk_users t') u = Some (mk_uinfo s st e).
Proof.
  intros HI H.
  assert (Hn : not_abort (snd (step le t (ORegister u) sc))) by (rewrite H; exact I).
  pose proof (step_pres Inv inv_stable le t (ORegister u) sc HI Hn) as HI'. rewrite H in HI'. cbn [fst] in HI'.
  assert (Hm : aget (gk_users t') u = Some (mk_uinfo s st e)).
  { revert H. cbn [step wrap]. unfold gk_add_update_user. change (set_rpc_log t []) with (fresh t).
    destruct (gk_get (fresh t) u) as [ui|].
    - destruct (u32_add (u_slots ui) (c_slots (cfg (fresh t)))); cbn; intros H; inversion H; subst.
      unfold p_set_user, db_update_user, gk_put. cbn [gk_users set_db_users set_gk_users aget]. rewrite N.eqb_refl. reflexivity.
    - destruct (u32_add (gk_height (fresh t)) (c_duration (cfg (fresh t)))); [|cbn; intros H; inversion H].
      destruct (amem (db_users (fresh t)) u); cbn; intros H; inversion H; subst.
      unfold p_new_user, gk_put. cbn [gk_users set_db_users set_gk_users aget]. rewrite N.eqb_refl. reflexivity. }
  split; [rewrite <- (inv_sync t' HI'); exact Hm|exact Hm].
Qed.

(* The appointment receipt carries the request's own signature, the tower's height at acceptance
   as start block, and the signer's expiry. *)
Theorem C08_appointment_receipt_fields le t sc signer loc b delay sig t' st sg sl e :
  step le t (OAdd signer loc b delay sig) sc = (t', OAddRes (AddOk st sg sl e)) ->
  sg = sig /\ st = w_height t /\ exists u ui, signer = Some u /\ gk_get t u = Some ui /\ e = u_expiry ui.
Proof. exact (add_receipt_fields le t sc signer loc b delay sig t' st sg sl e). Qed.

(* An accepted appointment whose dispute is not in the cache is stored exactly as submitted ... *)
Theorem C08_stored_as_submitted le t sc u loc b delay sig t' st sg sl e :
  Inv t -> ti_get (w_cache t) loc = None ->
  step le t (OAdd (Some u) loc b delay sig) sc = (t', OAddRes (AddOk st sg sl e)) ->
  find_app (db_apps t') (loc, u) = Some (mk_app loc u b delay sig (w_height t)) /\
  find_trk (db_trks t') (loc, u) = None.
Proof. exact (add_stored_reads_back le t sc u loc b delay sig t' st sg sl e). Qed.

(* ... and reading returns the stored record of the signer's own key, field for field. *)
Theorem C08_read_back le t sc u loc t' r :
  step le t (OGet (Some u) loc) sc = (t', OGetRes r) ->
  match r with
  | GetApp l b d => exists a, find_app (db_apps t) (loc, u) = Some a /\ l = a_loc a /\ b = a_blob a /\ d = a_delay a
  | GetTrk d p => exists k, find_trk (db_trks t) (loc, u) = Some k /\ d = t_dispute k /\ p = t_penalty k
  | _ => True
  end.
Proof. exact (get_reveals_own le t sc u loc t' r). Qed.

Print Assumptions C08_registration_receipt_is_row.
Print Assumptions C08_appointment_receipt_fields.
Print Assumptions C08_stored_as_submitted.
Print Assumptions C08_read_back.

(* ================================================================================================ *)
(* The remaining clauses, and the RUN-LEVEL statements (TowerRuns2.v; a moment of a run is a cut
   h = pre ++ (o, sc) :: post, see TowerRuns.v). *)
From TeosModel Require Import TowerBreach TowerLive TowerRuns TowerRuns2.
From TeosModel Require Wire WireApi WireApiProofs.

(* "A receipt is issued only for an appointment the tower has stored, responded to, or - when its dispute was
   already confirmed - dropped because the blob did not decrypt or the node refused the penalty": for every
   request and node script, in every state in which every user the gatekeeper's memory holds has its row in the
   table (user_row_ok, Tower.v; true of every reachable state: TowerInv.inv_user_rows).  Needed since the race
   repairs: a request of a user whose row has vanished is refused after the charge instead of aborting. *)
Theorem C08_receipt_only_if_taken_on le t sc signer loc b delay sig t' st sg sl e :
  (forall u, user_row_ok t u) ->
  step le t (OAdd signer loc b delay sig) sc = (t', OAddRes (AddOk st sg sl e)) ->
  exists u, signer = Some u /\ taken_on sc t t' u loc b delay sig.
Proof. exact (receipt_only_if_taken_on le t sc signer loc b delay sig t' st sg sl e). Qed.

Theorem C08_taken_on_eq sc t t' u loc b delay sig :
  taken_on sc t t' u loc b delay sig =
  (let a := mk_app loc u b delay sig (w_height t) in
   (find_app (db_apps t') (loc, u) = Some a /\ find_trk (db_trks t') (loc, u) = None) \/
   (exists d p, ti_get (w_cache t) loc = Some d /\ decrypt b d = Some p /\
                status_accepted (breach_status sc t p) = true /\
                find_app (db_apps t') (loc, u) = Some a /\ responded t' (loc, u) d p (breach_status sc t p)) \/
   (exists d, ti_get (w_cache t) loc = Some d /\
              (decrypt b d = None \/ exists p, decrypt b d = Some p /\ status_rejected (breach_status sc t p) = true) /\
              dropped t' (loc, u))).
Proof. reflexivity. Qed.

(* ... for every receipt of every run, with the receipt's own fields *)
Theorem C08_receipt_only_if_taken_on_run le c h0 blocks t0 h pre signer loc b delay sig sc post st sg sl e :
  init c h0 blocks = Some t0 -> NoDup (map fst blocks) -> N.of_nat (length blocks) <= h0 ->
  in_envelope le t0 h = true -> chain_disciplined le t0 h = true ->
  h = pre ++ (OAdd signer loc b delay sig, sc) :: post ->
  let t := fst (run le t0 pre) in
  snd (step le t (OAdd signer loc b delay sig) sc) = OAddRes (AddOk st sg sl e) ->
  exists u, signer = Some u /\ sg = sig /\ st = w_height t /\
            taken_on sc t (fst (run le t0 (pre ++ [(OAdd signer loc b delay sig, sc)]))) u loc b delay sig.
Proof. exact (receipt_only_if_taken_on_run le c h0 blocks t0 h pre signer loc b delay sig sc post st sg sl e). Qed.

(* ONE STEP: an untriggered row stays byte-identical, and untriggered, through every step that is not a block
   carrying its locator, a block purging its owner, or an accepted add_appointment of its owner for it *)
Theorem C08_stored_row_step le t o sc t' x uuid a :
  Inv t -> step le t o sc = (t', x) -> not_abort x ->
  find_app (db_apps t) uuid = Some a -> find_trk (db_trks t) uuid = None ->
  app_may_end t o x uuid = false ->
  find_app (db_apps t') uuid = Some a /\ find_trk (db_trks t') uuid = None.
Proof. exact (stored_row_step le t o sc t' x uuid a). Qed.

Theorem C08_app_may_end_eq t o x uuid :
  app_may_end t o x uuid =
  match o, x with
  | OConnect _ txs, _ =>
      memN (fst uuid) txs ||
      match aget (db_users t) (snd uuid) with
      | Some ui => N.leb (u_expiry ui + c_delta (cfg t)) (gk_height t + 1)
      | None => true
      end
  | OAdd (Some u) loc _ _ _, OAddRes (AddOk _ _ _ _) => uuid_eqb (loc, u) uuid
  | _, _ => false
  end.
Proof. reflexivity. Qed.

(* "reading an accepted appointment back returns byte-for-byte the version last accepted", along any run:
   after an AddOk for (loc, u) that left the row stored untriggered, along every continuation `mid` in which no
   step may trigger, replace or purge it, the row is exactly the accepted version (start block = the tower's
   height at acceptance) and EVERY get_appointment of its owner on the way returns exactly (loc, b, delay) -
   for every blob and delay, across block events and reorgs - or, once the owner's subscription has expired,
   the subscription-expired error of C09. *)
Theorem C08_read_back_run le c h0 blocks t0 h pre u loc b delay sig sc mid post st sg sl e :
  init c h0 blocks = Some t0 -> NoDup (map fst blocks) -> N.of_nat (length blocks) <= h0 ->
  in_envelope le t0 h = true -> chain_disciplined le t0 h = true ->
  h = (pre ++ [(OAdd (Some u) loc b delay sig, sc)]) ++ mid ++ post ->
  snd (step le (fst (run le t0 pre)) (OAdd (Some u) loc b delay sig) sc) = OAddRes (AddOk st sg sl e) ->
  let pre' := pre ++ [(OAdd (Some u) loc b delay sig, sc)] in
  find_app (db_apps (fst (run le t0 pre'))) (loc, u) <> None ->
  find_trk (db_trks (fst (run le t0 pre'))) (loc, u) = None ->
  (forall m1 o sc' m2, mid = m1 ++ (o, sc') :: m2 ->
     app_may_end (fst (run le t0 (pre' ++ m1))) o (snd (step le (fst (run le t0 (pre' ++ m1))) o sc')) (loc, u) = false) ->
  let a := mk_app loc u b delay sig (w_height (fst (run le t0 pre))) in
  (find_app (db_apps (fst (run le t0 (pre' ++ mid)))) (loc, u) = Some a /\
   find_trk (db_trks (fst (run le t0 (pre' ++ mid)))) (loc, u) = None) /\
  (forall m1 sc' m2, mid = m1 ++ (OGet (Some u) loc, sc') :: m2 ->
     let t := fst (run le t0 (pre' ++ m1)) in
     exists ui, gk_get t u = Some ui /\
       snd (step le t (OGet (Some u) loc) sc') =
       OGetRes (if N.leb (u_expiry ui) (gk_height t) then GetExpired (u_expiry ui) else GetApp loc b delay)).
Proof. exact (read_back_run le c h0 blocks t0 h pre u loc b delay sig sc mid post st sg sl e). Qed.

Theorem C08_never_may_end_cuts le mid t uuid :
  Forall not_abort (snd (run le t mid)) -> never_may_end le t mid uuid = true ->
  forall m1 o sc m2, mid = m1 ++ (o, sc) :: m2 ->
    app_may_end (fst (run le t m1)) o (snd (step le (fst (run le t m1)) o sc)) uuid = false.
Proof. exact (never_may_end_cuts le mid t uuid). Qed.

(* "binds", at byte level (Wire.v: the `to_vec` layouts generated from teos-common/src/receipts.rs): the signed
   bytes of an appointment receipt determine (user_signature, start_block), those of a registration receipt
   determine (user_id, available_slots, subscription_start, subscription_expiry): two receipts with the same
   signed bytes are receipts for the same fields (corollary of C16_signed_layout_injective) *)
Theorem C08_receipt_bytes_bind_fields :
  (forall s b s' b',
      b < 4294967296 -> b' < 4294967296 ->
      WireApi.w_appointment_receipt_to_vec s b = WireApi.w_appointment_receipt_to_vec s' b' -> s = s' /\ b = b') /\
  (forall u a s e u' a' s' e',
      length u = 33%nat -> length u' = 33%nat ->
      a < 4294967296 -> s < 4294967296 -> e < 4294967296 -> a' < 4294967296 -> s' < 4294967296 -> e' < 4294967296 ->
      WireApi.w_registration_receipt_to_vec u a s e = WireApi.w_registration_receipt_to_vec u' a' s' e' ->
      u = u' /\ a = a' /\ s = s' /\ e = e') /\
  (* and the layouts are the documented ones *)
  (forall s b, WireApi.w_appointment_receipt_to_vec s b = s ++ Wire.w_be32 b) /\
  (forall u a s e, WireApi.w_registration_receipt_to_vec u a s e = u ++ Wire.w_be32 a ++ Wire.w_be32 s ++ Wire.w_be32 e).
Proof.
  split; [exact WireApiProofs.appointment_receipt_to_vec_inj|]. split; [exact WireApiProofs.registration_receipt_to_vec_inj|].
  split; [exact WireApiProofs.appointment_receipt_to_vec_eq|exact WireApiProofs.registration_receipt_to_vec_eq].
Qed.

Print Assumptions C08_receipt_only_if_taken_on.
Print Assumptions C08_taken_on_eq.
Print Assumptions C08_receipt_only_if_taken_on_run.
Print Assumptions C08_stored_row_step.
Print Assumptions C08_app_may_end_eq.
Print Assumptions C08_read_back_run.
Print Assumptions C08_never_may_end_cuts.
Print Assumptions C08_receipt_bytes_bind_fields.

(* ---------- non-vacuity: a concrete history ---------- *)
Definition C08_ex_c0 := mk_config 10 1000 6.
Definition C08_ex_blocks0 : list (N * list N) := [(1006,[]);(1005,[]);(1004,[]);(1003,[]);(1002,[]);(1001,[])].
Definition C08_ex_dummy := mk_tower C08_ex_c0 [] 0 [] [] [] 0 (mk_txindex [] [] [] 0 0) (mk_txindex [] [] [] 0 0) 0 [] [] [].
Definition C08_ex_t0 := match init C08_ex_c0 200 C08_ex_blocks0 with Some t => t | None => C08_ex_dummy end.
Definition C08_ex_v1 := mk_blob 500 (Some 900) 100.
Definition C08_ex_v2 := mk_blob 500 (Some 901) 5000.      (* the update: another penalty, three slots *)
Definition C08_ex_pre : list (op * script) := [(ORegister 1, []); (ORegister 2, []); (OAdd (Some 1) 500 C08_ex_v1 20 77, [])].
Definition C08_ex_add2 : op * script := (OAdd (Some 1) 500 C08_ex_v2 21 78, []).
(* reads interleaved with blocks that do not carry the locator, another user's appointment on the same locator,
   a reorg (height going backwards) *)
Definition C08_ex_mid : list (op * script) :=
  [(OGet (Some 1) 500, []); (OConnect 2001 [7], []); (OAdd (Some 2) 500 C08_ex_v1 20 79, []); (OGet (Some 1) 500, []);
   (OConnect 2002 [], []); (ODisconnect, []); (ODisconnect, []); (OGet (Some 1) 500, [])].
Definition C08_ex_post : list (op * script) := [(OConnect 2003 [500], []); (OGet (Some 1) 500, [])].
Definition C08_ex_hist := (C08_ex_pre ++ [C08_ex_add2]) ++ C08_ex_mid ++ C08_ex_post.

Lemma C08_ex_blocks0_nodup : NoDup (map fst C08_ex_blocks0).
Proof. repeat (constructor; [cbn; intuition discriminate|]). constructor. Qed.

Example C08_ex_hyps :
  init C08_ex_c0 200 C08_ex_blocks0 = Some C08_ex_t0 /\ N.of_nat (length C08_ex_blocks0) <= 200 /\
  in_envelope true C08_ex_t0 C08_ex_hist = true /\ chain_disciplined true C08_ex_t0 C08_ex_hist = true.
Proof. repeat split; vm_compute; try reflexivity. discriminate. Qed.

(* the premises of C08_read_back_run hold for the update (the second accepted version) ... *)
Example C08_ex_read_back_premises :
  let pre' := C08_ex_pre ++ [C08_ex_add2] in
  snd (step true (fst (run true C08_ex_t0 C08_ex_pre)) (fst C08_ex_add2) (snd C08_ex_add2)) = OAddRes (AddOk 200 78 7 1200) /\
  find_app (db_apps (fst (run true C08_ex_t0 pre'))) (500, 1) <> None /\
  find_trk (db_trks (fst (run true C08_ex_t0 pre'))) (500, 1) = None /\
  never_may_end true (fst (run true C08_ex_t0 pre')) C08_ex_mid (500, 1) = true /\
  Forall not_abort (snd (run true (fst (run true C08_ex_t0 pre')) C08_ex_mid)).
Proof. vm_compute. repeat split; try reflexivity; try discriminate. repeat constructor. Qed.

(* ... and its conclusion, computed: the three reads on the way return exactly the last accepted version *)
Example C08_ex_read_back_computed :
  let pre' := C08_ex_pre ++ [C08_ex_add2] in
  map (fun i => snd (step true (fst (run true C08_ex_t0 (pre' ++ firstn i C08_ex_mid))) (OGet (Some 1) 500) [])) [0; 3; 7]%nat
  = [OGetRes (GetApp 500 C08_ex_v2 21); OGetRes (GetApp 500 C08_ex_v2 21); OGetRes (GetApp 500 C08_ex_v2 21)] /\
  (* the block carrying the locator is a step that may end it: here it triggers it *)
  app_may_end (fst (run true C08_ex_t0 (pre' ++ C08_ex_mid))) (OConnect 2003 [500]) OBlockRes (500, 1) = true /\
  snd (step true (fst (run true C08_ex_t0 (pre' ++ C08_ex_mid ++ [(OConnect 2003 [500], [])]))) (OGet (Some 1) 500) [])
  = OGetRes (GetTrk 500 901).
Proof. vm_compute. repeat split; reflexivity. Qed.

(* receipt_only_if_taken_on, third case: a late appointment whose blob does not decrypt gets a receipt and is dropped *)
Example C08_ex_receipt_for_dropped :
  let t := fst (run true C08_ex_t0 [(ORegister 1, []); (OConnect 2001 [500], [])]) in
  let '(t', x) := step true t (OAdd (Some 1) 500 (mk_blob 501 (Some 900) 100) 20 77) [] in
  x = OAddRes (AddOk 201 77 9 1200) /\ ti_get (w_cache t) 500 = Some 500 /\
  decrypt (mk_blob 501 (Some 900) 100) 500 = None /\ find_app (db_apps t') (500, 1) = None.
Proof. vm_compute. repeat split; reflexivity. Qed.
