(* C09 — expiry and purge heights ACROSS A RESTART.  Statements only (proofs: CrashReach.v).
   The sequential histories of C09.v have no restart operation.  A restart (Gatekeeper::new) loads exactly the users
   table - slots, start and expiry of every user - and keeps the height, so the first block after it purges exactly
   what the uninterrupted tower purges: same users kept with the same windows, same appointments and trackers kept.
   The tie of `restart` to the code is the crash harness, whose expiry / purge histories C09's check reads. *)
From TeosModel Require Import Base TxIndex Tower TowerStable TowerInv Crash CrashOps CrashOpsProofs CrashReach.
Local Open Scope N_scope.

Theorem C09_restart_loads_every_window t d : gk_users (restart t d) = d_users d /\ db_of (restart t d) = d.
Proof. exact (restart_loads_users t d). Qed.

Theorem C09_purge_after_clean_restart t h t' t'' :
  Inv t -> gk_block_connected t h = Ok tt t' -> gk_block_connected (restart t (db_of t)) h = Ok tt t'' ->
  (forall u, aget (db_users t'') u = aget (db_users t') u) /\
  (forall a, In a (db_apps t'') <-> In a (db_apps t')) /\
  (forall k, In k (db_trks t'') <-> In k (db_trks t')) /\
  gk_height t'' = gk_height t'.
Proof. exact (purge_after_clean_restart t h t' t''). Qed.

(* ... and the restarted tower does reach that purge: no abort the stored table does not already imply *)
Theorem C09_restart_purge_defined t h :
  outdated_users (c_delta (cfg t)) h (db_users t) <> None ->
  exists t'', gk_block_connected (restart t (db_of t)) h = Ok tt t''.
Proof. exact (restart_purge_defined t h). Qed.

(* in every state of a history with kills and restarts (CrashReach.rreach) the purge at a block removes exactly the
   users at expiry + grace and touches no other window *)
Theorem C09_purge_exact_across_restarts le t h t' :
  rreach le t -> gk_block_connected t h = Ok tt t' ->
  (forall u, aget (db_users t') u =
             match aget (db_users t) u with
             | Some ui => if N.leb (u_expiry ui + c_delta (cfg t)) h then None else Some ui
             | None => None
             end) /\ gk_height t' = h.
Proof. exact (rreach_purge_exact le t h t'). Qed.

Print Assumptions C09_purge_exact_across_restarts.
Print Assumptions C09_restart_loads_every_window.
Print Assumptions C09_purge_after_clean_restart.
Print Assumptions C09_restart_purge_defined.
