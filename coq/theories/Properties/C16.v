(* C16 — client and tower agree on every byte of the wire format.
   Statements only (proofs: WireProofs.v, WireApiProofs.v).  Everything is stated over the tables
   regenerated from /repo on every run (Gen/WireSpec.W_v: the serde attributes of teos-common/build.rs
   applied to the proto messages, the AppointmentStatus tables, the three to_vec layouts, the
   router's endpoints and caps, both ApiError structs, how the client decodes each reply).

   Level: JSON *values*.  Text <-> value (serde_json's parser on both sides), HTTP framing and the
   gRPC hop behind the router are library behaviour, exercised by the correspondence run. *)
From TeosModel Require Import Base Wire WireProofs WireApi WireApiProofs.
From TeosModel.Gen Require Consts WireSpec.
From Coq Require Import String.
Local Notation length := List.length.

Local Open Scope N_scope.

(* ---------- requests: what the tower's HTTP API parses is what the client serialised ---------- *)

(* For each of the four endpoints and EVERY value a request of that shape can hold (all field
   lengths including empty, all u32 values, arbitrary blob bytes and signature strings). *)
Theorem C16_tower_parses_client (e : w_endpoint_spec) (req : w_mval) :
  In e WireSpec.W_ENDPOINTS -> w_typedb (w_ep_req e) req = true ->
  w_of_json_tower e (w_to_json_client e req) = Some req.
Proof. exact (tower_parses_client e req). Qed.

(* ... and, when the body is within the endpoint's cap and the handler's field checks pass, the
   router hands exactly that value to the internal API. *)
Theorem C16_tower_forwards_client (e : w_endpoint_spec) (req : w_mval) (len : Z) :
  In e WireSpec.W_ENDPOINTS -> w_typedb (w_ep_req e) req = true -> w_handler_check e req = None -> (len <= w_ep_cap e)%Z ->
  w_tower_http e len (Some (w_to_json_client e req)) = WTForward req.
Proof. exact (tower_forwards_client e req len). Qed.

(* The same, field by field, for the requests the client can build: a user id is a 33-byte
   compressed key, a locator 16 bytes, an encrypted blob and a signature are never empty. *)
Theorem C16_tower_parses_register user_id :
  w_wf_bytesb user_id = true -> length user_id = 33%nat ->
  w_of_json_tower WireSpec.W_EP_register (w_to_json_client WireSpec.W_EP_register (w_mk_register_request user_id))
    = Some (w_mk_register_request user_id)
  /\ w_handler_check WireSpec.W_EP_register (w_mk_register_request user_id) = None.
Proof.
  intros W L. split; [|exact (handler_ok_register user_id L)].
  apply C16_tower_parses_client; [simpl; auto | unfold w_typedb; simpl; rewrite W; reflexivity].
Qed.

Theorem C16_tower_parses_add_appointment locator y blob to_self_delay c signature :
  w_wf_bytesb locator = true -> length locator = 16%nat -> w_wf_bytesb (y :: blob) = true -> WU32b to_self_delay = true ->
  w_of_json_tower WireSpec.W_EP_add_appointment
      (w_to_json_client WireSpec.W_EP_add_appointment (w_mk_add_appointment_request locator (y :: blob) to_self_delay (c :: signature)))
    = Some (w_mk_add_appointment_request locator (y :: blob) to_self_delay (c :: signature))
  /\ w_handler_check WireSpec.W_EP_add_appointment (w_mk_add_appointment_request locator (y :: blob) to_self_delay (c :: signature)) = None.
Proof.
  intros W L Wb U. split; [|exact (handler_ok_add_appointment locator y blob to_self_delay c signature L)].
  apply C16_tower_parses_client; [simpl; auto | unfold w_typedb; cbn [w_typed_msgb]; simpl in *; rewrite W, U; simpl in Wb; rewrite Wb; reflexivity].
Qed.

Theorem C16_tower_parses_get_appointment locator c signature :
  w_wf_bytesb locator = true -> length locator = 16%nat ->
  w_of_json_tower WireSpec.W_EP_get_appointment (w_to_json_client WireSpec.W_EP_get_appointment (w_mk_get_appointment_request locator (c :: signature)))
    = Some (w_mk_get_appointment_request locator (c :: signature))
  /\ w_handler_check WireSpec.W_EP_get_appointment (w_mk_get_appointment_request locator (c :: signature)) = None.
Proof.
  intros W L. split; [|exact (handler_ok_get_appointment locator c signature L)].
  apply C16_tower_parses_client; [simpl; auto | unfold w_typedb; simpl; rewrite W; reflexivity].
Qed.

Theorem C16_tower_parses_get_subscription_info c signature :
  w_of_json_tower WireSpec.W_EP_get_subscription_info
      (w_to_json_client WireSpec.W_EP_get_subscription_info (w_mk_get_subscription_info_request (c :: signature)))
    = Some (w_mk_get_subscription_info_request (c :: signature))
  /\ w_handler_check WireSpec.W_EP_get_subscription_info (w_mk_get_subscription_info_request (c :: signature)) = None.
Proof.
  split; [|exact (handler_ok_get_subscription_info c signature)].
  apply C16_tower_parses_client; [simpl; auto | reflexivity].
Qed.

(* ---------- replies: what the client parses is what the tower produced ---------- *)

(* Every success reply of every endpoint, whether the client decodes it as ApiResponse<T> or as T. *)
Theorem C16_client_parses_tower (e : w_endpoint_spec) (r : w_mval) :
  In e WireSpec.W_ENDPOINTS -> w_typedb (w_ep_resp e) r = true ->
  w_of_json_client e (w_to_json_tower e r) = WCResponse r.
Proof. exact (client_parses_tower_response e r). Qed.

(* Every error object, on the endpoints whose reply the client decodes as ApiResponse<T> | ApiError:
   the untagged choice never takes one for the other (every reply type has a required key the
   error object lacks, and the success type is tried first). *)
Theorem C16_client_parses_tower_error (e : w_endpoint_spec) (err : w_mval) :
  In e WireSpec.W_ENDPOINTS -> w_ep_client_wrapped e = true -> w_typedb WireSpec.W_TowerApiError err = true ->
  w_of_json_client e (w_to_json_err err) = WCError err.
Proof. exact (client_parses_tower_error e err). Qed.

(* Where the client decodes a reply straight into the success type (no ApiResponse<T>), EVERY error
   object of the tower becomes RequestError::DeserializeError — no wrong value, but the tower's error
   code and message are lost.  This was the case of register and get_subscription_info until the fix
   c67cb11; the flag is regenerated from the plugin's source, so on the repaired tree no endpoint
   satisfies the hypothesis (Example C16_client_reply_types_now) and C16_client_parses_tower_error
   covers all four. *)
Theorem C16_error_reply_undecoded_register_getsub (e : w_endpoint_spec) (err : w_mval) :
  In e WireSpec.W_ENDPOINTS -> w_ep_client_wrapped e = false -> w_typedb WireSpec.W_TowerApiError err = true ->
  w_of_json_client e (w_to_json_err err) = WCDeserializeError.
Proof. exact (client_loses_tower_error e err). Qed.

(* ---------- serialise ; parse is the identity, for every message type ---------- *)
Theorem C16_reser_identity (name : w_str) (m : w_msg) (v : w_mval) :
  In (name, m) WireSpec.W_MESSAGES \/ m = WireSpec.W_TowerApiError \/ m = WireSpec.W_ClientApiError ->
  w_typedb m v = true -> w_of_json m (w_to_json m v) = Some v.
Proof. exact (reser_identity name m v). Qed.

(* ... and whatever parses (from ANY JSON value: unknown keys, either-case hex, array form, ...)
   is a value of the message type, on which serialise ; parse is again the identity. *)
Theorem C16_reser_stable (name : w_str) (m : w_msg) (j : w_json) (v : w_mval) :
  In (name, m) WireSpec.W_MESSAGES \/ m = WireSpec.W_TowerApiError \/ m = WireSpec.W_ClientApiError ->
  w_of_json m j = Some v -> w_typedb m v = true /\ w_of_json m (w_to_json m v) = Some v.
Proof. exact (reser_stable_api name m j v). Qed.

(* ---------- hex, byte-reversed hex ---------- *)
Theorem C16_hex_roundtrip (b : w_bytes) :
  w_wf_bytesb b = true ->
  w_hex_decode (w_hex_encode b) = Some b /\                       (* parse what was emitted *)
  w_hex_decode (map w_to_upper (w_hex_encode b)) = Some b /\        (* upper case means the same *)
  w_is_lower_hexb (w_hex_encode b) = true /\                      (* what is emitted is lower case *)
  length (w_hex_encode b) = (2 * length b)%nat.
Proof.
  intros W. repeat split.
  - exact (hex_roundtrip b W).
  - rewrite hex_decode_upper. exact (hex_roundtrip b W).
  - exact (hex_encode_lower b W).
  - exact (hex_encode_length b).
Qed.

(* decoding accepts exactly: even length, hex digits of either case; and a byte string has exactly
   one lower-case spelling *)
Theorem C16_hex_decode_sound (s : w_str) (b : w_bytes) :
  w_hex_decode s = Some b ->
  w_wf_bytesb b = true /\ length s = (2 * length b)%nat /\ (w_is_lower_hexb s = true -> w_hex_encode b = s).
Proof.
  intros H. destruct (hex_decode_wf s b H) as [W L]. repeat split; auto.
  exact (hex_decode_lower_canonical s b H).
Qed.

Theorem C16_behex_roundtrip (b : w_bytes) :
  w_wf_bytesb b = true ->
  w_behex_decode (w_behex_encode b) = Some b /\ w_behex_encode b = w_hex_encode (rev b).
Proof. intros W. split; [exact (behex_roundtrip b W) | reflexivity]. Qed.

(* ---------- status names ---------- *)
(* emit and parse are mutually inverse between the three discriminants and the three documented
   names; no other name is accepted; an i32 outside the enum is EMITTED as one of the three names
   (serde_status goes through AppointmentStatus::from, whose wildcard arm is NotFound). *)
Theorem C16_status_names_bijective :
  (forall n s, In (n, s) WDoc_STATUS_NAMES -> w_status_emit WireSpec.W_STATUS n = s /\ w_status_parse WireSpec.W_STATUS s = Some n) /\
  (forall s n, w_status_parse WireSpec.W_STATUS s = Some n -> In (n, s) WDoc_STATUS_NAMES) /\
  NoDup (map fst WDoc_STATUS_NAMES) /\ NoDup (map snd WDoc_STATUS_NAMES) /\
  (forall n, In (w_status_emit WireSpec.W_STATUS n) (map snd WDoc_STATUS_NAMES)) /\
  WireSpec.W_STATUS_PROTO = w_st_variants WireSpec.W_STATUS.
Proof.
  split; [exact status_doc_graph|]. split; [exact status_parse_only_doc|].
  split; [|split; [|split; [exact status_emit_total | reflexivity]]].
  - simpl. repeat constructor; simpl; intuition discriminate.
  - simpl. repeat constructor; simpl; intuition discriminate.
Qed.

(* ---------- the byte strings that get signed determine their fields ---------- *)
Theorem C16_signed_layout_injective :
  (* Appointment::to_vec = locator(16) || encrypted_blob || to_self_delay(4, BE) *)
  (forall l b t l' b' t',
      length l = 16%nat -> length l' = 16%nat -> t < 4294967296 -> t' < 4294967296 ->
      w_appointment_to_vec l b t = w_appointment_to_vec l' b' t' -> l = l' /\ b = b' /\ t = t') /\
  (* RegistrationReceipt::to_vec = user_id(33) || available_slots(4) || subscription_start(4) || subscription_expiry(4) *)
  (forall u a s e u' a' s' e',
      length u = 33%nat -> length u' = 33%nat ->
      a < 4294967296 -> s < 4294967296 -> e < 4294967296 -> a' < 4294967296 -> s' < 4294967296 -> e' < 4294967296 ->
      w_registration_receipt_to_vec u a s e = w_registration_receipt_to_vec u' a' s' e' ->
      u = u' /\ a = a' /\ s = s' /\ e = e') /\
  (* AppointmentReceipt::to_vec = user_signature || start_block(4, BE) *)
  (forall s b s' b',
      b < 4294967296 -> b' < 4294967296 ->
      w_appointment_receipt_to_vec s b = w_appointment_receipt_to_vec s' b' -> s = s' /\ b = b').
Proof.
  split; [exact appointment_to_vec_inj|]. split; [exact registration_receipt_to_vec_inj | exact appointment_receipt_to_vec_inj].
Qed.

(* what the three layouts are *)
Theorem C16_signed_layouts :
  (forall l b t, w_appointment_to_vec l b t = l ++ b ++ w_be32 t) /\
  (forall u a s e, w_registration_receipt_to_vec u a s e = u ++ w_be32 a ++ w_be32 s ++ w_be32 e) /\
  (forall s b, w_appointment_receipt_to_vec s b = s ++ w_be32 b) /\
  (forall n, n < 4294967296 -> w_be32_decode (w_be32 n) = Some n).
Proof.
  split; [exact appointment_to_vec_eq|]. split; [exact registration_receipt_to_vec_eq|].
  split; [exact appointment_receipt_to_vec_eq | exact be32_roundtrip].
Qed.

(* generic form: any layout with at most one variable-width field is injective *)
Theorem C16_layout_injective_generic (l : w_layout) (vs ws : list w_lval) :
  w_layout_unambiguousb l = true -> w_layout_okb l vs = true -> w_layout_okb l ws = true ->
  w_layout_encode l vs = w_layout_encode l ws -> vs = ws.
Proof. exact (layout_injective l vs ws). Qed.

(* the request-signing messages: client and tower build the same bytes, and "get appointment <hex>"
   determines the locator *)
Theorem C16_request_signing_messages :
  (forall l, w_get_appointment_msg_client l = w_get_appointment_msg_tower l) /\
  WireSpec.W_GET_SUBSCRIPTION_INFO_MSG_CLIENT = WireSpec.W_GET_SUBSCRIPTION_INFO_MSG_TOWER /\
  (forall a b, w_wf_bytesb a = true -> w_wf_bytesb b = true ->
               w_get_appointment_msg_tower a = w_get_appointment_msg_tower b -> a = b).
Proof.
  split; [reflexivity|]. split; [reflexivity|].
  intros a b. exact (sign_msg_get_appointment_inj WireSpec.W_GET_APPOINTMENT_PREFIX_TOWER a b).
Qed.

(* ---------- the request-size limit ---------- *)
(* Counted: the bytes of the request BODY (= Content-Length, what warp's content_length_limit looks
   at), i.e. serde_json's compact print of the request; not the HTTP headers.
   With a 16-byte locator and a signature as cryptography::sign produces it (104 zbase32 characters)
   the add_appointment body is 218 + digits(to_self_delay) + 2*|blob| bytes; it is accepted iff that
   is <= the generated cap (2048): every blob up to 910 bytes fits whatever the delay, no blob of
   915 bytes or more does (914 fits iff the delay has at most 2 digits, ...). *)
Theorem C16_within_limit l b t s :
  length l = 16%nat -> real_signature s -> WU32b t = true ->
  add_appointment_len l b t s = (218 + ndigits t + 2 * length b)%nat /\
  ((Z.of_nat (add_appointment_len l b t s) <= w_ep_cap WireSpec.W_EP_add_appointment)%Z <-> (2 * length b + ndigits t <= 1830)%nat) /\
  ((length b <= 910)%nat -> (Z.of_nat (add_appointment_len l b t s) <= w_ep_cap WireSpec.W_EP_add_appointment)%Z) /\
  ((915 <= length b)%nat -> (w_ep_cap WireSpec.W_EP_add_appointment < Z.of_nat (add_appointment_len l b t s))%Z).
Proof. exact (within_limit l b t s). Qed.

(* for any signature string: 82 + 2*|locator| + 2*|blob| + digits + |escaped signature| *)
Theorem C16_add_appointment_body_len l b t s :
  length (w_client_body WireSpec.W_EP_add_appointment (w_mk_add_appointment_request l b t s))
  = (82 + 2 * length l + 2 * length b + ndigits t + esc_len s)%nat.
Proof. exact (add_appointment_body_len l b t s). Qed.

(* the other three requests have a fixed size below their caps *)
Theorem C16_fixed_requests_fit u l s :
  length u = 33%nat -> length l = 16%nat -> real_signature s ->
  length (w_client_body WireSpec.W_EP_register (w_mk_register_request u)) = 80%nat /\
  length (w_client_body WireSpec.W_EP_get_appointment (w_mk_get_appointment_request l s)) = 165%nat /\
  length (w_client_body WireSpec.W_EP_get_subscription_info (w_mk_get_subscription_info_request s)) = 120%nat /\
  (80 <= w_ep_cap WireSpec.W_EP_register /\ 165 <= w_ep_cap WireSpec.W_EP_get_appointment /\ 120 <= w_ep_cap WireSpec.W_EP_get_subscription_info)%Z.
Proof. exact (fixed_requests_fit u l s). Qed.

(* ---------- the format the code implements is the documented one ---------- *)
Theorem C16_format_as_documented :
  map w_doc_endpoint WireSpec.W_ENDPOINTS = WDoc_ENDPOINTS /\
  WireSpec.W_TowerApiError = WDoc_ApiError /\ WireSpec.W_ClientApiError = WDoc_ApiError /\
  WireSpec.W_API_RESPONSE_ORDER = [WAVResponse; WAVError] /\
  WireSpec.W_APPOINTMENT_TO_VEC = WDoc_APPOINTMENT_TO_VEC /\
  WireSpec.W_REGISTRATION_RECEIPT_TO_VEC = WDoc_REGISTRATION_RECEIPT_TO_VEC /\
  WireSpec.W_APPOINTMENT_RECEIPT_TO_VEC = WDoc_APPOINTMENT_RECEIPT_TO_VEC /\
  (w_ep_cap WireSpec.W_EP_register = Consts.REGISTER_BODY_LEN /\ w_ep_cap WireSpec.W_EP_add_appointment = Consts.ADD_APPOINTMENT_BODY_LEN /\
   w_ep_cap WireSpec.W_EP_get_appointment = Consts.GET_APPOINTMENT_BODY_LEN /\
   w_ep_cap WireSpec.W_EP_get_subscription_info = Consts.GET_SUBSCRIPTION_INFO_BODY_LEN).
Proof. repeat split; reflexivity. Qed.

Definition ex_err : w_mval := w_mk_api_error (w_s2b "Subscription maximum slots count reached") 65.

(* how the client decodes each reply on this tree (generated from the plugin's source) *)
Example C16_client_reply_types_now :
  map (fun e => (w_ep_path e, w_ep_client_wrapped e)) WireSpec.W_ENDPOINTS =
  [(w_s2b "/register", true); (w_s2b "/add_appointment", true); (w_s2b "/get_appointment", true);
   (w_s2b "/get_subscription_info", true)].
Proof. reflexivity. Qed.

(* ====================== non-vacuity and worked values (kernel computations) ====================== *)
Definition ex_user_id : w_bytes := 2 :: map N.of_nat (seq 1 32).
Definition ex_locator : w_bytes := map N.of_nat (seq 240 16).
Definition ex_txid : w_bytes := 1 :: map N.of_nat (seq 100 30) ++ [255].
Definition ex_sig : w_str := w_s2b "d7x\z""".      (* contains a backslash and a double quote *)

(* the literal bytes the client posts *)
Example C16_ex_register_text :
  w_client_body WireSpec.W_EP_register (w_mk_register_request ex_user_id)
  = w_s2b "{""user_id"":""020102030405060708090a0b0c0d0e0f101112131415161718191a1b1c1d1e1f20""}".
Proof. vm_compute. reflexivity. Qed.

Example C16_ex_add_appointment_text :
  w_client_body WireSpec.W_EP_add_appointment (w_mk_add_appointment_request ex_locator [0; 255; 16] 4294967295 ex_sig)
  = w_s2b "{""appointment"":{""locator"":""f0f1f2f3f4f5f6f7f8f9fafbfcfdfeff"",""encrypted_blob"":""00ff10"",""to_self_delay"":4294967295},""signature"":""d7x\\z\""""}".
Proof. vm_compute. reflexivity. Qed.

Example C16_ex_request_roundtrips :
  w_typedb (w_ep_req WireSpec.W_EP_add_appointment) (w_mk_add_appointment_request ex_locator [7] 0 ex_sig) = true /\
  w_tower_http WireSpec.W_EP_add_appointment 2048 (Some (w_to_json_client WireSpec.W_EP_add_appointment (w_mk_add_appointment_request ex_locator [7] 0 ex_sig)))
  = WTForward (w_mk_add_appointment_request ex_locator [7] 0 ex_sig) /\
  (* an empty blob, a 15-byte locator, an empty signature are parsed faithfully and then refused by the handler *)
  w_tower_http WireSpec.W_EP_add_appointment 2048 (Some (w_to_json_client WireSpec.W_EP_add_appointment (w_mk_add_appointment_request ex_locator [] 0 ex_sig)))
  = WTReject Consts.ERR_EMPTY_FIELD /\
  w_tower_http WireSpec.W_EP_add_appointment 2048 (Some (w_to_json_client WireSpec.W_EP_add_appointment (w_mk_add_appointment_request (tl ex_locator) [7] 0 ex_sig)))
  = WTReject Consts.ERR_WRONG_FIELD_SIZE /\
  w_tower_http WireSpec.W_EP_add_appointment 2048 (Some (w_to_json_client WireSpec.W_EP_add_appointment (w_mk_add_appointment_request ex_locator [7] 0 [])))
  = WTReject Consts.ERR_EMPTY_FIELD /\
  w_tower_http WireSpec.W_EP_add_appointment 2049 (Some (w_to_json_client WireSpec.W_EP_add_appointment (w_mk_add_appointment_request ex_locator [7] 0 ex_sig)))
  = WTTooLarge.
Proof. vm_compute. repeat split; reflexivity. Qed.

(* txids travel byte-reversed: first byte 0x01 comes last, last byte 0xff first *)
Example C16_ex_tracker_reply :
  w_to_json_tower WireSpec.W_EP_get_appointment (w_mk_get_appointment_response (w_data_tracker (w_mk_tracker ex_txid [7] [1; 2])) 2)
  = JObj [(w_s2b "appointment",
           JObj [(w_s2b "dispute_txid", JStr (w_s2b "ff81807f7e7d7c7b7a797877767574737271706f6e6d6c6b6a6968676665" ++ w_s2b "6401"));
                 (w_s2b "penalty_txid", JStr (w_s2b "07")); (w_s2b "penalty_rawtx", JStr (w_s2b "0102"))]);
          (w_s2b "status", JStr (w_s2b "dispute_responded"))].
Proof. vm_compute. reflexivity. Qed.

Example C16_ex_replies_decoded :
  let r1 := w_mk_get_appointment_response (w_data_tracker (w_mk_tracker ex_txid ex_txid [])) 2 in
  let r2 := w_mk_get_appointment_response (w_data_appointment (w_mk_appointment ex_locator [1] 7)) 1 in
  let r3 := w_mk_get_appointment_response WVNone 0 in
  let r4 := w_mk_get_appointment_response (WVSome WMVOneofNone) 0 in
  map (fun r => w_typedb (w_ep_resp WireSpec.W_EP_get_appointment) r) [r1; r2; r3; r4] = [true; true; true; true] /\
  map (fun r => w_of_json_client WireSpec.W_EP_get_appointment (w_to_json_tower WireSpec.W_EP_get_appointment r)) [r1; r2; r3; r4]
  = map WCResponse [r1; r2; r3; r4] /\
  w_of_json_client WireSpec.W_EP_get_appointment (w_to_json_err ex_err) = WCError ex_err /\
  w_of_json_client WireSpec.W_EP_add_appointment (w_to_json_err ex_err) = WCError ex_err /\
  w_of_json_client WireSpec.W_EP_register (w_to_json_err ex_err) = WCError ex_err /\
  w_of_json_client WireSpec.W_EP_get_subscription_info (w_to_json_err ex_err) = WCError ex_err /\
  (* decoding such a reply straight into the success type (what register / get_subscription_info did before c67cb11) *)
  w_client_decode WireSpec.W_STATUS false WireSpec.W_API_RESPONSE_ORDER WireSpec.W_RegisterResponse WireSpec.W_ClientApiError (w_to_json_err ex_err)
  = WCDeserializeError.
Proof. vm_compute. repeat split; reflexivity. Qed.

(* what the derived parsers do with input the other side never emits *)
Example C16_ex_parser_corner_cases :
  let reg := w_ep_req WireSpec.W_EP_register in
  let hexid := w_hex_encode ex_user_id in
  (* unknown keys are ignored; upper-case hex is accepted; the positional (array) form is accepted *)
  w_of_json reg (JObj [(w_s2b "x", JNull); (w_s2b "user_id", JStr (map w_to_upper hexid))]) = Some (w_mk_register_request ex_user_id) /\
  w_of_json reg (JArr [JStr hexid]) = Some (w_mk_register_request ex_user_id) /\
  (* a repeated key, an odd number of digits, a non-hex digit, a missing key, a wrong type are errors *)
  w_of_json reg (JObj [(w_s2b "user_id", JStr hexid); (w_s2b "user_id", JStr hexid)]) = None /\
  w_of_json reg (JObj [(w_s2b "user_id", JStr (w_s2b "abc"))]) = None /\
  w_of_json reg (JObj [(w_s2b "user_id", JStr (w_s2b "zz"))]) = None /\
  w_of_json reg (JObj []) = None /\
  w_of_json reg (JObj [(w_s2b "user_id", JNum 5)]) = None /\
  (* Option<Appointment>: absent and null are None *)
  w_of_json (w_ep_req WireSpec.W_EP_add_appointment) (JObj [(w_s2b "signature", JStr [65])]) = Some (WMVStruct (w_vlist [WVNone; WVStr [65]])) /\
  w_of_json (w_ep_req WireSpec.W_EP_add_appointment) (JObj [(w_s2b "appointment", JNull); (w_s2b "signature", JStr [65])])
    = Some (WMVStruct (w_vlist [WVNone; WVStr [65]])) /\
  (* u32 range *)
  w_of_json WireSpec.W_Appointment (JObj [(w_s2b "locator", JStr []); (w_s2b "encrypted_blob", JStr []); (w_s2b "to_self_delay", JNum 4294967296)]) = None /\
  w_of_json WireSpec.W_Appointment (JObj [(w_s2b "locator", JStr []); (w_s2b "encrypted_blob", JStr []); (w_s2b "to_self_delay", JNum (-1))]) = None.
Proof. vm_compute. repeat split; reflexivity. Qed.

(* serde_status is not injective outside the enum: an i32 that is no discriminant is emitted as
   "not_found" and comes back as 0 — hence the typing hypothesis of the reply theorems *)
Example C16_ex_status_outside_enum :
  w_typedb (w_ep_resp WireSpec.W_EP_get_appointment) (w_mk_get_appointment_response WVNone 7) = false /\
  w_of_json_client WireSpec.W_EP_get_appointment (w_to_json_tower WireSpec.W_EP_get_appointment (w_mk_get_appointment_response WVNone 7))
  = WCResponse (w_mk_get_appointment_response WVNone 0).
Proof. vm_compute. split; reflexivity. Qed.

(* signed bytes *)
Example C16_ex_signed_bytes :
  w_appointment_to_vec ex_locator [9; 8] 258 = ex_locator ++ [9; 8] ++ [0; 0; 1; 2] /\
  w_appointment_receipt_to_vec [65; 66] 4294967295 = [65; 66; 255; 255; 255; 255] /\
  w_get_appointment_msg_client ex_locator = w_s2b "get appointment f0f1f2f3f4f5f6f7f8f9fafbfcfdfeff".
Proof. vm_compute. repeat split; reflexivity. Qed.

(* The three kinds of signed request message are injective each, but NOT domain separated: the
   16 bytes "get appointment " are a possible locator, so the bytes signed for `get appointment L`
   are also the to_vec of an appointment (locator = "get appointment ", blob = first 28 hex digits
   of L, to_self_delay = the last 4 digits read big-endian); likewise "get subscription info".
   (Side observation for C06/C17; not part of the C16 statement.) *)
Example C16_ex_signing_domains_overlap :
  w_get_appointment_msg_tower ex_locator
  = w_appointment_to_vec (w_s2b "get appointment ") (w_s2b "f0f1f2f3f4f5f6f7f8f9fafbfcfd") 1717921382 /\
  WireSpec.W_GET_SUBSCRIPTION_INFO_MSG_TOWER = w_appointment_to_vec (w_s2b "get subscription") [32] 1768842863.
Proof. vm_compute. split; reflexivity. Qed.

(* sizes at the boundary of the cap: a 914-byte blob fits with a 1-digit delay, not with a 3-digit one *)
Example C16_ex_limit_boundary :
  let sg := repeat 121 104 in
  let big := repeat 0 914 in
  (length (w_client_body WireSpec.W_EP_add_appointment (w_mk_add_appointment_request ex_locator big 5 sg)) = 2047
   /\ length (w_client_body WireSpec.W_EP_add_appointment (w_mk_add_appointment_request ex_locator big 144 sg)) = 2049)%nat.
Proof. vm_compute. split; reflexivity. Qed.

Print Assumptions C16_tower_parses_client.
Print Assumptions C16_tower_forwards_client.
Print Assumptions C16_tower_parses_register.
Print Assumptions C16_tower_parses_add_appointment.
Print Assumptions C16_tower_parses_get_appointment.
Print Assumptions C16_tower_parses_get_subscription_info.
Print Assumptions C16_client_parses_tower.
Print Assumptions C16_client_parses_tower_error.
Print Assumptions C16_error_reply_undecoded_register_getsub.
Print Assumptions C16_reser_identity.
Print Assumptions C16_reser_stable.
Print Assumptions C16_hex_roundtrip.
Print Assumptions C16_hex_decode_sound.
Print Assumptions C16_behex_roundtrip.
Print Assumptions C16_status_names_bijective.
Print Assumptions C16_signed_layout_injective.
Print Assumptions C16_signed_layouts.
Print Assumptions C16_layout_injective_generic.
Print Assumptions C16_request_signing_messages.
Print Assumptions C16_within_limit.
Print Assumptions C16_add_appointment_body_len.
Print Assumptions C16_fixed_requests_fit.
Print Assumptions C16_format_as_documented.
