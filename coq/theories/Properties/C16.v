(* C16 — client and tower agree on every byte of the wire format.
   Statements only (proofs: WireProofs.v, WireApiProofs.v).  Everything is stated over the tables
   regenerated from /repo on every run (Gen/WireSpec.v: the serde attributes of teos-common/build.rs
   applied to the proto messages, the AppointmentStatus tables, the three to_vec layouts, the
   router's endpoints and caps, both ApiError structs, how the client decodes each reply).

   Level: JSON *values*.  Text <-> value (serde_json's parser on both sides), HTTP framing and the
   gRPC hop behind the router are library behaviour, exercised by the correspondence run. *)
From TeosModel Require Import Base Wire WireProofs WireApi WireApiProofs.
From TeosModel.Gen Require Consts WireSpec.
From Coq Require Import String.
Local Notation length := List.length.

Local Open Scope N_scope.

(* ---------- requests: what the tower's HTTP API parses is what the client serialised ---------- *)

(* For each of the four endpoints and EVERY value a request of that shape can hold (all field
   lengths including empty, all u32 values, arbitrary blob bytes and signature strings). *)
Theorem C16_tower_parses_client (e : endpoint_spec) (req : mval) :
  In e WireSpec.ENDPOINTS -> typedb (ep_req e) req = true ->
  of_json_tower e (to_json_client e req) = Some req.
Proof. exact (tower_parses_client e req). Qed.

(* ... and, when the body is within the endpoint's cap and the handler's field checks pass, the
   router hands exactly that value to the internal API. *)
Theorem C16_tower_forwards_client (e : endpoint_spec) (req : mval) (len : Z) :
  In e WireSpec.ENDPOINTS -> typedb (ep_req e) req = true -> handler_check e req = None -> (len <= ep_cap e)%Z ->
  tower_http e len (Some (to_json_client e req)) = TForward req.
Proof. exact (tower_forwards_client e req len). Qed.

(* The same, field by field, for the requests the client can build: a user id is a 33-byte
   compressed key, a locator 16 bytes, a signature is never empty. *)
Theorem C16_tower_parses_register user_id :
  wf_bytesb user_id = true -> length user_id = 33%nat ->
  of_json_tower WireSpec.EP_register (to_json_client WireSpec.EP_register (mk_register_request user_id))
    = Some (mk_register_request user_id)
  /\ handler_check WireSpec.EP_register (mk_register_request user_id) = None.
Proof.
  intros W L. split; [|exact (handler_ok_register user_id L)].
  apply C16_tower_parses_client; [simpl; auto | unfold typedb; simpl; rewrite W; reflexivity].
Qed.

Theorem C16_tower_parses_add_appointment locator blob to_self_delay c signature :
  wf_bytesb locator = true -> length locator = 16%nat -> wf_bytesb blob = true -> U32b to_self_delay = true ->
  of_json_tower WireSpec.EP_add_appointment
      (to_json_client WireSpec.EP_add_appointment (mk_add_appointment_request locator blob to_self_delay (c :: signature)))
    = Some (mk_add_appointment_request locator blob to_self_delay (c :: signature))
  /\ handler_check WireSpec.EP_add_appointment (mk_add_appointment_request locator blob to_self_delay (c :: signature)) = None.
Proof.
  intros W L Wb U. split; [|exact (handler_ok_add_appointment locator blob to_self_delay c signature L)].
  apply C16_tower_parses_client; [simpl; auto | unfold typedb; simpl; rewrite W, Wb, U; reflexivity].
Qed.

Theorem C16_tower_parses_get_appointment locator c signature :
  wf_bytesb locator = true -> length locator = 16%nat ->
  of_json_tower WireSpec.EP_get_appointment (to_json_client WireSpec.EP_get_appointment (mk_get_appointment_request locator (c :: signature)))
    = Some (mk_get_appointment_request locator (c :: signature))
  /\ handler_check WireSpec.EP_get_appointment (mk_get_appointment_request locator (c :: signature)) = None.
Proof.
  intros W L. split; [|exact (handler_ok_get_appointment locator c signature L)].
  apply C16_tower_parses_client; [simpl; auto | unfold typedb; simpl; rewrite W; reflexivity].
Qed.

Theorem C16_tower_parses_get_subscription_info c signature :
  of_json_tower WireSpec.EP_get_subscription_info
      (to_json_client WireSpec.EP_get_subscription_info (mk_get_subscription_info_request (c :: signature)))
    = Some (mk_get_subscription_info_request (c :: signature))
  /\ handler_check WireSpec.EP_get_subscription_info (mk_get_subscription_info_request (c :: signature)) = None.
Proof.
  split; [|exact (handler_ok_get_subscription_info c signature)].
  apply C16_tower_parses_client; [simpl; auto | reflexivity].
Qed.

(* ---------- replies: what the client parses is what the tower produced ---------- *)

(* Every success reply of every endpoint, whether the client decodes it as ApiResponse<T> or as T. *)
Theorem C16_client_parses_tower (e : endpoint_spec) (r : mval) :
  In e WireSpec.ENDPOINTS -> typedb (ep_resp e) r = true ->
  of_json_client e (to_json_tower e r) = CResponse r.
Proof. exact (client_parses_tower_response e r). Qed.

(* Every error object, on the endpoints whose reply the client decodes as ApiResponse<T> | ApiError:
   the untagged choice never takes one for the other (every reply type has a required key the
   error object lacks, and the success type is tried first). *)
Theorem C16_client_parses_tower_error (e : endpoint_spec) (err : mval) :
  In e WireSpec.ENDPOINTS -> ep_client_wrapped e = true -> typedb WireSpec.TowerApiError err = true ->
  of_json_client e (to_json_err err) = CError err.
Proof. exact (client_parses_tower_error e err). Qed.

(* The code as it is: where the client decodes the reply straight into the success type, EVERY error
   object of the tower becomes RequestError::DeserializeError — no wrong value, but the tower's
   error code and message are lost. *)
Theorem C16_error_reply_undecoded_register_getsub (e : endpoint_spec) (err : mval) :
  In e WireSpec.ENDPOINTS -> ep_client_wrapped e = false -> typedb WireSpec.TowerApiError err = true ->
  of_json_client e (to_json_err err) = CDeserializeError.
Proof. exact (client_loses_tower_error e err). Qed.

(* ---------- serialise ; parse is the identity, for every message type ---------- *)
Theorem C16_reser_identity (name : str) (m : msg) (v : mval) :
  In (name, m) WireSpec.MESSAGES \/ m = WireSpec.TowerApiError \/ m = WireSpec.ClientApiError ->
  typedb m v = true -> of_json m (to_json m v) = Some v.
Proof. exact (reser_identity name m v). Qed.

(* ... and whatever parses (from ANY JSON value: unknown keys, either-case hex, array form, ...)
   is a value of the message type, on which serialise ; parse is again the identity. *)
Theorem C16_reser_stable (name : str) (m : msg) (j : json) (v : mval) :
  In (name, m) WireSpec.MESSAGES \/ m = WireSpec.TowerApiError \/ m = WireSpec.ClientApiError ->
  of_json m j = Some v -> typedb m v = true /\ of_json m (to_json m v) = Some v.
Proof. exact (reser_stable_api name m j v). Qed.

(* ---------- hex, byte-reversed hex ---------- *)
Theorem C16_hex_roundtrip (b : bytes) :
  wf_bytesb b = true ->
  hex_decode (hex_encode b) = Some b /\                       (* parse what was emitted *)
  hex_decode (map to_upper (hex_encode b)) = Some b /\        (* upper case means the same *)
  is_lower_hexb (hex_encode b) = true /\                      (* what is emitted is lower case *)
  length (hex_encode b) = (2 * length b)%nat.
Proof.
  intros W. repeat split.
  - exact (hex_roundtrip b W).
  - rewrite hex_decode_upper. exact (hex_roundtrip b W).
  - exact (hex_encode_lower b W).
  - exact (hex_encode_length b).
Qed.

(* decoding accepts exactly: even length, hex digits of either case; and a byte string has exactly
   one lower-case spelling *)
Theorem C16_hex_decode_sound (s : str) (b : bytes) :
  hex_decode s = Some b ->
  wf_bytesb b = true /\ length s = (2 * length b)%nat /\ (is_lower_hexb s = true -> hex_encode b = s).
Proof.
  intros H. destruct (hex_decode_wf s b H) as [W L]. repeat split; auto.
  exact (hex_decode_lower_canonical s b H).
Qed.

Theorem C16_behex_roundtrip (b : bytes) :
  wf_bytesb b = true ->
  behex_decode (behex_encode b) = Some b /\ behex_encode b = hex_encode (rev b).
Proof. intros W. split; [exact (behex_roundtrip b W) | reflexivity]. Qed.

(* ---------- status names ---------- *)
(* emit and parse are mutually inverse between the three discriminants and the three documented
   names; no other name is accepted; an i32 outside the enum is EMITTED as one of the three names
   (serde_status goes through AppointmentStatus::from, whose wildcard arm is NotFound). *)
Theorem C16_status_names_bijective :
  (forall n s, In (n, s) Doc_STATUS_NAMES -> status_emit WireSpec.STATUS n = s /\ status_parse WireSpec.STATUS s = Some n) /\
  (forall s n, status_parse WireSpec.STATUS s = Some n -> In (n, s) Doc_STATUS_NAMES) /\
  NoDup (map fst Doc_STATUS_NAMES) /\ NoDup (map snd Doc_STATUS_NAMES) /\
  (forall n, In (status_emit WireSpec.STATUS n) (map snd Doc_STATUS_NAMES)) /\
  WireSpec.STATUS_PROTO = st_variants WireSpec.STATUS.
Proof.
  split; [exact status_doc_graph|]. split; [exact status_parse_only_doc|].
  split; [|split; [|split; [exact status_emit_total | reflexivity]]].
  - simpl. repeat constructor; simpl; intuition discriminate.
  - simpl. repeat constructor; simpl; intuition discriminate.
Qed.

(* ---------- the byte strings that get signed determine their fields ---------- *)
Theorem C16_signed_layout_injective :
  (* Appointment::to_vec = locator(16) || encrypted_blob || to_self_delay(4, BE) *)
  (forall l b t l' b' t',
      length l = 16%nat -> length l' = 16%nat -> t < 4294967296 -> t' < 4294967296 ->
      appointment_to_vec l b t = appointment_to_vec l' b' t' -> l = l' /\ b = b' /\ t = t') /\
  (* RegistrationReceipt::to_vec = user_id(33) || available_slots(4) || subscription_start(4) || subscription_expiry(4) *)
  (forall u a s e u' a' s' e',
      length u = 33%nat -> length u' = 33%nat ->
      a < 4294967296 -> s < 4294967296 -> e < 4294967296 -> a' < 4294967296 -> s' < 4294967296 -> e' < 4294967296 ->
      registration_receipt_to_vec u a s e = registration_receipt_to_vec u' a' s' e' ->
      u = u' /\ a = a' /\ s = s' /\ e = e') /\
  (* AppointmentReceipt::to_vec = user_signature || start_block(4, BE) *)
  (forall s b s' b',
      b < 4294967296 -> b' < 4294967296 ->
      appointment_receipt_to_vec s b = appointment_receipt_to_vec s' b' -> s = s' /\ b = b').
Proof.
  split; [exact appointment_to_vec_inj|]. split; [exact registration_receipt_to_vec_inj | exact appointment_receipt_to_vec_inj].
Qed.

(* what the three layouts are *)
Theorem C16_signed_layouts :
  (forall l b t, appointment_to_vec l b t = l ++ b ++ be32 t) /\
  (forall u a s e, registration_receipt_to_vec u a s e = u ++ be32 a ++ be32 s ++ be32 e) /\
  (forall s b, appointment_receipt_to_vec s b = s ++ be32 b) /\
  (forall n, n < 4294967296 -> be32_decode (be32 n) = Some n).
Proof.
  split; [exact appointment_to_vec_eq|]. split; [exact registration_receipt_to_vec_eq|].
  split; [exact appointment_receipt_to_vec_eq | exact be32_roundtrip].
Qed.

(* generic form: any layout with at most one variable-width field is injective *)
Theorem C16_layout_injective_generic (l : layout) (vs ws : list lval) :
  layout_unambiguousb l = true -> layout_okb l vs = true -> layout_okb l ws = true ->
  layout_encode l vs = layout_encode l ws -> vs = ws.
Proof. exact (layout_injective l vs ws). Qed.

(* the request-signing messages: client and tower build the same bytes, and "get appointment <hex>"
   determines the locator *)
Theorem C16_request_signing_messages :
  (forall l, get_appointment_msg_client l = get_appointment_msg_tower l) /\
  WireSpec.GET_SUBSCRIPTION_INFO_MSG_CLIENT = WireSpec.GET_SUBSCRIPTION_INFO_MSG_TOWER /\
  (forall a b, wf_bytesb a = true -> wf_bytesb b = true ->
               get_appointment_msg_tower a = get_appointment_msg_tower b -> a = b).
Proof.
  split; [reflexivity|]. split; [reflexivity|].
  intros a b. exact (sign_msg_get_appointment_inj WireSpec.GET_APPOINTMENT_PREFIX_TOWER a b).
Qed.

(* ---------- the request-size limit ---------- *)
(* Counted: the bytes of the request BODY (= Content-Length, what warp's content_length_limit looks
   at), i.e. serde_json's compact print of the request; not the HTTP headers.
   With a 16-byte locator and a signature as cryptography::sign produces it (104 zbase32 characters)
   the add_appointment body is 218 + digits(to_self_delay) + 2*|blob| bytes; it is accepted iff that
   is <= the generated cap (2048): every blob up to 910 bytes fits whatever the delay, no blob of
   915 bytes or more does (914 fits iff the delay has at most 2 digits, ...). *)
Theorem C16_within_limit l b t s :
  length l = 16%nat -> real_signature s -> U32b t = true ->
  add_appointment_len l b t s = (218 + ndigits t + 2 * length b)%nat /\
  ((Z.of_nat (add_appointment_len l b t s) <= ep_cap WireSpec.EP_add_appointment)%Z <-> (2 * length b + ndigits t <= 1830)%nat) /\
  ((length b <= 910)%nat -> (Z.of_nat (add_appointment_len l b t s) <= ep_cap WireSpec.EP_add_appointment)%Z) /\
  ((915 <= length b)%nat -> (ep_cap WireSpec.EP_add_appointment < Z.of_nat (add_appointment_len l b t s))%Z).
Proof. exact (within_limit l b t s). Qed.

(* for any signature string: 82 + 2*|locator| + 2*|blob| + digits + |escaped signature| *)
Theorem C16_add_appointment_body_len l b t s :
  length (client_body WireSpec.EP_add_appointment (mk_add_appointment_request l b t s))
  = (82 + 2 * length l + 2 * length b + ndigits t + esc_len s)%nat.
Proof. exact (add_appointment_body_len l b t s). Qed.

(* the other three requests have a fixed size below their caps *)
Theorem C16_fixed_requests_fit u l s :
  length u = 33%nat -> length l = 16%nat -> real_signature s ->
  length (client_body WireSpec.EP_register (mk_register_request u)) = 80%nat /\
  length (client_body WireSpec.EP_get_appointment (mk_get_appointment_request l s)) = 165%nat /\
  length (client_body WireSpec.EP_get_subscription_info (mk_get_subscription_info_request s)) = 120%nat /\
  (80 <= ep_cap WireSpec.EP_register /\ 165 <= ep_cap WireSpec.EP_get_appointment /\ 120 <= ep_cap WireSpec.EP_get_subscription_info)%Z.
Proof. exact (fixed_requests_fit u l s). Qed.

(* ---------- the format the code implements is the documented one ---------- *)
Theorem C16_format_as_documented :
  map doc_endpoint WireSpec.ENDPOINTS = Doc_ENDPOINTS /\
  WireSpec.TowerApiError = Doc_ApiError /\ WireSpec.ClientApiError = Doc_ApiError /\
  WireSpec.API_RESPONSE_ORDER = [AVResponse; AVError] /\
  WireSpec.APPOINTMENT_TO_VEC = Doc_APPOINTMENT_TO_VEC /\
  WireSpec.REGISTRATION_RECEIPT_TO_VEC = Doc_REGISTRATION_RECEIPT_TO_VEC /\
  WireSpec.APPOINTMENT_RECEIPT_TO_VEC = Doc_APPOINTMENT_RECEIPT_TO_VEC /\
  (ep_cap WireSpec.EP_register = Consts.REGISTER_BODY_LEN /\ ep_cap WireSpec.EP_add_appointment = Consts.ADD_APPOINTMENT_BODY_LEN /\
   ep_cap WireSpec.EP_get_appointment = Consts.GET_APPOINTMENT_BODY_LEN /\
   ep_cap WireSpec.EP_get_subscription_info = Consts.GET_SUBSCRIPTION_INFO_BODY_LEN).
Proof. repeat split; reflexivity. Qed.

(* ====================== the code as it is (known finding) ====================== *)
(* "every reply the tower can emit is parsed by the client into exactly the values the tower
   produced" is FALSE for error replies to register and get_subscription_info: *)
Definition ex_err : mval := mk_api_error (s2b "Subscription maximum slots count reached") 65.

Theorem C16_client_parses_tower_error_refuted :
  exists e err, In e WireSpec.ENDPOINTS /\ typedb WireSpec.TowerApiError err = true /\
                of_json_client e (to_json_err err) <> CError err.
Proof.
  exists WireSpec.EP_register, ex_err. split; [simpl; auto|]. split; [reflexivity|]. vm_compute. discriminate.
Qed.

Example C16_unwrapped_endpoints_now :
  map (fun e => (ep_path e, ep_client_wrapped e)) WireSpec.ENDPOINTS =
  [(s2b "/register", false); (s2b "/add_appointment", true); (s2b "/get_appointment", true);
   (s2b "/get_subscription_info", false)].
Proof. reflexivity. Qed.

(* ====================== non-vacuity and worked values (kernel computations) ====================== *)
Definition ex_user_id : bytes := 2 :: map N.of_nat (seq 1 32).
Definition ex_locator : bytes := map N.of_nat (seq 240 16).
Definition ex_txid : bytes := 1 :: map N.of_nat (seq 100 30) ++ [255].
Definition ex_sig : str := s2b "d7x\z""".      (* contains a backslash and a double quote *)

(* the literal bytes the client posts *)
Example C16_ex_register_text :
  client_body WireSpec.EP_register (mk_register_request ex_user_id)
  = s2b "{""user_id"":""020102030405060708090a0b0c0d0e0f101112131415161718191a1b1c1d1e1f20""}".
Proof. vm_compute. reflexivity. Qed.

Example C16_ex_add_appointment_text :
  client_body WireSpec.EP_add_appointment (mk_add_appointment_request ex_locator [0; 255; 16] 4294967295 ex_sig)
  = s2b "{""appointment"":{""locator"":""f0f1f2f3f4f5f6f7f8f9fafbfcfdfeff"",""encrypted_blob"":""00ff10"",""to_self_delay"":4294967295},""signature"":""d7x\\z\""""}".
Proof. vm_compute. reflexivity. Qed.

Example C16_ex_request_roundtrips :
  typedb (ep_req WireSpec.EP_add_appointment) (mk_add_appointment_request ex_locator [] 0 ex_sig) = true /\
  tower_http WireSpec.EP_add_appointment 2048 (Some (to_json_client WireSpec.EP_add_appointment (mk_add_appointment_request ex_locator [] 0 ex_sig)))
  = TForward (mk_add_appointment_request ex_locator [] 0 ex_sig).
Proof. split; vm_compute; reflexivity. Qed.

(* txids travel byte-reversed: first byte 0x01 comes last, last byte 0xff first *)
Example C16_ex_tracker_reply :
  to_json_tower WireSpec.EP_get_appointment (mk_get_appointment_response (data_tracker (mk_tracker ex_txid [7] [1; 2])) 2)
  = JObj [(s2b "appointment",
           JObj [(s2b "dispute_txid", JStr (s2b "ff81807f7e7d7c7b7a797877767574737271706f6e6d6c6b6a6968676665" ++ s2b "6401"));
                 (s2b "penalty_txid", JStr (s2b "07")); (s2b "penalty_rawtx", JStr (s2b "0102"))]);
          (s2b "status", JStr (s2b "dispute_responded"))].
Proof. vm_compute. reflexivity. Qed.

Example C16_ex_replies_decoded :
  let r1 := mk_get_appointment_response (data_tracker (mk_tracker ex_txid ex_txid [])) 2 in
  let r2 := mk_get_appointment_response (data_appointment (mk_appointment ex_locator [1] 7)) 1 in
  let r3 := mk_get_appointment_response VNone 0 in
  let r4 := mk_get_appointment_response (VSome MVOneofNone) 0 in
  map (fun r => typedb (ep_resp WireSpec.EP_get_appointment) r) [r1; r2; r3; r4] = [true; true; true; true] /\
  map (fun r => of_json_client WireSpec.EP_get_appointment (to_json_tower WireSpec.EP_get_appointment r)) [r1; r2; r3; r4]
  = map CResponse [r1; r2; r3; r4] /\
  of_json_client WireSpec.EP_get_appointment (to_json_err ex_err) = CError ex_err /\
  of_json_client WireSpec.EP_add_appointment (to_json_err ex_err) = CError ex_err /\
  of_json_client WireSpec.EP_register (to_json_err ex_err) = CDeserializeError /\
  of_json_client WireSpec.EP_get_subscription_info (to_json_err ex_err) = CDeserializeError.
Proof. vm_compute. repeat split; reflexivity. Qed.

(* what the derived parsers do with input the other side never emits *)
Example C16_ex_parser_corner_cases :
  let reg := ep_req WireSpec.EP_register in
  let hexid := hex_encode ex_user_id in
  (* unknown keys are ignored; upper-case hex is accepted; the positional (array) form is accepted *)
  of_json reg (JObj [(s2b "x", JNull); (s2b "user_id", JStr (map to_upper hexid))]) = Some (mk_register_request ex_user_id) /\
  of_json reg (JArr [JStr hexid]) = Some (mk_register_request ex_user_id) /\
  (* a repeated key, an odd number of digits, a non-hex digit, a missing key, a wrong type are errors *)
  of_json reg (JObj [(s2b "user_id", JStr hexid); (s2b "user_id", JStr hexid)]) = None /\
  of_json reg (JObj [(s2b "user_id", JStr (s2b "abc"))]) = None /\
  of_json reg (JObj [(s2b "user_id", JStr (s2b "zz"))]) = None /\
  of_json reg (JObj []) = None /\
  of_json reg (JObj [(s2b "user_id", JNum 5)]) = None /\
  (* Option<Appointment>: absent and null are None *)
  of_json (ep_req WireSpec.EP_add_appointment) (JObj [(s2b "signature", JStr [65])]) = Some (MVStruct (vlist [VNone; VStr [65]])) /\
  of_json (ep_req WireSpec.EP_add_appointment) (JObj [(s2b "appointment", JNull); (s2b "signature", JStr [65])])
    = Some (MVStruct (vlist [VNone; VStr [65]])) /\
  (* u32 range *)
  of_json WireSpec.Appointment (JObj [(s2b "locator", JStr []); (s2b "encrypted_blob", JStr []); (s2b "to_self_delay", JNum 4294967296)]) = None /\
  of_json WireSpec.Appointment (JObj [(s2b "locator", JStr []); (s2b "encrypted_blob", JStr []); (s2b "to_self_delay", JNum (-1))]) = None.
Proof. vm_compute. repeat split; reflexivity. Qed.

(* serde_status is not injective outside the enum: an i32 that is no discriminant is emitted as
   "not_found" and comes back as 0 — hence the typing hypothesis of the reply theorems *)
Example C16_ex_status_outside_enum :
  typedb (ep_resp WireSpec.EP_get_appointment) (mk_get_appointment_response VNone 7) = false /\
  of_json_client WireSpec.EP_get_appointment (to_json_tower WireSpec.EP_get_appointment (mk_get_appointment_response VNone 7))
  = CResponse (mk_get_appointment_response VNone 0).
Proof. vm_compute. split; reflexivity. Qed.

(* signed bytes *)
Example C16_ex_signed_bytes :
  appointment_to_vec ex_locator [9; 8] 258 = ex_locator ++ [9; 8] ++ [0; 0; 1; 2] /\
  appointment_receipt_to_vec [65; 66] 4294967295 = [65; 66; 255; 255; 255; 255] /\
  get_appointment_msg_client ex_locator = s2b "get appointment f0f1f2f3f4f5f6f7f8f9fafbfcfdfeff".
Proof. vm_compute. repeat split; reflexivity. Qed.

(* The three kinds of signed request message are injective each, but NOT domain separated: the
   16 bytes "get appointment " are a possible locator, so the bytes signed for `get appointment L`
   are also the to_vec of an appointment (locator = "get appointment ", blob = first 28 hex digits
   of L, to_self_delay = the last 4 digits read big-endian); likewise "get subscription info".
   (Side observation for C06/C17; not part of the C16 statement.) *)
Example C16_ex_signing_domains_overlap :
  get_appointment_msg_tower ex_locator
  = appointment_to_vec (s2b "get appointment ") (s2b "f0f1f2f3f4f5f6f7f8f9fafbfcfd") 1717921382 /\
  WireSpec.GET_SUBSCRIPTION_INFO_MSG_TOWER = appointment_to_vec (s2b "get subscription") [32] 1768842863.
Proof. vm_compute. split; reflexivity. Qed.

(* sizes at the boundary of the cap: a 914-byte blob fits with a 1-digit delay, not with a 3-digit one *)
Example C16_ex_limit_boundary :
  let sg := repeat 121 104 in
  let big := repeat 0 914 in
  (length (client_body WireSpec.EP_add_appointment (mk_add_appointment_request ex_locator big 5 sg)) = 2047
   /\ length (client_body WireSpec.EP_add_appointment (mk_add_appointment_request ex_locator big 144 sg)) = 2049)%nat.
Proof. vm_compute. split; reflexivity. Qed.

Print Assumptions C16_tower_parses_client.
Print Assumptions C16_tower_forwards_client.
Print Assumptions C16_tower_parses_register.
Print Assumptions C16_tower_parses_add_appointment.
Print Assumptions C16_tower_parses_get_appointment.
Print Assumptions C16_tower_parses_get_subscription_info.
Print Assumptions C16_client_parses_tower.
Print Assumptions C16_client_parses_tower_error.
Print Assumptions C16_error_reply_undecoded_register_getsub.
Print Assumptions C16_reser_identity.
Print Assumptions C16_reser_stable.
Print Assumptions C16_hex_roundtrip.
Print Assumptions C16_hex_decode_sound.
Print Assumptions C16_behex_roundtrip.
Print Assumptions C16_status_names_bijective.
Print Assumptions C16_signed_layout_injective.
Print Assumptions C16_signed_layouts.
Print Assumptions C16_layout_injective_generic.
Print Assumptions C16_request_signing_messages.
Print Assumptions C16_within_limit.
Print Assumptions C16_add_appointment_body_len.
Print Assumptions C16_fixed_requests_fit.
Print Assumptions C16_format_as_documented.
Print Assumptions C16_client_parses_tower_error_refuted.
