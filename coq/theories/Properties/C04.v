(* C04 — decided on the sequential tower model.  The deep theorems about the breach / reorg
   procedures live in their own files (C04_*.v, merged as they are completed); this file holds
   what every such theorem rests on: the tables' invariant in every reachable state, and the
   generated constants and listener order the statements are about.  Statements only. *)
From TeosModel Require Import Base TxIndex Tower TowerStable TowerInv.
From TeosModel.Gen Require Consts.
Local Open Scope N_scope.

(* Every tracker row always has its appointment row (same locator and user) and every appointment
   its owner's row: a response is always tied to an accepted appointment of a user the tower holds. *)
Theorem C04_trackers_tied_to_appointments le c h0 blocks t0 h :
  init c h0 blocks = Some t0 -> Forall not_abort (snd (run le t0 h)) ->
  (forall k, In k (db_trks (fst (run le t0 h))) ->
             exists a, In a (db_apps (fst (run le t0 h))) /\ app_uuid a = trk_uuid k) /\
  (forall a, In a (db_apps (fst (run le t0 h))) -> amem (db_users (fst (run le t0 h))) (a_user a) = true).
Proof.
  intros Hi Hn. pose proof (inv_reachable le c h0 blocks t0 h Hi Hn) as HI.
  split; [exact (inv_fk_trk _ HI)|exact (inv_fk_app _ HI)].
Qed.

(* The constants and the listener order the daemon runs with (regenerated from /repo on every run):
   gatekeeper before watcher before responder, 100 confirmations, retry after 6 missed blocks,
   6-block locator cache, 100-block transaction index. *)
Theorem C04_generated_parameters :
  Consts.LISTENER_ORDER = [0; 1; 2]%Z /\ Consts.IRREVOCABLY_RESOLVED = 100%Z /\
  Consts.CONFIRMATIONS_BEFORE_RETRY = 6%Z /\ (Consts.WATCHER_CACHE_TO - Consts.WATCHER_CACHE_FROM = 6)%Z /\
  Consts.RESPONDER_INDEX_SIZE = 100%Z /\
  Consts.RPC_VERIFY_REJECTED = (-26)%Z /\ Consts.RPC_VERIFY_ERROR = (-25)%Z /\
  Consts.RPC_VERIFY_ALREADY_IN_CHAIN = (-27)%Z /\ Consts.RPC_DESERIALIZATION_ERROR = (-22)%Z.
Proof. repeat split; reflexivity. Qed.

Print Assumptions C04_trackers_tied_to_appointments.
Print Assumptions C04_generated_parameters.
