(* C13 — the client delivers pending data once a tower recovers; status is truthful.
   Statements only (proofs in ClientFlowProofs.v), Print Assumptions, non-vacuity Examples. *)
From TeosModel Require Import Base Db Client ClientFlow ClientFlowProofs.

(* In every reachable state (ALL operation sequences, no guard) at most one retry task is alive per tower, and a
   tower with a live task has a Running retrier; the manager starts a retrier only when it is Stopped
   (sweep_started_stopped). *)
Theorem C13_single_retrier ops :
  let s := frun f_init ops in
  NoDup (f_tasks s) /\ (forall t, In t (f_tasks s) -> rstat s t = Some RRunning).
Proof. exact (single_retrier ops). Qed.
Print Assumptions C13_single_retrier.

Theorem C13_started_only_when_stopped elapsed keys s started woke s' started' woke' o :
  sweep s keys elapsed started woke = (s', started', woke', o) ->
  (forall t, In t started -> In t keys -> False) -> NoDup keys ->
  forall t, In t started' -> In t started \/ (In t keys /\ exists r, aget (f_mgr s) t = Some r /\ should_start r = true).
Proof. exact (sweep_started_stopped elapsed keys s started woke s' started' woke' o). Qed.
Print Assumptions C13_started_only_when_stopped.

(* retrytower is accepted exactly in the documented states: the tower is known and (its retrier is idle, or it has
   no retrier and its status is unreachable / subscription error); a refusal changes nothing, an acceptance queues
   exactly one message for the manager (None for an idle retrier, the stale pending set otherwise) *)
Theorem C13_manual_retry_gate s t :
  (snd (f_manual_retry s t) = OOk <-> retry_allowed s t = true) /\
  (retry_allowed s t = false -> fst (f_manual_retry s t) = s) /\
  (retry_allowed s t = true -> exists d, fst (f_manual_retry s t) = push_chan s t d /\
     (d = DNone \/ exists su, aget (c_towers (f_c s)) t = Some su /\ d = DStale (su_pending su))).
Proof. exact (manual_retry_gate s t). Qed.
Print Assumptions C13_manual_retry_gate.

(* One attempt of `run` of a live retry task, in every state of every guarded sequence, for every reply sequence:
   the loop fuel is never exhausted (the while loop ends), it issues at most one registration and at most one
   add_appointment per locator of the retrier's set (no duplicates, nothing outside the set). *)
Theorem C13_run_bounded ops t a :
  ops_fresh f_init ops = true ->
  let s := frun f_init ops in
  In t (f_tasks s) ->
  fst (run_attempt s t a) = fst (run_attempt s t a) /\
  snd (run_attempt s t a) <> RunFuel /\
  exists reg sent, f_log (fst (run_attempt s t a)) = f_log s ++ reg ++ map (ReqAdd t) sent /\
                   (reg = [] \/ reg = [ReqRegister t]) /\ NoDup sent /\ incl sent (retrier_pending s t).
Proof. exact (run_bounded ops t a). Qed.
Print Assumptions C13_run_bounded.

(* non-vacuity: an outage, the retrier started by the manager, recovery, delivery *)
Example C13_delivery_example :
  let s := frun f_init [FRegister 0 (w_good 1); FRevocation 7 [] [(0, AConnErr)]; FManagerTick []; FManagerTick [];
                        FRetrierRun 0 [w_att [] true; w_att [AAccept 110] true]] in
  pending_locators (c_db (f_c s)) 0 = [] /\ f_tasks s = [] /\
  match aget (c_towers (f_c s)) 0 with Some su => su_status su = Reachable | None => False end.
Proof. vm_compute. repeat split. Qed.
