(* C13 — the client delivers pending data once a tower recovers; status is truthful.
   Statements only (proofs in ClientFlowProofs.v), Print Assumptions, non-vacuity Examples. *)
From TeosModel Require Import Base Db Client ClientFlow ClientFlowProofs.

(* non-vacuity: an outage, the retrier started by the manager, recovery, delivery *)
Example C13_delivery_example :
  let s := frun f_init [FRegister 0 (w_good 1); FRevocation 7 [] [(0, AConnErr)]; FManagerTick []; FManagerTick [];
                        FRetrierRun 0 [w_att [] true; w_att [AAccept 110] true]] in
  pending_locators (c_db (f_c s)) 0 = [] /\ f_tasks s = [] /\
  match aget (c_towers (f_c s)) 0 with Some su => su_status su = Reachable | None => False end.
Proof. vm_compute. repeat split. Qed.
