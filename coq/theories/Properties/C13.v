(* C13 — the client delivers pending data once a tower recovers; status is truthful.
   Statements only (proofs in ClientFlowProofs.v), Print Assumptions, non-vacuity Examples. *)
From TeosModel Require Import Base Db Client ClientFlow ClientFlowProofs.

(* In every reachable state (ALL operation sequences, no guard) at most one retry task is alive per tower, and a
   tower with a live task has a Running retrier; the manager starts a retrier only when it is Stopped
   (sweep_started_stopped). *)
Theorem C13_single_retrier ops :
  let s := frun f_init ops in
  NoDup (f_tasks s) /\ (forall t, In t (f_tasks s) -> rstat s t = Some RRunning).
Proof. exact (single_retrier ops). Qed.
Print Assumptions C13_single_retrier.

Theorem C13_started_only_when_stopped elapsed keys s started woke s' started' woke' o :
  sweep s keys elapsed started woke = (s', started', woke', o) ->
  (forall t, In t started -> In t keys -> False) -> NoDup keys ->
  forall t, In t started' -> In t started \/ (In t keys /\ exists r, aget (f_mgr s) t = Some r /\ should_start r = true).
Proof. exact (sweep_started_stopped elapsed keys s started woke s' started' woke' o). Qed.
Print Assumptions C13_started_only_when_stopped.

(* retrytower is accepted exactly in the documented states: the tower is known and (its retrier is idle, or it has
   no retrier and its status is unreachable / subscription error); a refusal changes nothing, an acceptance queues
   exactly one message for the manager (None for an idle retrier, the stale pending set otherwise) *)
Theorem C13_manual_retry_gate s t :
  (snd (f_manual_retry s t) = OOk <-> retry_allowed s t = true) /\
  (retry_allowed s t = false -> fst (f_manual_retry s t) = s) /\
  (retry_allowed s t = true -> exists d, fst (f_manual_retry s t) = push_chan s t d /\
     (d = DNone \/ exists su, aget (c_towers (f_c s)) t = Some su /\ d = DStale (su_pending su))).
Proof. exact (manual_retry_gate s t). Qed.
Print Assumptions C13_manual_retry_gate.

(* One attempt of `run` of a live retry task, in every state of EVERY operation sequence, for every reply sequence:
   the loop fuel is never exhausted (the while loop ends), it issues at most one registration and at most one
   add_appointment per locator (no duplicates), each one a locator of the retrier's set or a pending row of the tower
   (the run picks the tower's pending appointments up once before it reports success: fix b93f978). *)
Theorem C13_run_bounded ops t a :
  let s := frun f_init ops in
  In t (f_tasks s) ->
  fst (run_attempt s t a) = fst (run_attempt s t a) /\
  snd (run_attempt s t a) <> RunFuel /\
  exists reg sent, f_log (fst (run_attempt s t a)) = f_log s ++ reg ++ map (ReqAdd t) sent /\
                   (reg = [] \/ reg = [ReqRegister t]) /\ NoDup sent /\
                   (forall l, In l sent -> In l (retrier_pending s t) \/ Prow (c_db (f_c s)) t l).
Proof. exact (run_bounded ops t a). Qed.
Print Assumptions C13_run_bounded.

(* DELIVERY: a live retry task of a known tower (not flagged) that now accepts delivers its whole set AND everything
   else that is pending for the tower in ONE attempt (after a subscription error: one renewal with an extending receipt
   first); the task ends, the tower is reachable, its retrier stopped and empty and out of WTClient::retriers; NO pending
   row of the tower is left (fix b93f978: not only none of the retrier's set) and each one that was a pending row keeps
   a record (a locator of the set that was NOT a pending row of the tower any more - the tower was abandoned and
   registered again meanwhile - is dropped without a request: fix 8108569); no other pending row appears.
   The tower accepts long enough: as many times as the set and the pending rows together are long. *)
Theorem C13_delivers_attempt ops t a sl rest :
  let s := frun f_init ops in poisoned s = false ->
  In t (f_tasks s) -> knownc (f_c s) t -> stat (f_c s) t <> Some Misbehaving ->
  at_adds a = accept_all sl ++ rest ->
  (length (retrier_pending s t) + length (pending_locators (c_db (f_c s)) t) <= length sl)%nat ->
  (stat (f_c s) t = Some SubscriptionError ->
     exists slots start expiry, at_reg a = RReceipt slots start expiry true /\ reg_extends (f_c s) t slots expiry = true) ->
  let s' := fst (fstep s (FRetrierRun t [a])) in
  snd (fstep s (FRetrierRun t [a])) = ORun OutDelivered /\
  stat (f_c s') t = Some Reachable /\ rstat s' t = Some RStopped /\ retrier_pending s' t = [] /\
  ~ In t (f_tasks s') /\ aget (c_retriers (f_c s')) t = None /\
  (forall l, ~ Prow (c_db (f_c s')) t l) /\ (forall l, Prow (c_db (f_c s)) t l -> recorded (c_db (f_c s')) t l) /\
  (forall k x, Prow (c_db (f_c s')) k x -> Prow (c_db (f_c s)) k x).
Proof. exact (delivers_attempt ops t a sl rest). Qed.
Print Assumptions C13_delivers_attempt.

(* REACHABLE MEANS NOTHING PENDING (fix b93f978, the former finding D7): whenever an attempt of a live retry task
   succeeds - in every state of EVERY operation sequence, for every reply sequence, WHATEVER the retrier's in-memory set
   was (a retrier created by a revocation after a renewal was refused for good holds only the new locator while older
   appointments are pending) - no pending row of the tower is left when the task flags it reachable: the pending list is
   empty, nothing that had a record lost it, the retrier is empty, and the tower is shown reachable unless it is flagged
   as misbehaving. *)
Theorem C13_success_leaves_nothing_pending ops t a :
  let s := frun f_init ops in
  In t (f_tasks s) -> snd (run_attempt s t a) = RunOk ->
  let s1 := fst (run_attempt s t a) in
  let s' := fst (task_step s1 t RunOk (at_more a)) in
  (forall l, ~ Prow (c_db (f_c s')) t l) /\ pending_locators (c_db (f_c s')) t = [] /\
  (forall k x, recorded (c_db (f_c s)) k x -> recorded (c_db (f_c s')) k x) /\
  snd (task_step s1 t RunOk (at_more a)) = OutDelivered /\ retrier_pending s' t = [] /\
  (stat (f_c s) t <> Some Misbehaving -> stat (f_c s') t = Some Reachable).
Proof. exact (success_leaves_nothing_pending ops t a). Qed.
Print Assumptions C13_success_leaves_nothing_pending.

(* THE BOUND: from an idle retrier (the tower was given up on) with a drained, living manager: 3 steps — the tick
   after the auto-retry delay has elapsed wakes it (manager_wakes), the next tick starts it (manager_starts), one
   attempt delivers: NO pending row of the tower is left, it is shown reachable, no retry task and no entry in
   WTClient::retriers remain.  No side condition on the other retriers is left: Retrier::start cannot panic
   (fixes 29264ec, 9d6311c), so the sweep always gets to the tower. *)
Theorem C13_delivers_on_recovery ops t r0 a sl rest :
  let s := frun f_init ops in
  poisoned s = false -> f_mgr_dead s = false -> f_chan s = [] ->
  aget (f_mgr s) t = Some r0 -> r_status r0 = RIdle -> knownc (f_c s) t ->
  stat (f_c s) t <> Some SubscriptionError -> stat (f_c s) t <> Some Misbehaving ->
  set_union (r_pending r0) (pending_locators (c_db (f_c s)) t) <> [] ->
  at_adds a = accept_all sl ++ rest ->
  (length (set_union (r_pending r0) (pending_locators (c_db (f_c s)) t)) + length (pending_locators (c_db (f_c s)) t) <= length sl)%nat ->
  let s3 := frun s [FManagerTick [t]; FManagerTick []; FRetrierRun t [a]] in
  pending_locators (c_db (f_c s3)) t = [] /\ stat (f_c s3) t = Some Reachable /\ rstat s3 t = Some RStopped /\
  retrier_pending s3 t = [] /\ ~ In t (f_tasks s3) /\ aget (c_retriers (f_c s3)) t = None.
Proof. exact (delivers_on_recovery ops t r0 a sl rest). Qed.
Print Assumptions C13_delivers_on_recovery.

Theorem C13_manager_wakes s t r0 elapsed :
  FInv s -> MgrKeys s -> poisoned s = false -> f_mgr_dead s = false -> f_chan s = [] ->
  aget (f_mgr s) t = Some r0 -> r_status r0 = RIdle -> memN t elapsed = true ->
  let s1 := fst (f_manager_tick s elapsed) in
  aget (f_mgr s1) t = Some {| r_status := RStopped; r_pending := set_union (r_pending r0) (pending_locators (c_db (f_c s)) t) |} /\
  aget (c_retriers (f_c s1)) t = None /\ stat (f_c s1) t = stat (f_c s) t /\ c_db (f_c s1) = c_db (f_c s) /\
  f_chan s1 = [] /\ f_mgr_dead s1 = false /\ (In t (f_tasks s1) <-> In t (f_tasks s)) /\ poisoned s1 = false.
Proof. exact (manager_wakes s t r0 elapsed). Qed.
Print Assumptions C13_manager_wakes.

Theorem C13_manager_starts s t r0 elapsed :
  FInv s -> MgrKeys s -> poisoned s = false -> f_mgr_dead s = false -> f_chan s = [] ->
  aget (f_mgr s) t = Some r0 -> should_start r0 = true -> knownc (f_c s) t -> stat (f_c s) t <> Some Misbehaving ->
  let s1 := fst (f_manager_tick s elapsed) in
  aget (f_mgr s1) t = Some {| r_status := RRunning; r_pending := r_pending r0 |} /\
  aget (c_retriers (f_c s1)) t = Some RRunning /\ In t (f_tasks s1) /\
  stat (f_c s1) t = (if match stat (f_c s) t with Some SubscriptionError => true | _ => false end then stat (f_c s) t else Some TemporaryUnreachable) /\
  c_db (f_c s1) = c_db (f_c s) /\ f_chan s1 = [] /\ f_mgr_dead s1 = false /\ poisoned s1 = false.
Proof. exact (manager_starts s t r0 elapsed). Qed.
Print Assumptions C13_manager_starts.

(* the manager never panics: starting a retrier of an abandoned or flagged tower marks it failed instead *)
Theorem C13_start_never_panics s t r : snd (retrier_start s t r) = None.
Proof. exact (retrier_start_no_abort s t r). Qed.
Print Assumptions C13_start_never_panics.

(* A tower that keeps failing while something is really pending for it: every attempt leaves the state untouched while
   the back-off goes on (`dropped_only`: everything but the request log and the stale locators the retrier drops from its
   set); when the back-off is exhausted the tower is shown unreachable, its retrier idle (so retrytower is accepted),
   the in-memory set cleared and the database (every pending row) untouched; the wake-up after the auto-retry delay is
   C13_manager_wakes. *)
Theorem C13_gives_up_truthfully ops t a l0 :
  let s := frun f_init ops in poisoned s = false ->
  In t (f_tasks s) -> knownc (f_c s) t -> stat (f_c s) t <> Some Misbehaving ->
  In l0 (retrier_pending s t) -> Prow (c_db (f_c s)) t l0 -> fails a = true ->
  let s' := fst (fstep s (FRetrierRun t [a])) in
  (at_more a = true -> dropped_only t s s' /\ exists e, snd (fstep s (FRetrierRun t [a])) = ORun (OutBackoff e)) /\
  (at_more a = false ->
     (exists e, snd (fstep s (FRetrierRun t [a])) = ORun (OutIdle e)) /\
     stat (f_c s') t = Some Unreachable /\ rstat s' t = Some RIdle /\ retrier_pending s' t = [] /\
     aget (c_retriers (f_c s')) t = Some RIdle /\ c_db (f_c s') = c_db (f_c s) /\ ~ In t (f_tasks s') /\
     retry_allowed s' t = true).
Proof. exact (gives_up_truthfully ops t a l0). Qed.
Print Assumptions C13_gives_up_truthfully.

(* STATUS IS TRUTHFUL also for registertower (fix b2b8ee7): a connection error changes the status of the tower only
   from reachable to temporary unreachable, only when something is pending for it, and then together with a message
   that makes the retry manager take the tower: no tower is left temporary unreachable without a retry loop *)
Theorem C13_register_conn_error_hands_over s t :
  let s' := fst (f_register s t t RConnErr) in
  snd (f_register s t t RConnErr) = OErr E_connection \/ snd (f_register s t t RConnErr) = OPanic (SClient Site_poisoned) ->
  (forall k, stat (f_c s') k = stat (f_c s) k) /\ f_chan s' = f_chan s \/
  (exists su, aget (c_towers (f_c s)) t = Some su /\ su_status su = Reachable /\ su_pending su <> [] /\
     stat (f_c s') t = Some TemporaryUnreachable /\ (forall k, k <> t -> stat (f_c s') k = stat (f_c s) k) /\
     f_chan s' = f_chan s ++ [(t, DStale (su_pending su))]).
Proof. exact (register_conn_error_hands_over s t). Qed.
Print Assumptions C13_register_conn_error_hands_over.

(* non-vacuity of C13_delivers_on_recovery: an outage, the retrier gives up, two more revocations while idle; the
   hypotheses hold and after the three steps nothing is pending *)
Example C13_recovery_example :
  let ops := [FRegister 0 (w_good 1); FRevocation 7 [] [(0, AConnErr)]; FManagerTick []; FManagerTick [];
              FRetrierRun 0 [w_att [] false]; FRevocation 8 [] []; FRevocation 9 [] []] in
  let s := frun f_init ops in
  poisoned s = false /\ f_mgr_dead s = false /\ f_chan s = [] /\
  rstat s 0 = Some RIdle /\ stat (f_c s) 0 = Some Unreachable /\ pending_locators (c_db (f_c s)) 0 = [7; 8; 9] /\
  pending_locators (c_db (f_c (frun s [FManagerTick [0]; FManagerTick []; FRetrierRun 0 [w_att [AAccept 110; AAccept 110; AAccept 110] true]]))) 0 = [].
Proof. vm_compute. repeat split. Qed.

(* non-vacuity: an outage, the retrier started by the manager, recovery, delivery *)
Example C13_delivery_example :
  let s := frun f_init [FRegister 0 (w_good 1); FRevocation 7 [] [(0, AConnErr)]; FManagerTick []; FManagerTick [];
                        FRetrierRun 0 [w_att [] true; w_att [AAccept 110] true]] in
  pending_locators (c_db (f_c s)) 0 = [] /\ f_tasks s = [] /\
  match aget (c_towers (f_c s)) 0 with Some su => su_status su = Reachable | None => False end.
Proof. vm_compute. repeat split. Qed.

(* the former finding D7 as a regression witness (and non-vacuity of C13_success_leaves_nothing_pending): a renewal is
   refused for good (a receipt that does not verify), the tower stays in subscription error with 7 pending and no
   retrier; revocation 8 creates a retrier that holds only 8; the tower accepts again: the run renews, delivers 8 AND 7
   (it used to flag the tower reachable with 7 still pending until a restart) *)
Example C13_former_finding_D7 :
  let bad := {| at_reg := RReceipt 100 10 1100 false; at_adds := []; at_order := []; at_more := true |} in
  let s := frun f_init [FRegister 0 (w_good 1); FRevocation 7 [] [(0, ASubErr)]; FManagerTick []; FManagerTick [];
                        FRetrierRun 0 [bad]; FManagerTick []; FRevocation 8 [] []; FManagerTick []; FManagerTick []] in
  stat (f_c s) 0 = Some SubscriptionError /\ retrier_pending s 0 = [8] /\ pending_locators (c_db (f_c s)) 0 = [7; 8] /\
  f_tasks s = [0] /\
  let a := w_att [AAccept 110; AAccept 110] true in
  snd (run_attempt s 0 a) = RunOk /\
  let s' := frun s [FRetrierRun 0 [a]] in
  stat (f_c s') 0 = Some Reachable /\ pending_locators (c_db (f_c s')) 0 = [] /\
  f_log s' = f_log s ++ [ReqRegister 0; ReqAdd 0 8; ReqAdd 0 7].
Proof. vm_compute. repeat split. Qed.

(* the former defects D3 / D5 as regression witnesses: registertower against a known tower that is down, with nothing
   pending, leaves it reachable (it used to stay temporary unreachable for ever); a retrier started after its tower was
   abandoned is marked failed and dropped by the next tick (it used to panic and kill the retry manager) *)
Example C13_former_defects :
  let s := frun f_init [FRegister 0 (w_good 1); FRegister 0 RConnErr] in
  stat (f_c s) 0 = Some Reachable /\ f_chan s = [] /\
  let s' := frun f_init [FRegister 0 (w_good 1); FRevocation 7 [] [(0, AConnErr)]; FManagerTick []; FAbandon 0; FManagerTick []; FManagerTick []] in
  poisoned s' = false /\ f_mgr_dead s' = false /\ f_mgr s' = [] /\ f_tasks s' = [].
Proof. vm_compute. repeat split. Qed.
