(* C01 — every breach of an accepted appointment is answered with its penalty.
   Statements only; proofs are `exact` of lemmas in TowerBreach.v.

   Vocabulary (TowerBreach.v):
     breach_status sc t p      the status Responder::handle_breach computes for penalty txid p in
                               state t under node answers sc: ConfirmedIn h when p is in the
                               responder's index, InMempoolSince when the node reports it in its
                               mempool, else the carrier's memoised answer for p if any, else the
                               node's answer to sendrawtransaction.  It is a function of the TXID,
                               not of the appointment: two users' identical penalties share one
                               verdict (the carrier's memo pins the node's first answer).
     penalty_handled sc t t' p the penalty was dealt with before the step returned: in the index,
                               or getrawtransaction(p) logged and answered in-mempool, or a
                               sendrawtransaction(p) logged, or p given to the node earlier in this
                               block period (memo).
     responded t' uuid d p s   a tracker row (uuid, dispute d, penalty p) with status s is in t'.
     dropped t' uuid           neither an appointment row nor a tracker row with that uuid is in t'.
   Hypotheses: `Inv t` (unique keys / foreign keys / memory = disk: TowerInv.inv_reachable),
   and, for whole steps, `not_abort x` (a step that aborts is a panic of the process: C11). *)
From TeosModel Require Import Base TxIndex Tower TowerStable TowerInv TowerProofs TowerBreach.
From TeosModel.Gen Require Consts.
Local Open Scope N_scope.

(* ---------- Carrier ---------- *)
Theorem C01_send_transaction_spec sc t tx r t' :
  send_transaction sc t tx = (r, t') ->
  same_tables t t' /\ same_core t t' /\
  match aget (car_memo t) tx with
  | Some r0 => r = r0 /\ t' = t
  | None => r = send_status t (snd (script_get sc tx)) /\
            car_memo t' = (tx, r) :: car_memo t /\
            rpc_log t' = ev_send tx r :: rpc_log t
  end.
Proof. exact (send_transaction_spec sc t tx r t'). Qed.

Theorem C01_in_mempool_spec sc t tx b t' :
  in_mempool sc t tx = (b, t') ->
  b = says_in_mempool sc tx /\ same_tables t t' /\ same_core t t' /\ car_memo t' = car_memo t /\
  rpc_log t' = ev_getraw tx b :: rpc_log t.
Proof. exact (in_mempool_spec sc t tx b t'). Qed.

(* ---------- Responder::handle_breach ---------- *)
Theorem C01_handle_breach_spec sc t uuid d p s t' :
  r_handle_breach sc t uuid d p = Ok s t' ->
  s = breach_status sc t p /\
  same_core t t' /\
  rpc_log t' = breach_events sc t p ++ rpc_log t /\
  car_memo t' = breach_memo sc t p /\
  db_trks t' = breach_trks t uuid d p s.
Proof. exact (handle_breach_spec sc t uuid d p s t'). Qed.

Theorem C01_handle_breach_abort sc t uuid d p site t' :
  r_handle_breach sc t uuid d p = Abort site t' ->
  site = S_r_get_height_unwrap /\ t' = t /\
  exists bh, ti_get (r_index t) p = Some bh /\ ti_get_height (r_index t) bh = None.
Proof. exact (handle_breach_abort sc t uuid d p site t'). Qed.

(* ---------- Watcher, block path (the heart of C01) ---------- *)
(* Every row whose locator is in the block being processed and that has not been responded to
   yet: undecryptable -> only that appointment is dropped; otherwise the penalty is handled before
   the listener returns and, by the verdict on its txid: accepted -> the appointment is from then
   on a tracker with exactly that dispute and penalty; rejected -> only that appointment is
   dropped; neither (the node answered already-in-chain, -27) -> the row stays, no tracker. *)
Theorem C01_block_breaches sc t hash txs h t' :
  Inv t ->
  w_block_connected sc t (cache_block hash txs) h = Ok tt t' ->
  forall a, In a (db_apps t) -> memN (a_loc a) txs = true -> find_trk (db_trks t) (app_uuid a) = None ->
  match decrypt (a_blob a) (a_loc a) with
  | None => dropped t' (app_uuid a)
  | Some p =>
      let s := breach_status sc t p in
      penalty_handled sc t t' p /\
      (status_accepted s = true -> In a (db_apps t') /\ responded t' (app_uuid a) (a_loc a) p s) /\
      (status_rejected s = true -> dropped t' (app_uuid a)) /\
      (status_accepted s = false -> status_rejected s = false ->
       In a (db_apps t') /\ find_trk (db_trks t') (app_uuid a) = None)
  end.
Proof. exact (w_block_connected_breaches sc t hash txs h t'). Qed.

(* frame: the appointments table afterwards is exactly the rows that were not dropped — every row
   whose locator is not in the block is untouched (survives_block = true) —, users are untouched,
   trackers of other locators are untouched, new trackers are made from breached rows only, and
   every RPC of the listener concerns the decrypted penalty of a breached row *)
Theorem C01_block_frame sc t hash txs h t' :
  Inv t ->
  w_block_connected sc t (cache_block hash txs) h = Ok tt t' ->
  db_apps t' = filter (survives_block sc t txs) (db_apps t) /\
  db_users t' = db_users t /\ gk_users t' = gk_users t /\ cfg t' = cfg t /\ gk_height t' = gk_height t /\
  r_index t' = r_index t /\ car_height t' = car_height t /\ reorged t' = reorged t /\ w_height t' = h /\
  (forall k, In k (db_trks t) -> memN (t_loc k) txs = false -> In k (db_trks t')) /\
  (forall k, In k (db_trks t') ->
             In k (db_trks t) \/ exists a, In a (db_apps t) /\ made_from sc t (fun d => In d txs) k a) /\
  (exists evs, rpc_log t' = evs ++ rpc_log t /\
               forall e, In e evs -> exists a, In a (db_apps t) /\ In (a_loc a) txs /\
                                               decrypt (a_blob a) (a_loc a) = Some (r_tx e)).
Proof. exact (w_block_connected_frame sc t hash txs h t'). Qed.

Theorem C01_block_rows_kept sc t hash txs h t' a :
  Inv t -> w_block_connected sc t (cache_block hash txs) h = Ok tt t' ->
  In a (db_apps t) -> memN (a_loc a) txs = false -> In a (db_apps t').
Proof. exact (w_block_connected_rows_kept sc t hash txs h t' a). Qed.

(* verdict by txid: two breached rows whose blobs decrypt to the same penalty share one fate *)
Theorem C01_shared_verdict sc t hash txs h t' a1 a2 p :
  Inv t -> w_block_connected sc t (cache_block hash txs) h = Ok tt t' ->
  In a1 (db_apps t) -> In a2 (db_apps t) ->
  memN (a_loc a1) txs = true -> memN (a_loc a2) txs = true ->
  decrypt (a_blob a1) (a_loc a1) = Some p -> decrypt (a_blob a2) (a_loc a2) = Some p ->
  (In a1 (db_apps t') <-> In a2 (db_apps t')).
Proof. exact (shared_verdict sc t hash txs h t' a1 a2 p). Qed.

(* "from then on reported as dispute_responded with exactly that penalty and dispute": while the
   tracker row is held (until completion / purge / rejection: C04) its owner's get_appointment
   answers with the tracker's dispute and penalty *)
Theorem C01_reported_responded le t sc k ui :
  Inv t -> In k (db_trks t) ->
  amem (gk_users t) (t_user k) = true -> gk_get t (t_user k) = Some ui -> gk_height t < u_expiry ui ->
  step le t (OGet (Some (t_user k)) (t_loc k)) sc = (fresh t, OGetRes (GetTrk (t_dispute k) (t_penalty k))).
Proof. exact (get_reports_responded le t sc k ui). Qed.

(* ---------- Watcher, late path: the dispute is already in the cache when the appointment arrives ---------- *)
(* user_row_ok: the users the gatekeeper knows have their rows in table users (every reachable state:
   TowerInv.inv_user_rows).  Without it the repaired store refuses the appointment after the charge
   (StoredAppointment::UnknownUser) and "refused = state unchanged" would not hold. *)
Theorem C01_add_triggered sc t signer loc b delay sig d r t' :
  (forall u, user_row_ok t u) ->
  ti_get (w_cache t) loc = Some d ->
  w_add_appointment sc t signer loc b delay sig = Ok r t' ->
  match r with
  | AddOk st sg sl e =>
      exists u, signer = Some u /\ st = w_height t /\ sg = sig /\
        let a := mk_app loc u b delay sig (w_height t) in
        find_trk (db_trks t) (loc, u) = None /\
        others_kept t t' (loc, u) /\
        match decrypt b d with
        | None => dropped t' (loc, u) /\ rpc_log t' = rpc_log t
        | Some p =>
            let s := breach_status sc t p in
            rpc_log t' = breach_events sc t p ++ rpc_log t /\
            penalty_handled sc t t' p /\
            (status_accepted s = true -> find_app (db_apps t') (loc, u) = Some a /\ responded t' (loc, u) d p s) /\
            (status_rejected s = true -> dropped t' (loc, u)) /\
            (status_accepted s = false -> status_rejected s = false ->
             find_app (db_apps t') (loc, u) = Some a /\ find_trk (db_trks t') (loc, u) = None)
        end
  | _ => t' = t
  end.
Proof. exact (add_appointment_triggered sc t signer loc b delay sig d r t'). Qed.

(* ... and when the cache does not hold the locator: stored exactly as submitted, nothing else *)
Theorem C01_add_stored sc t signer loc b delay sig r t' :
  (forall u, user_row_ok t u) ->
  ti_get (w_cache t) loc = None ->
  w_add_appointment sc t signer loc b delay sig = Ok r t' ->
  match r with
  | AddOk st sg sl e =>
      exists u, signer = Some u /\ st = w_height t /\ sg = sig /\
        find_app (db_apps t') (loc, u) = Some (mk_app loc u b delay sig (w_height t)) /\
        others_kept t t' (loc, u) /\
        db_trks t' = db_trks t /\ rpc_log t' = rpc_log t /\ car_memo t' = car_memo t
  | _ => t' = t
  end.
Proof. exact (add_appointment_stored sc t signer loc b delay sig r t'). Qed.

(* watch_until_triggered: "while the owner's data is still held" is the only escape *)
Theorem C01_watch_until_triggered le t o sc t' x a :
  Inv t -> step le t o sc = (t', x) -> not_abort x ->
  In a (db_apps t) -> find_trk (db_trks t) (app_uuid a) = None ->
  In a (db_apps t') \/
  (exists hash txs, o = OConnect hash txs /\ memN (a_loc a) txs = true) \/
  (exists hash txs tg, o = OConnect hash txs /\
                       gk_block_connected (fresh t) (gk_height t + 1) = Ok tt tg /\
                       amem (db_users t) (a_user a) = true /\ amem (db_users tg) (a_user a) = false) \/
  (exists b delay sig, o = OAdd (Some (a_user a)) (a_loc a) b delay sig).
Proof. exact (watch_until_triggered le t o sc t' x a). Qed.

(* ---------- the whole Connect step (gatekeeper, watcher, responder in the generated order) ---------- *)
Theorem C01_listener_order : Consts.LISTENER_ORDER = [0; 1; 2]%Z.
Proof. reflexivity. Qed.

Theorem C01_connect_step le t hash txs sc t' x tg :
  Inv t -> step le t (OConnect hash txs) sc = (t', x) -> not_abort x ->
  gk_block_connected (fresh t) (gk_height t + 1) = Ok tt tg ->
  forall a, In a (db_apps tg) -> memN (a_loc a) txs = true -> find_trk (db_trks t) (app_uuid a) = None ->
  match decrypt (a_blob a) (a_loc a) with
  | None => dropped t' (app_uuid a)
  | Some p =>
      let s := breach_status sc t p in
      penalty_handled sc t t' p /\
      (status_accepted s = true ->
       touchable txs (gk_height t + 1) (reorged t) (new_trk (app_uuid a) (a_loc a) p s) = false ->
       In a (db_apps t') /\ In (new_trk (app_uuid a) (a_loc a) p s) (db_trks t')) /\
      (status_rejected s = true -> dropped t' (app_uuid a)) /\
      (status_accepted s = false -> status_rejected s = false ->
       In a (db_apps t') /\ find_trk (db_trks t') (app_uuid a) = None)
  end.
Proof. exact (connect_step_breaches le t hash txs sc t' x tg). Qed.

Theorem C01_fresh_tracker_untouchable txs h R uuid d p s :
  memN p txs = false -> mem_uuid uuid R = false ->
  (forall hk, s = ConfirmedIn hk -> h - hk <> Z.to_N Consts.IRREVOCABLY_RESOLVED) ->
  (forall hm, s = InMempoolSince hm -> h - Z.to_N Consts.CONFIRMATIONS_BEFORE_RETRY < hm) ->
  status_accepted s = true ->
  touchable txs h R (new_trk uuid d p s) = false.
Proof. exact (fresh_tracker_untouchable txs h R uuid d p s). Qed.

Print Assumptions C01_send_transaction_spec.
Print Assumptions C01_in_mempool_spec.
Print Assumptions C01_handle_breach_spec.
Print Assumptions C01_handle_breach_abort.
Print Assumptions C01_block_breaches.
Print Assumptions C01_block_frame.
Print Assumptions C01_block_rows_kept.
Print Assumptions C01_shared_verdict.
Print Assumptions C01_reported_responded.
Print Assumptions C01_add_triggered.
Print Assumptions C01_add_stored.
Print Assumptions C01_watch_until_triggered.
Print Assumptions C01_listener_order.
Print Assumptions C01_connect_step.
Print Assumptions C01_fresh_tracker_untouchable.

(* ---------- non-vacuity: concrete histories (vm_compute) ---------- *)
Definition C01_ex_c0 := mk_config 10 1000 6.
Definition C01_ex_blocks0 : list (N * list N) := [(1006,[]);(1005,[]);(1004,[]);(1003,[]);(1002,[]);(1001,[])].
Definition C01_ex_dummy := mk_tower C01_ex_c0 [] 0 [] [] [] 0 (mk_txindex [] [] [] 0 0) (mk_txindex [] [] [] 0 0) 0 [] [] [].
Definition C01_ex_t0 := match init C01_ex_c0 200 C01_ex_blocks0 with Some t => t | None => C01_ex_dummy end.
Definition C01_ex_good := mk_blob 500 (Some 900) 100.        (* decrypts with dispute 500 to penalty 900 *)
Definition C01_ex_garbage := mk_blob 501 (Some 900) 100.     (* does not decrypt with dispute 500 *)
(* user 1 registers and hands over an appointment for locator 500 *)
Definition C01_ex_pre (b : blob) : list (op * script) := [(ORegister 1, []); (OAdd (Some 1) 500 b 20 77, [])].
Definition C01_ex_summary (t : tower) :=
  (map app_uuid (db_apps t), map (fun k => (trk_uuid k, t_dispute k, t_penalty k)) (db_trks t),
   map (fun e => (r_kind e, r_tx e)) (rpc_log t)).
Definition C01_ex_after (t : tower) (h : list (op * script)) := let '(t', outs) := run true t h in (last outs OBlockRes, C01_ex_summary t').

(* the block with dispute 500 arrives, the node takes the penalty: tracker (500,1) -> (500, 900) *)
Example C01_ex_breach_answered :
  C01_ex_after C01_ex_t0 (C01_ex_pre C01_ex_good ++ [(OConnect 2001 [500], [(900, (G_not_found, A_ok))])])
  = (OBlockRes, ([(500, 1)], [((500, 1), 500, 900)], [(K_send, 900); (K_getraw, 900)])).
Proof. vm_compute. reflexivity. Qed.
Example C01_ex_breach_answered_reported :
  fst (C01_ex_after C01_ex_t0 (C01_ex_pre C01_ex_good ++ [(OConnect 2001 [500], [(900, (G_not_found, A_ok))]); (OGet (Some 1) 500, [])]))
  = OGetRes (GetTrk 500 900).
Proof. vm_compute. reflexivity. Qed.

(* C01_ex_garbage blob: only that appointment is dropped, nothing is sent *)
Example C01_ex_breach_garbage :
  C01_ex_after C01_ex_t0 (C01_ex_pre C01_ex_garbage ++ [(OConnect 2001 [500], [])]) = (OBlockRes, ([], [], [])).
Proof. vm_compute. reflexivity. Qed.

(* the node rejects the penalty (-26): dropped *)
Example C01_ex_breach_rejected :
  C01_ex_after C01_ex_t0 (C01_ex_pre C01_ex_good ++ [(OConnect 2001 [500], [(900, (G_not_found, A_code (-26)))])])
  = (OBlockRes, ([], [], [(K_send, 900); (K_getraw, 900)])).
Proof. vm_compute. reflexivity. Qed.

(* the node answers already-in-chain (-27): neither accepted nor rejected; the row stays, no tracker *)
Example C01_ex_breach_already_in_chain :
  C01_ex_after C01_ex_t0 (C01_ex_pre C01_ex_good ++ [(OConnect 2001 [500], [(900, (G_not_found, A_code (-27)))])])
  = (OBlockRes, ([(500, 1)], [], [(K_send, 900); (K_getraw, 900)])).
Proof. vm_compute. reflexivity. Qed.
Example C01_ex_breach_already_in_chain_reported :
  fst (C01_ex_after C01_ex_t0 (C01_ex_pre C01_ex_good ++ [(OConnect 2001 [500], [(900, (G_not_found, A_code (-27)))]); (OGet (Some 1) 500, [])]))
  = OGetRes (GetApp 500 C01_ex_good 20).
Proof. vm_compute. reflexivity. Qed.

(* late path: the dispute is already in the cache; the node has the penalty in its mempool *)
Example C01_ex_late_breach_answered :
  C01_ex_after C01_ex_t0 [(ORegister 1, []); (OConnect 2001 [500], []); (OAdd (Some 1) 500 C01_ex_good 20 77, [(900, (G_in_mempool, A_ok))])]
  = (OAddRes (AddOk 201 77 9 1200), ([(500, 1)], [((500, 1), 500, 900)], [(K_getraw, 900)])).
Proof. vm_compute. reflexivity. Qed.

(* verdict by txid: two users, one penalty: one sendrawtransaction, one verdict for both *)
Definition C01_ex_two_users : list (op * script) :=
  [(ORegister 1, []); (ORegister 2, []); (OAdd (Some 1) 500 C01_ex_good 20 77, []); (OAdd (Some 2) 500 C01_ex_good 20 78, [])].
Example C01_ex_shared_verdict_accepted :
  C01_ex_after C01_ex_t0 (C01_ex_two_users ++ [(OConnect 2001 [500], [])])
  = (OBlockRes, ([(500, 1); (500, 2)], [((500, 1), 500, 900); ((500, 2), 500, 900)],
                 [(K_getraw, 900); (K_send, 900); (K_getraw, 900)])).
Proof. vm_compute. reflexivity. Qed.
Example C01_ex_shared_verdict_rejected :
  C01_ex_after C01_ex_t0 (C01_ex_two_users ++ [(OConnect 2001 [500], [(900, (G_not_found, A_code (-26)))])])
  = (OBlockRes, ([], [], [(K_getraw, 900); (K_send, 900); (K_getraw, 900)])).
Proof. vm_compute. reflexivity. Qed.

(* the corner of the whole-step theorem: the penalty is found in the responder's index exactly
   IRREVOCABLY_RESOLVED blocks deep; the tracker the watcher creates completes in the same step
   (appointment and tracker gone, slot refunded: 10 slots again) *)
Definition C01_ex_blocks100 : list (N * list N) :=
  map (fun i => (1000 + N.of_nat i, if Nat.eqb i 99 then [900] else [])) (seq 0 100).
Definition C01_ex_t100 := match init C01_ex_c0 200 C01_ex_blocks100 with Some t => t | None => C01_ex_dummy end.
Example C01_ex_corner_status : breach_status [] (fst (run true C01_ex_t100 (C01_ex_pre C01_ex_good))) 900 = ConfirmedIn 101.
Proof. vm_compute. reflexivity. Qed.
Example C01_ex_corner_completes_immediately :
  (let '(t', outs) := run true C01_ex_t100 (C01_ex_pre C01_ex_good ++ [(OConnect 2001 [500], [])]) in (outs, C01_ex_summary t', db_users t'))
  = ([ORegisterRes (RegOk 10 200 1200); OAddRes (AddOk 200 77 9 1200); OBlockRes], ([], [], []),
     [(1, mk_uinfo 10 200 1200)]).
Proof. vm_compute. reflexivity. Qed.

(* the hypotheses of C01_block_breaches are satisfiable together, with an accepted verdict *)
Example C01_ex_block_breaches_nonvacuous :
  exists t t' a p,
    Inv t /\ w_block_connected [] t (cache_block 2001 [500]) 201 = Ok tt t' /\
    In a (db_apps t) /\ memN (a_loc a) [500] = true /\ find_trk (db_trks t) (app_uuid a) = None /\
    decrypt (a_blob a) (a_loc a) = Some p /\ status_accepted (breach_status [] t p) = true.
Proof.
  exists (fst (run true C01_ex_t0 (C01_ex_pre C01_ex_good))).
  eexists. exists (mk_app 500 1 C01_ex_good 20 77 200), 900.
  split.
  { apply (inv_reachable true C01_ex_c0 200 C01_ex_blocks0 C01_ex_t0 (C01_ex_pre C01_ex_good)); [reflexivity|].
    vm_compute. repeat constructor. }
  split; [vm_compute; reflexivity|].
  split; [vm_compute; left; reflexivity|]. repeat split; vm_compute; reflexivity.
Qed.

(* ================================================================================================ *)
(* RUN LEVEL (TowerRuns.v): the statements above hold at every moment of every history.
   A moment is a cut  h = pre ++ (o, sc) :: post  of the history: the step starts from
   fst (run le t0 pre) and leaves fst (run le t0 (pre ++ [(o, sc)])).  Hypotheses: a bootstrapped tower
   (TowerLive.big_init) and a history inside the envelope / chain discipline of TowerLive.v (C11: then no
   step aborts).  Proved by induction over the run. *)
From TeosModel Require Import TowerReorg TowerLive TowerRuns.

(* "the tower ... submits the resulting penalty transaction before it finishes handling that block":
   along EVERY history, EVERY block connection (gatekeeper tg, watcher tw, responder t' in the generated
   order) answers EVERY appointment row that is present before the step, whose locator is in the block,
   that has not been responded to yet and whose owner survives this block's purge (height + 1 < expiry +
   grace).  breach_outcome_w is the conclusion of C01_block_breaches (about the watcher's pass tg -> tw),
   breach_outcome_step the conclusion of C01_connect_step (about the whole step t -> t'). *)
Theorem C01_every_breach_answered_run le c h0 blocks t0 h pre hash txs sc post :
  init c h0 blocks = Some t0 -> NoDup (map fst blocks) -> N.of_nat (length blocks) <= h0 ->
  in_envelope le t0 h = true -> chain_disciplined le t0 h = true ->
  h = pre ++ (OConnect hash txs, sc) :: post ->
  let t := fst (run le t0 pre) in
  exists tg tw t',
    gk_block_connected (fresh t) (gk_height t + 1) = Ok tt tg /\
    w_block_connected sc tg (cache_block hash txs) (gk_height t + 1) = Ok tt tw /\
    r_block_connected le sc tw (index_block hash txs) (gk_height t + 1) = Ok tt t' /\
    step le t (OConnect hash txs) sc = (t', OBlockRes) /\
    fst (run le t0 (pre ++ [(OConnect hash txs, sc)])) = t' /\
    forall a ui,
      In a (db_apps t) -> memN (a_loc a) txs = true -> find_trk (db_trks t) (app_uuid a) = None ->
      aget (db_users t) (a_user a) = Some ui -> gk_height t + 1 < u_expiry ui + c_delta (cfg t) ->
      In a (db_apps tg) /\ breach_outcome_w sc tg tw a /\ breach_outcome_step sc txs t t' a.
Proof. exact (breach_answered_run le c h0 blocks t0 h pre hash txs sc post). Qed.

(* the vocabulary, unfolded *)
Theorem C01_breach_outcome_w_eq sc tg tw a :
  breach_outcome_w sc tg tw a =
  match decrypt (a_blob a) (a_loc a) with
  | None => dropped tw (app_uuid a)
  | Some p =>
      let s := breach_status sc tg p in
      penalty_handled sc tg tw p /\
      (status_accepted s = true -> In a (db_apps tw) /\ responded tw (app_uuid a) (a_loc a) p s) /\
      (status_rejected s = true -> dropped tw (app_uuid a)) /\
      (status_accepted s = false -> status_rejected s = false ->
       In a (db_apps tw) /\ find_trk (db_trks tw) (app_uuid a) = None)
  end.
Proof. reflexivity. Qed.

Theorem C01_breach_outcome_step_eq sc txs t t' a :
  breach_outcome_step sc txs t t' a =
  match decrypt (a_blob a) (a_loc a) with
  | None => dropped t' (app_uuid a)
  | Some p =>
      let s := breach_status sc t p in
      penalty_handled sc t t' p /\
      (status_accepted s = true ->
       touchable txs (gk_height t + 1) (reorged t) (new_trk (app_uuid a) (a_loc a) p s) = false ->
       In a (db_apps t') /\ In (new_trk (app_uuid a) (a_loc a) p s) (db_trks t')) /\
      (status_rejected s = true -> dropped t' (app_uuid a)) /\
      (status_accepted s = false -> status_rejected s = false ->
       In a (db_apps t') /\ find_trk (db_trks t') (app_uuid a) = None)
  end.
Proof. reflexivity. Qed.

(* "... or was confirmed in one of the six most recent blocks when the appointment was accepted ... before
   answering the request": along EVERY history, EVERY add_appointment whose locator is in the watcher's
   cache at that moment is answered as C01_add_triggered states (late_outcome is its conclusion, with the
   step's own RPC log: it starts empty). *)
Theorem C01_late_breach_answered_run le c h0 blocks t0 h pre signer loc b delay sig sc post d :
  init c h0 blocks = Some t0 -> NoDup (map fst blocks) -> N.of_nat (length blocks) <= h0 ->
  in_envelope le t0 h = true -> chain_disciplined le t0 h = true ->
  h = pre ++ (OAdd signer loc b delay sig, sc) :: post ->
  let t := fst (run le t0 pre) in
  ti_get (w_cache t) loc = Some d ->
  exists r t', step le t (OAdd signer loc b delay sig) sc = (t', OAddRes r) /\
               fst (run le t0 (pre ++ [(OAdd signer loc b delay sig, sc)])) = t' /\
               late_outcome sc t t' signer loc b delay sig d r.
Proof. exact (late_breach_answered_run le c h0 blocks t0 h pre signer loc b delay sig sc post d). Qed.

Theorem C01_late_outcome_eq sc t t' signer loc b delay sig d r :
  late_outcome sc t t' signer loc b delay sig d r =
  match r with
  | AddOk st sg sl e =>
      exists u, signer = Some u /\ st = w_height t /\ sg = sig /\
        let a := mk_app loc u b delay sig (w_height t) in
        find_trk (db_trks t) (loc, u) = None /\
        others_kept t t' (loc, u) /\
        match decrypt b d with
        | None => dropped t' (loc, u) /\ rpc_log t' = []
        | Some p =>
            let s := breach_status sc t p in
            rpc_log t' = breach_events sc t p /\
            penalty_handled sc t t' p /\
            (status_accepted s = true -> find_app (db_apps t') (loc, u) = Some a /\ responded t' (loc, u) d p s) /\
            (status_rejected s = true -> dropped t' (loc, u)) /\
            (status_accepted s = false -> status_rejected s = false ->
             find_app (db_apps t') (loc, u) = Some a /\ find_trk (db_trks t') (loc, u) = None)
        end
  | _ => t' = fresh t
  end.
Proof. reflexivity. Qed.

(* the life of a tracker, ONE STEP, both directions: after the step the tracker is gone iff trk_end_of names
   one of five reasons (all of them block connections: owner purged at expiry + grace; dispute mined again
   and the appointment dropped by the watcher; rejected on re-submission after a reorg; completed at
   IRREVOCABLY_RESOLVED confirmations; rejected on the stale re-broadcast); otherwise it is still there with
   the same dispute and penalty *)
Theorem C01_tracker_fate le t o sc t' x uuid k :
  Inv t -> step le t o sc = (t', x) -> not_abort x -> find_trk (db_trks t) uuid = Some k ->
  match trk_end_of t o sc uuid with
  | Some _ => find_trk (db_trks t') uuid = None
  | None => exists k', find_trk (db_trks t') uuid = Some k' /\ t_dispute k' = t_dispute k /\ t_penalty k' = t_penalty k
  end.
Proof. exact (tracker_fate le t o sc t' x uuid k). Qed.

(* what the five reasons are (trk_end_of read backwards; the C04 theorems say what else happens then) *)
Theorem C01_tracker_end_reasons t o sc uuid why :
  trk_end_of t o sc uuid = Some why ->
  exists hash txs k ui,
    o = OConnect hash txs /\ find_trk (db_trks t) uuid = Some k /\ aget (db_users t) (snd uuid) = Some ui /\
    match why with
    | E_purged => u_expiry ui + c_delta (cfg t) <= gk_height t + 1
    | _ =>
        gk_height t + 1 < u_expiry ui + c_delta (cfg t) /\
        exists tg a, gk_block_connected (fresh t) (gk_height t + 1) = Ok tt tg /\ find_app (db_apps tg) uuid = Some a /\
        match why with
        | E_dropped_by_watcher => survives_block sc tg txs a = false
        | _ =>
            survives_block sc tg txs a = true /\
            exists tw, w_block_connected sc tg (cache_block hash txs) (gk_height t + 1) = Ok tt tw /\
            memN (t_penalty k) txs = false /\
            match why with
            | E_reorg_rejected =>
                mem_uuid (trk_uuid k) (reorged t) = true /\
                (status_rejected (blk_eff sc tw (gk_height t + 1) (t_dispute k)) = true \/
                 status_rejected (blk_eff sc tw (gk_height t + 1) (t_penalty k)) = true)
            | E_completed =>
                mem_uuid (trk_uuid k) (reorged t) = false /\ t_conf k = true /\ gk_height t + 1 - t_height k = IRR
            | E_stale_rejected =>
                mem_uuid (trk_uuid k) (reorged t) = false /\ t_conf k = false /\
                t_height k <= gk_height t + 1 - RETRY /\
                status_rejected (blk_eff sc tw (gk_height t + 1) (t_penalty k)) = true
            | _ => False
            end
        end
    end.
Proof. exact (trk_end_of_meaning t o sc uuid why). Qed.

(* "from then on reported as dispute_responded with exactly that penalty and dispute" — until: once a tracker
   exists after some prefix `pre` of a run, along every continuation `mid` in which no step is an ending
   step for it, it is still there with that dispute and penalty, and EVERY get_appointment of its owner for
   that locator on the way answers GetTrk dispute penalty — or, when the owner's subscription has expired
   (height >= expiry, before the purge at expiry + grace), the subscription-expired error of C09: the
   literal "reported as dispute_responded" is false in that window (C01_responded_forever_refuted). *)
Theorem C01_responded_forever_run le c h0 blocks t0 h pre mid post uuid k :
  init c h0 blocks = Some t0 -> NoDup (map fst blocks) -> N.of_nat (length blocks) <= h0 ->
  in_envelope le t0 h = true -> chain_disciplined le t0 h = true ->
  h = pre ++ mid ++ post ->
  find_trk (db_trks (fst (run le t0 pre))) uuid = Some k ->
  (forall m1 o sc m2, mid = m1 ++ (o, sc) :: m2 -> trk_end_of (fst (run le t0 (pre ++ m1))) o sc uuid = None) ->
  (exists k', find_trk (db_trks (fst (run le t0 (pre ++ mid)))) uuid = Some k' /\
              t_dispute k' = t_dispute k /\ t_penalty k' = t_penalty k) /\
  (forall m1 sc m2, mid = m1 ++ (OGet (Some (snd uuid)) (fst uuid), sc) :: m2 ->
     let t := fst (run le t0 (pre ++ m1)) in
     exists ui, gk_get t (snd uuid) = Some ui /\
       snd (step le t (OGet (Some (snd uuid)) (fst uuid)) sc) =
       OGetRes (if N.leb (u_expiry ui) (gk_height t) then GetExpired (u_expiry ui)
                else GetTrk (t_dispute k) (t_penalty k))).
Proof. exact (responded_forever_run le c h0 blocks t0 h pre mid post uuid k). Qed.

(* ... and at EVERY step of a run: gone afterwards iff it is an ending step *)
Theorem C01_tracker_end_exact_run le c h0 blocks t0 h pre o sc post uuid k :
  init c h0 blocks = Some t0 -> NoDup (map fst blocks) -> N.of_nat (length blocks) <= h0 ->
  in_envelope le t0 h = true -> chain_disciplined le t0 h = true ->
  h = pre ++ (o, sc) :: post ->
  find_trk (db_trks (fst (run le t0 pre))) uuid = Some k ->
  match trk_end_of (fst (run le t0 pre)) o sc uuid with
  | Some _ => find_trk (db_trks (fst (run le t0 (pre ++ [(o, sc)])))) uuid = None
  | None => exists k', find_trk (db_trks (fst (run le t0 (pre ++ [(o, sc)])))) uuid = Some k' /\
                       t_dispute k' = t_dispute k /\ t_penalty k' = t_penalty k
  end.
Proof. exact (tracker_end_exact_run le c h0 blocks t0 h pre o sc post uuid k). Qed.

(* the "until" hypothesis is a computation on concrete histories *)
Theorem C01_never_ends_cuts le mid t uuid :
  Forall not_abort (snd (run le t mid)) -> never_ends le t mid uuid = true ->
  forall m1 o sc m2, mid = m1 ++ (o, sc) :: m2 -> trk_end_of (fst (run le t m1)) o sc uuid = None.
Proof. exact (never_ends_cuts le mid t uuid). Qed.

Print Assumptions C01_every_breach_answered_run.
Print Assumptions C01_breach_outcome_w_eq.
Print Assumptions C01_breach_outcome_step_eq.
Print Assumptions C01_late_breach_answered_run.
Print Assumptions C01_late_outcome_eq.
Print Assumptions C01_tracker_fate.
Print Assumptions C01_tracker_end_reasons.
Print Assumptions C01_responded_forever_run.
Print Assumptions C01_tracker_end_exact_run.
Print Assumptions C01_never_ends_cuts.

(* ---------- non-vacuity of the run-level statements: one concrete history ---------- *)
(* user 1 (duration 3, grace 2) hands over (500 -> 900); block 2001 carries the dispute, the node takes
   the penalty; the owner reads it back; blocks 2002.. pass: at height 203 the subscription has expired
   (reads answer SubscriptionExpired), at height 205 = expiry + grace the user is purged with the tracker *)
Definition C01_ex_c3 := mk_config 10 3 2.
Definition C01_ex_t3 := match init C01_ex_c3 200 C01_ex_blocks0 with Some t => t | None => C01_ex_dummy end.
Definition C01_ex_run_pre : list (op * script) := C01_ex_pre C01_ex_good.
Definition C01_ex_run_connect : op * script := (OConnect 2001 [500], [(900, (G_not_found, A_ok))]).
Definition C01_ex_run_mid : list (op * script) :=
  [(OGet (Some 1) 500, []); (OConnect 2002 [], []); (OGet (Some 1) 500, []); (OConnect 2003 [], []); (OGet (Some 1) 500, []);
   (OConnect 2004 [], [])].
Definition C01_ex_run_post : list (op * script) := [(OConnect 2005 [], []); (OGet (Some 1) 500, [])].
Definition C01_ex_run_hist := C01_ex_run_pre ++ C01_ex_run_connect :: C01_ex_run_mid ++ C01_ex_run_post.

Lemma C01_ex_blocks0_nodup : NoDup (map fst C01_ex_blocks0).
Proof. repeat (constructor; [cbn; intuition discriminate|]). constructor. Qed.

Example C01_ex_run_hyps :
  init C01_ex_c3 200 C01_ex_blocks0 = Some C01_ex_t3 /\ N.of_nat (length C01_ex_blocks0) <= 200 /\
  in_envelope true C01_ex_t3 C01_ex_run_hist = true /\ chain_disciplined true C01_ex_t3 C01_ex_run_hist = true.
Proof. repeat split; vm_compute; try reflexivity. discriminate. Qed.

(* the premises of C01_every_breach_answered_run about the row hold at the cut before block 2001 ... *)
Example C01_ex_run_breach_premises :
  let t := fst (run true C01_ex_t3 C01_ex_run_pre) in
  let a := mk_app 500 1 C01_ex_good 20 77 200 in
  In a (db_apps t) /\ memN (a_loc a) [500] = true /\ find_trk (db_trks t) (app_uuid a) = None /\
  aget (db_users t) (a_user a) = Some (mk_uinfo 9 200 203) /\ gk_height t + 1 < 203 + c_delta (cfg t).
Proof. vm_compute. repeat split; try reflexivity. left. reflexivity. Qed.

(* ... and the theorem then yields the tracker (500, 900) in that step *)
Example C01_ex_run_breach_applied :
  exists tw t', fst (run true C01_ex_t3 (C01_ex_run_pre ++ [C01_ex_run_connect])) = t' /\
    In (mk_app 500 1 C01_ex_good 20 77 200) (db_apps tw) /\
    responded tw (500, 1) 500 900 (InMempoolSince 200).
Proof.
  destruct C01_ex_run_hyps as [Hi [Hlen [He Hc]]].
  destruct (C01_every_breach_answered_run true C01_ex_c3 200 C01_ex_blocks0 C01_ex_t3 C01_ex_run_hist
              C01_ex_run_pre 2001 [500] [(900, (G_not_found, A_ok))] (C01_ex_run_mid ++ C01_ex_run_post)
              Hi C01_ex_blocks0_nodup Hlen He Hc eq_refl) as [tg [tw [t' [Eg [_ [_ [_ [Erun Hall]]]]]]]].
  destruct C01_ex_run_breach_premises as [P1 [P2 [P3 [P4 P5]]]].
  destruct (Hall _ _ P1 P2 P3 P4 P5) as [_ [Hw _]].
  exists tw, t'. split; [exact Erun|].
  unfold breach_outcome_w in Hw. cbn [a_blob a_loc decrypt C01_ex_good b_key b_pay] in Hw.
  change (N.eqb 500 500) with true in Hw. cbv iota zeta in Hw. destruct Hw as [_ [Hacc _]].
  assert (Es : breach_status [(900, (G_not_found, A_ok))] tg 900 = InMempoolSince 200).
  { revert Eg. vm_compute. intros Eg. injection Eg as <-. reflexivity. }
  rewrite Es in Hacc. exact (Hacc eq_refl).
Qed.

(* the tracker exists after block 2001; no step of C01_ex_run_mid ends it (computed); so it is reported at every read on the
   way: DisputeResponded (500, 900) at heights 201 and 202, SubscriptionExpired 203 at height 203 *)
Example C01_ex_run_forever_applied :
  let pre := C01_ex_run_pre ++ [C01_ex_run_connect] in
  never_ends true (fst (run true C01_ex_t3 pre)) C01_ex_run_mid (500, 1) = true /\
  map (fun i => snd (step true (fst (run true C01_ex_t3 (pre ++ firstn i C01_ex_run_mid))) (OGet (Some 1) 500) [])) [0; 2; 4]%nat
  = [OGetRes (GetTrk 500 900); OGetRes (GetTrk 500 900); OGetRes (GetExpired 203)] /\
  (* the next block (height 205 = 203 + 2) is the ending step: owner purged *)
  trk_end_of (fst (run true C01_ex_t3 (pre ++ C01_ex_run_mid))) (OConnect 2005 []) [] (500, 1) = Some E_purged /\
  find_trk (db_trks (fst (run true C01_ex_t3 (pre ++ C01_ex_run_mid ++ [(OConnect 2005 [], [])])))) (500, 1) = None.
Proof. vm_compute. repeat split; reflexivity. Qed.

(* the literal reading ("reported as dispute_responded as long as the tracker is held") is FALSE of the model:
   between expiry and expiry + grace the tracker is held and the owner's read is answered SubscriptionExpired.
   This is the behaviour C09 demands of an expired subscription, not a defect: recorded as a caveat of C01. *)
Theorem C01_responded_forever_refuted :
  exists le c h0 blocks t0 h k sc,
    init c h0 blocks = Some t0 /\ NoDup (map fst blocks) /\ N.of_nat (length blocks) <= h0 /\
    in_envelope le t0 h = true /\ chain_disciplined le t0 h = true /\
    find_trk (db_trks (fst (run le t0 h))) (t_loc k, t_user k) = Some k /\
    snd (step le (fst (run le t0 h)) (OGet (Some (t_user k)) (t_loc k)) sc) <> OGetRes (GetTrk (t_dispute k) (t_penalty k)).
Proof.
  exists true, C01_ex_c3, 200, C01_ex_blocks0, C01_ex_t3,
         (C01_ex_run_pre ++ C01_ex_run_connect :: firstn 4 C01_ex_run_mid), (mk_trk 500 1 500 900 200 false), [].
  split; [vm_compute; reflexivity|]. split; [exact C01_ex_blocks0_nodup|]. split; [vm_compute; discriminate|].
  split; [vm_compute; reflexivity|]. split; [vm_compute; reflexivity|]. split; [vm_compute; reflexivity|].
  vm_compute. discriminate.
Qed.
Print Assumptions C01_responded_forever_refuted.

(* the five ending reasons are all reachable: completion at 100 confirmations on a concrete chain *)
Example C01_ex_run_completed :
  let pre := C01_ex_pre C01_ex_good ++ [(OConnect 2001 [500], []); (OConnect 2002 [900], [])]
             ++ map (fun i => (OConnect (3000 + N.of_nat i) [], [])) (seq 0 99) in
  let t := fst (run true C01_ex_t0 pre) in
  gk_height t = 301 /\ trk_end_of t (OConnect 4000 []) [] (500, 1) = Some E_completed /\
  find_trk (db_trks (fst (step true t (OConnect 4000 []) []))) (500, 1) = None.
Proof. vm_compute. repeat split; reflexivity. Qed.
