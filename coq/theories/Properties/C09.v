(* C09 — subscriptions expire, renew and are purged at exactly the promised heights.
   Statements only; proofs are `exact` of lemmas in TowerSubs.v / TowerProofs.v. *)
From TeosModel Require Import Base TxIndex Tower TowerStable TowerInv TowerProofs TowerSubs.
From TeosModel.Gen Require Consts.
Local Open Scope N_scope.

(* A subscription created at height h: start = h, expiry = h + duration, the configured slots
   (inside the envelope h + duration < 2^32). *)
Theorem C09_register_new le t sc u :
  gk_get t u = None -> amem (db_users t) u = false -> gk_height t + c_duration (cfg t) <= U32MAX ->
  step le t (ORegister u) sc =
    (p_new_user (fresh t) u (mk_uinfo (c_slots (cfg t)) (gk_height t) (gk_height t + c_duration (cfg t))),
     ORegisterRes (RegOk (c_slots (cfg t)) (gk_height t) (gk_height t + c_duration (cfg t)))).
Proof. exact (register_new le t sc u). Qed.

(* Outside the envelope the first registration aborts the handler (recorded finding F12b). *)
Theorem C09_register_new_overflow_refuted le t sc u :
  gk_get t u = None -> U32MAX < gk_height t + c_duration (cfg t) ->
  step le t (ORegister u) sc = (fresh t, OAbort S_gk_new_user_expiry_overflow).
Proof. exact (register_new_overflow le t sc u). Qed.

(* Every renewal pushes the expiry back by one duration (saturating at u32::MAX), tops the slots
   up by the configured amount and keeps the start. *)
Theorem C09_register_renew le t sc u ui :
  gk_get t u = Some ui -> u_slots ui + c_slots (cfg t) <= U32MAX ->
  let e := N.min U32MAX (u_expiry ui + c_duration (cfg t)) in
  let ui' := mk_uinfo (u_slots ui + c_slots (cfg t)) (u_start ui) e in
  step le t (ORegister u) sc = (p_set_user (fresh t) u ui', ORegisterRes (RegOk (u_slots ui') (u_start ui) e)).
Proof. exact (register_renew le t sc u ui). Qed.

Theorem C09_register_max_slots le t sc u ui :
  gk_get t u = Some ui -> U32MAX < u_slots ui + c_slots (cfg t) ->
  step le t (ORegister u) sc = (fresh t, ORegisterRes RegMaxSlots).
Proof. exact (register_max_slots le t sc u ui). Qed.

(* The gate: usable exactly while the tower's height is below the expiry (success implies
   `authentic`, i.e. height < expiry: C06); at or after it the reply states the expiry. *)
Theorem C09_expired_states_expiry le t sc u ui loc b delay sig :
  amem (gk_users t) u = true -> gk_get t u = Some ui -> u_expiry ui <= gk_height t ->
  step le t (OAdd (Some u) loc b delay sig) sc = (fresh t, OAddRes (AddExpired (u_expiry ui))).
Proof. exact (add_expired_states_expiry le t sc u ui loc b delay sig). Qed.

Theorem C09_add_needs_unexpired le t sc signer loc b delay sig t' st sg sl e :
  step le t (OAdd signer loc b delay sig) sc = (t', OAddRes (AddOk st sg sl e)) -> authentic t signer.
Proof. exact (add_success_authentic le t sc signer loc b delay sig t' st sg sl e). Qed.

(* The purge: the gatekeeper's listener at height h deletes exactly the users with
   expiry + grace <= h — row, and by the cascade every appointment and tracker of theirs — and
   nothing of anybody else. *)
Theorem C09_purge_exact t h t' :
  Inv t -> gk_block_connected t h = Ok tt t' ->
  (forall u, aget (db_users t') u =
             match aget (db_users t) u with
             | Some ui => if N.leb (u_expiry ui + c_delta (cfg t)) h then None else Some ui
             | None => None
             end) /\
  (forall a, In a (db_apps t') <-> In a (db_apps t) /\ aget (db_users t') (a_user a) <> None) /\
  (forall k, In k (db_trks t') <-> In k (db_trks t) /\ aget (db_users t') (t_user k) <> None) /\
  gk_height t' = h.
Proof. exact (purge_exact t h t'). Qed.

(* The whole block connection (listeners in the order generated from main.rs): afterwards the table
   holds exactly the users not yet at expiry + grace, their windows untouched — never earlier,
   never touching other users. *)
Theorem C09_connect_purges_exactly le t hash txs sc t' :
  Inv t -> step le t (OConnect hash txs) sc = (t', OBlockRes) ->
  forall u, option_map (fun ui => (u_start ui, u_expiry ui)) (aget (db_users t') u) =
            match aget (db_users t) u with
            | Some ui => if N.leb (u_expiry ui + c_delta (cfg t)) (gk_height t + 1) then None
                         else Some (u_start ui, u_expiry ui)
            | None => None
            end.
Proof. exact (connect_purges_exactly le t hash txs sc t'). Qed.

(* Heights moving backwards are honoured: a disconnection lowers the height by one, changes no table. *)
Theorem C09_disconnect_heights le t sc hash t' :
  last_hash t = Some hash -> 1 <= gk_height t ->
  step le t ODisconnect sc = (t', OBlockRes) -> gk_height t' = gk_height t - 1 /\ same_tables t t'.
Proof. exact (disconnect_heights le t sc hash t'). Qed.

(* Reads never remove anything. *)
Theorem C09_reads_unchanged le t sc signer :
  (forall loc, exists r, step le t (OGet signer loc) sc = (fresh t, r)) /\
  (exists r, step le t (OGetSub signer) sc = (fresh t, r)).
Proof. split; [intros loc; exact (get_unchanged le t sc signer loc)|exact (getsub_unchanged le t sc signer)]. Qed.

(* non-vacuity: a registration at the boundary configuration duration = 0, grace = 0 *)
Example C09_nonvacuous :
  match init (mk_config 2 0 0) 120 (map (fun k => (1000 + N.of_nat k, [])) (seq 0 100)) with
  | Some t0 =>
      let '(t1, x1) := step true t0 (ORegister 3) [] in
      let '(t2, x2) := step true t1 (OGetSub (Some 3)) [] in
      let '(t3, _) := step true t2 (OConnect 2001 []) [] in
      (x1, x2, length (db_users t3))
  | None => (OBlockRes, OBlockRes, 9%nat)
  end = (ORegisterRes (RegOk 2 120 120), OSubRes (SubExpired 120), 0%nat).
Proof. vm_compute. reflexivity. Qed.

Print Assumptions C09_register_new.
Print Assumptions C09_register_new_overflow_refuted.
Print Assumptions C09_register_renew.
Print Assumptions C09_register_max_slots.
Print Assumptions C09_expired_states_expiry.
Print Assumptions C09_add_needs_unexpired.
Print Assumptions C09_purge_exact.
Print Assumptions C09_connect_purges_exactly.
Print Assumptions C09_disconnect_heights.
Print Assumptions C09_reads_unchanged.

(* ================================================================================================ *)
(* RUN LEVEL (TowerRuns2.v; a moment of a run is a cut  h = pre ++ (o, sc) :: post, see TowerRuns.v).
   Hypotheses: a bootstrapped tower and a history inside the envelope / chain discipline of TowerLive.v. *)
From TeosModel Require Import TowerLive TowerRuns TowerRuns2.

(* ONE STEP, every operation: what happens to the (start, expiry) window of every user.  Created by the first
   registration with start = the gatekeeper's height and expiry = start + duration; pushed back by one duration
   (saturating at u32::MAX) by each granted renewal of THAT user; removed by a block at height >= expiry + grace;
   touched by nothing else - no request, no disconnection, no other user's registration. *)
Theorem C09_window_step le t o sc u :
  BigInv t -> envb t o = true ->
  window (fst (step le t o sc)) u = window_after t o (snd (step le t o sc)) u.
Proof. exact (window_step le t o sc u). Qed.

Theorem C09_window_defs t o x u :
  window t u = option_map (fun ui => (u_start ui, u_expiry ui)) (aget (db_users t) u) /\
  window_after t o x u =
  match o, x with
  | ORegister v, ORegisterRes (RegOk _ _ _) =>
      if N.eqb u v then
        match window t u with
        | None => Some (gk_height t, gk_height t + c_duration (cfg t))
        | Some (s, e) => Some (s, N.min U32MAX (e + c_duration (cfg t)))
        end
      else window t u
  | OConnect _ _, _ =>
      match window t u with
      | Some (s, e) => if N.leb (e + c_delta (cfg t)) (gk_height t + 1) then None else Some (s, e)
      | None => None
      end
  | _, _ => window t u
  end.
Proof. split; reflexivity. Qed.

(* the ghost kept along a run for user u: (granted registrations of u since u was last absent, the gatekeeper's
   height at the first of them) *)
Theorem C09_ghost_defs le u t o sc x t' g r :
  ghost_step u t o x t' g =
  (if amem (db_users t') u then
     match o, x with
     | ORegister v, ORegisterRes (RegOk _ _ _) =>
         if N.eqb u v then (if N.eqb (fst g) 0 then (1, gk_height t) else (fst g + 1, snd g)) else g
     | _, _ => g
     end
   else (0, 0)) /\
  ghost_run le u t [] g = g /\
  ghost_run le u t ((o, sc) :: r) g =
  match snd (step le t o sc) with
  | OAbort _ => g
  | x => ghost_run le u (fst (step le t o sc)) r (ghost_step u t o x (fst (step le t o sc)) g)
  end.
Proof. repeat split; reflexivity. Qed.

(* "expiry = h + duration, pushed back by one duration on every renewal": in every state a run reaches, for every
   registered user: start = the gatekeeper's height at its first registration since it was last absent, expiry =
   start + duration * (granted registrations since then), saturated at u32::MAX - and unsaturated whenever the
   grace period is at least one block.  (Prefixes of histories inside the envelope are inside the envelope: this
   is every moment of every run.) *)
Theorem C09_expiry_formula_run le c h0 blocks t0 h u ui :
  init c h0 blocks = Some t0 -> NoDup (map fst blocks) -> N.of_nat (length blocks) <= h0 ->
  in_envelope le t0 h = true -> chain_disciplined le t0 h = true ->
  aget (db_users (fst (run le t0 h))) u = Some ui ->
  let n := fst (ghost_run le u t0 h (0, 0)) in
  let s := snd (ghost_run le u t0 h (0, 0)) in
  1 <= n /\ u_start ui = s /\ u_expiry ui = N.min U32MAX (s + c_duration c * n) /\
  (1 <= c_delta c -> u_expiry ui = s + c_duration c * n).
Proof. exact (expiry_formula_run le c h0 blocks t0 h u ui). Qed.

(* the formula WITHOUT the saturation is false inside the envelope of TowerLive.v when the grace period is 0: the
   second registration at height 100 with duration 2^31 saturates the expiry at u32::MAX (the envelope's renewal
   clause min(u32::MAX, expiry + duration) + grace <= u32::MAX still holds).  This is the saturating_add of
   Gatekeeper::add_update_user (F12's neighbourhood); with grace >= 1 the envelope excludes it. *)
Theorem C09_expiry_formula_refuted :
  exists le c h0 blocks t0 h u ui,
    init c h0 blocks = Some t0 /\ NoDup (map fst blocks) /\ N.of_nat (length blocks) <= h0 /\
    in_envelope le t0 h = true /\ chain_disciplined le t0 h = true /\
    aget (db_users (fst (run le t0 h))) u = Some ui /\
    u_expiry ui <> snd (ghost_run le u t0 h (0, 0)) + c_duration c * fst (ghost_run le u t0 h (0, 0)).
Proof.
  pose (c := mk_config 10 2147483648 0). pose (blocks := [(900, @nil N); (899, [])]).
  destruct (init c 100 blocks) as [t0|] eqn:Ei; [|vm_compute in Ei; discriminate].
  exists true, c, 100, blocks, t0, [(ORegister 1, []); (ORegister 1, [])], 1, (mk_uinfo 20 100 U32MAX).
  split; [exact Ei|]. split; [exact boot2_nodup|]. split; [vm_compute; discriminate|].
  vm_compute in Ei. injection Ei as <-. repeat split; vm_compute; try reflexivity. discriminate.
Qed.

(* "usable ... exactly while the tower's height is below its expiry; later requests fail with a subscription-expired
   error that states the expiry": ONE STEP, and at every moment of every run: an add / get / get_subscription_info
   request signed by a registered user is answered with the subscription-expired error iff height >= expiry, and the
   error carries exactly that expiry *)
Theorem C09_gate_exact le t o sc u ui :
  Inv t -> aget (db_users t) u = Some ui -> request_of o = Some u ->
  gate_reply (snd (step le t o sc)) = if N.leb (u_expiry ui) (gk_height t) then Some (u_expiry ui) else None.
Proof. exact (gate_exact le t o sc u ui). Qed.

Theorem C09_gate_defs o x :
  request_of o = match o with
                 | OAdd (Some v) _ _ _ _ | OGet (Some v) _ | OGetSub (Some v) => Some v
                 | _ => None
                 end /\
  gate_reply x = match x with
                 | OAddRes (AddExpired e) | OGetRes (GetExpired e) | OSubRes (SubExpired e) => Some e
                 | _ => None
                 end.
Proof. split; reflexivity. Qed.

Theorem C09_usable_iff_run le c h0 blocks t0 h pre o sc post u ui :
  init c h0 blocks = Some t0 -> NoDup (map fst blocks) -> N.of_nat (length blocks) <= h0 ->
  in_envelope le t0 h = true -> chain_disciplined le t0 h = true ->
  h = pre ++ (o, sc) :: post ->
  let t := fst (run le t0 pre) in
  aget (db_users t) u = Some ui -> request_of o = Some u ->
  gate_reply (snd (step le t o sc)) = if N.leb (u_expiry ui) (gk_height t) then Some (u_expiry ui) else None.
Proof. exact (usable_iff_run le c h0 blocks t0 h pre o sc post u ui). Qed.

(* "deleted exactly when a block at height >= expiry + grace period is connected - never earlier, never touching other
   users": at every moment of every run, a user row present before the step is absent after it iff the step connects a
   block at height >= its expiry + grace; and its window moves only as window_after says *)
Theorem C09_no_other_deletion_run le c h0 blocks t0 h pre o sc post u ui :
  init c h0 blocks = Some t0 -> NoDup (map fst blocks) -> N.of_nat (length blocks) <= h0 ->
  in_envelope le t0 h = true -> chain_disciplined le t0 h = true ->
  h = pre ++ (o, sc) :: post ->
  let t := fst (run le t0 pre) in
  let t' := fst (run le t0 (pre ++ [(o, sc)])) in
  aget (db_users t) u = Some ui ->
  (aget (db_users t') u = None <->
   exists hash txs, o = OConnect hash txs /\ u_expiry ui + c_delta c <= gk_height t + 1) /\
  window t' u = window_after t o (snd (step le t o sc)) u.
Proof. exact (no_other_deletion_run le c h0 blocks t0 h pre o sc post u ui). Qed.

Print Assumptions C09_window_step.
Print Assumptions C09_window_defs.
Print Assumptions C09_ghost_defs.
Print Assumptions C09_expiry_formula_run.
Print Assumptions C09_expiry_formula_refuted.
Print Assumptions C09_gate_exact.
Print Assumptions C09_gate_defs.
Print Assumptions C09_usable_iff_run.
Print Assumptions C09_no_other_deletion_run.

(* ---------- non-vacuity: one concrete history (slots 10, duration 3, grace 2) ---------- *)
Definition C09_ex_c := mk_config 10 3 2.
Definition C09_ex_blocks : list (N * list N) := [(1006,[]);(1005,[]);(1004,[]);(1003,[]);(1002,[]);(1001,[])].
Definition C09_ex_dummy := mk_tower C09_ex_c [] 0 [] [] [] 0 (mk_txindex [] [] [] 0 0) (mk_txindex [] [] [] 0 0) 0 [] [] [].
Definition C09_ex_t0 := match init C09_ex_c 200 C09_ex_blocks with Some t => t | None => C09_ex_dummy end.
(* user 1 registers at 200 and renews at 201 (expiry 206); user 2 registers at 201 (expiry 204); a reorg of one block;
   user 2 is purged at 206 = 204 + 2 and registers again at 207; user 1 is purged at 208 = 206 + 2 *)
Definition C09_ex_hist : list (op * script) :=
  [ (ORegister 1, []); (OConnect 2001 [], []); (ORegister 1, []); (ORegister 2, []);
    (OConnect 2002 [], []); (OConnect 2003 [], []); (ODisconnect, []); (OConnect 2004 [], []);
    (OConnect 2005 [], []); (OGetSub (Some 2), []); (OGetSub (Some 1), []);
    (OConnect 2006 [], []); (OConnect 2007 [], []); (OGetSub (Some 1), []); (OConnect 2008 [], []);
    (ORegister 2, []); (OConnect 2009 [], []) ].

Lemma C09_ex_blocks_nodup : NoDup (map fst C09_ex_blocks).
Proof. repeat (constructor; [cbn; intuition discriminate|]). constructor. Qed.

Example C09_ex_hyps :
  init C09_ex_c 200 C09_ex_blocks = Some C09_ex_t0 /\ N.of_nat (length C09_ex_blocks) <= 200 /\
  in_envelope true C09_ex_t0 C09_ex_hist = true /\ chain_disciplined true C09_ex_t0 C09_ex_hist = true.
Proof. repeat split; vm_compute; try reflexivity. discriminate. Qed.

(* after the first 9 steps (height 204): user 1 has 2 registrations since 200, user 2 one since 201 *)
Example C09_ex_formula_computed :
  let h := firstn 9 C09_ex_hist in
  let t := fst (run true C09_ex_t0 h) in
  (gk_height t, db_users t, ghost_run true 1 C09_ex_t0 h (0, 0), ghost_run true 2 C09_ex_t0 h (0, 0))
  = (204, [(1, mk_uinfo 20 200 206); (2, mk_uinfo 10 201 204)], (2, 200), (1, 201)).
Proof. vm_compute. reflexivity. Qed.

Example C09_ex_formula_applied :
  let h := firstn 9 C09_ex_hist in
  exists ui, aget (db_users (fst (run true C09_ex_t0 h))) 1 = Some ui /\
             u_expiry ui = snd (ghost_run true 1 C09_ex_t0 h (0, 0)) + 3 * fst (ghost_run true 1 C09_ex_t0 h (0, 0)).
Proof.
  cbv zeta. destruct (aget (db_users (fst (run true C09_ex_t0 (firstn 9 C09_ex_hist)))) 1) as [ui|] eqn:Eu; [|vm_compute in Eu; discriminate].
  exists ui. split; [reflexivity|].
  assert (He : in_envelope true C09_ex_t0 (firstn 9 C09_ex_hist) = true) by (vm_compute; reflexivity).
  assert (Hc : chain_disciplined true C09_ex_t0 (firstn 9 C09_ex_hist) = true) by (vm_compute; reflexivity).
  destruct C09_ex_hyps as [Hi [Hlen _]].
  destruct (C09_expiry_formula_run true C09_ex_c 200 C09_ex_blocks C09_ex_t0 (firstn 9 C09_ex_hist) 1 ui Hi C09_ex_blocks_nodup Hlen He Hc Eu)
    as [_ [_ [_ Hexact]]].
  apply Hexact. vm_compute. discriminate.
Qed.

(* the gate at height 204: user 2 (expiry 204) is told SubscriptionExpired 204, user 1 (expiry 206) is served;
   the purges: user 2 at height 206, user 1 at height 208, nobody at any other step; user 2 starts afresh at 207 *)
Example C09_ex_gate_and_purges :
  let outs := snd (run true C09_ex_t0 C09_ex_hist) in
  (nth 9 outs OBlockRes, nth 10 outs OBlockRes, nth 13 outs OBlockRes) =
  (OSubRes (SubExpired 204), OSubRes (SubOk 20 206 []), OSubRes (SubExpired 206)) /\
  map (fun i => map fst (db_users (fst (run true C09_ex_t0 (firstn i C09_ex_hist))))) [12; 13; 15; 16; 17]%nat
  = [[1; 2]; [1]; [1]; [1; 2]; [2]] /\
  map (fun i => gk_height (fst (run true C09_ex_t0 (firstn i C09_ex_hist)))) [12; 13; 15; 16; 17]%nat
  = [205; 206; 207; 207; 208] /\
  (let h := C09_ex_hist in
   (db_users (fst (run true C09_ex_t0 h)), ghost_run true 2 C09_ex_t0 h (0, 0), ghost_run true 1 C09_ex_t0 h (0, 0)))
  = ([(2, mk_uinfo 10 207 210)], (1, 207), (0, 0)).
Proof. vm_compute. repeat split; reflexivity. Qed.
