(* C09 — subscriptions expire, renew and are purged at exactly the promised heights.
   Statements only; proofs are `exact` of lemmas in TowerSubs.v / TowerProofs.v. *)
From TeosModel Require Import Base TxIndex Tower TowerStable TowerInv TowerProofs TowerSubs.
From TeosModel.Gen Require Consts.
Local Open Scope N_scope.

(* A subscription created at height h: start = h, expiry = h + duration, the configured slots
   (inside the envelope h + duration < 2^32). *)
Theorem C09_register_new le t sc u :
  gk_get t u = None -> amem (db_users t) u = false -> gk_height t + c_duration (cfg t) <= U32MAX ->
  step le t (ORegister u) sc =
    (p_new_user (fresh t) u (mk_uinfo (c_slots (cfg t)) (gk_height t) (gk_height t + c_duration (cfg t))),
     ORegisterRes (RegOk (c_slots (cfg t)) (gk_height t) (gk_height t + c_duration (cfg t)))).
Proof. exact (register_new le t sc u). Qed.

(* Outside the envelope the first registration aborts the handler (recorded finding F12b). *)
Theorem C09_register_new_overflow_refuted le t sc u :
  gk_get t u = None -> U32MAX < gk_height t + c_duration (cfg t) ->
  step le t (ORegister u) sc = (fresh t, OAbort S_gk_new_user_expiry_overflow).
Proof. exact (register_new_overflow le t sc u). Qed.

(* Every renewal pushes the expiry back by one duration (saturating at u32::MAX), tops the slots
   up by the configured amount and keeps the start. *)
Theorem C09_register_renew le t sc u ui :
  gk_get t u = Some ui -> u_slots ui + c_slots (cfg t) <= U32MAX ->
  let e := N.min U32MAX (u_expiry ui + c_duration (cfg t)) in
  let ui' := mk_uinfo (u_slots ui + c_slots (cfg t)) (u_start ui) e in
  step le t (ORegister u) sc = (p_set_user (fresh t) u ui', ORegisterRes (RegOk (u_slots ui') (u_start ui) e)).
Proof. exact (register_renew le t sc u ui). Qed.

Theorem C09_register_max_slots le t sc u ui :
  gk_get t u = Some ui -> U32MAX < u_slots ui + c_slots (cfg t) ->
  step le t (ORegister u) sc = (fresh t, ORegisterRes RegMaxSlots).
Proof. exact (register_max_slots le t sc u ui). Qed.

(* The gate: usable exactly while the tower's height is below the expiry (success implies
   `authentic`, i.e. height < expiry: C06); at or after it the reply states the expiry. *)
Theorem C09_expired_states_expiry le t sc u ui loc b delay sig :
  amem (gk_users t) u = true -> gk_get t u = Some ui -> u_expiry ui <= gk_height t ->
  step le t (OAdd (Some u) loc b delay sig) sc = (fresh t, OAddRes (AddExpired (u_expiry ui))).
Proof. exact (add_expired_states_expiry le t sc u ui loc b delay sig). Qed.

Theorem C09_add_needs_unexpired le t sc signer loc b delay sig t' st sg sl e :
  step le t (OAdd signer loc b delay sig) sc = (t', OAddRes (AddOk st sg sl e)) -> authentic t signer.
Proof. exact (add_success_authentic le t sc signer loc b delay sig t' st sg sl e). Qed.

(* The purge: the gatekeeper's listener at height h deletes exactly the users with
   expiry + grace <= h — row, and by the cascade every appointment and tracker of theirs — and
   nothing of anybody else. *)
Theorem C09_purge_exact t h t' :
  Inv t -> gk_block_connected t h = Ok tt t' ->
  (forall u, aget (db_users t') u =
             match aget (db_users t) u with
             | Some ui => if N.leb (u_expiry ui + c_delta (cfg t)) h then None else Some ui
             | None => None
             end) /\
  (forall a, In a (db_apps t') <-> In a (db_apps t) /\ aget (db_users t') (a_user a) <> None) /\
  (forall k, In k (db_trks t') <-> In k (db_trks t) /\ aget (db_users t') (t_user k) <> None) /\
  gk_height t' = h.
Proof. exact (purge_exact t h t'). Qed.

(* The whole block connection (listeners in the order generated from main.rs): afterwards the table
   holds exactly the users not yet at expiry + grace, their windows untouched — never earlier,
   never touching other users. *)
Theorem C09_connect_purges_exactly le t hash txs sc t' :
  Inv t -> step le t (OConnect hash txs) sc = (t', OBlockRes) ->
  forall u, option_map (fun ui => (u_start ui, u_expiry ui)) (aget (db_users t') u) =
            match aget (db_users t) u with
            | Some ui => if N.leb (u_expiry ui + c_delta (cfg t)) (gk_height t + 1) then None
                         else Some (u_start ui, u_expiry ui)
            | None => None
            end.
Proof. exact (connect_purges_exactly le t hash txs sc t'). Qed.

(* Heights moving backwards are honoured: a disconnection lowers the height by one, changes no table. *)
Theorem C09_disconnect_heights le t sc hash t' :
  last_hash t = Some hash -> 1 <= gk_height t ->
  step le t ODisconnect sc = (t', OBlockRes) -> gk_height t' = gk_height t - 1 /\ same_tables t t'.
Proof. exact (disconnect_heights le t sc hash t'). Qed.

(* Reads never remove anything. *)
Theorem C09_reads_unchanged le t sc signer :
  (forall loc, exists r, step le t (OGet signer loc) sc = (fresh t, r)) /\
  (exists r, step le t (OGetSub signer) sc = (fresh t, r)).
Proof. split; [intros loc; exact (get_unchanged le t sc signer loc)|exact (getsub_unchanged le t sc signer)]. Qed.

(* non-vacuity: a registration at the boundary configuration duration = 0, grace = 0 *)
Example C09_nonvacuous :
  match init (mk_config 2 0 0) 120 (map (fun k => (1000 + N.of_nat k, [])) (seq 0 100)) with
  | Some t0 =>
      let '(t1, x1) := step true t0 (ORegister 3) [] in
      let '(t2, x2) := step true t1 (OGetSub (Some 3)) [] in
      let '(t3, _) := step true t2 (OConnect 2001 []) [] in
      (x1, x2, length (db_users t3))
  | None => (OBlockRes, OBlockRes, 9%nat)
  end = (ORegisterRes (RegOk 2 120 120), OSubRes (SubExpired 120), 0%nat).
Proof. vm_compute. reflexivity. Qed.

Print Assumptions C09_register_new.
Print Assumptions C09_register_new_overflow_refuted.
Print Assumptions C09_register_renew.
Print Assumptions C09_register_max_slots.
Print Assumptions C09_expired_states_expiry.
Print Assumptions C09_add_needs_unexpired.
Print Assumptions C09_purge_exact.
Print Assumptions C09_connect_purges_exactly.
Print Assumptions C09_disconnect_heights.
Print Assumptions C09_reads_unchanged.
