(* C05 — the client never loses an appointment, whatever the towers do.
   Statements only (proofs in ClientFlowProofs.v), Print Assumptions, non-vacuity Examples.

   The model (ClientFlow.v): operations FRegister / FRevocation / FManagerTick / FRetrierRun / FManualRetry /
   FAbandon / FRestart over the plugin's store (Client.v), the retry manager's retriers and channel; every tower
   reply is an oracle input of the operation (`areply`, `rreply`), so "for all operation sequences" is also
   "for all reply sequences".  `owed s t l` = revocation l was notified (handler completed) while tower t was
   registered, t has not been abandoned since and is not proven misbehaving.
   `record_count d t l` = how many of {appointment receipt, pending row, invalid row} exist for (t, l) in database d. *)
From TeosModel Require Import Base Db Client ClientFlow ClientFlowProofs.

(* After every completed operation, for every owed (tower, locator): EXACTLY ONE record — over ALL operation
   sequences (no guard), all replies, duplicates, several towers, revocations in every retrier state, abandon and
   re-registration in every retrier state, restarts at operation boundaries.
   (Full statement since fix 8108569: before it, abandontower + registertower of a tower whose retry task was alive let
   the task deliver a locator that was no pending row of the new tower record, and delete the body another tower's
   pending row hangs on; the theorem needed the guard `ops_fresh` and was refuted without it.) *)
Theorem C05_recorded_exactly_one ops :
  let s := frun f_init ops in
  forall t l, owed s t l = true -> record_count (c_db (f_c s)) t l = 1%nat.
Proof. exact (recorded_exactly_one ops). Qed.
Print Assumptions C05_recorded_exactly_one.

(* the former counterexample (two towers down, abandon + re-register tower 0 while its retrier runs, the stale retrier
   gets an accepting tower): tower 1 still has its record, the stale locator was dropped, nothing panicked *)
Example C05_former_counterexample :
  let s := frun f_init w_c05_ops in
  poisoned s = false /\ owed s 1 5 = true /\ record_count (c_db (f_c s)) 1 5 = 1%nat /\
  has_pending_row (c_db (f_c s)) 1 5 = true /\ has_receipt_row (c_db (f_c s)) 0 5 = false /\ f_log s = f_log (frun f_init (removelast w_c05_ops)).
Proof. vm_compute. repeat split. Qed.

(* The per-tower turn of the notification handler works with the status it cloned BEFORE its loop (`st`), which may be
   stale by the time the tower's turn comes (another tower answered slowly, the tower's retrier went idle meanwhile), and
   with the retrier state of THAT moment (`s`).  Whatever the stale status says - it is quantified independently of the
   state - the turn leaves a record for the pair: the tower row, and a receipt, a pending or an invalid row unless a proof is
   stored. *)
Theorem C05_turn_records_whatever_the_snapshot s l t st rp s' :
  FInv s -> knownc (f_c s) t -> (st = Misbehaving -> Mrow (c_db (f_c s)) t) ->
  rev_tower s l t st rp = (s', None) ->
  Trow (c_db (f_c s')) t /\ (~ Mrow (c_db (f_c s')) t -> Rrow (c_db (f_c s')) t l \/ Prow (c_db (f_c s')) t l \/ Irow (c_db (f_c s')) t l).
Proof.
  intros HF Hk Hm E. destruct (FInv_rev_tower s l t st rp s' None HF Hk Hm E) as [_ [_ [_ [_ H]]]]. exact (proj2 (H eq_refl)).
Qed.
Print Assumptions C05_turn_records_whatever_the_snapshot.

(* SIGKILL at any moment: every durable state an operation writes (`crash_states`: the database before, and after
   each of its durable statements / transactions, in program order) still holds AT LEAST ONE record for every
   (tower, locator) owed before the operation - the transient two-record state of a move is the intended mechanism. *)
Theorem C05_recorded_at_least_one_at_crash ops o :
  let s := frun f_init ops in
  forall d, In d (crash_states o s) ->
  forall t l, In (t, l) (f_due s) -> tower_row d t = true -> exists_misbehaving_proof d t = false ->
  (1 <= record_count d t l)%nat.
Proof. exact (recorded_at_least_one_at_crash ops o). Qed.
Print Assumptions C05_recorded_at_least_one_at_crash.

(* ... and after the restart the retrier finishes the move: exactly one again.  PARTIAL: shown on the crash point that
   matters (between add_appointment_receipt and remove_pending_appointment of a move) by evaluation; the general
   statement over all crash points needs the invariant re-established from a two-record state and is not proved. *)
Example C05_exactly_one_again_after_crash :
  let ops := [FRegister 0 (w_good 1); FRevocation 5 [] [(0, AConnErr)]; FManagerTick []; FManagerTick []] in
  let s := frun f_init ops in
  let o := FRetrierRun 0 [w_att [AAccept 110] true] in
  let d := nth 1 (crash_states o s) [] in               (* killed right after the receipt was stored *)
  record_count d 0 5 = 2%nat /\
  let s' := frun (crash_restart s o 1) [FManagerTick []; FManagerTick []; FRetrierRun 0 [w_att [AAccept 110] true]] in
  record_count (c_db (f_c s')) 0 5 = 1%nat /\ has_receipt_row (c_db (f_c s')) 0 5 = true /\ f_tasks s' = [].
Proof. vm_compute. repeat split. Qed.

(* A retrier run never loses a record: what had a receipt, a pending row or an invalid row before still has one of
   the three after (for EVERY (tower, locator), owed or not, every reply sequence given to the retrier, every state). *)
Theorem C05_no_record_lost_by_retry ops t atts :
  let s := frun f_init ops in
  forall k x, recorded (c_db (f_c s)) k x -> recorded (c_db (f_c (fst (fstep s (FRetrierRun t atts))))) k x.
Proof. exact (no_record_lost_by_retry ops t atts). Qed.
Print Assumptions C05_no_record_lost_by_retry.

(* non-vacuity: two towers, one accepts, one is down; the retrier delivers after recovery; a duplicate notification
   and a restart in between: both pairs are owed and have exactly one record *)
Example C05_nonvacuous :
  let ops := [FRegister 0 (w_good 1); FRegister 1 (w_good 1); FRevocation 5 [] [(0, AAccept 110); (1, AConnErr)];
              FManagerTick []; FManagerTick []; FRevocation 5 [] [(0, AAccept 110); (1, AAccept 110)]; FRestart;
              FManagerTick []; FManagerTick []; FRetrierRun 1 [w_att [AAccept 110] true]] in
  let s := frun f_init ops in
  owed s 0 5 = true /\ owed s 1 5 = true /\
  has_receipt_row (c_db (f_c s)) 1 5 = true /\ has_pending_row (c_db (f_c s)) 1 5 = false.
Proof. vm_compute. repeat split. Qed.
