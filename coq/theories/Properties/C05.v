(* C05 — the client never loses an appointment, whatever the towers do.
   Statements only (proofs in ClientFlowProofs.v), Print Assumptions, non-vacuity Examples. *)
From TeosModel Require Import Base Db Client ClientFlow ClientFlowProofs.

(* REFUTED as a statement about ALL operation sequences: abandontower + registertower of a tower whose retry task is
   still alive lets the task deliver a locator that is no pending row of the re-registered tower;
   delete_pending_appointment then deletes the body the OTHER tower's pending row hangs on. *)
Theorem C05_recorded_exactly_one_refuted :
  exists ops t l, let s := frun f_init ops in
    poisoned s = false /\ owed s t l = true /\ record_count (c_db (f_c s)) t l = 0%nat.
Proof. exact recorded_exactly_one_refuted. Qed.
Print Assumptions C05_recorded_exactly_one_refuted.
