(* C12 — a bitcoind outage never drops a response and the tower recovers by itself.
   Theorems over the reachability-protocol model (Reach.v); statements only.
   The property as stated is REFUTED by the protocol (recorded findings F5a/F5b): the positive
   statements hold exactly for an outage that hits an API thread with no block arriving before the
   first successful poll. *)
From Coq Require Import List.
From TeosModel Require Import Reach.
From TeosModel.Gen Require Bootstrap.

(* From the moment the tower has noticed the outage the public API takes on no new work. *)
Theorem C12_unavailable_after_notice s : flag s = false -> api s = A_none -> rstep s E_api_rpc = s.
Proof. exact (unavailable_after_notice s). Qed.

Theorem C12_polls_keep_flag_down s b : node_up s = false -> mon s = M_idle -> flag (rstep s (E_poll b)) = false.
Proof. exact (polls_keep_flag_down s b). Qed.

(* Request path, no block pending: one successful poll wakes the waiting thread, which re-issues
   the interrupted call. *)
Theorem C12_request_path_recovers s :
  mon s = M_idle -> api s = A_wait_reach -> block_pending s = false -> node_up s = true ->
  let s' := rstep s (E_poll false) in flag s' = true /\ api s' = A_done /\ mon s' = M_idle.
Proof. exact (request_path_recovers s). Qed.

(* REFUTED, block path: an outage that hits an RPC issued while the chain monitor processes a block
   leaves the monitor waiting for a notification only it sends: for every continuation — node back,
   blocks, requests, polls due — it waits forever and the flag stays false. *)
Theorem C12_block_path_stuck_refuted s es :
  mon s = M_wait_reach -> flag s = false ->
  mon (rrun s es) = M_wait_reach /\ flag (rrun s es) = false.
Proof. exact (monitor_wait_is_forever s es). Qed.

(* REFUTED, request path with a block arriving before the first successful poll: the API thread
   waits holding the locator cache, the monitor blocks on that lock inside the poll and never
   reaches the notify. *)
Theorem C12_request_path_can_stick_refuted s es :
  mon s = M_wait_cache -> api s = A_wait_reach -> flag s = false ->
  mon (rrun s es) = M_wait_cache /\ api (rrun s es) = A_wait_reach /\ flag (rrun s es) = false.
Proof. exact (request_path_sticks_when_block_arrives s es). Qed.

(* the three scenario classes are reachable from a tower at rest (non-vacuity of the above) *)
Theorem C12_block_path_reached es :
  let s := rstep_poll_rpc_down (mk_rstate true false M_idle A_none true) in mon (rrun s es) = M_wait_reach.
Proof. exact (predict_block_path_sound es). Qed.

Theorem C12_request_block_reached es :
  let s0 := rstep (mk_rstate true false M_idle A_none false) E_api_rpc in
  let s1 := rstep (rstep (rstep s0 E_block) E_node_up) (E_poll false) in
  mon (rrun s1 es) = M_wait_cache /\ api (rrun s1 es) = A_wait_reach.
Proof. exact (predict_request_block_sound es). Qed.

Theorem C12_request_recovery_reached :
  let s0 := rstep (mk_rstate true false M_idle A_none false) E_api_rpc in
  let s1 := rstep (rstep (rstep s0 (E_poll false)) E_node_up) (E_poll false) in
  api s1 = A_done /\ flag s1 = true.
Proof. exact predict_request_recovers. Qed.

(* What the protocol model takes from the source, regenerated on every run: every round of the monitor loop runs
   poll_best_tip() to completion (a poll cancelled half-way would lose the SPV client's partial progress and deliver
   blocks twice); a successful poll sets the flag and notifies (E_poll in Reach.v). *)
Theorem C12_monitor_polls_to_completion : Bootstrap.MONITOR_LOOP_POLLS_TO_COMPLETION = true.
Proof. reflexivity. Qed.

Print Assumptions C12_monitor_polls_to_completion.
Print Assumptions C12_unavailable_after_notice.
Print Assumptions C12_polls_keep_flag_down.
Print Assumptions C12_request_path_recovers.
Print Assumptions C12_block_path_stuck_refuted.
Print Assumptions C12_request_path_can_stick_refuted.
Print Assumptions C12_block_path_reached.
Print Assumptions C12_request_block_reached.
Print Assumptions C12_request_recovery_reached.

(* ================================================================================================
   The same property at THREAD level (ConcReach.v): ConcTower's thread programs with the guard
   lifetimes of the source, the Carrier's wait-and-retry recursion, the chain monitor's poll, the
   flag's mutex and condition variable; for ALL schedules and ALL answers of the node.
   ================================================================================================ *)
From TeosModel Require Import Base TxIndex Tower ConcTower ConcReach ConcReachProofs ConcReachWitness ConcReachAbs.

(* A public method that reads flag = false returns Unavailable and changes nothing: its whole program is
   "take the flag's mutex, read the flag, drop the guard", and none of these steps touches the tower, the
   flag, the node or the log of Carrier calls. *)
Theorem C12_unavailable_takes_no_work sc fuel o :
  exists body, api_p sc fuel o = RAcq L_reach (RReadFlag (api_checked body)) /\
  forall c i held,
  (nth_error (rc_threads c) i = Some (mk_rthread (RRun (RAcq L_reach (RReadFlag (api_checked body)))) held) ->
   forall c', rstep c i = Some c' ->
     quiet_step c c' /\ nth_error (rc_threads c') i = Some (mk_rthread (RRun (RReadFlag (api_checked body))) (L_reach :: held))) /\
  (nth_error (rc_threads c) i = Some (mk_rthread (RRun (RReadFlag (api_checked body))) held) -> rc_flag c = false ->
   forall c', rstep c i = Some c' ->
     quiet_step c c' /\ nth_error (rc_threads c') i = Some (mk_rthread (RRun (RRel L_reach (RRet RUnavailable))) held)) /\
  (nth_error (rc_threads c) i = Some (mk_rthread (RRun (RRel L_reach (RRet RUnavailable))) held) ->
   forall c', rstep c i = Some c' ->
     quiet_step c c' /\ exists th', nth_error (rc_threads c') i = Some th' /\ rresult th' = Some (RDone RUnavailable) /\
                                    rt_held th' = remove_lock L_reach held).
Proof.
  destruct (api_p_shape sc fuel o) as [body E]. exists body. split; [exact E|].
  intros c i held. exact (unavailable_takes_no_work c i body held).
Qed.

(* In every execution of the tower's threads (the chain monitor and any number of API workers, any
   schedule, any answers of the node), for every thread: a request that hit a transport error is followed -
   if the thread makes another Carrier call at all - by a request of the SAME kind for the SAME transaction
   (`retry_ok`, the monitor that the check also evaluates on the implementation's RPC log; a call answered
   from the memo puts nothing on the wire).  And the step in which a request gets a transport error changes
   nothing of the tower - no memo entry, no tracker or appointment deletion - and continues with the retry
   branch of the call, never with a verdict. *)
Theorem C12_same_transaction_retried :
  (forall le sc fuel pfuel specs t flag pending h rpc_or fetch_or sched i,
     retry_ok (calls_of i (rc_log (rrun_config
        (rinit t flag (map (thread_p le sc fuel pfuel) specs) pending h rpc_or fetch_or) sched))) = true) /\
  (forall c j c' k tx,
     rstep c j = Some c' -> rc_log c' = (j, EvRpc k tx CallErr) :: rc_log c ->
     rc_tower c' = rc_tower c /\ rc_flag c' = rc_flag c /\
     exists th B f (kont : ans B -> rprog rout), nth_error (rc_threads c) j = Some th /\ rt_st th = RRun (RRpc B f kont) /\
       nth_error (rc_threads c') j = Some (mk_rthread (RRun (kont TransportErr)) (rt_held th))).
Proof. split; [exact same_transaction_retried_tower|exact transport_error_produces_nothing]. Qed.

(* ... for any thread programs whose Carrier calls have a fixed key (kd None) *)
Theorem C12_same_transaction_retried_any_programs c sched i :
  keyed_conf c -> rc_log c = [] -> retry_ok (calls_of i (rc_log (rrun_config c sched))) = true.
Proof. exact (same_transaction_retried c sched i). Qed.

(* Request path.  An API thread waits in hang_until_bitcoind_reachable (program pa0 = the wait, then the
   interrupted call again, then the rest of the request; `calm` = it neither touches the flag nor notifies),
   the chain monitor is idle and about to poll, the node has no new block and answers again.
   For EVERY schedule: (1) there is no reachable configuration in which the monitor has finished its poll
   and the request is still waiting un-notified, and (2) whenever the request has returned, its answer and
   the tower's state are those of `rsolo pa0 t0`, the run in which the node had answered at once.
   Fairness is what is left out: that the monitor thread, and then the woken thread, are eventually
   scheduled is a hypothesis on the scheduler, stated here as "in no reachable configuration are both
   finished/idle with the request still waiting". *)
Theorem C12_request_path_recovers_threads le sc fuel pf r0 pa0 held_a t0 c sched :
  calm pa0 ->
  rc_rpc_or c = [] -> rc_tower c = t0 -> rc_pending c = [] -> hd F_ok (rc_fetch_or c) = F_ok ->
  rc_threads c = [mk_rthread (RRun (poll_p le sc fuel (S pf) (RRet r0))) []; mk_rthread (RParked false pa0) held_a] ->
  let c' := rrun_config c sched in
  exists tm ta, rc_threads c' = [tm; ta] /\
    (rfinished tm = true -> rc_flag c' = true /\ waiting_unnotified ta = false) /\
    (forall r, rresult ta = Some r -> rc_tower c' = fst (rsolo pa0 t0) /\ r = snd (rsolo pa0 t0)).
Proof.
  intros Hc Ho Ht Hp Hf Eth. apply (request_path_recovers le sc fuel pf r0 pa0 held_a t0 Hc).
  apply RI0; assumption.
Qed.

(* ... and for a thread of the tower that run is ConcTower's `exec` of the rest of its program from the
   interrupted call on (hence the rest of Tower.step, by C10's exec_is_step): the SAME call f, then k *)
Theorem C12_recovered_run_is_the_fault_free_run {B} fuel n (f : tower -> res B) (k : B -> prog out) t :
  let K := fun b => embedk fuel (k b) (fun x => RRet (RO x)) in
  let pa0 := RWait (RRel L_reach (RRpc B f (fun a => match a with Verdict b => K b | TransportErr => carrier_retry n f K end))) in
  calm pa0 /\
  rsolo pa0 t = match exec (Act B f k) t with Ok o t' => (t', RDone (RO o)) | Abort s t' => (t', RAbort s) end.
Proof. exact (waiting_carrier_call fuel n f k t). Qed.

(* REFUTED at thread level, block path (F5a): the configuration "the chain monitor waits for the
   notification, un-notified, flag false" is reachable (kernel-evaluated schedule: the block with the dispute
   arrives, the first request of the poll hits the outage; the monitor keeps the carrier and tx-index guards),
   and once reached it holds in EVERY continuation, for any tower, any API workers, any answers of the node:
   only the monitor's own poll notifies. *)
Theorem C12_block_path_stuck_refuted_threads :
  (exists c0 w, stuck_waiting (rrun_config c0 w) 0 = true /\ waits_of 0 (rc_log (rrun_config c0 w)) = [[L_txindex; L_carrier]]) /\
  (forall le sc fuel pfuel t flag polls ops pending h ro fo w,
     let c0 := rinit t flag (map (thread_p le sc fuel pfuel) (TMonitor polls :: map TApi ops)) pending h ro fo in
     stuck_waiting (rrun_config c0 w) 0 = true ->
     forall sched, stuck_waiting (rrun_config c0 (w ++ sched)) 0 = true).
Proof.
  split.
  - exists wr_block_path, wr_block_sched. exact wr_block_path_reached.
  - exact block_path_stuck.
Qed.

(* REFUTED at thread level, request path with a block (F5b): "the chain monitor asks for the locator-cache lock,
   which an API thread keeps while it waits, un-notified, for the flag" is reachable and holds in every
   continuation. *)
Theorem C12_request_path_can_stick_refuted_threads :
  (exists c0 w, stuck_on_lock (rrun_config c0 w) 0 1 L_cache = true /\
                waits_of 1 (rc_log (rrun_config c0 w)) = [[L_txindex; L_carrier; L_cache]]) /\
  (forall le sc fuel pfuel t flag polls ops pending h ro fo w a l,
     let c0 := rinit t flag (map (thread_p le sc fuel pfuel) (TMonitor polls :: map TApi ops)) pending h ro fo in
     a <> 0%nat -> stuck_on_lock (rrun_config c0 w) 0 a l = true ->
     forall sched, stuck_on_lock (rrun_config c0 (w ++ sched)) 0 a l = true).
Proof.
  split.
  - exists wr_request_block, wr_request_sched. exact wr_request_path_reached.
  - exact request_path_stuck.
Qed.

(* Partial progress of a poll is kept (given Bootstrap.MONITOR_LOOP_POLLS_TO_COMPLETION, regenerated from
   chain_monitor.rs: a poll is never cancelled half-way, so the SPV client's tip advances with every delivered
   block): in every reachable configuration - any threads, schedule, download failures - the blocks handed to
   the listeners so far followed by the blocks still above the SPV client's tip are the node's chain: what was
   delivered before a failing download is never delivered again and nothing is skipped when a later poll
   delivers the rest. *)
Theorem C12_partial_poll_progress_kept c sched :
  Bootstrap.MONITOR_LOOP_POLLS_TO_COMPLETION = true /\
  delivered (rc_log (rrun_config c sched)) ++ map fst (rc_pending (rrun_config c sched)) =
  delivered (rc_log c) ++ map fst (rc_pending c).
Proof. split; [reflexivity|exact (partial_poll_progress_kept c sched)]. Qed.

(* ... in particular the heights handed to the listeners are consecutive from the SPV client's tip (`consecutive`
   is the monitor the check evaluates on the blocks the real chain monitor hands to the real listeners, also
   when monitor_chain itself is driven with a download that stalls longer than the polling interval) *)
Theorem C12_blocks_delivered_exactly_once c sched :
  rc_log c = [] -> consecutive (rc_height c) (delivered_heights (rc_log (rrun_config c sched))) = true.
Proof. exact (delivered_heights_consecutive c sched). Qed.

(* The abstract machine of Reach.v is an abstraction of thread-level configurations (`abs2`: monitor = thread 0,
   an API worker = thread 1): the hypotheses of the three abstract theorems at the top of this file are the
   abstractions of the thread-level situations, and their conclusions hold of the abstraction of EVERY thread-level
   continuation.  (A state abstraction along all runs; not a step-by-step simulation: an abstract poll is atomic.) *)
Theorem C12_abstract_block_path_is_abstraction le sc fuel pfuel t flag polls ops pending h ro fo w :
  let c0 := rinit t flag (map (thread_p le sc fuel pfuel) (TMonitor polls :: map TApi ops)) pending h ro fo in
  stuck_waiting (rrun_config c0 w) 0 = true ->
  (Reach.mon (abs2 (rrun_config c0 w)) = Reach.M_wait_reach /\ Reach.flag (abs2 (rrun_config c0 w)) = false) /\
  forall sched, Reach.mon (abs2 (rrun_config c0 (w ++ sched))) = Reach.M_wait_reach /\
                Reach.flag (abs2 (rrun_config c0 (w ++ sched))) = false.
Proof. exact (abs_block_path le sc fuel pfuel t flag polls ops pending h ro fo w). Qed.

Theorem C12_abstract_request_path_block_is_abstraction le sc fuel pfuel t flag polls ops pending h ro fo w l :
  let c0 := rinit t flag (map (thread_p le sc fuel pfuel) (TMonitor polls :: map TApi ops)) pending h ro fo in
  stuck_on_lock (rrun_config c0 w) 0 1 l = true ->
  forall sched, let s := abs2 (rrun_config c0 (w ++ sched)) in
    Reach.mon s = Reach.M_wait_cache /\ Reach.api s = Reach.A_wait_reach /\ Reach.flag s = false.
Proof. exact (abs_request_path_block le sc fuel pfuel t flag polls ops pending h ro fo w l). Qed.

Theorem C12_abstract_recovery_is_abstraction le sc fuel pf r0 pa0 held_a t0 c sched :
  calm pa0 -> snd (rsolo pa0 t0) <> RDone RUnavailable ->
  rc_rpc_or c = [] -> rc_tower c = t0 -> rc_pending c = [] -> hd F_ok (rc_fetch_or c) = F_ok ->
  rc_threads c = [mk_rthread (RRun (poll_p le sc fuel (S pf) (RRet r0))) []; mk_rthread (RParked false pa0) held_a] ->
  (Reach.mon (abs2 c) = Reach.M_idle /\ Reach.api (abs2 c) = Reach.A_wait_reach /\
   Reach.block_pending (abs2 c) = false /\ Reach.node_up (abs2 c) = true) /\
  let c' := rrun_config c sched in
  forallb rfinished (rc_threads c') = true ->
  let s' := Reach.rstep (abs2 c) (Reach.E_poll false) in
  Reach.flag (abs2 c') = Reach.flag s' /\ Reach.api (abs2 c') = Reach.api s' /\ Reach.mon (abs2 c') = Reach.mon s'.
Proof. exact (abs_request_path_recovers le sc fuel pf r0 pa0 held_a t0 c sched). Qed.

(* non-vacuity: kernel-evaluated executions (ConcReachWitness.v) *)
Example C12_request_path_recovers_instance :
  let c := rrun_config (wr_request_quiet 1 [true]) wr_recover_sched in
  let c_ff := rrun_config (wr_request_quiet 1 []) wr_recover_sched in
  map rresult (rc_threads c) = map rresult (rc_threads c_ff) /\ forallb rfinished (rc_threads c) = true /\
  rc_tower c = rc_tower c_ff /\ rc_flag c = true /\
  calls_of 1 (rc_log c) =
    [Some (K_getraw, 107%N, CallErr); Some (K_getraw, 107%N, CallVerdict (InMempoolSince 0));
     Some (K_send, 107%N, CallVerdict (InMempoolSince 121))] /\
  find_trk (db_trks (rc_tower c)) (7%N, 1%N) <> None.
Proof. exact wr_request_path_recovers. Qed.

Example C12_partial_poll_instance :
  let c1 := rrun_config (wr_multi 1) (repeat 0%nat 400) in
  let c2 := rrun_config (wr_multi 2) (repeat 0%nat 400) in
  delivered (rc_log c1) = [2001; 2002]%N /\ rc_flag c1 = true /\ rc_lkb c1 = 124%N /\ rc_height c1 = 122%N /\
  delivered (rc_log c2) = [2001; 2002; 2003; 2004]%N /\ rc_flag c2 = true /\ rc_lkb c2 = 124%N /\ rc_pending c2 = [] /\
  find_trk (db_trks (rc_tower c2)) (7%N, 1%N) <> None.
Proof. exact wr_partial_poll. Qed.

Example C12_unavailable_instance :
  let c := rrun_config wr_block_path wr_block_sched in
  let c2 := rrun_config c (repeat 1%nat 10 ++ repeat 0%nat 10) in
  map rresult (rc_threads c2) = [None; Some (RDone RUnavailable)] /\ rc_tower c2 = rc_tower c.
Proof. exact wr_unavailable. Qed.

Example C12_the_waiting_thread_of_the_tower_is_calm :
  exists (pa0 : rprog rout), calm pa0 /\ pa0 <> RRet RUnavailable.
Proof.
  destruct (waiting_carrier_call 3 2 (ask_mempool [] 107) (fun _ => Ret OBlockRes) wr_cached) as [H _].
  eexists. split; [exact H|discriminate].
Qed.

Print Assumptions C12_unavailable_takes_no_work.
Print Assumptions C12_same_transaction_retried.
Print Assumptions C12_same_transaction_retried_any_programs.
Print Assumptions C12_request_path_recovers_threads.
Print Assumptions C12_recovered_run_is_the_fault_free_run.
Print Assumptions C12_block_path_stuck_refuted_threads.
Print Assumptions C12_request_path_can_stick_refuted_threads.
Print Assumptions C12_partial_poll_progress_kept.
Print Assumptions C12_blocks_delivered_exactly_once.
Print Assumptions C12_abstract_block_path_is_abstraction.
Print Assumptions C12_abstract_request_path_block_is_abstraction.
Print Assumptions C12_abstract_recovery_is_abstraction.
