(* C12 — a bitcoind outage never drops a response and the tower recovers by itself.
   Theorems over the reachability-protocol model (Reach.v); statements only.
   The property as stated is REFUTED by the protocol (recorded findings F5a/F5b): the positive
   statements hold exactly for an outage that hits an API thread with no block arriving before the
   first successful poll. *)
From Coq Require Import List.
From TeosModel Require Import Reach.
From TeosModel.Gen Require Bootstrap.

(* From the moment the tower has noticed the outage the public API takes on no new work. *)
Theorem C12_unavailable_after_notice s : flag s = false -> api s = A_none -> rstep s E_api_rpc = s.
Proof. exact (unavailable_after_notice s). Qed.

Theorem C12_polls_keep_flag_down s b : node_up s = false -> mon s = M_idle -> flag (rstep s (E_poll b)) = false.
Proof. exact (polls_keep_flag_down s b). Qed.

(* Request path, no block pending: one successful poll wakes the waiting thread, which re-issues
   the interrupted call. *)
Theorem C12_request_path_recovers s :
  mon s = M_idle -> api s = A_wait_reach -> block_pending s = false -> node_up s = true ->
  let s' := rstep s (E_poll false) in flag s' = true /\ api s' = A_done /\ mon s' = M_idle.
Proof. exact (request_path_recovers s). Qed.

(* REFUTED, block path: an outage that hits an RPC issued while the chain monitor processes a block
   leaves the monitor waiting for a notification only it sends: for every continuation — node back,
   blocks, requests, polls due — it waits forever and the flag stays false. *)
Theorem C12_block_path_stuck_refuted s es :
  mon s = M_wait_reach -> flag s = false ->
  mon (rrun s es) = M_wait_reach /\ flag (rrun s es) = false.
Proof. exact (monitor_wait_is_forever s es). Qed.

(* REFUTED, request path with a block arriving before the first successful poll: the API thread
   waits holding the locator cache, the monitor blocks on that lock inside the poll and never
   reaches the notify. *)
Theorem C12_request_path_can_stick_refuted s es :
  mon s = M_wait_cache -> api s = A_wait_reach -> flag s = false ->
  mon (rrun s es) = M_wait_cache /\ api (rrun s es) = A_wait_reach /\ flag (rrun s es) = false.
Proof. exact (request_path_sticks_when_block_arrives s es). Qed.

(* the three scenario classes are reachable from a tower at rest (non-vacuity of the above) *)
Theorem C12_block_path_reached es :
  let s := rstep_poll_rpc_down (mk_rstate true false M_idle A_none true) in mon (rrun s es) = M_wait_reach.
Proof. exact (predict_block_path_sound es). Qed.

Theorem C12_request_block_reached es :
  let s0 := rstep (mk_rstate true false M_idle A_none false) E_api_rpc in
  let s1 := rstep (rstep (rstep s0 E_block) E_node_up) (E_poll false) in
  mon (rrun s1 es) = M_wait_cache /\ api (rrun s1 es) = A_wait_reach.
Proof. exact (predict_request_block_sound es). Qed.

Theorem C12_request_recovery_reached :
  let s0 := rstep (mk_rstate true false M_idle A_none false) E_api_rpc in
  let s1 := rstep (rstep (rstep s0 (E_poll false)) E_node_up) (E_poll false) in
  api s1 = A_done /\ flag s1 = true.
Proof. exact predict_request_recovers. Qed.

(* What the protocol model takes from the source, regenerated on every run: every round of the monitor loop runs
   poll_best_tip() to completion (a poll cancelled half-way would lose the SPV client's partial progress and deliver
   blocks twice); a successful poll sets the flag and notifies (E_poll in Reach.v). *)
Theorem C12_monitor_polls_to_completion : Bootstrap.MONITOR_LOOP_POLLS_TO_COMPLETION = true.
Proof. reflexivity. Qed.

Print Assumptions C12_monitor_polls_to_completion.
Print Assumptions C12_unavailable_after_notice.
Print Assumptions C12_polls_keep_flag_down.
Print Assumptions C12_request_path_recovers.
Print Assumptions C12_block_path_stuck_refuted.
Print Assumptions C12_request_path_can_stick_refuted.
Print Assumptions C12_block_path_reached.
Print Assumptions C12_request_block_reached.
Print Assumptions C12_request_recovery_reached.
