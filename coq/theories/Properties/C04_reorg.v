(* C04 — responses follow the active chain through reorgs until 100 confirmations.
   Statements only; proofs are `exact` of lemmas in TowerReorg.v.  Vocabulary (TowerReorg.v):
   `restamp k h c` = row k with status (h, c); `completes`/`completed_list` = the trackers
   check_confirmations reports as completed; `cc_result` = the state it leaves; `blk_eff sc t h x` =
   the carrier's (memo-aware) answer for x during the block of height h; `given .. x` = x was answered
   from the memo or a K_send was logged; `fate` = what one connected block does to one tracker row;
   `credit n` adds n slots; `refund_total apps us u` = slots of the rows `us` owned by u. *)
From TeosModel Require Import Base TxIndex Tower TowerStable TowerInv TowerMon TowerReorg.
From TeosModel.Gen Require Consts.
Local Open Scope N_scope.

(* the generated constants the statements are about *)
Theorem C04_constants : IRR = Z.to_N Consts.IRREVOCABLY_RESOLVED /\ IRR = 100 /\
                        RETRY = Z.to_N Consts.CONFIRMATIONS_BEFORE_RETRY /\ RETRY = 6.
Proof. repeat split. Qed.

(* 1. check_confirmations over the snapshot of the table: it never aborts, reports exactly the
   trackers `completes` selects (in table order), confirms exactly those whose penalty is in the
   block and takes them out of the reorged set; nothing else changes (cc_result) *)
Theorem C04_check_conf_loop_spec le txids h t comp0 :
  Inv t ->
  check_conf_loop le txids h (db_trks t) t comp0 = Ok (comp0 ++ completed_list txids h t) (cc_result txids h t).
Proof. exact (check_conf_loop_spec le txids h t comp0). Qed.

Theorem C04_in_completed_list txids h t uuid :
  In uuid (completed_list txids h t) <->
  exists k, In k (db_trks t) /\ trk_uuid k = uuid /\ completes txids h (reorged t) k = true.
Proof. exact (in_completed_list txids h t uuid). Qed.

Theorem C04_completes_iff txids h rg k :
  completes txids h rg k = true <->
  memN (t_penalty k) txids = false /\ mem_uuid (trk_uuid k) rg = false /\ t_conf k = true /\
  t_height k + IRR = h.
Proof. exact (completes_iff txids h rg k). Qed.

(* the code's own reading: current_height.saturating_sub(h) == IRREVOCABLY_RESOLVED *)
Theorem C04_completes_iff_sub txids h rg k :
  completes txids h rg k = true <->
  memN (t_penalty k) txids = false /\ mem_uuid (trk_uuid k) rg = false /\ t_conf k = true /\
  h - t_height k = IRR.
Proof. exact (completes_iff_sub txids h rg k). Qed.

Theorem C04_check_conf_loop_abort_site le txids h snap t comp0 s t' :
  check_conf_loop le txids h snap t comp0 = Abort s t' -> s = S_r_confirm_update_unwrap.
Proof. exact (check_conf_loop_abort_site le txids h snap t comp0 s t'). Qed.

Theorem C04_check_conf_loop_never_aborts le txids h t comp0 s t' :
  Inv t -> check_conf_loop le txids h (db_trks t) t comp0 <> Abort s t'.
Proof. exact (check_conf_loop_never_aborts le txids h t comp0 s t'). Qed.

(* 2. completion = deletion with refund of exactly the appointment's slots; nothing else refunds *)
Theorem C04_completes_iff_100 le sc t b h t' :
  Inv t -> r_block_connected le sc t b h = Ok tt t' ->
  (forall k, In k (db_trks t) ->
     (In (trk_uuid k) (completed_list (keys_of (ib_data b)) h t) <->
      memN (t_penalty k) (keys_of (ib_data b)) = false /\ mem_uuid (trk_uuid k) (reorged t) = false /\
      t_conf k = true /\ t_height k + IRR = h)) /\
  (forall u, In u (completed_list (keys_of (ib_data b)) h t) ->
     find_trk (db_trks t') u = None /\ find_app (db_apps t') u = None /\ exists a, find_app (db_apps t) u = Some a) /\
  (forall u, aget (gk_users t') u =
             option_map (credit (refund_total (db_apps t) (completed_list (keys_of (ib_data b)) h t) u)) (aget (gk_users t) u)) /\
  (forall u, aget (db_users t') u =
             option_map (credit (refund_total (db_apps t) (completed_list (keys_of (ib_data b)) h t) u)) (aget (db_users t) u)).
Proof. exact (completes_iff_100 le sc t b h t'). Qed.

Theorem C04_step_connect_refunds le t hash txs sc t' :
  Inv t -> step le t (OConnect hash txs) sc = (t', OBlockRes) ->
  exists outdated tw,
    outdated_users (c_delta (cfg t)) (gk_height t + 1) (gk_users t) = Some outdated /\
    Inv tw /\ gk_height tw = gk_height t + 1 /\
    r_block_connected le sc tw (index_block hash txs) (gk_height t + 1) = Ok tt t' /\
    (forall u, aget (gk_users t') u =
               if memN u outdated then None
               else option_map (credit (refund_total (db_apps tw) (completed_list txs (gk_height t + 1) tw) u))
                               (aget (gk_users t) u)) /\
    (forall u, aget (db_users t') u =
               if memN u outdated then None
               else option_map (credit (refund_total (db_apps tw) (completed_list txs (gk_height t + 1) tw) u))
                               (aget (db_users t) u)).
Proof. exact (step_connect_refunds le t hash txs sc t'). Qed.

Theorem C04_refund_only_on_completion le t o sc t' x u ui ui' :
  Inv t -> step le t o sc = (t', x) -> not_abort x ->
  aget (gk_users t) u = Some ui -> aget (gk_users t') u = Some ui' -> u_slots ui < u_slots ui' ->
  match o with
  | ORegister u' => u' = u
  | OAdd signer loc b _ _ =>
      signer = Some u /\ exists a, find_app (db_apps t) (loc, u) = Some a /\ slots_of (b_len b) < slots_of (b_len (a_blob a))
  | OConnect hash txs =>
      exists tw uuid, Inv tw /\ r_block_connected le sc tw (index_block hash txs) (gk_height t + 1) = Ok tt t' /\
                      In uuid (completed_list txs (gk_height t + 1) tw) /\ snd uuid = u
  | _ => False
  end.
Proof. exact (refund_only_on_completion le t o sc t' x u ui ui'). Qed.

(* every tracker row after the responder has processed a block *)
Theorem C04_r_block_connected_rows le sc t b h t' :
  Inv t -> r_block_connected le sc t b h = Ok tt t' ->
  exists lim, u32_sub h RETRY = Some lim /\
    forall u, find_trk (db_trks t') u =
              match find_trk (db_trks t) u with
              | None => None
              | Some k => fate (keys_of (ib_data b)) h lim (reorged t) (blk_eff sc t h) k
              end.
Proof. exact (r_block_connected_rows le sc t b h t'). Qed.

(* 3. a disconnection marks exactly the trackers confirmed in the disconnected block *)
Theorem C04_disconnect_marks_exactly t hash h :
  Inv t ->
  exists added,
    r_block_disconnected t hash h =
      Ok tt (set_reorged (set_r_index (set_car_height t h) (ti_disconnect (r_index t) hash)) (reorged t ++ added)) /\
    NoDup added /\
    (forall u, In u added <->
               ~ In u (reorged t) /\ exists k, In k (db_trks t) /\ trk_uuid k = u /\ t_conf k = true /\ t_height k = h).
Proof. exact (disconnect_marks_exactly t hash h). Qed.

(* 4. the next connection re-announces them *)
Theorem C04_reorg_reannounce le sc t b h t' u k :
  Inv t -> r_block_connected le sc t b h = Ok tt t' ->
  find_trk (db_trks t) u = Some k -> In u (reorged t) ->
  reorged t' = [] /\
  ~ In u (completed_list (keys_of (ib_data b)) h t) /\
  if memN (t_penalty k) (keys_of (ib_data b))
  then find_trk (db_trks t') u = Some (restamp k h true)
  else
    is_confirmed (blk_eff sc t h (t_dispute k)) = false /\
    given sc t h (rpc_log t') (t_dispute k) /\
    if status_rejected (blk_eff sc t h (t_dispute k)) then find_trk (db_trks t') u = None
    else given sc t h (rpc_log t') (t_penalty k) /\
         if status_rejected (blk_eff sc t h (t_penalty k)) then find_trk (db_trks t') u = None
         else find_trk (db_trks t') u = Some (restamp k h false).
Proof. exact (reorg_reannounce le sc t b h t' u k). Qed.

(* handle_reorged_txs itself: per listed uuid that still has a row k, the dispute is handed to the
   node (reorg_covered: it is in the memo afterwards, `carried`: a K_send was logged unless it was
   memoized before); rejected dispute or penalty -> the uuid is in the returned list, otherwise the row
   becomes (h, false) (reorg_rows); uuids without a row are skipped *)
Theorem C04_reorged_loop_spec sc h us t rej0 rej t' :
  Inv t -> reorged_loop sc h us t rej0 = Ok rej t' ->
  rej = rej0 ++ filter (reorg_rejected (eff_status sc t) (db_trks t)) us /\
  (exists m l, t' = with_carrier (set_db_trks t (reorg_rows (eff_status sc t) h us (db_trks t))) m l) /\
  carried sc t t' /\
  (forall uuid k, In uuid us -> find_trk (db_trks t) uuid = Some k -> reorg_covered (eff_status sc t) t' k).
Proof. exact (reorged_loop_spec sc h us t rej0 rej t'). Qed.

(* rebroadcast_stale_txs itself *)
Theorem C04_stale_loop_spec sc h us t rej0 :
  Inv t -> (forall u, In u us -> find_trk (db_trks t) u <> None) ->
  exists t', stale_loop sc h us t rej0 = Ok (rej0 ++ filter (stale_rejected (eff_status sc t) (db_trks t)) us) t' /\
    (exists m l, t' = with_carrier (set_db_trks t (stale_rows (eff_status sc t) h us (db_trks t))) m l) /\
    carried sc t t' /\
    (forall u k, In u us -> find_trk (db_trks t) u = Some k ->
                 aget (car_memo t') (t_penalty k) = Some (eff_status sc t (t_penalty k))).
Proof. exact (stale_loop_spec sc h us t rej0). Qed.

(* the monitor's `completing` is `completes` outside the reorged set *)
Theorem C04_completes_matches_monitor txids h k : completes txids h [] k = completing h txids k.
Proof. exact (completes_matches_monitor txids h k). Qed.

(* 5. periodic re-submission *)
Theorem C04_rebroadcast_cadence le sc t b h t' u k :
  Inv t -> r_block_connected le sc t b h = Ok tt t' ->
  find_trk (db_trks t) u = Some k -> t_conf k = false -> ~ In u (reorged t) ->
  memN (t_penalty k) (keys_of (ib_data b)) = false ->
  RETRY <= h /\
  if N.leb (t_height k + RETRY) h
  then given sc t h (rpc_log t') (t_penalty k) /\
       find_trk (db_trks t') u =
       match blk_eff sc t h (t_penalty k) with
       | Rejected _ => None
       | ConfirmedIn hh => Some (restamp k hh true)
       | InMempoolSince hh => Some (restamp k hh false)
       | IrrevocablyResolved => Some (restamp k h false)
       end
  else find_trk (db_trks t') u = Some k.
Proof. exact (rebroadcast_cadence le sc t b h t' u k). Qed.

Theorem C04_rebroadcast_restamps_now le sc t b h t' u k :
  Inv t -> r_block_connected le sc t b h = Ok tt t' ->
  find_trk (db_trks t) u = Some k -> t_conf k = false -> ~ In u (reorged t) ->
  memN (t_penalty k) (keys_of (ib_data b)) = false -> t_height k + RETRY <= h ->
  aget (car_memo t) (t_penalty k) = None -> snd (script_get sc (t_penalty k)) = A_ok ->
  In (mk_rpc K_send (t_penalty k) (InMempoolSince h)) (rpc_log t') /\
  find_trk (db_trks t') u = Some (restamp k h false).
Proof. exact (rebroadcast_restamps_now le sc t b h t' u k). Qed.

Theorem C04_resent_every_6th_block le t0 U k0 bs :
  Inv t0 -> reorged t0 = [] -> car_memo t0 = [] ->
  find_trk (db_trks t0) U = Some k0 -> t_conf k0 = false ->
  (forall k', In k' (db_trks t0) -> t_penalty k' = t_penalty k0 -> trk_uuid k' = U) ->
  gk_height t0 < t_height k0 + RETRY ->
  (forall b, In b bs -> ~ In (t_penalty k0) (snd (fst b)) /\
                        forall a, In a (db_apps t0) -> ~ In (a_loc a) (snd (fst b))) ->
  stays le U t0 bs ->
  forall i, (0 < i <= length bs)%nat ->
    let ti := fst (run le t0 (connects (firstn i bs))) in
    let H := gk_height t0 + N.of_nat i in
    gk_height ti = H /\
    ((exists r, In (mk_rpc K_send (t_penalty k0) r) (rpc_log ti)) <-> (exists j, 0 < j /\ H = t_height k0 + RETRY * j)) /\
    (exists q, find_trk (db_trks ti) U = Some (restamp k0 (t_height k0 + RETRY * q) false) /\
               H < t_height k0 + RETRY * q + RETRY /\ (q = 0 \/ t_height k0 + RETRY * q <= H)).
Proof. exact (resent_every_6th_block le t0 U k0 bs). Qed.

(* the responder submits nothing else while connecting a block *)
Theorem C04_responder_sends_justified le sc t b h t' ev :
  Inv t -> r_block_connected le sc t b h = Ok tt t' -> In ev (rpc_log t') ->
  In ev (rpc_log t) \/
  (r_kind ev = K_send /\
   ((exists k, In k (db_trks t) /\ In (trk_uuid k) (reorged t) /\ memN (t_penalty k) (keys_of (ib_data b)) = false /\
               (r_tx ev = t_dispute k \/ r_tx ev = t_penalty k)) \/
    (exists k, In k (db_trks t) /\ t_conf k = false /\ t_height k + RETRY <= h /\
               memN (t_penalty k) (keys_of (ib_data b)) = false /\ r_tx ev = t_penalty k))).
Proof. exact (responder_sends_justified le sc t b h t' ev). Qed.

(* 7. recorded as confirmed only at heights of the active chain (the repaired code no longer
   subtracts with overflow check, so this is no longer needed for abort-freedom; it is the
   bookkeeping half of "confirmed only in a block of the active chain") *)
Theorem C04_confirmed_on_active_chain le c h0 boot t0 hist :
  init c h0 boot = Some t0 -> NoDup (map fst boot) -> fresh_hashes le t0 hist ->
  Forall not_abort (snd (run le t0 hist)) ->
  forall k, In k (db_trks (fst (run le t0 hist))) -> t_conf k = true ->
            mem_uuid (trk_uuid k) (reorged (fst (run le t0 hist))) = false ->
            t_height k <= gk_height (fst (run le t0 hist)).
Proof. exact (confirmed_on_active_chain le c h0 boot t0 hist). Qed.

(* while a block is connected a row is (newly) recorded as confirmed only with that block's height and
   only when the block contains its penalty; memo_ok holds in every reachable state *)
Theorem C04_confirmed_only_by_block le sc t b h t' u k k' :
  Inv t -> memo_ok t -> r_block_connected le sc t b h = Ok tt t' ->
  find_trk (db_trks t) u = Some k -> find_trk (db_trks t') u = Some k' -> t_conf k' = true ->
  (memN (t_penalty k) (keys_of (ib_data b)) = true /\ k' = restamp k h true) \/
  (memN (t_penalty k) (keys_of (ib_data b)) = false /\ k' = k).
Proof. exact (confirmed_only_by_block le sc t b h t' u k k'). Qed.

Theorem C04_memo_ok_reachable le c h0 boot t0 hist :
  init c h0 boot = Some t0 -> NoDup (map fst boot) -> fresh_hashes le t0 hist ->
  Forall not_abort (snd (run le t0 hist)) -> memo_ok (fst (run le t0 hist)).
Proof. exact (memo_ok_reachable le c h0 boot t0 hist). Qed.

(* 6. a penalty that never confirms is never refunded *)
Theorem C04_never_completes_unconfirmed txids h t k :
  Inv t -> In k (db_trks t) -> t_conf k = false -> ~ In (trk_uuid k) (completed_list txids h t).
Proof. exact (never_completes_unconfirmed txids h t k). Qed.

Print Assumptions C04_constants.
Print Assumptions C04_check_conf_loop_spec.
Print Assumptions C04_in_completed_list.
Print Assumptions C04_completes_iff.
Print Assumptions C04_completes_iff_sub.
Print Assumptions C04_check_conf_loop_abort_site.
Print Assumptions C04_check_conf_loop_never_aborts.
Print Assumptions C04_completes_iff_100.
Print Assumptions C04_step_connect_refunds.
Print Assumptions C04_refund_only_on_completion.
Print Assumptions C04_r_block_connected_rows.
Print Assumptions C04_disconnect_marks_exactly.
Print Assumptions C04_reorg_reannounce.
Print Assumptions C04_reorged_loop_spec.
Print Assumptions C04_stale_loop_spec.
Print Assumptions C04_completes_matches_monitor.
Print Assumptions C04_rebroadcast_cadence.
Print Assumptions C04_rebroadcast_restamps_now.
Print Assumptions C04_resent_every_6th_block.
Print Assumptions C04_responder_sends_justified.
Print Assumptions C04_confirmed_on_active_chain.
Print Assumptions C04_confirmed_only_by_block.
Print Assumptions C04_memo_ok_reachable.
Print Assumptions C04_never_completes_unconfirmed.

(* ---------- non-vacuity ---------- *)
Definition ex_cfg := mk_config 10 1000 5.
Definition ex_boot : list (N * list N) := [(905, []); (904, []); (903, []); (902, []); (901, []); (900, [])].
Definition ex_blob := mk_blob 5 (Some 9) 100.
Definition ex_empties (from : N) (n : nat) : list (op * script) :=
  map (fun i => (OConnect (from + N.of_nat i) [], @nil (N * (getraw_ans * send_ans)))) (seq 0 n).
(* user 7 registers, hands over an appointment for locator 5 (penalty 9); block 101 contains the
   dispute, block 102 the penalty *)
Definition ex_prefix : list (op * script) :=
  [(ORegister 7, []); (OAdd (Some 7) 5 ex_blob 1 1, []); (OConnect 1001 [5], []); (OConnect 1002 [9], [])].
Definition ex_view (t : tower) :=
  (map (fun k => (t_height k, t_conf k)) (db_trks t), option_map u_slots (aget (gk_users t) 7),
   option_map u_slots (aget (db_users t) 7), gk_height t, reorged t, map (fun e => (r_tx e, r_res e)) (rpc_log t)).
Definition ex_run (h : list (op * script)) :=
  option_map (fun t0 => (ex_view (fst (run true t0 h)), forallb (fun x => match x with OAbort _ => false | _ => true end)
                                                                (snd (run true t0 h))))
             (init ex_cfg 100 ex_boot).

(* confirmed in 102; after 99 more blocks (height 201) still tracked, one slot spent ... *)
Example C04_ex_99_blocks :
  ex_run (ex_prefix ++ ex_empties 2000 99) = Some (([(102, true)], Some 9, Some 9, 201, [], []), true).
Proof. vm_compute. reflexivity. Qed.
(* ... and the 100th (height 202 = 102 + IRREVOCABLY_RESOLVED) forgets it and gives the slot back *)
Example C04_ex_100_blocks :
  ex_run (ex_prefix ++ ex_empties 2000 100) = Some (([], Some 10, Some 10, 202, [], []), true).
Proof. vm_compute. reflexivity. Qed.

(* block 102 is disconnected: the tracker is marked; the next block re-sends dispute then penalty *)
Example C04_ex_disconnect_marks :
  ex_run (ex_prefix ++ [(ODisconnect, [])]) = Some (([(102, true)], Some 9, Some 9, 101, [(5, 7)], []), true).
Proof. vm_compute. reflexivity. Qed.
Example C04_ex_reannounce :
  ex_run (ex_prefix ++ [(ODisconnect, []); (OConnect 1003 [], [])]) =
  Some (([(102, false)], Some 9, Some 9, 102, [], [(9, InMempoolSince 102); (5, InMempoolSince 102)]), true).
Proof. vm_compute. reflexivity. Qed.
(* the node rejects the re-announced dispute: dropped, no refund *)
Example C04_ex_reannounce_rejected :
  ex_run (ex_prefix ++ [(ODisconnect, []); (OConnect 1003 [], [(5, (G_not_found, A_code Consts.RPC_VERIFY_REJECTED))])]) =
  Some (([], Some 9, Some 9, 102, [], [(5, Rejected Consts.RPC_VERIFY_REJECTED)]), true).
Proof. vm_compute. reflexivity. Qed.

(* the penalty was handed to the node while the carrier stood at height 100: nothing at 105, re-sent at 106 *)
Example C04_ex_rebroadcast_not_yet :
  ex_run (firstn 3 ex_prefix ++ ex_empties 2000 4) = Some (([(100, false)], Some 9, Some 9, 105, [], []), true).
Proof. vm_compute. reflexivity. Qed.
Example C04_ex_rebroadcast_plus_6 :
  ex_run (firstn 3 ex_prefix ++ ex_empties 2000 5) =
  Some (([(106, false)], Some 9, Some 9, 106, [], [(9, InMempoolSince 106)]), true).
Proof. vm_compute. reflexivity. Qed.

(* the hypotheses of C04_confirmed_on_active_chain are satisfiable: distinct boot hashes, fresh block hashes *)
Example C04_ex_fresh_hashes :
  match init ex_cfg 100 ex_boot with
  | Some t0 => NoDup (map fst ex_boot) /\
               fresh_hashes true t0 (ex_prefix ++ [(ODisconnect, []); (OConnect 1003 [], [])])
  | None => False
  end.
Proof.
  vm_compute. split.
  - repeat (constructor; [intros H; repeat (destruct H as [H|H]; [discriminate|]); exact H|]). constructor.
  - repeat split; intros H; repeat (destruct H as [H|H]; [discriminate|]); exact H.
Qed.
