(* C02 — the tower broadcasts only what an observed breach justifies.
   Statements only; proofs are `exact` of lemmas in TowerBreach.v.

   The ghost `rpc_log` of a state is the list of RPCs issued in the step that produced it (it is
   reset when a step starts), so "every event of rpc_log t'" is "every RPC of the step".
   The justification theorems hold for EVERY outcome of the step, aborts included (what was
   submitted before a handler panicked is not taken back): there t' is the state at the abort.
   Hypotheses: `Inv t` (TowerInv.inv_reachable); `reorged_tracked t` (only for the four-way form):
   every uuid in Responder.reorged_trackers has a tracker — true of every reachable state
   (C02_reorged_tracked_reachable); `not_abort x` only where the statement is about the tables a
   returning step leaves (responded_implies_given) — a step that aborts is a panic, C11. *)
From TeosModel Require Import Base TxIndex Tower TowerStable TowerInv TowerProofs TowerBreach.
From TeosModel.Gen Require Consts.
Local Open Scope N_scope.

(* every_send_justified: for every operation, state and node script, each sendrawtransaction of
   the step is (1) the decrypted penalty of an appointment whose locator is in the block being
   connected, (2) the penalty of an existing tracker, (3) the dispute of an existing tracker that
   is in `reorged`, or (4) the decrypted penalty of the appointment being added, its dispute being
   in the watcher's cache.  (The penalty of a tracker created in this very step falls under (1).) *)
Theorem C02_every_send_justified le t o sc t' x :
  Inv t -> reorged_tracked t -> step le t o sc = (t', x) ->
  forall e, In e (rpc_log t') -> r_kind e = K_send ->
    (exists hash txs a, o = OConnect hash txs /\ In a (db_apps t) /\ In (a_loc a) txs /\
                        decrypt (a_blob a) (a_loc a) = Some (r_tx e)) \/
    (exists k, In k (db_trks t) /\ t_penalty k = r_tx e) \/
    (exists k, In k (db_trks t) /\ mem_uuid (trk_uuid k) (reorged t) = true /\ t_dispute k = r_tx e) \/
    (exists u loc b delay sig d, o = OAdd (Some u) loc b delay sig /\ ti_get (w_cache t) loc = Some d /\
                                 decrypt b d = Some (r_tx e)).
Proof. exact (every_send_justified_all le t o sc t' x). Qed.

(* the hypothesis reorged_tracked cannot be dropped from the four-way form: refuted for a state
   that merely satisfies Inv (`reorged` names a uuid without tracker) *)
Theorem C02_every_send_justified_refuted :
  exists le t o sc t' x e,
    Inv t /\ step le t o sc = (t', x) /\ not_abort x /\ In e (rpc_log t') /\ r_kind e = K_send /\
    ~ just_send4 t o (r_tx e).
Proof. exact every_send_justified_refuted. Qed.

(* ... the same for ALL states satisfying Inv (no assumption on `reorged`), for sends and mempool
   queries alike; just_send has a fifth, unreachable, case: the dispute — confirmed in the block
   being connected — of an appointment responded to in this very step whose uuid was already in
   `reorged` although it had no tracker.  API reads, registrations and disconnections log nothing:
   none of the cases of just_rpc applies to them. *)
Theorem C02_every_rpc_justified le t o sc t' x :
  Inv t -> step le t o sc = (t', x) ->
  forall e, In e (rpc_log t') -> just_rpc t o e.
Proof. exact (every_rpc_justified_all le t o sc t' x). Qed.

(* registrations, reads and disconnections issue no RPC at all (whether the step aborts or not) *)
Theorem C02_quiet_operations le t o sc t' x :
  step le t o sc = (t', x) ->
  match o with
  | ORegister _ | OGet _ _ | OGetSub _ | ODisconnect => rpc_log t' = []
  | _ => True
  end.
Proof. exact (quiet_step le t o sc t' x). Qed.

(* reorged_tracked holds in every reachable state *)
Theorem C02_reorged_tracked_reachable le c h0 blocks t0 h :
  init c h0 blocks = Some t0 -> Forall not_abort (snd (run le t0 h)) -> reorged_tracked (fst (run le t0 h)).
Proof. exact (reorged_tracked_reachable le c h0 blocks t0 h). Qed.

(* no_send_for_purged: in a Connect step the gatekeeper's listener runs first (generated order),
   and every RPC of the step is justified by the rows that are LEFT after its purge (tg): no event
   refers to a row of a user purged in that step. *)
Theorem C02_listener_order : Consts.LISTENER_ORDER = [0; 1; 2]%Z.
Proof. reflexivity. Qed.

Theorem C02_no_send_for_purged le t hash txs sc t' x :
  Inv t -> step le t (OConnect hash txs) sc = (t', x) ->
  match gk_block_connected (fresh t) (gk_height t + 1) with
  | Ok _ tg => forall e, In e (rpc_log t') -> just_rpc tg (OConnect hash txs) e
  | Abort _ _ => rpc_log t' = []
  end.
Proof. exact (connect_rpcs_justified_all le t hash txs sc t' x). Qed.

(* the returning case, with the purge made explicit *)
Theorem C02_no_send_for_purged_ok le t hash txs sc t' x :
  Inv t -> step le t (OConnect hash txs) sc = (t', x) -> not_abort x ->
  exists tg, gk_block_connected (fresh t) (gk_height t + 1) = Ok tt tg /\
             forall e, In e (rpc_log t') -> just_rpc tg (OConnect hash txs) e.
Proof. exact (connect_rpcs_justified le t hash txs sc t' x). Qed.

(* what the purge leaves: the rows of users that are not outdated *)
Theorem C02_purge_spec t h tg :
  gk_block_connected t h = Ok tt tg ->
  exists out, outdated_users (c_delta (cfg t)) h (gk_users t) = Some out /\
    db_users tg = filter (fun r => negb (memN (fst r) out)) (db_users t) /\
    db_apps tg = filter (fun a => negb (memN (a_user a) out)) (db_apps t) /\
    db_trks tg = filter (fun k => negb (memN (t_user k) out)) (db_trks t) /\
    same_engine t tg /\ gk_height tg = h.
Proof. exact (gk_block_connected_spec t h tg). Qed.

(* responded_implies_given: a tracker row appears for a uuid that had none only with a penalty
   whose status (verdict by txid, in the state the step started from) is an accepted one ... *)
Theorem C02_responded_implies_given le t o sc t' x :
  Inv t -> step le t o sc = (t', x) -> not_abort x ->
  forall k, In k (db_trks t') -> find_trk (db_trks t) (trk_uuid k) = None ->
            status_accepted (breach_status sc t (t_penalty k)) = true.
Proof. exact (responded_implies_given le t o sc t' x). Qed.

(* ... and an accepted status comes from the responder's index, an in-mempool answer, a memoised
   accepted answer of this block period, or a sendrawtransaction the node answered ok *)
Theorem C02_accepted_cases sc t p :
  status_accepted (breach_status sc t p) = true ->
  (exists bh h, ti_get (r_index t) p = Some bh /\ ti_get_height (r_index t) bh = Some h) \/
  (ti_get (r_index t) p = None /\
   (says_in_mempool sc p = true \/
    (says_in_mempool sc p = false /\
     ((exists r, aget (car_memo t) p = Some r /\ status_accepted r = true) \/
      (aget (car_memo t) p = None /\ snd (script_get sc p) = A_ok))))).
Proof. exact (breach_status_accepted_cases sc t p). Qed.

(* the responder's listener on its own: it only submits penalties of trackers it holds and
   disputes of trackers in `reorged`; it issues no mempool query *)
Theorem C02_responder_sends le sc tb hash txs h t' :
  r_block_connected le sc tb (index_block hash txs) h = Ok tt t' ->
  exists evs, rpc_log t' = evs ++ rpc_log tb /\
    forall e, In e evs ->
      r_kind e = K_send /\
      exists k, In k (db_trks tb) /\
                (r_tx e = t_penalty k \/ (r_tx e = t_dispute k /\ In (trk_uuid k) (reorged tb))).
Proof.
  intros Er. exact (ri_log tb txs h t' (r_block_connected_rinv tb txs h le sc _ t' (keys_of_index_block hash txs) Er)).
Qed.

Print Assumptions C02_every_send_justified.
Print Assumptions C02_every_send_justified_refuted.
Print Assumptions C02_every_rpc_justified.
Print Assumptions C02_quiet_operations.
Print Assumptions C02_reorged_tracked_reachable.
Print Assumptions C02_listener_order.
Print Assumptions C02_no_send_for_purged.
Print Assumptions C02_no_send_for_purged_ok.
Print Assumptions C02_purge_spec.
Print Assumptions C02_responded_implies_given.
Print Assumptions C02_accepted_cases.
Print Assumptions C02_responder_sends.

(* ---------- non-vacuity ---------- *)
Definition C02_ex_c0 := mk_config 10 1000 6.
Definition C02_ex_blocks0 : list (N * list N) := [(1006,[]);(1005,[]);(1004,[]);(1003,[]);(1002,[]);(1001,[])].
Definition C02_ex_dummy := mk_tower C02_ex_c0 [] 0 [] [] [] 0 (mk_txindex [] [] [] 0 0) (mk_txindex [] [] [] 0 0) 0 [] [] [].
Definition C02_ex_t0 := match init C02_ex_c0 200 C02_ex_blocks0 with Some t => t | None => C02_ex_dummy end.
Definition C02_ex_good := mk_blob 500 (Some 900) 100.
Definition C02_ex_rpcs (t : tower) := map (fun e => (r_kind e, r_tx e)) (rpc_log t).
Definition C02_ex_log_after (h : list (op * script)) := C02_ex_rpcs (fst (run true C02_ex_t0 h)).

(* (1) a breach: the penalty is submitted *)
Example C02_ex_send_for_breach :
  C02_ex_log_after [(ORegister 1, []); (OAdd (Some 1) 500 C02_ex_good 20 77, []); (OConnect 2001 [500], [])]
  = [(K_send, 900); (K_getraw, 900)].
Proof. vm_compute. reflexivity. Qed.

(* nothing is submitted for an appointment that is not triggered *)
Example C02_ex_no_send_untriggered :
  C02_ex_log_after [(ORegister 1, []); (OAdd (Some 1) 500 C02_ex_good 20 77, []); (OConnect 2001 [501], [])] = [].
Proof. vm_compute. reflexivity. Qed.

(* (3) after a reorg of the block that confirmed the penalty, dispute and penalty are re-announced *)
Example C02_ex_reorg_reannounce :
  C02_ex_log_after [(ORegister 1, []); (OAdd (Some 1) 500 C02_ex_good 20 77, []); (OConnect 2001 [500], []);
             (OConnect 2002 [900], []); (ODisconnect, []); (OConnect 2003 [], [])]
  = [(K_send, 900); (K_send, 500)].
Proof. vm_compute. reflexivity. Qed.

(* (2) a tracker whose penalty stays unconfirmed is re-broadcast after CONFIRMATIONS_BEFORE_RETRY blocks *)
Example C02_ex_stale_rebroadcast :
  C02_ex_log_after [(ORegister 1, []); (OAdd (Some 1) 500 C02_ex_good 20 77, []); (OConnect 2001 [500], []);
             (OConnect 2002 [], []); (OConnect 2003 [], []); (OConnect 2004 [], []); (OConnect 2005 [], []);
             (OConnect 2006 [], [])]
  = [(K_send, 900)].
Proof. vm_compute. reflexivity. Qed.

(* no_send_for_purged: the owner's subscription (duration 2, grace 0) is over at the block that
   carries the dispute; the gatekeeper purges first, nothing is submitted *)
Definition C02_ex_c1 := mk_config 10 2 0.
Definition C02_ex_t1 := match init C02_ex_c1 200 C02_ex_blocks0 with Some t => t | None => C02_ex_dummy end.
Example C02_ex_purged_no_send :
  (let t := fst (run true C02_ex_t1 [(ORegister 1, []); (OAdd (Some 1) 500 C02_ex_good 20 77, []); (OConnect 2001 [], []);
                              (OConnect 2002 [500], [])]) in (db_users t, db_apps t, C02_ex_rpcs t))
  = ([], [], []).
Proof. vm_compute. reflexivity. Qed.

(* ================================================================================================ *)
(* RUN LEVEL (TowerRuns2.v; a moment of a run is a cut  h = pre ++ (o, sc) :: post, see TowerRuns.v).
   Hypotheses: a bootstrapped tower and a history inside the envelope / chain discipline of TowerLive.v. *)
From TeosModel Require Import TowerLive TowerRuns TowerRuns2.

(* "Every transaction the tower submits to the Bitcoin node is ...": EVERY K_send in the RPC log of EVERY step of
   EVERY run is justified as in C02_every_send_justified (whose hypotheses Inv and reorged_tracked hold in every
   state a run reaches) *)
Theorem C02_every_send_justified_run le c h0 blocks t0 h pre o sc post :
  init c h0 blocks = Some t0 -> NoDup (map fst blocks) -> N.of_nat (length blocks) <= h0 ->
  in_envelope le t0 h = true -> chain_disciplined le t0 h = true ->
  h = pre ++ (o, sc) :: post ->
  let t := fst (run le t0 pre) in
  forall e, In e (rpc_log (fst (run le t0 (pre ++ [(o, sc)])))) -> r_kind e = K_send ->
    (exists hash txs a, o = OConnect hash txs /\ In a (db_apps t) /\ In (a_loc a) txs /\
                        decrypt (a_blob a) (a_loc a) = Some (r_tx e)) \/
    (exists k, In k (db_trks t) /\ t_penalty k = r_tx e) \/
    (exists k, In k (db_trks t) /\ mem_uuid (trk_uuid k) (reorged t) = true /\ t_dispute k = r_tx e) \/
    (exists u loc b delay sig d, o = OAdd (Some u) loc b delay sig /\ ti_get (w_cache t) loc = Some d /\
                                 decrypt b d = Some (r_tx e)).
Proof. exact (every_send_justified_run le c h0 blocks t0 h pre o sc post). Qed.

(* "It never submits anything on behalf of appointments that were not triggered": in a run that contains no block
   carrying the locator of a row stored at that moment and no add_appointment for a locator the watcher's cache holds
   (no_trigger_run, computable), at every moment: there is no tracker before or after the step, the step issues no
   sendrawtransaction at all - in particular none for the penalty of any stored appointment *)
Theorem C02_no_send_without_breach_run le c h0 blocks t0 h pre o sc post :
  init c h0 blocks = Some t0 -> NoDup (map fst blocks) -> N.of_nat (length blocks) <= h0 ->
  in_envelope le t0 h = true -> chain_disciplined le t0 h = true -> no_trigger_run le t0 h = true ->
  h = pre ++ (o, sc) :: post ->
  let t := fst (run le t0 pre) in
  let t' := fst (run le t0 (pre ++ [(o, sc)])) in
  db_trks t = [] /\ db_trks t' = [] /\
  (forall e, In e (rpc_log t') -> r_kind e <> K_send) /\
  (forall a p, In a (db_apps t) -> decrypt (a_blob a) (a_loc a) = Some p -> forall r, ~ In (mk_rpc K_send p r) (rpc_log t')).
Proof. exact (no_send_without_breach_run le c h0 blocks t0 h pre o sc post). Qed.

Theorem C02_no_trigger_defs le t o sc r :
  no_trigger_at t o =
  match o with
  | OConnect _ txs => forallb (fun a => negb (memN (a_loc a) txs)) (db_apps t)
  | OAdd _ loc _ _ _ => match ti_get (w_cache t) loc with None => true | Some _ => false end
  | _ => true
  end /\
  no_trigger_run le t [] = true /\
  no_trigger_run le t ((o, sc) :: r) = (no_trigger_at t o && no_trigger_run le (fst (step le t o sc)) r).
Proof. repeat split; reflexivity. Qed.

(* ONE STEP without trigger, from any state without trackers *)
Theorem C02_quiet_without_trigger le t o sc t' x :
  Inv t -> reorged_tracked t -> db_trks t = [] -> no_trigger_at t o = true ->
  step le t o sc = (t', x) -> not_abort x ->
  db_trks t' = [] /\ forall e, In e (rpc_log t') -> r_kind e <> K_send.
Proof. exact (quiet_without_trigger le t o sc t' x). Qed.

Print Assumptions C02_every_send_justified_run.
Print Assumptions C02_no_send_without_breach_run.
Print Assumptions C02_no_trigger_defs.
Print Assumptions C02_quiet_without_trigger.

(* ---------- non-vacuity ---------- *)
Lemma C02_ex_blocks0_nodup : NoDup (map fst C02_ex_blocks0).
Proof. repeat (constructor; [cbn; intuition discriminate|]). constructor. Qed.

(* a history with appointments, blocks, a reorg and reads, but no trigger: nothing is ever sent *)
Definition C02_ex_quiet_hist : list (op * script) :=
  [(ORegister 1, []); (ORegister 2, []); (OAdd (Some 1) 500 C02_ex_good 20 77, []); (OConnect 2001 [501; 7], []);
   (OAdd (Some 2) 502 (mk_blob 502 (Some 900) 100) 20 78, []); (OConnect 2002 [900], []); (ODisconnect, []);
   (OGet (Some 1) 500, []); (OConnect 2003 [], []); (OAdd (Some 1) 500 (mk_blob 500 (Some 901) 100) 20 79, [])].

Example C02_ex_quiet_hyps :
  init C02_ex_c0 200 C02_ex_blocks0 = Some C02_ex_t0 /\ N.of_nat (length C02_ex_blocks0) <= 200 /\
  in_envelope true C02_ex_t0 C02_ex_quiet_hist = true /\ chain_disciplined true C02_ex_t0 C02_ex_quiet_hist = true /\
  no_trigger_run true C02_ex_t0 C02_ex_quiet_hist = true /\
  length (db_apps (fst (run true C02_ex_t0 C02_ex_quiet_hist))) = 2%nat.
Proof. repeat split; vm_compute; try reflexivity. discriminate. Qed.

Example C02_ex_quiet_applied :
  forall pre o sc post, C02_ex_quiet_hist = pre ++ (o, sc) :: post ->
    forall e, In e (rpc_log (fst (run true C02_ex_t0 (pre ++ [(o, sc)])))) -> r_kind e <> K_send.
Proof.
  intros pre o sc post E. destruct C02_ex_quiet_hyps as [Hi [Hlen [He [Hc [Hn _]]]]].
  exact (proj1 (proj2 (proj2 (C02_no_send_without_breach_run true C02_ex_c0 200 C02_ex_blocks0 C02_ex_t0 C02_ex_quiet_hist
                                pre o sc post Hi C02_ex_blocks0_nodup Hlen He Hc Hn E)))).
Qed.

(* ... whereas the same history with the locator 500 mined is not trigger-free, and the penalty is sent (justified) *)
Example C02_ex_trigger_detected :
  no_trigger_run true C02_ex_t0 (C02_ex_quiet_hist ++ [(OConnect 2004 [500], [])]) = false /\
  C02_ex_log_after (C02_ex_quiet_hist ++ [(OConnect 2004 [500], [])]) = [(K_send, 901); (K_getraw, 901)].
Proof. vm_compute. split; reflexivity. Qed.

(* every_send_justified_run applied to the reorg re-announcement of C02_ex_reorg_reannounce: the two sends of the last
   step are justified by the tracker in `reorged` *)
Example C02_ex_run_justified :
  let h := [(ORegister 1, []); (OAdd (Some 1) 500 C02_ex_good 20 77, []); (OConnect 2001 [500], []);
            (OConnect 2002 [900], []); (ODisconnect, []); (OConnect 2003 [], [])] in
  in_envelope true C02_ex_t0 h = true /\ chain_disciplined true C02_ex_t0 h = true /\
  (let t := fst (run true C02_ex_t0 (firstn 5 h)) in
   map (fun k => (trk_uuid k, t_dispute k, t_penalty k, mem_uuid (trk_uuid k) (reorged t))) (db_trks t))
  = [((500, 1), 500, 900, true)].
Proof. vm_compute. repeat split; reflexivity. Qed.
