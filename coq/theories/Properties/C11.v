(* C11 — the tower stays live (sequential half): the structural invariant holds in every reachable
   state, and under it the unwrap sites of the API handlers are unreachable.  Statements only. *)
From TeosModel Require Import Base TxIndex Tower TowerStable TowerInv TowerProofs TowerSubs.
Local Open Scope N_scope.

(* Every state reached from the bootstrap by any history of requests, blocks and node answers in
   which no handler aborted satisfies: unique keys, every appointment has its user row, every
   tracker its appointment row, gatekeeper memory = table users. *)
Theorem C11_invariant_reachable le c h0 blocks t0 h :
  init c h0 blocks = Some t0 -> Forall not_abort (snd (run le t0 h)) -> Inv (fst (run le t0 h)).
Proof. exact (inv_reachable le c h0 blocks t0 h). Qed.

Theorem C11_invariant_step le t o sc :
  Inv t -> not_abort (snd (step le t o sc)) -> Inv (fst (step le t o sc)).
Proof. exact (step_pres Inv inv_stable le t o sc). Qed.

(* Registration never aborts inside the envelope height + duration < 2^32 (store_user's unwrap and
   the get_mut unwrap are unreachable because memory = disk). *)
Theorem C11_register_never_aborts le t sc u :
  Inv t -> gk_height t + c_duration (cfg t) <= U32MAX -> not_abort (snd (step le t (ORegister u) sc)).
Proof. exact (register_never_aborts_in_envelope le t sc u). Qed.

(* Reads never abort (has_subscription_expired(..).unwrap() follows a successful authentication). *)
Theorem C11_reads_never_abort le t sc signer :
  (forall loc, not_abort (snd (step le t (OGet signer loc) sc))) /\ not_abort (snd (step le t (OGetSub signer) sc)).
Proof. exact (reads_never_abort le t sc signer). Qed.

Print Assumptions C11_invariant_reachable.
Print Assumptions C11_invariant_step.
Print Assumptions C11_register_never_aborts.
Print Assumptions C11_reads_never_abort.
