(* C11 — the tower stays live (sequential half): the structural invariant holds in every reachable
   state, and under it the unwrap sites of the API handlers are unreachable.  Statements only. *)
From TeosModel Require Import Base TxIndex Tower TowerStable TowerInv TowerProofs TowerSubs TowerReorg TowerLive Conc LockOrder.
From TeosModel Require TowerLedger.
Local Open Scope N_scope.

(* Every state reached from the bootstrap by any history of requests, blocks and node answers in
   which no handler aborted satisfies: unique keys, every appointment has its user row, every
   tracker its appointment row, gatekeeper memory = table users. *)
Theorem C11_invariant_reachable le c h0 blocks t0 h :
  init c h0 blocks = Some t0 -> Forall not_abort (snd (run le t0 h)) -> Inv (fst (run le t0 h)).
Proof. exact (inv_reachable le c h0 blocks t0 h). Qed.

Theorem C11_invariant_step le t o sc :
  Inv t -> not_abort (snd (step le t o sc)) -> Inv (fst (step le t o sc)).
Proof. exact (step_pres Inv inv_stable le t o sc). Qed.

(* Registration never aborts inside the envelope height + duration < 2^32 (store_user's unwrap and
   the get_mut unwrap are unreachable because memory = disk). *)
Theorem C11_register_never_aborts le t sc u :
  Inv t -> gk_height t + c_duration (cfg t) <= U32MAX -> not_abort (snd (step le t (ORegister u) sc)).
Proof. exact (register_never_aborts_in_envelope le t sc u). Qed.

(* Reads never abort (has_subscription_expired(..).unwrap() follows a successful authentication). *)
Theorem C11_reads_never_abort le t sc signer :
  (forall loc, not_abort (snd (step le t (OGet signer loc) sc))) /\ not_abort (snd (step le t (OGetSub signer) sc)).
Proof. exact (reads_never_abort le t sc signer). Qed.

(* ---------------------------------------------------------------------------------------------
   no_abort_seq (TowerLive.v).  BigInv = Inv + chain_inv (TowerReorg) + index shape (IdxInv) + every
   subscription can be given its grace period in u32 (ExpInv) + available + held slots <= 2^32-1 (SlotInv).
   The ENVELOPE of one operation in one state (env_step, computable form envb):
     ORegister u, u unknown : height + duration + grace <= 2^32-1 and the configured slots fit a u32
     ORegister u, u known, renewal granted (available + slots <= 2^32-1):
                              min(2^32-1, expiry + duration) + grace <= 2^32-1 and
                              available + held + slots <= 2^32-1
     OConnect               : CONFIRMATIONS_BEFORE_RETRY <= height + 1
     OAdd / OGet / OGetSub / ODisconnect : unconstrained.
   CHAIN DISCIPLINE (chain_step / chainb): a connected block's hash is not held by the responder's index
   (ODisconnect removes the current tip by construction).  Bootstrap: distinct block hashes, and the
   window does not include the genesis block (|blocks| <= height).
   `le` = log_enabled; the model ignores it since the repair of F17: all statements are for both values. *)

Theorem C11_envelope_spec t o : envb t o = true <-> env_step t o.
Proof. exact (envb_spec t o). Qed.

Theorem C11_chain_discipline_spec t o : chainb t o = true <-> chain_step t o.
Proof. exact (chainb_spec t o). Qed.

(* what the envelope says, spelled out *)
Theorem C11_envelope_unfolded t o :
  env_step t o =
  match o with
  | ORegister u =>
      match gk_get t u with
      | None => gk_height t + c_duration (cfg t) + c_delta (cfg t) <= U32MAX /\ c_slots (cfg t) <= U32MAX
      | Some ui =>
          u_slots ui + c_slots (cfg t) <= U32MAX ->
          N.min U32MAX (u_expiry ui + c_duration (cfg t)) + c_delta (cfg t) <= U32MAX /\
          TowerLedger.bal t u + c_slots (cfg t) <= U32MAX
      end
  | OConnect _ _ => RETRY <= gk_height t + 1
  | _ => True
  end.
Proof. reflexivity. Qed.

(* One step: from a state satisfying the big invariant, inside the envelope, no handler aborts,
   whatever the operation (register, add, get, get_subscription_info, block connected, block
   disconnected), the node's answers and the logging flag ... *)
Theorem C11_step_never_aborts le t o sc : BigInv t -> envb t o = true -> not_abort (snd (step le t o sc)).
Proof. exact (step_never_aborts le t o sc). Qed.

(* ... and the big invariant holds again afterwards. *)
Theorem C11_big_inv_step le t o sc :
  BigInv t -> envb t o = true -> chainb t o = true -> BigInv (fst (step le t o sc)).
Proof. exact (step_big le t o sc). Qed.

Theorem C11_big_inv_bootstrap c h0 boot t0 :
  init c h0 boot = Some t0 -> NoDup (map fst boot) -> N.of_nat (length boot) <= h0 -> BigInv t0.
Proof. exact (big_init c h0 boot t0). Qed.

(* no_abort_seq: EVERY history of requests, block events and node answers from a bootstrapped tower,
   inside the envelope and the chain discipline: no handler aborts. *)
Theorem C11_no_abort_seq le c h0 blocks t0 h :
  init c h0 blocks = Some t0 -> NoDup (map fst blocks) -> N.of_nat (length blocks) <= h0 ->
  in_envelope le t0 h = true -> chain_disciplined le t0 h = true ->
  Forall not_abort (snd (run le t0 h)).
Proof. exact (no_abort_seq le c h0 blocks t0 h). Qed.

(* ... and when the tower is bootstrapped at least 5 blocks above its window (teosd refuses to start below
   height 100 with a window of 100 blocks) the OConnect clause of the envelope holds by itself: only
   registrations are constrained (in_envelope_reg = in_envelope without the OConnect clause). *)
Theorem C11_no_abort_seq_deep le c h0 blocks t0 h :
  init c h0 blocks = Some t0 -> NoDup (map fst blocks) -> N.of_nat (length blocks) + 5 <= h0 ->
  in_envelope_reg le t0 h = true -> chain_disciplined le t0 h = true ->
  Forall not_abort (snd (run le t0 h)).
Proof. exact (no_abort_seq_deep le c h0 blocks t0 h). Qed.

Theorem C11_big_inv_reachable le c h0 blocks t0 h :
  init c h0 blocks = Some t0 -> NoDup (map fst blocks) -> N.of_nat (length blocks) <= h0 ->
  in_envelope le t0 h = true -> chain_disciplined le t0 h = true ->
  BigInv (fst (run le t0 h)).
Proof. exact (big_inv_reachable le c h0 blocks t0 h). Qed.

(* no_poison.  Tower.v has no poisoned-lock flag: an abort ends `run` (the history is cut there and nothing
   later is answered - C11_run_abort_is_last).  In that representation: every operation of an in-envelope
   history is answered, by a non-abort output, and the tower still answers afterwards. *)
Theorem C11_no_poison le c h0 blocks t0 h :
  init c h0 blocks = Some t0 -> NoDup (map fst blocks) -> N.of_nat (length blocks) <= h0 ->
  in_envelope le t0 h = true -> chain_disciplined le t0 h = true ->
  length (snd (run le t0 h)) = length h /\ Forall not_abort (snd (run le t0 h)) /\
  forall o sc, envb (fst (run le t0 h)) o = true -> not_abort (snd (step le (fst (run le t0 h)) o sc)).
Proof. exact (no_poison le c h0 blocks t0 h). Qed.

Theorem C11_run_no_abort_complete le h t :
  Forall not_abort (snd (run le t h)) -> length (snd (run le t h)) = length h.
Proof. exact (run_no_abort_complete le h t). Qed.

Theorem C11_run_abort_is_last le h t s :
  In (OAbort s) (snd (run le t h)) -> exists xs, snd (run le t h) = xs ++ [OAbort s] /\ Forall not_abort xs.
Proof. exact (run_abort_is_last le h t s). Qed.

Theorem C11_le_irrelevant h t : run true t h = run false t h.
Proof. exact (run_le_irrelevant h t). Qed.

(* Each hypothesis is needed: outside it a handler of the faithful model aborts (witness histories by
   computation; hyps_of = (in_envelope, chain_disciplined) of the witness). *)
Theorem C11_envelope_slots_needed :
  aborts_with S_gk_refund_overflow slots_cfg 100 boot2 slots_hist /\
  hyps_of slots_cfg 100 boot2 slots_hist = Some (false, true).
Proof. exact envelope_slots_needed. Qed.

Theorem C11_envelope_expiry_needed :
  aborts_with S_gk_outdated_overflow expiry_cfg 100 boot2 expiry_hist /\
  hyps_of expiry_cfg 100 boot2 expiry_hist = Some (false, true).
Proof. exact envelope_expiry_needed. Qed.

Theorem C11_envelope_new_user_needed :
  aborts_with S_gk_new_user_expiry_overflow newuser_cfg 100 boot2 [(ORegister 1, [])] /\
  hyps_of newuser_cfg 100 boot2 [(ORegister 1, [])] = Some (false, true).
Proof. exact envelope_new_user_needed. Qed.

Theorem C11_envelope_retry_needed :
  aborts_with S_r_stale_underflow plain_cfg 2 boot2 [(OConnect 1001 [], [])] /\
  hyps_of plain_cfg 2 boot2 [(OConnect 1001 [], [])] = Some (false, true).
Proof. exact envelope_retry_needed. Qed.

Theorem C11_boot_window_needed :
  aborts_with S_gk_disconnect_underflow plain_cfg 1 boot2 [(ODisconnect, []); (ODisconnect, [])] /\
  hyps_of plain_cfg 1 boot2 [(ODisconnect, []); (ODisconnect, [])] = Some (true, true).
Proof. exact boot_window_needed. Qed.

Theorem C11_chain_discipline_needed :
  aborts_with S_w_cache_update plain_cfg 100 boot2 dup_hist /\
  hyps_of plain_cfg 100 boot2 dup_hist = Some (true, false).
Proof. exact chain_discipline_needed. Qed.

(* Non-vacuity: a 117-operation history (two users on one locator, breach, rejected penalty, late
   appointment with its trigger in the cache, reads, unauthenticated requests, a reorg, a completion with
   refund) satisfies every hypothesis, so the theorem applies to it: nothing aborts, everything is answered,
   and the final state (reachable, concrete) satisfies the big invariant and holds users, rows and trackers. *)
Example C11_live_example :
  exists t0, init plain_cfg 100 boot2 = Some t0 /\
    in_envelope true t0 live_hist = true /\ chain_disciplined true t0 live_hist = true /\
    Forall not_abort (snd (run true t0 live_hist)) /\ length (snd (run true t0 live_hist)) = 117%nat /\
    BigInv (fst (run true t0 live_hist)) /\
    length (gk_users (fst (run true t0 live_hist))) = 2%nat /\
    length (db_apps (fst (run true t0 live_hist))) = 2%nat /\
    length (db_trks (fst (run true t0 live_hist))) = 2%nat.
Proof.
  destruct (init plain_cfg 100 boot2) as [t0|] eqn:Ei; [|vm_compute in Ei; discriminate].
  exists t0. split; [reflexivity|].
  assert (Hl : N.of_nat (length boot2) <= 100) by (vm_compute; discriminate).
  assert (He : in_envelope true t0 live_hist = true) by (vm_compute in Ei; inversion Ei; subst t0; vm_compute; reflexivity).
  assert (Hc : chain_disciplined true t0 live_hist = true) by (vm_compute in Ei; inversion Ei; subst t0; vm_compute; reflexivity).
  split; [exact He|]. split; [exact Hc|].
  split; [exact (no_abort_seq true _ _ _ t0 live_hist Ei boot2_nodup Hl He Hc)|].
  split; [vm_compute in Ei; inversion Ei; subst t0; vm_compute; reflexivity|].
  split; [exact (big_inv_reachable true _ _ _ t0 live_hist Ei boot2_nodup Hl He Hc)|].
  vm_compute in Ei; inversion Ei; subst t0; vm_compute; repeat split.
Qed.

(* a state reached inside the envelope answers the next request of any kind *)
Example C11_live_example_next o sc :
  exists t0, init plain_cfg 100 boot2 = Some t0 /\
    (envb (fst (run true t0 live_hist)) o = true -> not_abort (snd (step true (fst (run true t0 live_hist)) o sc))).
Proof.
  destruct C11_live_example as [t0 [Ei [_ [_ [_ [_ [HB _]]]]]]]. exists t0. split; [exact Ei|].
  exact (step_never_aborts true _ o sc HB).
Qed.

(* Concurrent half, mutexes: every (held -> requested) pair any kind of operation may produce (table
   LockOrder.op_edges, checked against what hook H3 observes the real code doing in every step of
   every explored history) goes strictly upwards in the order
   locator_cache < carrier < tx_index < reorged_trackers < registered_users < dbm < bitcoind_reachable ... *)
Theorem C11_lock_order_respected kind a b : In (a, b) (op_edges kind) -> lock_rank a < lock_rank b.
Proof. exact (lock_order_respected kind a b). Qed.

(* ... hence no configuration of any number of threads executing such operations is a deadlock on
   mutexes (waiting on the reachability condition variable is C12's subject). *)
Theorem C11_no_mutex_deadlock (c : cconfig) :
  (forall th l h, In th c -> th_want th = Some l -> In h (th_held th) -> exists kind, In (h, l) (op_edges kind)) ->
  ~ deadlock c.
Proof. exact (tower_no_mutex_deadlock c). Qed.

(* the generic theorem behind it *)
Theorem C11_lock_order_no_deadlock rank (c : cconfig) : disciplined rank c -> ~ deadlock c.
Proof. exact (lock_order_no_deadlock rank c). Qed.

Print Assumptions C11_lock_order_respected.
Print Assumptions C11_no_mutex_deadlock.
Print Assumptions C11_lock_order_no_deadlock.
Print Assumptions C11_invariant_reachable.
Print Assumptions C11_invariant_step.
Print Assumptions C11_register_never_aborts.
Print Assumptions C11_reads_never_abort.
Print Assumptions C11_envelope_spec.
Print Assumptions C11_chain_discipline_spec.
Print Assumptions C11_envelope_unfolded.
Print Assumptions C11_step_never_aborts.
Print Assumptions C11_big_inv_step.
Print Assumptions C11_big_inv_bootstrap.
Print Assumptions C11_no_abort_seq.
Print Assumptions C11_no_abort_seq_deep.
Print Assumptions C11_big_inv_reachable.
Print Assumptions C11_no_poison.
Print Assumptions C11_run_no_abort_complete.
Print Assumptions C11_run_abort_is_last.
Print Assumptions C11_le_irrelevant.
Print Assumptions C11_envelope_slots_needed.
Print Assumptions C11_envelope_expiry_needed.
Print Assumptions C11_envelope_new_user_needed.
Print Assumptions C11_envelope_retry_needed.
Print Assumptions C11_boot_window_needed.
Print Assumptions C11_chain_discipline_needed.
Print Assumptions C11_live_example.
Print Assumptions C11_live_example_next.
