(* C11 — the tower stays live (sequential half): the structural invariant holds in every reachable
   state, and under it the unwrap sites of the API handlers are unreachable.  Statements only. *)
From TeosModel Require Import Base TxIndex Tower TowerStable TowerInv TowerProofs TowerSubs Conc LockOrder.
Local Open Scope N_scope.

(* Every state reached from the bootstrap by any history of requests, blocks and node answers in
   which no handler aborted satisfies: unique keys, every appointment has its user row, every
   tracker its appointment row, gatekeeper memory = table users. *)
Theorem C11_invariant_reachable le c h0 blocks t0 h :
  init c h0 blocks = Some t0 -> Forall not_abort (snd (run le t0 h)) -> Inv (fst (run le t0 h)).
Proof. exact (inv_reachable le c h0 blocks t0 h). Qed.

Theorem C11_invariant_step le t o sc :
  Inv t -> not_abort (snd (step le t o sc)) -> Inv (fst (step le t o sc)).
Proof. exact (step_pres Inv inv_stable le t o sc). Qed.

(* Registration never aborts inside the envelope height + duration < 2^32 (store_user's unwrap and
   the get_mut unwrap are unreachable because memory = disk). *)
Theorem C11_register_never_aborts le t sc u :
  Inv t -> gk_height t + c_duration (cfg t) <= U32MAX -> not_abort (snd (step le t (ORegister u) sc)).
Proof. exact (register_never_aborts_in_envelope le t sc u). Qed.

(* Reads never abort (has_subscription_expired(..).unwrap() follows a successful authentication). *)
Theorem C11_reads_never_abort le t sc signer :
  (forall loc, not_abort (snd (step le t (OGet signer loc) sc))) /\ not_abort (snd (step le t (OGetSub signer) sc)).
Proof. exact (reads_never_abort le t sc signer). Qed.

(* Concurrent half, mutexes: every (held -> requested) pair any kind of operation may produce (table
   LockOrder.op_edges, checked against what hook H3 observes the real code doing in every step of
   every explored history) goes strictly upwards in the order
   locator_cache < carrier < tx_index < reorged_trackers < registered_users < dbm < bitcoind_reachable ... *)
Theorem C11_lock_order_respected kind a b : In (a, b) (op_edges kind) -> lock_rank a < lock_rank b.
Proof. exact (lock_order_respected kind a b). Qed.

(* ... hence no configuration of any number of threads executing such operations is a deadlock on
   mutexes (waiting on the reachability condition variable is C12's subject). *)
Theorem C11_no_mutex_deadlock (c : cconfig) :
  (forall th l h, In th c -> th_want th = Some l -> In h (th_held th) -> exists kind, In (h, l) (op_edges kind)) ->
  ~ deadlock c.
Proof. exact (tower_no_mutex_deadlock c). Qed.

(* the generic theorem behind it *)
Theorem C11_lock_order_no_deadlock rank (c : cconfig) : disciplined rank c -> ~ deadlock c.
Proof. exact (lock_order_no_deadlock rank c). Qed.

Print Assumptions C11_lock_order_respected.
Print Assumptions C11_no_mutex_deadlock.
Print Assumptions C11_lock_order_no_deadlock.
Print Assumptions C11_invariant_reachable.
Print Assumptions C11_invariant_step.
Print Assumptions C11_register_never_aborts.
Print Assumptions C11_reads_never_abort.
