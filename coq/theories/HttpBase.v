(* HttpBase.v — the vocabulary of the public HTTP API model (teos/src/api/http.rs): the types the
   generated tables (Gen/Http.v, written by tools/translate_http.py on every run) are made of.
   Definitions only. *)
From Coq Require Import ZArith NArith List Bool.
Import ListNotations.

Definition hbytes := list N.

(* what the router's method filters distinguish: warp::get(), warp::post(), anything else *)
Inductive hmethod := MGet | MPost | MOther.
Definition hmethod_eqb (a b : hmethod) : bool :=
  match a, b with MGet, MGet | MPost, MPost | MOther, MOther => true | _, _ => false end.

(* the fields of the four request types the handlers (and the internal API behind them) look at;
   FApp* are the fields of the optional `appointment` message of AddAppointmentRequest *)
Inductive hfield := FUserId | FAppointment | FAppLocator | FAppBlob | FAppDelay | FSignature | FLocator.
Definition hfield_eqb (a b : hfield) : bool :=
  match a, b with
  | FUserId, FUserId | FAppointment, FAppointment | FAppLocator, FAppLocator | FAppBlob, FAppBlob
  | FAppDelay, FAppDelay | FSignature, FSignature | FLocator, FLocator => true
  | _, _ => false
  end.

(* a condition on one field: `if let Some(..) = &req.f` / `!f.is_empty()` / `f.len() == n` *)
Inductive hcond := CkPresent | CkNonEmpty | CkSize (n : Z).
Definition hcond_eqb (a b : hcond) : bool :=
  match a, b with
  | CkPresent, CkPresent | CkNonEmpty, CkNonEmpty => true
  | CkSize n, CkSize m => Z.eqb n m
  | _, _ => false
  end.

(* one `if <cond fails> { return Err(ApiError::<ctor>(..)) }` of a handler, with the error code of that ctor *)
Record hcheck := mk_hcheck { ck_field : hfield; ck_cond : hcond; ck_code : Z }.

(* one method of `impl PublicTowerServices for Arc<InternalAPI>` (teos/src/api/internal.rs):
   the tonic codes its body can return and what its `unwrap()`s on request fields need *)
Record hinternal := mk_hinternal {
  ia_name : hbytes;
  ia_codes : list Z;
  ia_requires : list (hfield * hcond)
}.

(* one `let x = warp::<method>().and(warp::path(..))[.and(content_length_limit(cap).and(json()))]...and_then(handler)`
   of `router`, in the order of the final `.or(..)` chain *)
Record hroute := mk_hroute {
  rt_name : hbytes;                (* the path segment *)
  rt_method : hmethod;
  rt_cap : option Z;               (* None: the route has no body filters (ping) *)
  rt_checks : list hcheck;         (* the handler's field checks before it forwards, in order *)
  rt_internal : option hinternal   (* the internal API method the handler forwards to *)
}.

(* warp's own rejections that handle_rejection can look for with err.find::<warp::reject::K>() *)
Inductive hwarpkind := WMethodNotAllowed | WLengthRequired | WPayloadTooLarge | WUnsupportedMediaType.
Definition hwarpkind_eqb (a b : hwarpkind) : bool :=
  match a, b with
  | WMethodNotAllowed, WMethodNotAllowed | WLengthRequired, WLengthRequired | WPayloadTooLarge, WPayloadTooLarge
  | WUnsupportedMediaType, WUnsupportedMediaType => true
  | _, _ => false
  end.

(* a tonic status code as the HTTP layer gets it back from the internal API *)
Inductive hgrpc := GOk | GErr (c : Z) | GAbort (c : Z).
