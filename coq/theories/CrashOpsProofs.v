(* CrashOpsProofs.v — C03 at operation level: the sequential tower model IS the execution of its
   durable traces (refinement Tower.v -> Crash.v), and what follows for crashes at any micro step. *)
From TeosModel Require Import Base ListAux TxIndex TxIndexProofs Tower TowerMon TowerStable TowerInv TowerProofs TowerLedger Crash CrashOps.
From TeosModel.Gen Require Consts Bootstrap.
From Coq Require Import Lia.
Local Open Scope N_scope.

(* ------------------------------------------------------------------------------------------ *)
(* 0. lists of micro steps, statements *)

Lemma stmts_of_app l1 l2 : stmts_of (l1 ++ l2) = stmts_of l1 ++ stmts_of l2.
Proof. unfold stmts_of. apply flat_map_app. Qed.

Lemma rpcs_of_app l1 l2 : rpcs_of_micro (l1 ++ l2) = rpcs_of_micro l1 ++ rpcs_of_micro l2.
Proof. unfold rpcs_of_micro. apply flat_map_app. Qed.

Lemma execs_app d l1 l2 : execs d (l1 ++ l2) = execs (execs d l1) l2.
Proof. unfold execs. apply fold_left_app. Qed.

Lemma execs_cons d s l : execs d (s :: l) = execs (exec d s) l.
Proof. reflexivity. Qed.

Lemma flat_segs_app l1 l2 : flat_segs (l1 ++ l2) = flat_segs l1 ++ flat_segs l2.
Proof. unfold flat_segs. apply flat_map_app. Qed.

Lemma flat_segs_cons s l : flat_segs (s :: l) = flat_seg s ++ flat_segs l.
Proof. reflexivity. Qed.

(* a transaction of plain statements is their sequence, all at once *)
Lemma exec_fuel1_plain d s : (match s with STxn _ => False | _ => True end) -> exec_fuel 1 d s = exec d s.
Proof. destruct s; try reflexivity. intros []. Qed.

Definition plain (s : stmt) : Prop := match s with STxn _ => False | _ => True end.

Lemma exec_txn d l : Forall plain l -> exec d (STxn l) = execs d l.
Proof.
  intros H. change (exec d (STxn l)) with (fold_left (exec_fuel 1) l d). unfold execs. revert d.
  induction H as [|s l Hs Hl IH]; intros d; [reflexivity|].
  change (fold_left (exec_fuel 1) (s :: l) d) with (fold_left (exec_fuel 1) l (exec_fuel 1 d s)).
  change (fold_left exec (s :: l) d) with (fold_left exec l (exec d s)).
  rewrite (exec_fuel1_plain d s Hs). apply IH.
Qed.

Lemma exec_txn1 d s : plain s -> exec d (STxn [s]) = exec d s.
Proof. intros H. rewrite exec_txn; [reflexivity|constructor; [exact H|constructor]]. Qed.

(* ------------------------------------------------------------------------------------------ *)
(* 1. the judgement: running procedure r from t issues exactly the trace l *)

Definition J {A} (t : tower) (l : list micro) (r : res A) : Prop :=
  match r with
  | Ok _ t' => db_of t' = execs (db_of t) (stmts_of l) /\ rpc_log t' = rev (rpcs_of_micro l) ++ rpc_log t
  | Abort _ _ => True
  end.

Lemma J_nil {A} t (a : A) : J t [] (Ok a t).
Proof. split; reflexivity. Qed.

(* volatile updates: same tables, same log *)
Lemma J_frame {A} t t' (a : A) : db_of t' = db_of t -> rpc_log t' = rpc_log t -> J t [] (Ok a t').
Proof. intros H1 H2. split; [exact H1|exact H2]. Qed.

Lemma J_bind {A B} t l1 (r : res A) (f : A -> tower -> res B) (l2 : A -> tower -> list micro) :
  J t l1 r -> (forall a t1, r = Ok a t1 -> J t1 (l2 a t1) (f a t1)) ->
  J t (l1 ++ match r with Ok a t1 => l2 a t1 | Abort _ _ => [] end) (bind r f).
Proof.
  intros H1 H2. destruct r as [a t1|s t1]; cbn [bind]; [|exact I].
  specialize (H2 a t1 eq_refl). destruct (f a t1) as [b t2|s t2]; [|exact I].
  destruct H1 as [D1 R1], H2 as [D2 R2]. split.
  - rewrite D2, D1, stmts_of_app, execs_app. reflexivity.
  - rewrite R2, R1, rpcs_of_app, rev_app_distr, app_assoc. reflexivity.
Qed.

(* continuing after a completed prefix *)
Lemma J_seq {A} t l1 t1 l2 (r : res A) :
  db_of t1 = execs (db_of t) (stmts_of l1) -> rpc_log t1 = rev (rpcs_of_micro l1) ++ rpc_log t ->
  J t1 l2 r -> J t (l1 ++ l2) r.
Proof.
  intros D1 R1 H. destruct r as [a t2|s t2]; [|exact I]. destruct H as [D2 R2]. split.
  - rewrite D2, D1, stmts_of_app, execs_app. reflexivity.
  - rewrite R2, R1, rpcs_of_app, rev_app_distr, app_assoc. reflexivity.
Qed.

Lemma J_ext {A} t l l' (r : res A) : l = l' -> J t l r -> J t l' r.
Proof. intros ->. auto. Qed.

(* MAck is not a durable step *)
Lemma J_ack {A} t l (r : res A) : J t l r -> J t (l ++ ack_if_ok r) r.
Proof.
  destruct r as [a t1|s t1]; [|intros; exact I]. intros [D R]. cbn [ack_if_ok]. split.
  - rewrite stmts_of_app. cbn. rewrite app_nil_r. exact D.
  - rewrite rpcs_of_app. cbn. rewrite app_nil_r. exact R.
Qed.

(* ------------------------------------------------------------------------------------------ *)
(* 2. carrier *)

Lemma J_send sc t tx : J t (tr_send sc t tx) (Ok (fst (send_transaction sc t tx)) (snd (send_transaction sc t tx))).
Proof.
  unfold send_transaction, tr_send. destruct (aget (car_memo t) tx); cbn [fst snd]; split; reflexivity.
Qed.

Lemma J_in_mempool sc t tx : J t (tr_in_mempool sc t tx) (Ok (fst (in_mempool sc t tx)) (snd (in_mempool sc t tx))).
Proof. unfold tr_in_mempool, in_mempool. cbn [fst snd]. split; reflexivity. Qed.

(* ------------------------------------------------------------------------------------------ *)
(* 3. gatekeeper: register, charge *)

Lemma J_add_update_user t u : J t (tr_add_update_user t u) (gk_add_update_user t u).
Proof.
  unfold gk_add_update_user, tr_add_update_user. destruct (gk_get t u) as [ui|].
  - destruct (u32_add (u_slots ui) (c_slots (cfg t))) as [s|]; [|apply J_nil].
    split; reflexivity.
  - destruct (u32_add (gk_height t) (c_duration (cfg t))) as [e|]; [|exact I].
    destruct (amem (db_users t) u) eqn:Em; [exact I|].
    split; [|reflexivity]. cbn [stmts_of flat_map List.app execs fold_left].
    apply prim_new_user_is_stmt. exact Em.
Qed.

Lemma J_charge t u uuid blen : J t (tr_charge t u uuid blen) (gk_add_update_appointment t u uuid blen).
Proof.
  unfold gk_add_update_appointment, tr_charge. destruct (gk_get t u) as [ui|]; [|exact I].
  match goal with |- context [if ?c then _ else _] => destruct c end; [|apply J_nil].
  split; reflexivity.
Qed.

(* ------------------------------------------------------------------------------------------ *)
(* 4. delete_appointments: the refund transaction *)

(* the users table after a list of balance updates, row by row *)
Definition upd_slots (p : N * N) (r : N * uinfo) : N * uinfo :=
  if N.eqb (fst r) (fst p) then (fst p, mk_uinfo (snd p) (u_start (snd r)) (u_expiry (snd r))) else r.

Definition slots_stmt (p : N * N) : stmt := SUpdSlots (fst p) (snd p).

Lemma exec_slots d p : exec d (slots_stmt p) = mk_db (map (upd_slots p) (d_users d)) (d_apps d) (d_trks d).
Proof. reflexivity. Qed.

Lemma execs_slots l : forall d,
  execs d (map slots_stmt l) = mk_db (fold_left (fun rows p => map (upd_slots p) rows) l (d_users d)) (d_apps d) (d_trks d).
Proof.
  induction l as [|p l IH]; intros d; cbn [map execs fold_left]; [destruct d; reflexivity|].
  change (fold_left exec (map slots_stmt l) (exec d (slots_stmt p))) with (execs (exec d (slots_stmt p)) (map slots_stmt l)).
  rewrite IH, exec_slots. reflexivity.
Qed.

(* the last value written for a user *)
Fixpoint alast (l : list (N * N)) (u : N) : option N :=
  match l with
  | [] => None
  | p :: r => match alast r u with Some s => Some s | None => if N.eqb u (fst p) then Some (snd p) else None end
  end.

Definition upd_last (l : list (N * N)) (r : N * uinfo) : N * uinfo :=
  match alast l (fst r) with
  | Some s => (fst r, mk_uinfo s (u_start (snd r)) (u_expiry (snd r)))
  | None => r
  end.

Lemma fold_upd_slots l : forall rows,
  fold_left (fun rows p => map (upd_slots p) rows) l rows = map (upd_last l) rows.
Proof.
  induction l as [|p l IH]; intros rows; cbn [fold_left].
  - unfold upd_last. cbn [alast]. symmetry. apply map_id.
  - rewrite IH, map_map. apply map_ext. intros r. unfold upd_last, upd_slots. cbn [alast].
    destruct (N.eqb (fst r) (fst p)) eqn:E; cbn [fst snd u_start u_expiry].
    + apply N.eqb_eq in E. rewrite <- E. destruct (alast l (fst r)); reflexivity.
    + destruct (alast l (fst r)); reflexivity.
Qed.

Lemma alast_None l u : alast l u = None <-> amem l u = false.
Proof.
  induction l as [|[k v] l IH]; cbn [alast]; [split; reflexivity|].
  unfold amem in *. cbn [aget fst snd]. destruct (N.eqb u k) eqn:E.
  - split; [|discriminate]. destruct (alast l u); discriminate.
  - destruct (alast l u); [split; [discriminate|]; intros H; apply IH in H; discriminate|]. exact IH.
Qed.

Lemma alast_last_writes l u : alast (last_writes l) u = alast l u.
Proof.
  induction l as [|p l IH]; [reflexivity|]. cbn [last_writes].
  destruct (amem l (fst p)) eqn:Em; cbn [alast]; rewrite IH; [|reflexivity].
  destruct (alast l u) eqn:El; [reflexivity|].
  destruct (N.eqb u (fst p)) eqn:E; [|reflexivity].
  apply N.eqb_eq in E. subst u. apply alast_None in El. congruence.
Qed.

(* writing each user's last value once = writing every value in turn *)
Lemma execs_last_writes l d : execs d (map slots_stmt (last_writes l)) = execs d (map slots_stmt l).
Proof.
  rewrite !execs_slots, !fold_upd_slots. f_equal. apply map_ext. intros r. unfold upd_last.
  rewrite alast_last_writes. reflexivity.
Qed.

Lemma refund_loop_slots : forall us t t',
  refund_loop t us = Ok tt t' ->
  db_of t' = execs (db_of t) (map slots_stmt (refund_updates t us)) /\ rpc_log t' = rpc_log t.
Proof.
  induction us as [|uuid us IH]; intros t t'; cbn [refund_loop refund_updates].
  - intros H; inversion H; subst. split; reflexivity.
  - destruct (find_app (db_apps t) uuid) as [a|]; [|discriminate].
    destruct (gk_get t (a_user a)) as [ui|]; [|discriminate].
    destruct (u32_add (u_slots ui) (slots_of (b_len (a_blob a)))) as [s|]; [|discriminate].
    intros H. apply IH in H. destruct H as [D R]. split; [|exact R].
    rewrite D. cbn [map]. rewrite execs_cons. reflexivity.
Qed.

Lemma plain_slots l : Forall plain (map slots_stmt l).
Proof. induction l; cbn; constructor; [exact I|assumption]. Qed.

Lemma execs_slots_del d l us :
  execs d (SDelApps us :: map slots_stmt l) = exec (execs d (map slots_stmt l)) (SDelApps us).
Proof.
  rewrite execs_cons, !execs_slots. reflexivity.
Qed.

Lemma J_delete t us refund : J t (tr_delete t us refund) (gk_delete_appointments t us refund).
Proof.
  unfold gk_delete_appointments, tr_delete. destruct refund.
  - destruct (refund_loop t us) as [[] t1|s t1] eqn:Er; cbn [bind]; [|exact I].
    apply refund_loop_slots in Er. destruct Er as [D R]. split; [|exact R].
    cbn [stmts_of flat_map List.app execs fold_left].
    rewrite exec_txn by (constructor; [exact I|apply plain_slots]).
    change (map (fun p => SUpdSlots (fst p) (snd p))) with (map slots_stmt).
    rewrite execs_slots_del, execs_last_writes, <- D. reflexivity.
  - cbn. destruct us as [|u [|u2 us]]; split; try reflexivity.
Qed.

Lemma J_delete_opt t us refund :
  J t (match us with [] => [] | _ => tr_delete t us refund end)
      (match us with [] => Ok tt t | _ => gk_delete_appointments t us refund end).
Proof. destruct us; [apply J_nil|apply J_delete]. Qed.

Lemma J_delete_opt' t us refund :
  J t (match us with [] => [] | x :: l => tr_delete t (x :: l) refund end)
      (match us with [] => Ok tt t | x :: l => gk_delete_appointments t (x :: l) refund end).
Proof. destruct us; [apply J_nil|apply J_delete]. Qed.

(* ------------------------------------------------------------------------------------------ *)
(* 5. responder: trackers *)

Lemma exec_ins_trk d k :
  exec d (SInsTrk k) =
  match find_trk (d_trks d) (trk_uuid k), find_app (d_apps d) (trk_uuid k) with
  | None, Some _ => mk_db (d_users d) (d_apps d) (d_trks d ++ [k])
  | _, _ => d
  end.
Proof. reflexivity. Qed.

Lemma J_add_tracker t uuid d p s : J t (tr_add_tracker uuid d p s) (Ok tt (r_add_tracker t uuid d p s)).
Proof.
  unfold r_add_tracker, tr_add_tracker. destruct uuid as [loc u]. cbn [fst snd].
  destruct s as [h|h| |c]; try apply J_nil.
  - split; [|destruct (find_trk (db_trks t) (loc, u)), (find_app (db_apps t) (loc, u)); reflexivity].
    cbn [stmts_of flat_map List.app execs fold_left]. rewrite exec_ins_trk.
    change (trk_uuid (mk_trk loc u d p h true)) with (loc, u). cbn [db_of d_trks d_apps d_users].
    destruct (find_trk (db_trks t) (loc, u)), (find_app (db_apps t) (loc, u)); reflexivity.
  - split; [|destruct (find_trk (db_trks t) (loc, u)), (find_app (db_apps t) (loc, u)); reflexivity].
    cbn [stmts_of flat_map List.app execs fold_left]. rewrite exec_ins_trk.
    change (trk_uuid (mk_trk loc u d p h false)) with (loc, u). cbn [db_of d_trks d_apps d_users].
    destruct (find_trk (db_trks t) (loc, u)), (find_app (db_apps t) (loc, u)); reflexivity.
Qed.

Lemma J_handle_breach sc t uuid d p : J t (tr_handle_breach sc t uuid d p) (r_handle_breach sc t uuid d p).
Proof.
  unfold r_handle_breach, tr_handle_breach.
  destruct (ti_get (r_index t) p) as [bh|].
  - destruct (ti_get_height (r_index t) bh) as [h|]; cbn [bind]; [|exact I].
    cbn [status_accepted]. pose proof (J_add_tracker t uuid d p (ConfirmedIn (Z.to_N h))) as H.
    destruct H as [D R]. split; assumption.
  - pose proof (J_in_mempool sc t p) as H1.
    destruct (in_mempool sc t p) as [inm t1] eqn:Ei. cbn [fst snd] in *. destruct inm.
    + cbn [bind status_accepted].
      pose proof (J_add_tracker t1 uuid d p (InMempoolSince (car_height t1))) as H2.
      destruct H1 as [D1 R1]. eapply (J_seq t _ t1); [exact D1|exact R1|].
      destruct H2 as [D2 R2]. split; assumption.
    + pose proof (J_send sc t1 p) as H2.
      destruct (send_transaction sc t1 p) as [s t2] eqn:Es. cbn [fst snd bind] in *.
      destruct H1 as [D1 R1]. eapply (J_seq t _ t1); [exact D1|exact R1|].
      destruct H2 as [D2 R2]. eapply (J_seq t1 _ t2); [exact D2|exact R2|].
      destruct (status_accepted s) eqn:Ea.
      * pose proof (J_add_tracker t2 uuid d p s) as H3. destruct H3 as [D3 R3]. split; assumption.
      * assert (Hn : tr_add_tracker uuid d p s = []) by (destruct s; try reflexivity; discriminate).
        rewrite Hn. apply J_nil.
Qed.

(* ------------------------------------------------------------------------------------------ *)
(* 6. watcher: add_appointment *)

Lemma J_store_appointment t a : J t (tr_store_appointment t a) (w_store_appointment t a).
Proof.
  unfold w_store_appointment, tr_store_appointment.
  destruct (find_app (db_apps t) (app_uuid a)) eqn:Ef.
  - split; reflexivity.
  - destruct (amem (db_users t) (a_user a)) eqn:Em; [|exact I].
    split; [|reflexivity]. cbn [stmts_of flat_map List.app execs fold_left].
    apply prim_insert_app_is_stmt; assumption.
Qed.

Lemma J_store_triggered sc t a d : J t (tr_store_triggered sc t a d) (w_store_triggered sc t a d).
Proof.
  unfold w_store_triggered, tr_store_triggered. destruct (decrypt (a_blob a) d) as [p|].
  - apply (J_bind t _ (w_store_appointment t a) _ (fun _ t1 =>
             tr_handle_breach sc t1 (app_uuid a) d p ++
             match r_handle_breach sc t1 (app_uuid a) d p with
             | Ok s t2 => if status_rejected s then tr_delete t2 [app_uuid a] false else []
             | Abort _ _ => []
             end)); [apply J_store_appointment|].
    intros [] t1 _.
    apply (J_bind t1 _ (r_handle_breach sc t1 (app_uuid a) d p) _ (fun s t2 =>
             if status_rejected s then tr_delete t2 [app_uuid a] false else [])); [apply J_handle_breach|].
    intros s t2 _. destruct (status_rejected s); [apply J_delete|apply J_nil].
  - destruct (find_app (db_apps t) (app_uuid a)); [apply J_delete|apply J_nil].
Qed.

Lemma J_add_appointment sc t signer loc b delay sig :
  J t (tr_add_appointment sc t signer loc b delay sig) (w_add_appointment sc t signer loc b delay sig).
Proof.
  unfold w_add_appointment, tr_add_appointment.
  destruct (authenticate t signer) as [u|]; [|split; reflexivity].
  destruct (gk_get t u) as [ui|]; [|exact I].
  destruct (N.leb (u_expiry ui) (gk_height t)); [split; reflexivity|].
  destruct (find_trk (db_trks t) (loc, u)); [split; reflexivity|].
  set (a := mk_app loc u b delay sig (w_height t)).
  apply (J_bind t _ (gk_add_update_appointment t u (loc, u) (b_len b)) _ (fun charged t1 =>
           match charged with
           | None => [MAck]
           | Some _ =>
               match ti_get (w_cache t1) loc with
               | Some dispute => tr_store_triggered sc t1 a dispute ++ ack_if_ok (w_store_triggered sc t1 a dispute)
               | None => tr_store_appointment t1 a ++ ack_if_ok (w_store_appointment t1 a)
               end
           end)); [apply J_charge|].
  intros charged t1 _. destruct charged as [av|]; [|split; reflexivity].
  destruct (ti_get (w_cache t1) loc) as [dispute|].
  - pose proof (J_ack t1 _ _ (J_store_triggered sc t1 a dispute)) as H.
    destruct (w_store_triggered sc t1 a dispute) as [[] t2|s t2]; cbn [bind]; [exact H|exact I].
  - pose proof (J_ack t1 _ _ (J_store_appointment t1 a)) as H.
    destruct (w_store_appointment t1 a) as [[] t2|s t2]; cbn [bind]; [exact H|exact I].
Qed.

(* ------------------------------------------------------------------------------------------ *)
(* 7. the watcher's pass over a block *)

Lemma J_breach_uuid_loop sc d : forall us t inv,
  J t (tr_breach_uuid_loop sc d us t inv) (breach_uuid_loop sc d us t inv).
Proof.
  induction us as [|uuid us IH]; intros t inv; cbn [breach_uuid_loop tr_breach_uuid_loop]; [apply J_nil|].
  destruct (find_app (db_apps t) uuid) as [a|]; [|exact I].
  destruct (decrypt (a_blob a) d) as [p|]; [|apply IH].
  pose proof (J_handle_breach sc t uuid d p) as H1.
  destruct (r_handle_breach sc t uuid d p) as [s t1|s t1]; cbn [bind]; [|exact I].
  destruct H1 as [D1 R1]. eapply J_seq; [exact D1|exact R1|apply IH].
Qed.

Lemma J_breach_loop sc : forall ds t inv, J t (concat (tr_breach_loop sc ds t inv)) (breach_loop sc ds t inv).
Proof.
  induction ds as [|d ds IH]; intros t inv; cbn [breach_loop tr_breach_loop concat]; [apply J_nil|].
  pose proof (J_breach_uuid_loop sc d (map app_uuid (filter (fun a => N.eqb (a_loc a) d) (db_apps t))) t inv) as H1.
  destruct (breach_uuid_loop sc d (map app_uuid (filter (fun a => N.eqb (a_loc a) d) (db_apps t))) t inv) as [inv' t1|s t1];
    cbn [bind]; [|exact I].
  destruct H1 as [D1 R1]. eapply J_seq; [exact D1|exact R1|apply IH].
Qed.

(* a volatile epilogue *)
Lemma J_then_frame {A} t l (r : res A) (g : tower -> tower) :
  (forall t1, db_of (g t1) = db_of t1 /\ rpc_log (g t1) = rpc_log t1) ->
  J t l r -> J t l (bind r (fun _ t1 => Ok tt (g t1))).
Proof.
  intros Hg H. destruct r as [a t1|s t1]; cbn [bind]; [|exact I].
  destruct H as [D R]. destruct (Hg t1) as [G1 G2]. split; [rewrite G1; exact D|rewrite G2; exact R].
Qed.

Lemma J_w_block sc t b h : J t (flat_segs (tr_w_block sc t b h)) (w_block_connected sc t b h).
Proof.
  unfold w_block_connected, tr_w_block. destruct (ti_update (w_cache t) b) as [c|]; [|exact I].
  rewrite flat_segs_cons. cbn [flat_seg].
  set (t1 := set_w_cache t c).
  set (br := filter (fun d => existsb (fun a => N.eqb (a_loc a) d) (db_apps t1)) (keys_of (ib_data b))).
  pose proof (J_breach_loop sc br t1 []) as H1.
  destruct (breach_loop sc br t1 []) as [invalid t2|s t2]; cbn [bind]; [|exact I].
  destruct H1 as [D1 R1]. apply (J_seq t _ t2); [exact D1|exact R1|].
  cbn [flat_segs flat_map flat_seg]. rewrite app_nil_r.
  apply (J_then_frame t2 _ _ (fun t3 => set_w_height t3 h)); [intros; split; reflexivity|].
  apply (J_delete_opt t2 invalid false).
Qed.

(* ------------------------------------------------------------------------------------------ *)
(* 8. the responder's pass over a block *)

Lemma J_check_conf le txids h : forall snap t comp,
  J t (tr_check_conf txids h snap t) (check_conf_loop le txids h snap t comp).
Proof.
  induction snap as [|k snap IH]; intros t comp; cbn [check_conf_loop tr_check_conf]; [apply J_nil|].
  destruct (memN (t_penalty k) txids).
  - destruct (find_trk (db_trks t) (trk_uuid k)); [|exact I].
    match goal with |- J t (?m :: ?l) ?r => change (J t ([m] ++ l) r) end.
    eapply J_seq; [| |apply IH]; reflexivity.
  - destruct (mem_uuid (trk_uuid k) (reorged t)); [apply IH|]. destruct (t_conf k); apply IH.
Qed.

Lemma J_reorged sc h : forall us t rej, J t (concat (tr_reorged sc h us t)) (reorged_loop sc h us t rej).
Proof.
  induction us as [|uuid us IH]; intros t rej; cbn [reorged_loop tr_reorged]; [apply J_nil|].
  destruct (find_trk (db_trks t) uuid) as [k|]; [|apply IH].
  pose proof (J_send sc t (t_dispute k)) as H1.
  destruct (send_transaction sc t (t_dispute k)) as [s t1] eqn:E1. cbn [fst snd] in *. destruct H1 as [D1 R1].
  destruct s as [hh|hh| |c]; [exact I| | |].
  - pose proof (J_send sc t1 (t_penalty k)) as H2.
    destruct (send_transaction sc t1 (t_penalty k)) as [s2 t2] eqn:E2. cbn [fst snd] in *. destruct H2 as [D2 R2].
    destruct (status_rejected s2); cbn [concat]; rewrite <- ?app_assoc.
    + eapply J_seq; [exact D1|exact R1|]. eapply J_seq; [exact D2|exact R2|]. apply IH.
    + eapply J_seq; [exact D1|exact R1|]. eapply J_seq; [exact D2|exact R2|].
      eapply J_seq; [| |apply IH]; reflexivity.
  - pose proof (J_send sc t1 (t_penalty k)) as H2.
    destruct (send_transaction sc t1 (t_penalty k)) as [s2 t2] eqn:E2. cbn [fst snd] in *. destruct H2 as [D2 R2].
    destruct (status_rejected s2); cbn [concat]; rewrite <- ?app_assoc.
    + eapply J_seq; [exact D1|exact R1|]. eapply J_seq; [exact D2|exact R2|]. apply IH.
    + eapply J_seq; [exact D1|exact R1|]. eapply J_seq; [exact D2|exact R2|].
      eapply J_seq; [| |apply IH]; reflexivity.
  - cbn [concat]. eapply J_seq; [exact D1|exact R1|]. apply IH.
Qed.

Lemma J_stale sc h : forall us t rej, J t (tr_stale sc h us t) (stale_loop sc h us t rej).
Proof.
  induction us as [|uuid us IH]; intros t rej; cbn [stale_loop tr_stale]; [apply J_nil|].
  destruct (find_trk (db_trks t) uuid) as [k|]; [|exact I].
  pose proof (J_send sc t (t_penalty k)) as H1.
  destruct (send_transaction sc t (t_penalty k)) as [s t1] eqn:E1. cbn [fst snd] in *. destruct H1 as [D1 R1].
  eapply J_seq; [exact D1|exact R1|].
  destruct s as [hh|hh| |c]; [| | |apply IH];
    (match goal with |- J ?t0 (?m :: ?l) ?r => change (J t0 ([m] ++ l) r) end;
     eapply J_seq; [| |apply IH]; reflexivity).
Qed.

Lemma J_r_block le sc t b h : J t (flat_segs (tr_r_block le sc t b h)) (r_block_connected le sc t b h).
Proof.
  unfold r_block_connected, tr_r_block.
  destruct (ti_update (r_index (set_car_height t h)) b) as [idx|]; [|exact I].
  set (t1 := set_r_index (set_car_height t h) idx).
  rewrite flat_segs_cons. cbn [flat_seg].
  pose proof (J_check_conf le (keys_of (ib_data b)) h (db_trks t1) t1 []) as H1.
  destruct (check_conf_loop le (keys_of (ib_data b)) h (db_trks t1) t1 []) as [completed t2|s t2]; cbn [bind]; [|exact I].
  destruct H1 as [D1 R1]. apply (J_seq t _ t2); [exact D1|exact R1|].
  rewrite flat_segs_cons. cbn [flat_seg].
  pose proof (J_delete_opt t2 completed true) as H2.
  destruct (match completed with [] => Ok tt t2 | _ => gk_delete_appointments t2 completed true end) as [[] t3|s t3];
    cbn [bind]; [|exact I].
  destruct H2 as [D2 R2]. apply (J_seq t2 _ t3); [exact D2|exact R2|].
  rewrite flat_segs_cons. cbn [flat_seg].
  assert (H3 : J t3 (concat (match reorged t3 with [] => [] | x :: l => tr_reorged sc h (x :: l) (set_reorged t3 []) end))
                 (match reorged t3 with [] => Ok [] t3 | x :: l => reorged_loop sc h (x :: l) (set_reorged t3 []) [] end)).
  { destruct (reorged t3) as [|r0 rs]; [apply J_nil|].
    pose proof (J_reorged sc h (r0 :: rs) (set_reorged t3 []) []) as H. exact H. }
  destruct (match reorged t3 with [] => Ok [] t3 | x :: l => reorged_loop sc h (x :: l) (set_reorged t3 []) [] end) as [rej1 t4|s t4];
    cbn [bind]; [|exact I].
  destruct H3 as [D3 R3]. apply (J_seq t3 _ t4); [exact D3|exact R3|].
  destruct (u32_sub h (Z.to_N Consts.CONFIRMATIONS_BEFORE_RETRY)) as [lim|]; [|exact I].
  rewrite flat_segs_cons. cbn [flat_seg].
  set (stale := map trk_uuid (filter (fun k => negb (t_conf k) && N.leb (t_height k) lim) (db_trks t4))).
  pose proof (J_stale sc h stale t4 []) as H4.
  destruct (stale_loop sc h stale t4 []) as [rej2 t5|s t5]; cbn [bind]; [|exact I].
  destruct H4 as [D4 R4]. apply (J_seq t4 _ t5); [exact D4|exact R4|].
  cbn [flat_segs flat_map flat_seg]. rewrite app_nil_r.
  apply (J_then_frame t5 _ _ (fun t6 => set_car_memo t6 [])); [intros; split; reflexivity|].
  apply (J_delete_opt' t5 (rej1 ++ rej2) false).
Qed.

(* ------------------------------------------------------------------------------------------ *)
(* 9. listeners, operations *)

Lemma J_gk_block t h : J t (tr_gk_block t h) (gk_block_connected t h).
Proof.
  unfold gk_block_connected, tr_gk_block.
  destruct (outdated_users (c_delta (cfg t)) h (gk_users t)) as [out|]; [|exact I].
  destruct out as [|o os]; [split; reflexivity|].
  split; [|reflexivity]. cbn [stmts_of flat_map List.app execs fold_left].
  rewrite exec_txn1 by exact I. reflexivity.
Qed.

Lemma J_listener_connected le sc hash txs h w t :
  J t (flat_segs (tr_listener_connected le sc hash txs h w t)) (listener_connected le sc hash txs h w t).
Proof.
  unfold listener_connected, tr_listener_connected. destruct (Z.eqb w 0).
  - cbn [flat_segs flat_map flat_seg]. rewrite app_nil_r. apply J_gk_block.
  - destruct (Z.eqb w 1); [apply J_w_block|apply J_r_block].
Qed.

Lemma J_listener_disconnected hash h w t : J t [] (listener_disconnected hash h w t).
Proof.
  unfold listener_disconnected, gk_block_disconnected, w_block_disconnected, r_block_disconnected.
  destruct (Z.eqb w 0); [destruct (u32_sub h 1); [split; reflexivity|exact I]|].
  destruct (Z.eqb w 1); [destruct (u32_sub h 1); [split; reflexivity|exact I]|split; reflexivity].
Qed.

Lemma J_listeners f tr order :
  (forall w t, J t (flat_segs (tr w t)) (f w t)) ->
  forall t, J t (flat_segs (tr_listeners f tr order t)) (run_listeners f order t).
Proof.
  intros Hf. induction order as [|w order IH]; intros t; cbn [run_listeners tr_listeners]; [apply J_nil|].
  rewrite flat_segs_app. pose proof (Hf w t) as H1.
  destruct (f w t) as [[] t1|s t1]; cbn [bind]; [|exact I].
  destruct H1 as [D1 R1]. eapply J_seq; [exact D1|exact R1|apply IH].
Qed.

Lemma J_listeners_nil f order :
  (forall w t, J t [] (f w t)) -> forall t, J t [] (run_listeners f order t).
Proof.
  intros Hf. induction order as [|w order IH]; intros t; cbn [run_listeners]; [apply J_nil|].
  pose proof (Hf w t) as H1. destruct (f w t) as [[] t1|s t1]; cbn [bind]; [|exact I].
  destruct H1 as [D1 R1]. apply (J_seq t [] t1 []); [exact D1|exact R1|apply IH].
Qed.

Lemma J_wrap {A} (f : A -> out) t0 l (r : res A) :
  J t0 l r -> not_abort (snd (wrap f r)) ->
  db_of (fst (wrap f r)) = execs (db_of t0) (stmts_of l) /\ rpc_log (fst (wrap f r)) = rev (rpcs_of_micro l) ++ rpc_log t0.
Proof. destruct r as [a t1|s t1]; cbn [wrap fst snd]; [intros H _; exact H|intros _ []]. Qed.

(* the micro steps of every operation, as a judgement on the model's own procedure *)
Lemma step_traced le t o sc :
  not_abort (snd (step le t o sc)) ->
  db_of (fst (step le t o sc)) = execs (db_of t) (stmts_of (op_micro le t o sc)) /\
  rpc_log (fst (step le t o sc)) = rev (rpcs_of_micro (op_micro le t o sc)).
Proof.
  unfold op_micro, op_segs. destruct o as [u|signer loc b delay sig|signer loc|signer|hash txs|]; cbn [step].
  - intros Hn. cbn [flat_segs flat_map flat_seg]. rewrite app_nil_r.
    pose proof (J_wrap ORegisterRes (set_rpc_log t []) _ _ (J_ack _ _ _ (J_add_update_user (set_rpc_log t []) u)) Hn) as [D R].
    split; [exact D|]. rewrite R. apply app_nil_r.
  - intros Hn. cbn [flat_segs flat_map flat_seg]. rewrite app_nil_r.
    pose proof (J_wrap OAddRes (set_rpc_log t []) _ _ (J_add_appointment sc (set_rpc_log t []) signer loc b delay sig) Hn) as [D R].
    split; [exact D|]. rewrite R. apply app_nil_r.
  - intros Hn. cbn [flat_segs flat_map flat_seg]. rewrite app_nil_r.
    assert (HJ : J (set_rpc_log t []) [] (w_get_appointment (set_rpc_log t []) signer loc)).
    { unfold w_get_appointment. destruct (authenticate _ signer) as [u|]; [|apply J_nil].
      destruct (gk_get _ u) as [ui|]; [|exact I]. destruct (N.leb _ _); [apply J_nil|].
      destruct (find_trk _ _), (find_app _ _); apply J_nil. }
    pose proof (J_wrap OGetRes (set_rpc_log t []) _ _ (J_ack _ _ _ HJ) Hn) as [D R].
    split; [exact D|]. rewrite R. apply app_nil_r.
  - intros Hn. cbn [flat_segs flat_map flat_seg]. rewrite app_nil_r.
    assert (HJ : J (set_rpc_log t []) [] (w_get_subscription_info (set_rpc_log t []) signer)).
    { unfold w_get_subscription_info. destruct (authenticate _ signer) as [u|]; [|apply J_nil].
      destruct (gk_get _ u) as [ui|]; [|exact I]. destruct (N.leb _ _); apply J_nil. }
    pose proof (J_wrap OSubRes (set_rpc_log t []) _ _ (J_ack _ _ _ HJ) Hn) as [D R].
    split; [exact D|]. rewrite R. apply app_nil_r.
  - intros Hn.
    pose proof (J_listeners _ _ Consts.LISTENER_ORDER
                  (J_listener_connected le sc hash txs (gk_height (set_rpc_log t []) + 1)) (set_rpc_log t [])) as HJ.
    pose proof (J_wrap (fun _ => OBlockRes) (set_rpc_log t []) _ _ HJ Hn) as [D R].
    split; [exact D|]. rewrite R. apply app_nil_r.
  - destruct (last_hash (set_rpc_log t [])) as [hash|]; [|intros _; split; reflexivity].
    intros Hn.
    pose proof (J_listeners_nil _ Consts.LISTENER_ORDER
                  (J_listener_disconnected hash (gk_height (set_rpc_log t []))) (set_rpc_log t [])) as HJ.
    pose proof (J_wrap (fun _ => OBlockRes) (set_rpc_log t []) _ _ HJ Hn) as [D R].
    split; [exact D|exact R].
Qed.

(* THE REFINEMENT: the table effect of an operation of the sequential model is the execution of
   its durable trace *)
Theorem op_is_its_trace le t o sc :
  not_abort (snd (step le t o sc)) ->
  db_of (fst (step le t o sc)) = execs (db_of t) (stmts_of (op_micro le t o sc)).
Proof. intros H. exact (proj1 (step_traced le t o sc H)). Qed.

(* ... and the RPCs the model logs for the step are the MRpc steps of the trace, in order *)
Theorem op_rpcs_are_its_trace le t o sc :
  not_abort (snd (step le t o sc)) ->
  rev (rpc_log (fst (step le t o sc))) = rpcs_of_micro (op_micro le t o sc).
Proof. intros H. rewrite (proj2 (step_traced le t o sc H)). apply rev_involutive. Qed.
