(* CrashOpsProofs.v — C03 at operation level: the sequential tower model IS the execution of its
   durable traces (refinement Tower.v -> Crash.v), and what follows for crashes at any micro step. *)
From TeosModel Require Import Base ListAux TxIndex TxIndexProofs Tower TowerMon TowerStable TowerInv TowerProofs TowerLedger Crash CrashOps.
From TeosModel.Gen Require Consts Bootstrap.
From Coq Require Import Lia.
Local Open Scope N_scope.

(* ------------------------------------------------------------------------------------------ *)
(* 0. lists of micro steps, statements *)

Lemma stmts_of_app l1 l2 : stmts_of (l1 ++ l2) = stmts_of l1 ++ stmts_of l2.
Proof. unfold stmts_of. apply flat_map_app. Qed.

Lemma rpcs_of_app l1 l2 : rpcs_of_micro (l1 ++ l2) = rpcs_of_micro l1 ++ rpcs_of_micro l2.
Proof. unfold rpcs_of_micro. apply flat_map_app. Qed.

Lemma execs_app d l1 l2 : execs d (l1 ++ l2) = execs (execs d l1) l2.
Proof. unfold execs. apply fold_left_app. Qed.

Lemma execs_cons d s l : execs d (s :: l) = execs (exec d s) l.
Proof. reflexivity. Qed.

Lemma flat_segs_app l1 l2 : flat_segs (l1 ++ l2) = flat_segs l1 ++ flat_segs l2.
Proof. unfold flat_segs. apply flat_map_app. Qed.

Lemma flat_segs_cons s l : flat_segs (s :: l) = flat_seg s ++ flat_segs l.
Proof. reflexivity. Qed.

Lemma concat_singletons {A} (l : list A) : concat (map (fun m => [m]) l) = l.
Proof. induction l as [|x l IH]; cbn [map concat List.app]; [reflexivity|]. rewrite IH. reflexivity. Qed.

(* a transaction of plain statements is their sequence, all at once *)
Lemma exec_fuel1_plain d s : (match s with STxn _ => False | _ => True end) -> exec_fuel 1 d s = exec d s.
Proof. destruct s; try reflexivity. intros []. Qed.

Definition plain (s : stmt) : Prop := match s with STxn _ => False | _ => True end.

Lemma exec_txn d l : Forall plain l -> exec d (STxn l) = execs d l.
Proof.
  intros H. change (exec d (STxn l)) with (fold_left (exec_fuel 1) l d). unfold execs. revert d.
  induction H as [|s l Hs Hl IH]; intros d; [reflexivity|].
  change (fold_left (exec_fuel 1) (s :: l) d) with (fold_left (exec_fuel 1) l (exec_fuel 1 d s)).
  change (fold_left exec (s :: l) d) with (fold_left exec l (exec d s)).
  rewrite (exec_fuel1_plain d s Hs). apply IH.
Qed.

Lemma exec_txn1 d s : plain s -> exec d (STxn [s]) = exec d s.
Proof. intros H. rewrite exec_txn; [reflexivity|constructor; [exact H|constructor]]. Qed.

(* ------------------------------------------------------------------------------------------ *)
(* 1. the judgement: running procedure r from t issues exactly the trace l *)

Definition J {A} (t : tower) (l : list micro) (r : res A) : Prop :=
  match r with
  | Ok _ t' => db_of t' = execs (db_of t) (stmts_of l) /\ rpc_log t' = rev (rpcs_of_micro l) ++ rpc_log t
  | Abort _ _ => True
  end.

Lemma J_nil {A} t (a : A) : J t [] (Ok a t).
Proof. split; reflexivity. Qed.

(* volatile updates: same tables, same log *)
Lemma J_frame {A} t t' (a : A) : db_of t' = db_of t -> rpc_log t' = rpc_log t -> J t [] (Ok a t').
Proof. intros H1 H2. split; [exact H1|exact H2]. Qed.

Lemma J_bind {A B} t l1 (r : res A) (f : A -> tower -> res B) (l2 : A -> tower -> list micro) :
  J t l1 r -> (forall a t1, r = Ok a t1 -> J t1 (l2 a t1) (f a t1)) ->
  J t (l1 ++ match r with Ok a t1 => l2 a t1 | Abort _ _ => [] end) (bind r f).
Proof.
  intros H1 H2. destruct r as [a t1|s t1]; cbn [bind]; [|exact I].
  specialize (H2 a t1 eq_refl). destruct (f a t1) as [b t2|s t2]; [|exact I].
  destruct H1 as [D1 R1], H2 as [D2 R2]. split.
  - rewrite D2, D1, stmts_of_app, execs_app. reflexivity.
  - rewrite R2, R1, rpcs_of_app, rev_app_distr, app_assoc. reflexivity.
Qed.

(* continuing after a completed prefix *)
Lemma J_seq {A} t l1 t1 l2 (r : res A) :
  db_of t1 = execs (db_of t) (stmts_of l1) -> rpc_log t1 = rev (rpcs_of_micro l1) ++ rpc_log t ->
  J t1 l2 r -> J t (l1 ++ l2) r.
Proof.
  intros D1 R1 H. destruct r as [a t2|s t2]; [|exact I]. destruct H as [D2 R2]. split.
  - rewrite D2, D1, stmts_of_app, execs_app. reflexivity.
  - rewrite R2, R1, rpcs_of_app, rev_app_distr, app_assoc. reflexivity.
Qed.

Lemma J_ext {A} t l l' (r : res A) : l = l' -> J t l r -> J t l' r.
Proof. intros ->. auto. Qed.

(* MAck is not a durable step *)
Lemma J_ack {A} t l (r : res A) : J t l r -> J t (l ++ ack_if_ok r) r.
Proof.
  destruct r as [a t1|s t1]; [|intros; exact I]. intros [D R]. cbn [ack_if_ok]. split.
  - rewrite stmts_of_app. cbn. rewrite app_nil_r. exact D.
  - rewrite rpcs_of_app. cbn. rewrite app_nil_r. exact R.
Qed.

(* ------------------------------------------------------------------------------------------ *)
(* 2. carrier *)

Lemma J_send sc t tx : J t (tr_send sc t tx) (Ok (fst (send_transaction sc t tx)) (snd (send_transaction sc t tx))).
Proof.
  unfold send_transaction, tr_send. destruct (aget (car_memo t) tx); cbn [fst snd]; split; reflexivity.
Qed.

Lemma J_in_mempool sc t tx : J t (tr_in_mempool sc t tx) (Ok (fst (in_mempool sc t tx)) (snd (in_mempool sc t tx))).
Proof. unfold tr_in_mempool, in_mempool. cbn [fst snd]. split; reflexivity. Qed.

(* ------------------------------------------------------------------------------------------ *)
(* 3. gatekeeper: register, charge *)

Lemma J_add_update_user t u : J t (tr_add_update_user t u) (gk_add_update_user t u).
Proof.
  unfold gk_add_update_user, tr_add_update_user. destruct (gk_get t u) as [ui|].
  - destruct (u32_add (u_slots ui) (c_slots (cfg t))) as [s|]; [|apply J_nil].
    split; reflexivity.
  - destruct (u32_add (gk_height t) (c_duration (cfg t))) as [e|]; [|exact I].
    destruct (amem (db_users t) u) eqn:Em; [exact I|].
    split; [|reflexivity]. cbn [stmts_of flat_map List.app execs fold_left].
    apply prim_new_user_is_stmt. exact Em.
Qed.

Lemma J_charge t u uuid blen : J t (tr_charge t u uuid blen) (gk_add_update_appointment t u uuid blen).
Proof.
  unfold gk_add_update_appointment, tr_charge. destruct (gk_get t u) as [ui|]; [|apply J_nil].
  match goal with |- context [if ?c then _ else _] => destruct c end; [|apply J_nil].
  split; reflexivity.
Qed.

(* ------------------------------------------------------------------------------------------ *)
(* 4. delete_appointments: the refund transaction *)

(* the users table after a list of balance updates, row by row *)
Definition upd_slots (p : N * N) (r : N * uinfo) : N * uinfo :=
  if N.eqb (fst r) (fst p) then (fst p, mk_uinfo (snd p) (u_start (snd r)) (u_expiry (snd r))) else r.

Definition slots_stmt (p : N * N) : stmt := SUpdSlots (fst p) (snd p).

Lemma exec_slots d p : exec d (slots_stmt p) = mk_db (map (upd_slots p) (d_users d)) (d_apps d) (d_trks d).
Proof. reflexivity. Qed.

Lemma execs_slots l : forall d,
  execs d (map slots_stmt l) = mk_db (fold_left (fun rows p => map (upd_slots p) rows) l (d_users d)) (d_apps d) (d_trks d).
Proof.
  induction l as [|p l IH]; intros d; cbn [map execs fold_left]; [destruct d; reflexivity|].
  change (fold_left exec (map slots_stmt l) (exec d (slots_stmt p))) with (execs (exec d (slots_stmt p)) (map slots_stmt l)).
  rewrite IH, exec_slots. reflexivity.
Qed.

(* the last value written for a user *)
Fixpoint alast (l : list (N * N)) (u : N) : option N :=
  match l with
  | [] => None
  | p :: r => match alast r u with Some s => Some s | None => if N.eqb u (fst p) then Some (snd p) else None end
  end.

Definition upd_last (l : list (N * N)) (r : N * uinfo) : N * uinfo :=
  match alast l (fst r) with
  | Some s => (fst r, mk_uinfo s (u_start (snd r)) (u_expiry (snd r)))
  | None => r
  end.

Lemma fold_upd_slots l : forall rows,
  fold_left (fun rows p => map (upd_slots p) rows) l rows = map (upd_last l) rows.
Proof.
  induction l as [|p l IH]; intros rows; cbn [fold_left].
  - unfold upd_last. cbn [alast]. symmetry. apply map_id.
  - rewrite IH, map_map. apply map_ext. intros r. unfold upd_last, upd_slots. cbn [alast].
    destruct (N.eqb (fst r) (fst p)) eqn:E; cbn [fst snd u_start u_expiry].
    + apply N.eqb_eq in E. rewrite <- E. destruct (alast l (fst r)); reflexivity.
    + destruct (alast l (fst r)); reflexivity.
Qed.

Lemma alast_None l u : alast l u = None <-> amem l u = false.
Proof.
  induction l as [|[k v] l IH]; cbn [alast]; [split; reflexivity|].
  unfold amem in *. cbn [aget fst snd]. destruct (N.eqb u k) eqn:E.
  - split; [|discriminate]. destruct (alast l u); discriminate.
  - destruct (alast l u); [split; [discriminate|]; intros H; apply IH in H; discriminate|]. exact IH.
Qed.

Lemma alast_last_writes l u : alast (last_writes l) u = alast l u.
Proof.
  induction l as [|p l IH]; [reflexivity|]. cbn [last_writes].
  destruct (amem l (fst p)) eqn:Em; cbn [alast]; rewrite IH; [|reflexivity].
  destruct (alast l u) eqn:El; [reflexivity|].
  destruct (N.eqb u (fst p)) eqn:E; [|reflexivity].
  apply N.eqb_eq in E. subst u. apply alast_None in El. congruence.
Qed.

(* writing each user's last value once = writing every value in turn *)
Lemma execs_last_writes l d : execs d (map slots_stmt (last_writes l)) = execs d (map slots_stmt l).
Proof.
  rewrite !execs_slots, !fold_upd_slots. f_equal. apply map_ext. intros r. unfold upd_last.
  rewrite alast_last_writes. reflexivity.
Qed.

Lemma refund_loop_slots : forall us t t',
  refund_loop t us = Ok tt t' ->
  db_of t' = execs (db_of t) (map slots_stmt (refund_updates t us)) /\ rpc_log t' = rpc_log t.
Proof.
  induction us as [|uuid us IH]; intros t t'; cbn [refund_loop refund_updates].
  - intros H; inversion H; subst. split; reflexivity.
  - destruct (find_app (db_apps t) uuid) as [a|]; [|discriminate].
    destruct (gk_get t (a_user a)) as [ui|]; [|discriminate].
    destruct (u32_add (u_slots ui) (slots_of (b_len (a_blob a)))) as [s|]; [|discriminate].
    intros H. apply IH in H. destruct H as [D R]. split; [|exact R].
    rewrite D. cbn [map]. rewrite execs_cons. reflexivity.
Qed.

Lemma plain_slots l : Forall plain (map slots_stmt l).
Proof. induction l; cbn; constructor; [exact I|assumption]. Qed.

Lemma execs_slots_del d l us :
  execs d (SDelApps us :: map slots_stmt l) = exec (execs d (map slots_stmt l)) (SDelApps us).
Proof.
  rewrite execs_cons, !execs_slots. reflexivity.
Qed.

Lemma J_delete t us refund : J t (tr_delete t us refund) (gk_delete_appointments t us refund).
Proof.
  unfold gk_delete_appointments, tr_delete. destruct refund.
  - destruct (refund_loop t us) as [[] t1|s t1] eqn:Er; cbn [bind]; [|exact I].
    apply refund_loop_slots in Er. destruct Er as [D R]. split; [|exact R].
    cbn [stmts_of flat_map List.app execs fold_left].
    rewrite exec_txn by (constructor; [exact I|apply plain_slots]).
    change (map (fun p => SUpdSlots (fst p) (snd p))) with (map slots_stmt).
    rewrite execs_slots_del, execs_last_writes, <- D. reflexivity.
  - cbn. destruct us as [|u [|u2 us]]; split; try reflexivity.
Qed.

Lemma J_delete_opt t us refund :
  J t (match us with [] => [] | _ => tr_delete t us refund end)
      (match us with [] => Ok tt t | _ => gk_delete_appointments t us refund end).
Proof. destruct us; [apply J_nil|apply J_delete]. Qed.

Lemma J_delete_opt' t us refund :
  J t (match us with [] => [] | x :: l => tr_delete t (x :: l) refund end)
      (match us with [] => Ok tt t | x :: l => gk_delete_appointments t (x :: l) refund end).
Proof. destruct us; [apply J_nil|apply J_delete]. Qed.

(* ------------------------------------------------------------------------------------------ *)
(* 5. responder: trackers *)

Lemma exec_ins_trk d k :
  exec d (SInsTrk k) =
  match find_trk (d_trks d) (trk_uuid k), find_app (d_apps d) (trk_uuid k) with
  | None, Some _ => mk_db (d_users d) (d_apps d) (d_trks d ++ [k])
  | _, _ => d
  end.
Proof. reflexivity. Qed.

Lemma J_add_tracker t uuid d p s : J t (tr_add_tracker uuid d p s) (Ok tt (r_add_tracker t uuid d p s)).
Proof.
  unfold r_add_tracker, tr_add_tracker. destruct uuid as [loc u]. cbn [fst snd].
  destruct s as [h|h| |c]; try apply J_nil.
  - split; [|destruct (find_trk (db_trks t) (loc, u)), (find_app (db_apps t) (loc, u)); reflexivity].
    cbn [stmts_of flat_map List.app execs fold_left]. rewrite exec_ins_trk.
    change (trk_uuid (mk_trk loc u d p h true)) with (loc, u). cbn [db_of d_trks d_apps d_users].
    destruct (find_trk (db_trks t) (loc, u)), (find_app (db_apps t) (loc, u)); reflexivity.
  - split; [|destruct (find_trk (db_trks t) (loc, u)), (find_app (db_apps t) (loc, u)); reflexivity].
    cbn [stmts_of flat_map List.app execs fold_left]. rewrite exec_ins_trk.
    change (trk_uuid (mk_trk loc u d p h false)) with (loc, u). cbn [db_of d_trks d_apps d_users].
    destruct (find_trk (db_trks t) (loc, u)), (find_app (db_apps t) (loc, u)); reflexivity.
Qed.

Lemma J_handle_breach sc t uuid d p : J t (tr_handle_breach sc t uuid d p) (r_handle_breach sc t uuid d p).
Proof.
  unfold r_handle_breach, tr_handle_breach.
  destruct (ti_get (r_index t) p) as [bh|].
  - destruct (ti_get_height (r_index t) bh) as [h|]; cbn [bind]; [|exact I].
    cbn [status_accepted]. pose proof (J_add_tracker t uuid d p (ConfirmedIn (Z.to_N h))) as H.
    destruct H as [D R]. split; assumption.
  - pose proof (J_in_mempool sc t p) as H1.
    destruct (in_mempool sc t p) as [inm t1] eqn:Ei. cbn [fst snd] in *. destruct inm.
    + cbn [bind status_accepted].
      pose proof (J_add_tracker t1 uuid d p (InMempoolSince (car_height t1))) as H2.
      destruct H1 as [D1 R1]. eapply (J_seq t _ t1); [exact D1|exact R1|].
      destruct H2 as [D2 R2]. split; assumption.
    + pose proof (J_send sc t1 p) as H2.
      destruct (send_transaction sc t1 p) as [s t2] eqn:Es. cbn [fst snd bind] in *.
      destruct H1 as [D1 R1]. eapply (J_seq t _ t1); [exact D1|exact R1|].
      destruct H2 as [D2 R2]. eapply (J_seq t1 _ t2); [exact D2|exact R2|].
      destruct (status_accepted s) eqn:Ea.
      * pose proof (J_add_tracker t2 uuid d p s) as H3. destruct H3 as [D3 R3]. split; assumption.
      * assert (Hn : tr_add_tracker uuid d p s = []) by (destruct s; try reflexivity; discriminate).
        rewrite Hn. apply J_nil.
Qed.

(* ------------------------------------------------------------------------------------------ *)
(* 6. watcher: add_appointment *)

Lemma J_store_appointment t a : J t (tr_store_appointment t a) (w_store_appointment t a).
Proof.
  unfold w_store_appointment, tr_store_appointment.
  destruct (find_app (db_apps t) (app_uuid a)) eqn:Ef.
  - split; reflexivity.
  - destruct (amem (db_users t) (a_user a)) eqn:Em.
    + split; [|reflexivity]. cbn [stmts_of flat_map List.app execs fold_left].
      apply prim_insert_app_is_stmt; assumption.
    + (* the INSERT fails on the foreign key: nothing changes *)
      split; [|reflexivity]. cbn [stmts_of flat_map List.app execs fold_left].
      unfold exec. cbn [exec_fuel db_of d_apps d_users]. rewrite Ef, Em. reflexivity.
Qed.

Lemma J_store_triggered sc t a d : J t (tr_store_triggered sc t a d) (w_store_triggered sc t a d).
Proof.
  unfold w_store_triggered, tr_store_triggered. destruct (decrypt (a_blob a) d) as [p|].
  - destruct (w_store_ok t a) eqn:Eok; cbn [negb].
    2:{ rewrite app_nil_r. pose proof (J_store_appointment t a) as H.
        unfold w_store_appointment in H. unfold w_store_ok in Eok.
        destruct (find_app (db_apps t) (app_uuid a)); [discriminate|]. rewrite Eok in H. exact H. }
    apply (J_bind t _ (w_store_appointment t a) _ (fun _ t1 =>
             tr_handle_breach sc t1 (app_uuid a) d p ++
             match r_handle_breach sc t1 (app_uuid a) d p with
             | Ok s t2 => if status_rejected s then tr_delete t2 [app_uuid a] false else []
             | Abort _ _ => []
             end)); [apply J_store_appointment|].
    intros [] t1 _.
    apply (J_bind t1 _ (r_handle_breach sc t1 (app_uuid a) d p) _ (fun s t2 =>
             if status_rejected s then tr_delete t2 [app_uuid a] false else [])); [apply J_handle_breach|].
    intros s t2 _. destruct (status_rejected s); [apply J_delete|apply J_nil].
  - destruct (find_app (db_apps t) (app_uuid a)); [apply J_delete|apply J_nil].
Qed.

Lemma J_add_appointment sc t signer loc b delay sig :
  J t (tr_add_appointment sc t signer loc b delay sig) (w_add_appointment sc t signer loc b delay sig).
Proof.
  unfold w_add_appointment, tr_add_appointment.
  destruct (authenticate t signer) as [u|]; [|split; reflexivity].
  destruct (gk_get t u) as [ui|]; [|split; reflexivity].
  destruct (N.leb (u_expiry ui) (gk_height t)); [split; reflexivity|].
  destruct (find_trk (db_trks t) (loc, u)); [split; reflexivity|].
  set (a := mk_app loc u b delay sig (w_height t)). cbv zeta.
  apply (J_bind t _ (gk_add_update_appointment t u (loc, u) (b_len b)) _ (fun charged t1 =>
           match charged with
           | None => [MAck]
           | Some _ =>
               match ti_get (w_cache t1) loc with
               | Some dispute => tr_store_triggered sc t1 a dispute ++ ack_if_ok (w_store_triggered sc t1 a dispute)
               | None => tr_store_appointment t1 a ++ ack_if_ok (w_store_appointment t1 a)
               end
           end)); [apply J_charge|].
  intros charged t1 _. destruct charged as [av|]; [|split; reflexivity].
  destruct (ti_get (w_cache t1) loc) as [dispute|].
  - pose proof (J_ack t1 _ _ (J_store_triggered sc t1 a dispute)) as H.
    destruct (w_store_triggered sc t1 a dispute) as [[] t2|s t2]; cbn [bind]; [|exact I].
    match goal with |- context [if ?c then _ else _] => destruct c end; exact H.
  - pose proof (J_ack t1 _ _ (J_store_appointment t1 a)) as H.
    destruct (w_store_appointment t1 a) as [[] t2|s t2]; cbn [bind]; [|exact I].
    match goal with |- context [if ?c then _ else _] => destruct c end; exact H.
Qed.

(* ------------------------------------------------------------------------------------------ *)
(* 7. the watcher's pass over a block *)

Lemma J_breach_uuid_loop sc d : forall us t inv,
  J t (tr_breach_uuid_loop sc d us t inv) (breach_uuid_loop sc d us t inv).
Proof.
  induction us as [|uuid us IH]; intros t inv; cbn [breach_uuid_loop tr_breach_uuid_loop]; [apply J_nil|].
  destruct (find_app (db_apps t) uuid) as [a|]; [|apply IH].
  destruct (decrypt (a_blob a) d) as [p|]; [|apply IH].
  pose proof (J_handle_breach sc t uuid d p) as H1.
  destruct (r_handle_breach sc t uuid d p) as [s t1|s t1]; cbn [bind]; [|exact I].
  destruct H1 as [D1 R1]. eapply J_seq; [exact D1|exact R1|apply IH].
Qed.

Lemma J_breach_loop sc : forall ds t inv, J t (concat (tr_breach_loop sc ds t inv)) (breach_loop sc ds t inv).
Proof.
  induction ds as [|d ds IH]; intros t inv; cbn [breach_loop tr_breach_loop concat]; [apply J_nil|].
  pose proof (J_breach_uuid_loop sc d (map app_uuid (filter (fun a => N.eqb (a_loc a) d) (db_apps t))) t inv) as H1.
  destruct (breach_uuid_loop sc d (map app_uuid (filter (fun a => N.eqb (a_loc a) d) (db_apps t))) t inv) as [inv' t1|s t1];
    cbn [bind]; [|exact I].
  destruct H1 as [D1 R1]. eapply J_seq; [exact D1|exact R1|apply IH].
Qed.

(* a volatile epilogue *)
Lemma J_then_frame {A} t l (r : res A) (g : tower -> tower) :
  (forall t1, db_of (g t1) = db_of t1 /\ rpc_log (g t1) = rpc_log t1) ->
  J t l r -> J t l (bind r (fun _ t1 => Ok tt (g t1))).
Proof.
  intros Hg H. destruct r as [a t1|s t1]; cbn [bind]; [|exact I].
  destruct H as [D R]. destruct (Hg t1) as [G1 G2]. split; [rewrite G1; exact D|rewrite G2; exact R].
Qed.

Lemma J_w_block sc t b h : J t (flat_segs (tr_w_block sc t b h)) (w_block_connected sc t b h).
Proof.
  unfold w_block_connected, tr_w_block. destruct (ti_update (w_cache t) b) as [c|]; [|exact I].
  rewrite flat_segs_cons. cbn [flat_seg].
  set (t1 := set_w_cache t c).
  set (br := filter (fun d => existsb (fun a => N.eqb (a_loc a) d) (db_apps t1)) (keys_of (ib_data b))).
  pose proof (J_breach_loop sc br t1 []) as H1.
  destruct (breach_loop sc br t1 []) as [invalid t2|s t2]; cbn [bind]; [|exact I].
  destruct H1 as [D1 R1]. apply (J_seq t _ t2); [exact D1|exact R1|].
  cbn [flat_segs flat_map flat_seg]. rewrite app_nil_r.
  apply (J_then_frame t2 _ _ (fun t3 => set_w_height t3 h)); [intros; split; reflexivity|].
  apply (J_delete_opt t2 invalid false).
Qed.

(* ------------------------------------------------------------------------------------------ *)
(* 8. the responder's pass over a block *)

Lemma J_check_conf le txids h : forall snap t comp,
  J t (tr_check_conf txids h snap t) (check_conf_loop le txids h snap t comp).
Proof.
  induction snap as [|k snap IH]; intros t comp; cbn [check_conf_loop tr_check_conf]; [apply J_nil|].
  destruct (memN (t_penalty k) txids).
  - destruct (find_trk (db_trks t) (trk_uuid k)); [|exact I].
    match goal with |- J t (?m :: ?l) ?r => change (J t ([m] ++ l) r) end.
    eapply J_seq; [| |apply IH]; reflexivity.
  - destruct (mem_uuid (trk_uuid k) (reorged t)); [apply IH|]. destruct (t_conf k); apply IH.
Qed.

Lemma J_reorged sc h : forall us t rej, J t (concat (tr_reorged sc h us t)) (reorged_loop sc h us t rej).
Proof.
  induction us as [|uuid us IH]; intros t rej; cbn [reorged_loop tr_reorged]; [apply J_nil|].
  destruct (find_trk (db_trks t) uuid) as [k|]; [|apply IH].
  pose proof (J_send sc t (t_dispute k)) as H1.
  destruct (send_transaction sc t (t_dispute k)) as [s t1] eqn:E1. cbn [fst snd] in *. destruct H1 as [D1 R1].
  destruct s as [hh|hh| |c]; [exact I| | |].
  - pose proof (J_send sc t1 (t_penalty k)) as H2.
    destruct (send_transaction sc t1 (t_penalty k)) as [s2 t2] eqn:E2. cbn [fst snd] in *. destruct H2 as [D2 R2].
    destruct (status_rejected s2); cbn [concat]; rewrite <- ?app_assoc.
    + eapply J_seq; [exact D1|exact R1|]. eapply J_seq; [exact D2|exact R2|]. apply IH.
    + eapply J_seq; [exact D1|exact R1|]. eapply J_seq; [exact D2|exact R2|].
      eapply J_seq; [| |apply IH]; reflexivity.
  - pose proof (J_send sc t1 (t_penalty k)) as H2.
    destruct (send_transaction sc t1 (t_penalty k)) as [s2 t2] eqn:E2. cbn [fst snd] in *. destruct H2 as [D2 R2].
    destruct (status_rejected s2); cbn [concat]; rewrite <- ?app_assoc.
    + eapply J_seq; [exact D1|exact R1|]. eapply J_seq; [exact D2|exact R2|]. apply IH.
    + eapply J_seq; [exact D1|exact R1|]. eapply J_seq; [exact D2|exact R2|].
      eapply J_seq; [| |apply IH]; reflexivity.
  - cbn [concat]. eapply J_seq; [exact D1|exact R1|]. apply IH.
Qed.

Lemma J_stale sc h : forall us t rej, J t (concat (tr_stale sc h us t)) (stale_loop sc h us t rej).
Proof.
  induction us as [|uuid us IH]; intros t rej; cbn [stale_loop tr_stale]; [apply J_nil|].
  destruct (find_trk (db_trks t) uuid) as [k|]; [|exact I].
  pose proof (J_send sc t (t_penalty k)) as H1.
  destruct (send_transaction sc t (t_penalty k)) as [s t1] eqn:E1. cbn [fst snd] in *. destruct H1 as [D1 R1].
  destruct s as [hh|hh| |c]; cbn [concat]; rewrite <- ?app_assoc;
    (eapply J_seq; [exact D1|exact R1|]); [| | |apply IH];
    (eapply J_seq; [| |apply IH]; reflexivity).
Qed.

Lemma J_r_block le sc t b h : J t (flat_segs (tr_r_block le sc t b h)) (r_block_connected le sc t b h).
Proof.
  unfold r_block_connected, tr_r_block.
  destruct (ti_update (r_index (set_car_height t h)) b) as [idx|]; [|exact I].
  set (t1 := set_r_index (set_car_height t h) idx).
  rewrite flat_segs_cons. cbn [flat_seg]. rewrite concat_singletons.
  pose proof (J_check_conf le (keys_of (ib_data b)) h (db_trks t1) t1 []) as H1.
  destruct (check_conf_loop le (keys_of (ib_data b)) h (db_trks t1) t1 []) as [completed t2|s t2]; cbn [bind]; [|exact I].
  destruct H1 as [D1 R1]. apply (J_seq t _ t2); [exact D1|exact R1|].
  rewrite flat_segs_cons. cbn [flat_seg].
  pose proof (J_delete_opt t2 completed true) as H2.
  destruct (match completed with [] => Ok tt t2 | _ => gk_delete_appointments t2 completed true end) as [[] t3|s t3];
    cbn [bind]; [|exact I].
  destruct H2 as [D2 R2]. apply (J_seq t2 _ t3); [exact D2|exact R2|].
  rewrite flat_segs_cons. cbn [flat_seg].
  assert (H3 : J t3 (concat (match reorged t3 with [] => [] | x :: l => tr_reorged sc h (x :: l) (set_reorged t3 []) end))
                 (match reorged t3 with [] => Ok [] t3 | x :: l => reorged_loop sc h (x :: l) (set_reorged t3 []) [] end)).
  { destruct (reorged t3) as [|r0 rs]; [apply J_nil|].
    pose proof (J_reorged sc h (r0 :: rs) (set_reorged t3 []) []) as H. exact H. }
  destruct (match reorged t3 with [] => Ok [] t3 | x :: l => reorged_loop sc h (x :: l) (set_reorged t3 []) [] end) as [rej1 t4|s t4];
    cbn [bind]; [|exact I].
  destruct H3 as [D3 R3]. apply (J_seq t3 _ t4); [exact D3|exact R3|].
  destruct (u32_sub h (Z.to_N Consts.CONFIRMATIONS_BEFORE_RETRY)) as [lim|]; [|exact I].
  rewrite flat_segs_cons. cbn [flat_seg].
  set (stale := map trk_uuid (filter (fun k => negb (t_conf k) && N.leb (t_height k) lim) (db_trks t4))).
  pose proof (J_stale sc h stale t4 []) as H4.
  destruct (stale_loop sc h stale t4 []) as [rej2 t5|s t5]; cbn [bind]; [|exact I].
  destruct H4 as [D4 R4]. apply (J_seq t4 _ t5); [exact D4|exact R4|].
  cbn [flat_segs flat_map flat_seg]. rewrite app_nil_r.
  apply (J_then_frame t5 _ _ (fun t6 => set_car_memo t6 [])); [intros; split; reflexivity|].
  apply (J_delete_opt' t5 (rej1 ++ rej2) false).
Qed.

(* ------------------------------------------------------------------------------------------ *)
(* 9. listeners, operations *)

Lemma J_gk_block t h : J t (tr_gk_block t h) (gk_block_connected t h).
Proof.
  unfold gk_block_connected, tr_gk_block.
  destruct (outdated_users (c_delta (cfg t)) h (gk_users t)) as [out|]; [|exact I].
  destruct out as [|o os]; [split; reflexivity|].
  split; [|reflexivity]. cbn [stmts_of flat_map List.app execs fold_left].
  rewrite exec_txn1 by exact I. reflexivity.
Qed.

Lemma J_listener_connected le sc hash txs h w t :
  J t (flat_segs (tr_listener_connected le sc hash txs h w t)) (listener_connected le sc hash txs h w t).
Proof.
  unfold listener_connected, tr_listener_connected. destruct (Z.eqb w 0).
  - cbn [flat_segs flat_map flat_seg]. rewrite app_nil_r. apply J_gk_block.
  - destruct (Z.eqb w 1); [apply J_w_block|apply J_r_block].
Qed.

Lemma J_listener_disconnected hash h w t : J t [] (listener_disconnected hash h w t).
Proof.
  unfold listener_disconnected, gk_block_disconnected, w_block_disconnected, r_block_disconnected.
  destruct (Z.eqb w 0); [destruct (u32_sub h 1); [split; reflexivity|exact I]|].
  destruct (Z.eqb w 1); [destruct (u32_sub h 1); [split; reflexivity|exact I]|split; reflexivity].
Qed.

Lemma J_listeners f tr order :
  (forall w t, J t (flat_segs (tr w t)) (f w t)) ->
  forall t, J t (flat_segs (tr_listeners f tr order t)) (run_listeners f order t).
Proof.
  intros Hf. induction order as [|w order IH]; intros t; cbn [run_listeners tr_listeners]; [apply J_nil|].
  rewrite flat_segs_app. pose proof (Hf w t) as H1.
  destruct (f w t) as [[] t1|s t1]; cbn [bind]; [|exact I].
  destruct H1 as [D1 R1]. eapply J_seq; [exact D1|exact R1|apply IH].
Qed.

Lemma J_listeners_nil f order :
  (forall w t, J t [] (f w t)) -> forall t, J t [] (run_listeners f order t).
Proof.
  intros Hf. induction order as [|w order IH]; intros t; cbn [run_listeners]; [apply J_nil|].
  pose proof (Hf w t) as H1. destruct (f w t) as [[] t1|s t1]; cbn [bind]; [|exact I].
  destruct H1 as [D1 R1]. apply (J_seq t [] t1 []); [exact D1|exact R1|apply IH].
Qed.

Lemma J_wrap {A} (f : A -> out) t0 l (r : res A) :
  J t0 l r -> not_abort (snd (wrap f r)) ->
  db_of (fst (wrap f r)) = execs (db_of t0) (stmts_of l) /\ rpc_log (fst (wrap f r)) = rev (rpcs_of_micro l) ++ rpc_log t0.
Proof. destruct r as [a t1|s t1]; cbn [wrap fst snd]; [intros H _; exact H|intros _ []]. Qed.

(* the micro steps of every operation, as a judgement on the model's own procedure *)
Lemma step_traced le t o sc :
  not_abort (snd (step le t o sc)) ->
  db_of (fst (step le t o sc)) = execs (db_of t) (stmts_of (op_micro le t o sc)) /\
  rpc_log (fst (step le t o sc)) = rev (rpcs_of_micro (op_micro le t o sc)).
Proof.
  unfold op_micro, op_segs. destruct o as [u|signer loc b delay sig|signer loc|signer|hash txs|]; cbn [step].
  - intros Hn. cbn [flat_segs flat_map flat_seg]. rewrite app_nil_r.
    pose proof (J_wrap ORegisterRes (set_rpc_log t []) _ _ (J_ack _ _ _ (J_add_update_user (set_rpc_log t []) u)) Hn) as [D R].
    split; [exact D|]. rewrite R. apply app_nil_r.
  - intros Hn. cbn [flat_segs flat_map flat_seg]. rewrite app_nil_r.
    pose proof (J_wrap OAddRes (set_rpc_log t []) _ _ (J_add_appointment sc (set_rpc_log t []) signer loc b delay sig) Hn) as [D R].
    split; [exact D|]. rewrite R. apply app_nil_r.
  - intros Hn. cbn [flat_segs flat_map flat_seg]. rewrite app_nil_r.
    assert (HJ : J (set_rpc_log t []) [] (w_get_appointment (set_rpc_log t []) signer loc)).
    { unfold w_get_appointment. destruct (authenticate _ signer) as [u|]; [|apply J_nil].
      destruct (gk_get _ u) as [ui|]; [|apply J_nil]. destruct (N.leb _ _); [apply J_nil|].
      destruct (find_trk _ _), (find_app _ _); apply J_nil. }
    pose proof (J_wrap OGetRes (set_rpc_log t []) _ _ (J_ack _ _ _ HJ) Hn) as [D R].
    split; [exact D|]. rewrite R. apply app_nil_r.
  - intros Hn. cbn [flat_segs flat_map flat_seg]. rewrite app_nil_r.
    assert (HJ : J (set_rpc_log t []) [] (w_get_subscription_info (set_rpc_log t []) signer)).
    { unfold w_get_subscription_info. destruct (authenticate _ signer) as [u|]; [|apply J_nil].
      destruct (gk_get _ u) as [ui|]; [|apply J_nil]. destruct (N.leb _ _); apply J_nil. }
    pose proof (J_wrap OSubRes (set_rpc_log t []) _ _ (J_ack _ _ _ HJ) Hn) as [D R].
    split; [exact D|]. rewrite R. apply app_nil_r.
  - intros Hn.
    pose proof (J_listeners _ _ Consts.LISTENER_ORDER
                  (J_listener_connected le sc hash txs (gk_height (set_rpc_log t []) + 1)) (set_rpc_log t [])) as HJ.
    pose proof (J_wrap (fun _ => OBlockRes) (set_rpc_log t []) _ _ HJ Hn) as [D R].
    split; [exact D|]. rewrite R. apply app_nil_r.
  - destruct (last_hash (set_rpc_log t [])) as [hash|]; [|intros _; split; reflexivity].
    intros Hn.
    pose proof (J_listeners_nil _ Consts.LISTENER_ORDER
                  (J_listener_disconnected hash (gk_height (set_rpc_log t []))) (set_rpc_log t [])) as HJ.
    pose proof (J_wrap (fun _ => OBlockRes) (set_rpc_log t []) _ _ HJ Hn) as [D R].
    split; [exact D|exact R].
Qed.

(* THE REFINEMENT: the table effect of an operation of the sequential model is the execution of
   its durable trace *)
Theorem op_is_its_trace le t o sc :
  not_abort (snd (step le t o sc)) ->
  db_of (fst (step le t o sc)) = execs (db_of t) (stmts_of (op_micro le t o sc)).
Proof. intros H. exact (proj1 (step_traced le t o sc H)). Qed.

(* ... and the RPCs the model logs for the step are the MRpc steps of the trace, in order *)
Theorem op_rpcs_are_its_trace le t o sc :
  not_abort (snd (step le t o sc)) ->
  rev (rpc_log (fst (step le t o sc))) = rpcs_of_micro (op_micro le t o sc).
Proof. intros H. rewrite (proj2 (step_traced le t o sc H)). apply rev_involutive. Qed.

(* ------------------------------------------------------------------------------------------ *)
(* 10. crash at any micro step: integrity, and the invariant after restart *)

Lemma db_of_recover shell d : db_of (recover shell d) = d.
Proof. destruct d. reflexivity. Qed.

Lemma db_of_restart t d : db_of (restart t d) = d.
Proof. apply db_of_recover. Qed.

Theorem crash_integrity le k t o sc :
  Inv t -> DbInv (crash_at le k t o sc) /\ Inv (restart t (crash_at le k t o sc)).
Proof.
  intros HI. assert (HD : DbInv (crash_at le k t o sc)).
  { unfold crash_at. apply execs_inv. apply dbinv_of_inv. exact HI. }
  split; [exact HD|]. unfold restart. apply recover_inv. exact HD.
Qed.

(* the crash prefix with every step done is the completed operation *)
Lemma firstn_all_ge {A} (l : list A) k : (length l <= k)%nat -> firstn k l = l.
Proof. intros H. apply firstn_all2. exact H. Qed.

Theorem crash_after_last_step le t o sc k :
  not_abort (snd (step le t o sc)) -> (length (op_micro le t o sc) <= k)%nat ->
  crash_at le k t o sc = db_of (fst (step le t o sc)).
Proof.
  intros Hn Hk. unfold crash_at. rewrite firstn_all_ge by exact Hk. symmetry. apply op_is_its_trace. exact Hn.
Qed.

(* ------------------------------------------------------------------------------------------ *)
(* 11. durable rows disappear only through a statement that deletes them *)

Lemma has_app_iff d uuid : has_app d uuid = true <-> In uuid (map app_uuid (d_apps d)).
Proof.
  unfold has_app. rewrite existsb_exists. split.
  - intros [a [Ha He]]. apply uuid_eqb_eq in He. subst. apply in_map. exact Ha.
  - intros H. apply in_map_iff in H. destruct H as [a [He Ha]]. exists a. split; [exact Ha|]. rewrite He. apply uuid_eqb_refl.
Qed.

Lemma has_trk_iff d uuid : has_trk d uuid = true <-> In uuid (map trk_uuid (d_trks d)).
Proof.
  unfold has_trk. rewrite existsb_exists. split.
  - intros [a [Ha He]]. apply uuid_eqb_eq in He. subst. apply in_map. exact Ha.
  - intros H. apply in_map_iff in H. destruct H as [a [He Ha]]. exists a. split; [exact Ha|]. rewrite He. apply uuid_eqb_refl.
Qed.

Lemma map_uuid_repl a l :
  map app_uuid (map (fun x => if uuid_eqb (app_uuid x) (app_uuid a) then a else x) l) = map app_uuid l.
Proof.
  rewrite map_map. apply map_ext. intros x. destruct (uuid_eqb (app_uuid x) (app_uuid a)) eqn:E; [|reflexivity].
  apply uuid_eqb_eq in E. congruence.
Qed.

Lemma map_uuid_trk_status uuid h c l :
  map trk_uuid (map (fun k => if uuid_eqb (trk_uuid k) uuid then mk_trk (t_loc k) (t_user k) (t_dispute k) (t_penalty k) h c else k) l)
  = map trk_uuid l.
Proof. rewrite map_map. apply map_ext. intros k. destruct (uuid_eqb (trk_uuid k) uuid); reflexivity. Qed.

Lemma exec_fuel_keeps fuel : forall s d uuid,
  (In uuid (map app_uuid (d_apps d)) ->
   In uuid (map app_uuid (d_apps (exec_fuel fuel d s))) \/ deletes_fuel fuel uuid s = true) /\
  (In uuid (map trk_uuid (d_trks d)) ->
   In uuid (map trk_uuid (d_trks (exec_fuel fuel d s))) \/ deletes_fuel fuel uuid s = true).
Proof.
  induction fuel as [|f IHf]; intros s d uuid;
  (destruct s as [u ui|u ui|u s|us|a|a|us|k|uu h c|l]; cbn [exec_fuel deletes_fuel];
   [ destruct (amem (d_users d) u); cbn; tauto
   | cbn; tauto
   | cbn; tauto
   | cbn [d_apps d_trks]; split; intros H; apply in_map_iff in H; destruct H as [x [He Hx]];
     (destruct (memN (snd uuid) us) eqn:Em; [right; reflexivity|left]; apply in_map_iff; exists x; split; [exact He|];
      apply filter_In; split; [exact Hx|]; subst uuid; cbn [snd app_uuid trk_uuid] in Em; rewrite Em; reflexivity)
   | destruct (find_app (d_apps d) (app_uuid a)); [tauto|]; destruct (amem (d_users d) (a_user a)); [|tauto];
     cbn [d_apps d_trks]; rewrite map_app, in_app_iff; tauto
   | cbn [d_apps d_trks]; rewrite map_uuid_repl; tauto
   | cbn [d_apps d_trks]; split; intros H; apply in_map_iff in H; destruct H as [x [He Hx]];
     (destruct (mem_uuid uuid us) eqn:Em; [right; reflexivity|left]; apply in_map_iff; exists x; split; [exact He|];
      apply filter_In; split; [exact Hx|]; rewrite He, Em; reflexivity)
   | destruct (find_trk (d_trks d) (trk_uuid k)); [tauto|]; destruct (find_app (d_apps d) (trk_uuid k)); [|tauto];
     cbn [d_apps d_trks]; rewrite map_app, in_app_iff; tauto
   | cbn [d_apps d_trks]; rewrite map_uuid_trk_status; tauto
   | idtac ]).
  - tauto.
  - revert d. induction l as [|s l IHl]; intros d; cbn [fold_left existsb]; [tauto|].
    destruct (IHf s d uuid) as [A1 T1]. destruct (IHl (exec_fuel f d s)) as [A2 T2].
    split; intros H.
    + destruct (A1 H) as [H1|H1]; [|right; rewrite H1; reflexivity].
      destruct (A2 H1) as [H2|H2]; [left; exact H2|right; rewrite H2; apply orb_true_r].
    + destruct (T1 H) as [H1|H1]; [|right; rewrite H1; reflexivity].
      destruct (T2 H1) as [H2|H2]; [left; exact H2|right; rewrite H2; apply orb_true_r].
Qed.

(* for EVERY statement sequence: an appointment row (a tracker row) present before and absent after
   implies that a DELETE naming it, or a DELETE of its owner (cascade), was executed *)
Theorem rows_only_deleted_explicitly l : forall d uuid,
  (has_app d uuid = true -> has_app (execs d l) uuid = true \/ exists s, In s l /\ deletes uuid s = true) /\
  (has_trk d uuid = true -> has_trk (execs d l) uuid = true \/ exists s, In s l /\ deletes uuid s = true).
Proof.
  induction l as [|s l IH]; intros d uuid; cbn [execs fold_left]; [tauto|].
  change (fold_left exec l (exec d s)) with (execs (exec d s) l).
  destruct (exec_fuel_keeps 2 s d uuid) as [A1 T1]. destruct (IH (exec d s) uuid) as [A2 T2].
  rewrite !has_app_iff, !has_trk_iff in *. split; intros H.
  - destruct (A1 H) as [H1|H1]; [|right; exists s; split; [left; reflexivity|exact H1]].
    destruct (A2 H1) as [H2|[s' [Hs' Hd]]]; [left; exact H2|right; exists s'; split; [right; exact Hs'|exact Hd]].
  - destruct (T1 H) as [H1|H1]; [|right; exists s; split; [left; reflexivity|exact H1]].
    destruct (T2 H1) as [H2|[s' [Hs' Hd]]]; [left; exact H2|right; exists s'; split; [right; exact Hs'|exact Hd]].
Qed.

(* the CONTENT of an appointment row changes only through an UPDATE naming it (its owner replaces it) *)
Lemma exec_fuel_keeps_row fuel : forall s d a,
  In a (d_apps d) ->
  In a (d_apps (exec_fuel fuel d s)) \/ deletes_fuel fuel (app_uuid a) s = true \/ replaces_fuel fuel (app_uuid a) s = true.
Proof.
  induction fuel as [|f IHf]; intros s d a0 H;
  (destruct s as [u ui|u ui|u s|us|a|a|us|k|uu h c|l]; cbn [exec_fuel deletes_fuel replaces_fuel];
   [ destruct (amem (d_users d) u); cbn; tauto
   | cbn; tauto
   | cbn; tauto
   | cbn [d_apps]; destruct (memN (snd (app_uuid a0)) us) eqn:Em; [tauto|left];
     apply filter_In; split; [exact H|]; cbn [snd app_uuid] in Em; rewrite Em; reflexivity
   | destruct (find_app (d_apps d) (app_uuid a)); [tauto|]; destruct (amem (d_users d) (a_user a)); [|tauto];
     cbn [d_apps]; rewrite in_app_iff; tauto
   | cbn [d_apps]; destruct (uuid_eqb (app_uuid a) (app_uuid a0)) eqn:E; [tauto|left];
     apply in_map_iff; exists a0; split; [|exact H];
     destruct (uuid_eqb (app_uuid a0) (app_uuid a)) eqn:E2; [|reflexivity];
     apply uuid_eqb_eq in E2; rewrite E2, uuid_eqb_refl in E; discriminate
   | cbn [d_apps]; destruct (mem_uuid (app_uuid a0) us) eqn:Em; [tauto|left];
     apply filter_In; split; [exact H|]; rewrite Em; reflexivity
   | destruct (find_trk (d_trks d) (trk_uuid k)); [tauto|]; destruct (find_app (d_apps d) (trk_uuid k)); cbn; tauto
   | cbn; tauto
   | idtac ]).
  - tauto.
  - revert d H. induction l as [|s l IHl]; intros d H; cbn [fold_left existsb]; [tauto|].
    destruct (IHf s d a0 H) as [H1|[H1|H1]]; [|right; left; rewrite H1; reflexivity|right; right; rewrite H1; reflexivity].
    destruct (IHl _ H1) as [H2|[H2|H2]]; [left; exact H2|right; left; rewrite H2; apply orb_true_r|right; right; rewrite H2; apply orb_true_r].
Qed.

Theorem row_content_kept l : forall d a,
  In a (d_apps d) ->
  In a (d_apps (execs d l)) \/ exists s, In s l /\ (deletes (app_uuid a) s = true \/ replaces (app_uuid a) s = true).
Proof.
  induction l as [|s l IH]; intros d a H; cbn [execs fold_left]; [tauto|].
  change (fold_left exec l (exec d s)) with (execs (exec d s) l).
  destruct (exec_fuel_keeps_row 2 s d a H) as [H1|H1]; [|right; exists s; split; [left; reflexivity|exact H1]].
  destruct (IH _ _ H1) as [H2|[s' [Hs' Hd]]]; [left; exact H2|right; exists s'; split; [right; exact Hs'|exact Hd]].
Qed.

(* ------------------------------------------------------------------------------------------ *)
(* 12. the receipt is returned after everything is durable: MAck is the last micro step *)

Definition noack (l : list micro) : Prop := Forall (fun m => m <> MAck) l.

Lemma noack_nil : noack [].
Proof. constructor. Qed.
Lemma noack_app l1 l2 : noack l1 -> noack l2 -> noack (l1 ++ l2).
Proof. unfold noack. intros. apply Forall_app. split; assumption. Qed.
Lemma noack_stmt s : noack [MStmt s].
Proof. repeat constructor. discriminate. Qed.
Lemma noack_rpc r : noack [MRpc r].
Proof. repeat constructor. discriminate. Qed.
Lemma noack_cons_stmt s l : noack l -> noack (MStmt s :: l).
Proof. intros H. constructor; [discriminate|exact H]. Qed.

Lemma noack_send sc t tx : noack (tr_send sc t tx).
Proof. unfold tr_send. destruct (aget (car_memo t) tx); [apply noack_nil|apply noack_rpc]. Qed.

Lemma noack_add_update_user t u : noack (tr_add_update_user t u).
Proof.
  unfold tr_add_update_user. destruct (gk_get t u) as [ui|].
  - destruct (u32_add _ _); [apply noack_stmt|apply noack_nil].
  - destruct (u32_add _ _); [apply noack_stmt|apply noack_nil].
Qed.

Lemma noack_charge t u uuid blen : noack (tr_charge t u uuid blen).
Proof.
  unfold tr_charge. destruct (gk_get t u); [|apply noack_nil].
  match goal with |- context [if ?c then _ else _] => destruct c end; [apply noack_stmt|apply noack_nil].
Qed.

Lemma noack_delete t us r : noack (tr_delete t us r).
Proof. unfold tr_delete. destruct r; [apply noack_stmt|]. destruct us as [|x [|y l]]; apply noack_stmt. Qed.

Lemma noack_add_tracker uuid d p s : noack (tr_add_tracker uuid d p s).
Proof. unfold tr_add_tracker. destruct s; first [apply noack_stmt|apply noack_nil]. Qed.

Lemma noack_handle_breach sc t uuid d p : noack (tr_handle_breach sc t uuid d p).
Proof.
  unfold tr_handle_breach. destruct (ti_get (r_index t) p) as [bh|].
  - destruct (ti_get_height _ bh); [apply noack_add_tracker|apply noack_nil].
  - apply noack_app; [apply noack_rpc|]. destruct (fst (in_mempool sc t p)); [apply noack_add_tracker|].
    apply noack_app; [apply noack_send|apply noack_add_tracker].
Qed.

Lemma noack_store_appointment t a : noack (tr_store_appointment t a).
Proof. unfold tr_store_appointment. destruct (find_app _ _); apply noack_stmt. Qed.

Lemma noack_store_triggered sc t a d : noack (tr_store_triggered sc t a d).
Proof.
  unfold tr_store_triggered. destruct (decrypt (a_blob a) d) as [p|].
  - apply noack_app; [apply noack_store_appointment|]. destruct (negb (w_store_ok t a)); [apply noack_nil|].
    destruct (w_store_appointment t a) as [[] t1|]; [|apply noack_nil].
    apply noack_app; [apply noack_handle_breach|]. destruct (r_handle_breach sc t1 (app_uuid a) d p) as [s t2|]; [|apply noack_nil].
    destruct (status_rejected s); [apply noack_delete|apply noack_nil].
  - destruct (find_app _ _); [apply noack_delete|apply noack_nil].
Qed.

Lemma ack_last_add sc t signer loc b delay sig :
  exists l, noack l /\ (tr_add_appointment sc t signer loc b delay sig = l \/
                        tr_add_appointment sc t signer loc b delay sig = l ++ [MAck]).
Proof.
  unfold tr_add_appointment.
  destruct (authenticate t signer) as [u|]; [|exists []; split; [apply noack_nil|right; reflexivity]].
  destruct (gk_get t u) as [ui|]; [|exists []; split; [apply noack_nil|right; reflexivity]].
  destruct (N.leb (u_expiry ui) (gk_height t)); [exists []; split; [apply noack_nil|right; reflexivity]|].
  destruct (find_trk (db_trks t) (loc, u)); [exists []; split; [apply noack_nil|right; reflexivity]|].
  destruct (gk_add_update_appointment t u (loc, u) (b_len b)) as [[av|] t1|s t1].
  - destruct (ti_get (w_cache t1) loc) as [d|].
    + destruct (w_store_triggered sc t1 _ d) as [[] t2|s t2].
      * eexists. split; [|right; rewrite app_assoc; reflexivity]. apply noack_app; [apply noack_charge|apply noack_store_triggered].
      * eexists. split; [|left; reflexivity]. rewrite app_nil_r. apply noack_app; [apply noack_charge|apply noack_store_triggered].
    + destruct (w_store_appointment t1 _) as [[] t2|s t2].
      * eexists. split; [|right; rewrite app_assoc; reflexivity]. apply noack_app; [apply noack_charge|apply noack_store_appointment].
      * eexists. split; [|left; reflexivity]. rewrite app_nil_r. apply noack_app; [apply noack_charge|apply noack_store_appointment].
  - eexists. split; [|right; reflexivity]. apply noack_charge.
  - eexists. split; [|left; reflexivity]. rewrite app_nil_r. apply noack_charge.
Qed.

Lemma noack_concat gs : Forall noack gs -> noack (concat gs).
Proof. induction 1; cbn [concat]; [apply noack_nil|apply noack_app; assumption]. Qed.

Lemma noack_breach_uuid_loop sc d : forall us t inv, noack (tr_breach_uuid_loop sc d us t inv).
Proof.
  induction us as [|uuid us IH]; intros t inv; cbn [tr_breach_uuid_loop]; [apply noack_nil|].
  destruct (find_app _ uuid) as [a|]; [|apply IH]. destruct (decrypt _ d) as [p|]; [|apply IH].
  apply noack_app; [apply noack_handle_breach|]. destruct (r_handle_breach sc t uuid d p); [apply IH|apply noack_nil].
Qed.

Lemma noack_breach_loop sc : forall ds t inv, Forall noack (tr_breach_loop sc ds t inv).
Proof.
  induction ds as [|d ds IH]; intros t inv; cbn [tr_breach_loop]; constructor; [apply noack_breach_uuid_loop|].
  destruct (breach_uuid_loop _ _ _ _ _); [apply IH|constructor].
Qed.

Lemma noack_check_conf txids h : forall snap t, noack (tr_check_conf txids h snap t).
Proof.
  induction snap as [|k snap IH]; intros t; cbn [tr_check_conf]; [apply noack_nil|].
  destruct (memN _ _); [|apply IH]. destruct (find_trk _ _); [|apply noack_nil]. apply noack_cons_stmt. apply IH.
Qed.

Lemma noack_reorged sc h : forall us t, Forall noack (tr_reorged sc h us t).
Proof.
  induction us as [|uuid us IH]; intros t; cbn [tr_reorged]; [constructor|].
  destruct (find_trk _ uuid) as [k|]; [|apply IH].
  destruct (fst (send_transaction sc t (t_dispute k))).
  - constructor; [apply noack_send|constructor].
  - destruct (status_rejected _); constructor; try apply IH;
      repeat (apply noack_app; try apply noack_send); apply noack_stmt.
  - destruct (status_rejected _); constructor; try apply IH;
      repeat (apply noack_app; try apply noack_send); apply noack_stmt.
  - constructor; [apply noack_send|apply IH].
Qed.

Lemma noack_stale sc h : forall us t, Forall noack (tr_stale sc h us t).
Proof.
  induction us as [|uuid us IH]; intros t; cbn [tr_stale]; [constructor|].
  destruct (find_trk _ uuid) as [k|]; [|constructor].
  destruct (fst (send_transaction sc t (t_penalty k))); constructor; try apply IH;
    try apply noack_send; (apply noack_app; [apply noack_send|apply noack_stmt]).
Qed.

Lemma noack_delete_opt t us r : noack (match us with [] => [] | _ => tr_delete t us r end).
Proof. destruct us; [apply noack_nil|apply noack_delete]. Qed.
Lemma noack_delete_opt' t us r : noack (match us with [] => [] | x :: l => tr_delete t (x :: l) r end).
Proof. destruct us; [apply noack_nil|apply noack_delete]. Qed.

Lemma noack_r_block le sc t b h : noack (flat_segs (tr_r_block le sc t b h)).
Proof.
  unfold tr_r_block. destruct (ti_update _ b) as [idx|]; [|apply noack_nil].
  rewrite flat_segs_cons. cbn [flat_seg]. rewrite concat_singletons. apply noack_app; [apply noack_check_conf|].
  destruct (check_conf_loop _ _ _ _ _ _) as [completed t2|]; [|apply noack_nil].
  rewrite flat_segs_cons. apply noack_app; [apply noack_delete_opt|].
  destruct (match completed with [] => Ok tt t2 | _ => _ end) as [[] t3|]; [|apply noack_nil].
  rewrite flat_segs_cons. apply noack_app.
  { cbn [flat_seg]. apply noack_concat. destruct (reorged t3); [constructor|apply noack_reorged]. }
  destruct (match reorged t3 with [] => Ok [] t3 | _ => _ end) as [rej1 t4|]; [|apply noack_nil].
  destruct (u32_sub _ _) as [lim|]; [|apply noack_nil].
  rewrite flat_segs_cons. apply noack_app; [cbn [flat_seg]; apply noack_concat; apply noack_stale|].
  destruct (stale_loop _ _ _ _ _) as [rej2 t5|]; [|apply noack_nil].
  cbn [flat_segs flat_map flat_seg]. rewrite app_nil_r. apply noack_delete_opt'.
Qed.

Lemma noack_w_block sc t b h : noack (flat_segs (tr_w_block sc t b h)).
Proof.
  unfold tr_w_block. destruct (ti_update _ b) as [c|]; [|apply noack_nil].
  rewrite flat_segs_cons. apply noack_app; [apply noack_concat; apply noack_breach_loop|].
  destruct (breach_loop _ _ _ _) as [invalid t2|]; [|apply noack_nil].
  cbn [flat_segs flat_map flat_seg]. rewrite app_nil_r. apply noack_delete_opt.
Qed.

Lemma noack_gk_block t h : noack (tr_gk_block t h).
Proof. unfold tr_gk_block. destruct (outdated_users _ _ _) as [[|o os]|]; first [apply noack_stmt|apply noack_nil]. Qed.

Lemma noack_listeners f le sc hash txs h order : forall t,
  noack (flat_segs (tr_listeners f (tr_listener_connected le sc hash txs h) order t)).
Proof.
  induction order as [|w order IH]; intros t; cbn [tr_listeners]; [apply noack_nil|].
  rewrite flat_segs_app. apply noack_app.
  - unfold tr_listener_connected. destruct (Z.eqb w 0).
    + cbn [flat_segs flat_map flat_seg]. rewrite app_nil_r. apply noack_gk_block.
    + destruct (Z.eqb w 1); [apply noack_w_block|apply noack_r_block].
  - destruct (f w t); [apply IH|apply noack_nil].
Qed.

Lemma ack_last le t o sc :
  exists l, noack l /\ (op_micro le t o sc = l \/ op_micro le t o sc = l ++ [MAck]).
Proof.
  unfold op_micro, op_segs. destruct o as [u|signer loc b delay sig|signer loc|signer|hash txs|].
  - cbn [flat_segs flat_map flat_seg]. rewrite app_nil_r. exists (tr_add_update_user (set_rpc_log t []) u).
    split; [apply noack_add_update_user|]. destruct (gk_add_update_user _ u); cbn [ack_if_ok]; [right; reflexivity|left; apply app_nil_r].
  - cbn [flat_segs flat_map flat_seg]. rewrite app_nil_r. apply ack_last_add.
  - cbn [flat_segs flat_map flat_seg]. rewrite app_nil_r. exists []. split; [apply noack_nil|].
    destruct (w_get_appointment _ _ _); cbn [ack_if_ok]; [right|left]; reflexivity.
  - cbn [flat_segs flat_map flat_seg]. rewrite app_nil_r. exists []. split; [apply noack_nil|].
    destruct (w_get_subscription_info _ _); cbn [ack_if_ok]; [right|left]; reflexivity.
  - eexists. split; [apply noack_listeners|left; reflexivity].
  - exists []. split; [apply noack_nil|left; reflexivity].
Qed.

Lemma noack_not_in l : noack l -> ~ In MAck l.
Proof. intros H Hin. unfold noack in H. rewrite Forall_forall in H. exact (H _ Hin eq_refl). Qed.

(* no receipt before the data is durable: in the micro-step list of every operation nothing -
   no statement, no RPC - follows the instant the reply is returned *)
Theorem ack_after_durable le t o sc m1 m2 :
  op_micro le t o sc = m1 ++ MAck :: m2 -> m2 = [] /\ stmts_of m1 = op_stmts le t o sc.
Proof.
  intros E. destruct (ack_last le t o sc) as [l [Hl [El|El]]].
  - exfalso. apply (noack_not_in l Hl). rewrite <- El, E. apply in_or_app. right. left. reflexivity.
  - assert (Hm : m1 = l /\ m2 = []).
    { rewrite El in E. clear El. revert m1 E. induction l as [|x l IH]; intros m1 E.
      - destruct m1 as [|y m1]; cbn in E.
        + inversion E. split; reflexivity.
        + inversion E as [[Hy Hr]]. destruct m1; discriminate.
      - destruct m1 as [|y m1]; cbn in E.
        + inversion E as [[Hx Hr]]. exfalso. inversion Hl as [|? ? Hx' ?]. exact (Hx' Hx).
        + inversion E as [[Hx Hr]]. inversion Hl as [|? ? ? Hl']. destruct (IH Hl' m1 Hr) as [A B]. subst. split; reflexivity. }
    destruct Hm as [-> ->]. split; [reflexivity|]. unfold op_stmts. rewrite El, stmts_of_app. cbn. rewrite app_nil_r. reflexivity.
Qed.

Lemma in_firstn {A} (x : A) k l : In x (firstn k l) -> In x l.
Proof. intros H. rewrite <- (firstn_skipn k l). apply in_or_app. left. exact H. Qed.

(* ... so once the reply has been returned the crash prefix is the whole operation *)
Lemma acked_prefix_is_all le t o sc k :
  In MAck (firstn k (op_micro le t o sc)) -> firstn k (op_micro le t o sc) = op_micro le t o sc.
Proof.
  intros Hin. destruct (ack_last le t o sc) as [l [Hl [El|El]]]; rewrite El in *.
  - exfalso. apply (noack_not_in l Hl). eapply in_firstn. exact Hin.
  - destruct (Nat.le_gt_cases k (length l)) as [Hk|Hk].
    + exfalso. apply (noack_not_in l Hl). rewrite firstn_app in Hin.
      replace (k - length l)%nat with 0%nat in Hin by lia. cbn [firstn] in Hin. rewrite app_nil_r in Hin.
      eapply in_firstn. exact Hin.
    + apply firstn_all2. rewrite app_length. cbn [length]. lia.
Qed.

(* ------------------------------------------------------------------------------------------ *)
(* 13. acknowledged work survives *)

Lemma in_stmts_r l1 l2 s : In s (stmts_of l2) -> In s (stmts_of (l1 ++ l2)).
Proof. intros H. rewrite stmts_of_app. apply in_or_app. right. exact H. Qed.
Lemma in_stmts_l l1 l2 s : In s (stmts_of l1) -> In s (stmts_of (l1 ++ l2)).
Proof. intros H. rewrite stmts_of_app. apply in_or_app. left. exact H. Qed.

Lemma in_stored l a : In (app_uuid a) (map app_uuid (stored l a)).
Proof.
  unfold stored. destruct (find_app l (app_uuid a)) as [a0|] eqn:Ef.
  - unfold repl. rewrite map_uuid_repl. apply find_app_Some in Ef. destruct Ef as [Hi He]. rewrite <- He. apply in_map. exact Hi.
  - rewrite map_app. apply in_or_app. right. left. reflexivity.
Qed.

(* an accepted add_appointment: when it returns, the row is in the table, or the operation's own
   trace deleted it (the trigger was in the cache and the penalty bounced, or the blob replacing a
   stored version did not decrypt), or nothing was ever stored because the blob did not decrypt *)
Lemma add_ok_durable sc t signer loc b delay sig st sg sl e t' :
  w_add_appointment sc t signer loc b delay sig = Ok (AddOk st sg sl e) t' ->
  exists u, signer = Some u /\
    (In (loc, u) (map app_uuid (db_apps t')) \/
     In (SDelApps [(loc, u)]) (stmts_of (tr_add_appointment sc t signer loc b delay sig)) \/
     (exists dispute, ti_get (w_cache t) loc = Some dispute /\ decrypt b dispute = None /\
                      find_app (db_apps t) (loc, u) = None)).
Proof.
  unfold w_add_appointment, tr_add_appointment.
  destruct (authenticate t signer) as [u|] eqn:Ea; [|intros H; inversion H].
  apply authenticate_Some in Ea. destruct Ea as [Hs _].
  destruct (gk_get t u) as [ui|] eqn:Eg; [|intros H; inversion H].
  destruct (N.leb (u_expiry ui) (gk_height t)); [intros H; inversion H|].
  destruct (find_trk (db_trks t) (loc, u)); [intros H; inversion H|].
  set (a := mk_app loc u b delay sig (w_height t)). cbv zeta.
  destruct (gk_add_update_appointment t u (loc, u) (b_len b)) as [[av|] t1|s t1] eqn:Ec; cbn [bind]; try (intros H; inversion H; fail).
  assert (Ht1 : w_cache t1 = w_cache t /\ db_apps t1 = db_apps t).
  { unfold gk_add_update_appointment in Ec. rewrite Eg in Ec.
    match type of Ec with context [if ?c then _ else _] => destruct c end; inversion Ec; subst. split; reflexivity. }
  destruct Ht1 as [Hw1 Ha1]. rewrite Hw1.
  intros H. exists u. split; [exact Hs|].
  destruct (ti_get (w_cache t) loc) as [dispute|] eqn:Et.
  - destruct (w_store_triggered sc t1 a dispute) as [[] t2|s t2] eqn:E2; cbn [bind] in H; [|discriminate].
    match type of H with context [if ?c then _ else _] => destruct c eqn:Est end; inversion H; subst; clear H.
    unfold w_store_triggered in E2. unfold tr_store_triggered.
    change (a_blob a) with b in *. change (app_uuid a) with (loc, u) in *.
    destruct (decrypt b dispute) as [p|] eqn:Ed.
    + rewrite Est in E2. rewrite Est. cbn [negb].
      destruct (w_store_appointment t1 a) as [[] t1'|] eqn:E3; cbn [bind] in E2; [|discriminate].
      apply (store_spec _ _ _ Est) in E3. destruct E3 as [Ha3 _].
      destruct (r_handle_breach sc t1' (loc, u) dispute p) as [s t3|] eqn:E4; cbn [bind] in E2; [|discriminate].
      destruct (status_rejected s).
      * right. left. apply in_stmts_r. apply in_stmts_l. apply in_stmts_r. apply in_stmts_r. left. reflexivity.
      * inversion E2; subst. left. apply handle_breach_ua in E4. apply ua_fields in E4. destruct E4 as [_ [_ Ha4]].
        rewrite Ha4, Ha3. exact (in_stored (db_apps t1) a).
    + rewrite Ha1 in *. destruct (find_app (db_apps t) (loc, u)) eqn:Ef.
      * right. left. apply in_stmts_r. apply in_stmts_l. left. reflexivity.
      * right. right. exists dispute. repeat split; assumption.
  - destruct (w_store_appointment t1 a) as [[] t2|s t2] eqn:E2; cbn [bind] in H; [|discriminate].
    match type of H with context [if ?c then _ else _] => destruct c eqn:Est end; inversion H; subst; clear H.
    apply (store_spec _ _ _ Est) in E2. destruct E2 as [Ha2 _]. left. rewrite Ha2. exact (in_stored (db_apps t1) a).
Qed.

(* ACKNOWLEDGED WORK SURVIVES.  If the receipt of an add_appointment was returned before the kill
   (MAck among the first k micro steps), then after ANY statements executed later - completed or
   partially executed operations, in any number - and a restart, the appointment's row is in the
   tables, unless a statement of its own trace or of the later ones deleted it (explicit DELETE of
   the row: completion, invalid / rejected drop, replacement dropped as invalid; or DELETE of its
   owner: purge), or it was dropped as invalid at once (its trigger was in the cache and the blob
   did not decrypt: nothing was stored). *)
Theorem acked_survives le t signer loc b delay sig sc k later st sg sl e :
  snd (step le t (OAdd signer loc b delay sig) sc) = OAddRes (AddOk st sg sl e) ->
  In MAck (firstn k (op_micro le t (OAdd signer loc b delay sig) sc)) ->
  exists u, signer = Some u /\
    let d := db_of (restart t (execs (crash_at le k t (OAdd signer loc b delay sig) sc) later)) in
    (has_app d (loc, u) = true \/
     (exists s, In s (op_stmts le t (OAdd signer loc b delay sig) sc ++ later) /\ deletes (loc, u) s = true) \/
     (exists dispute, ti_get (w_cache t) loc = Some dispute /\ decrypt b dispute = None /\
                      find_app (db_apps t) (loc, u) = None)).
Proof.
  intros Hres Hack. cbn zeta. rewrite db_of_restart.
  assert (Hn : not_abort (snd (step le t (OAdd signer loc b delay sig) sc))) by (rewrite Hres; exact I).
  unfold crash_at. rewrite (acked_prefix_is_all _ _ _ _ _ Hack), <- (op_is_its_trace _ _ _ _ Hn).
  cbn [step wrap] in *. unfold op_stmts, op_micro, op_segs. cbn [flat_segs flat_map flat_seg]. rewrite app_nil_r.
  destruct (w_add_appointment sc (set_rpc_log t []) signer loc b delay sig) as [r t'|s t'] eqn:E; cbn [wrap fst snd] in *; [|discriminate].
  inversion Hres; subst r.
  destruct (add_ok_durable _ _ _ _ _ _ _ _ _ _ _ _ E) as [u [Hs [H|[H|H]]]]; exists u; (split; [exact Hs|]).
  - destruct (proj1 (rows_only_deleted_explicitly later (db_of t') (loc, u))) as [H1|[s' [Hs' Hd]]].
    + apply has_app_iff. exact H.
    + left. exact H1.
    + right. left. exists s'. split; [apply in_or_app; right; exact Hs'|exact Hd].
  - right. left. exists (SDelApps [(loc, u)]). split; [apply in_or_app; left; exact H|].
    unfold deletes. cbn [deletes_fuel mem_uuid existsb]. rewrite uuid_eqb_refl. reflexivity.
  - right. right. exact H.
Qed.

(* the same for a tracker: a response once durable stays until an explicit delete *)
Theorem tracker_survives d later uuid :
  has_trk d uuid = true ->
  has_trk (execs d later) uuid = true \/ exists s, In s later /\ deletes uuid s = true.
Proof. exact (proj2 (rows_only_deleted_explicitly later d uuid)). Qed.

(* ------------------------------------------------------------------------------------------ *)
(* 14. balances along crash prefixes *)

Definition davail (d : db) (u : N) : N := match aget (d_users d) u with Some ui => u_slots ui | None => 0 end.
Definition dheld (d : db) (u : N) : N := ssum (filter (ofu u) (d_apps d)).

Lemma balance_alt d u : balance d u = davail d u + dheld d u.
Proof.
  unfold balance, davail, dheld. f_equal. induction (d_apps d) as [|a l IH]; [reflexivity|].
  cbn [fold_right filter]. unfold ofu at 1. destruct (N.eqb (a_user a) u); [rewrite ssum_cons|]; rewrite IH; unfold aslots; lia.
Qed.

Lemma balance_bal t u : balance (db_of t) u = bal t u.
Proof. rewrite balance_alt. reflexivity. Qed.

Lemma balance_ua d d' u : d_users d' = d_users d -> d_apps d' = d_apps d -> balance d' u = balance d u.
Proof. intros H1 H2. unfold balance. rewrite H1, H2. reflexivity. Qed.

Definition le_all (d d' : db) : Prop := forall u, balance d' u <= balance d u.

Lemma le_all_refl d : le_all d d.
Proof. intros u. lia. Qed.
Lemma le_all_trans a b c : le_all a b -> le_all b c -> le_all a c.
Proof. intros H1 H2 u. specialize (H1 u). specialize (H2 u). lia. Qed.

(* a property of every crash prefix of a statement list started in d *)
Definition all_prefixes (Q : db -> Prop) (d : db) (l : list stmt) : Prop := forall n, Q (execs d (firstn n l)).

Lemma ap_nil (Q : db -> Prop) d : Q d -> all_prefixes Q d [].
Proof. intros H n. destruct n; exact H. Qed.

Lemma ap_cons (Q : db -> Prop) d s l : Q d -> all_prefixes Q (exec d s) l -> all_prefixes Q d (s :: l).
Proof. intros H0 H n. destruct n as [|n]; [exact H0|]. cbn [firstn]. rewrite execs_cons. apply H. Qed.

Lemma ap_app (Q : db -> Prop) d l1 l2 : all_prefixes Q d l1 -> all_prefixes Q (execs d l1) l2 -> all_prefixes Q d (l1 ++ l2).
Proof.
  intros H1 H2 n. rewrite firstn_app, execs_app.
  destruct (Nat.le_gt_cases n (length l1)) as [Hn|Hn].
  - replace (n - length l1)%nat with 0%nat by lia. cbn [firstn execs fold_left]. apply H1.
  - rewrite (firstn_all2 l1) by lia. apply H2.
Qed.

Lemma ap_full (Q : db -> Prop) d l : all_prefixes Q d l -> Q (execs d l).
Proof. intros H. specialize (H (length l)). rewrite firstn_all in H. exact H. Qed.

Lemma ap_first (Q : db -> Prop) d l : all_prefixes Q d l -> Q d.
Proof. intros H. exact (H 0%nat). Qed.

Lemma ap_impl (Q Q' : db -> Prop) d l : (forall x, Q x -> Q' x) -> all_prefixes Q d l -> all_prefixes Q' d l.
Proof. intros Hi H n. apply Hi. apply H. Qed.

(* the statements of a micro prefix are a prefix of the statements *)
Lemma stmts_firstn m : forall k, exists k', stmts_of (firstn k m) = firstn k' (stmts_of m).
Proof.
  induction m as [|x m IH]; intros k; [exists 0%nat; destruct k; reflexivity|].
  destruct k as [|k]; [exists 0%nat; reflexivity|]. cbn [firstn]. destruct (IH k) as [k' Hk'].
  destruct x as [s|r|]; cbn [stmts_of flat_map List.app] in *; fold (stmts_of (firstn k m)) (stmts_of m).
  - exists (S k'). cbn [firstn]. rewrite Hk'. reflexivity.
  - exists k'. exact Hk'.
  - exists k'. exact Hk'.
Qed.

Lemma crash_at_prefix (Q : db -> Prop) le t o sc k :
  all_prefixes Q (db_of t) (op_stmts le t o sc) -> Q (crash_at le k t o sc).
Proof.
  intros H. unfold crash_at. destruct (stmts_firstn (op_micro le t o sc) k) as [k' Hk']. rewrite Hk'. apply H.
Qed.

(* --- statements that cannot raise a balance --- *)
Lemma ssum_filter_le (p q : app -> bool) l : ssum (filter p (filter q l)) <= ssum (filter p l).
Proof.
  induction l as [|a l IH]; [cbn; lia|]. cbn [filter]. destruct (q a); cbn [filter]; destruct (p a); rewrite ?ssum_cons; lia.
Qed.

Lemma harmless_le fuel : forall s d, harmless_fuel fuel s = true -> le_all d (exec_fuel fuel d s).
Proof.
  induction fuel as [|f IHf]; intros s d;
  (destruct s as [u ui|u ui|u s|us|a|a|us|k|uu h c|l]; cbn [harmless_fuel exec_fuel]; try discriminate; intros Hh;
   lazymatch goal with
   | |- le_all _ (mk_db (filter _ (d_users _)) _ _) =>
       intros v; rewrite !balance_alt; unfold davail, dheld; cbn [d_users d_apps];
       rewrite (aget_filter_key (fun k => negb (memN k us)));
       pose proof (ssum_filter_le (ofu v) (fun a => negb (memN (a_user a) us)) (d_apps d));
       destruct (negb (memN v us)); destruct (aget (d_users d) v); lia
   | |- le_all _ (mk_db (d_users _) (filter _ _) _) =>
       intros v; rewrite !balance_alt; unfold davail, dheld; cbn [d_users d_apps];
       pose proof (ssum_filter_le (ofu v) (fun a => negb (mem_uuid (app_uuid a) us)) (d_apps d)); lia
   | |- le_all _ (match find_trk _ _ with _ => _ end) =>
       destruct (find_trk (d_trks d) (trk_uuid k)); [apply le_all_refl|];
       destruct (find_app (d_apps d) (trk_uuid k)); [|apply le_all_refl]; intros v; unfold balance; cbn [d_users d_apps]; lia
   | |- le_all _ (mk_db _ _ (map _ _)) => intros v; unfold balance; cbn [d_users d_apps]; lia
   | _ => idtac
   end).
  revert d. induction l as [|s l IHl]; intros d; cbn [fold_left]; [apply le_all_refl|].
  cbn [forallb] in Hh. apply andb_true_iff in Hh. destruct Hh as [H1 H2].
  eapply le_all_trans; [apply IHf; exact H1|]. apply IHl. exact H2.
Qed.

Definition hl (l : list micro) : Prop := Forall (fun s => harmless s = true) (stmts_of l).

Lemma hl_nil : hl [].
Proof. constructor. Qed.
Lemma hl_app l1 l2 : hl l1 -> hl l2 -> hl (l1 ++ l2).
Proof. unfold hl. intros. rewrite stmts_of_app. apply Forall_app. split; assumption. Qed.
Lemma hl_stmt s : harmless s = true -> hl [MStmt s].
Proof. intros H. repeat constructor. exact H. Qed.
Lemma hl_rpc r : hl [MRpc r].
Proof. constructor. Qed.
Lemma hl_cons_stmt s l : harmless s = true -> hl l -> hl (MStmt s :: l).
Proof. intros H Hl. unfold hl. cbn. constructor; assumption. Qed.
Lemma hl_concat gs : Forall hl gs -> hl (concat gs).
Proof. induction 1; cbn [concat]; [apply hl_nil|apply hl_app; assumption]. Qed.

Lemma mono_harmless (Q : db -> Prop) l : (forall x y, Q x -> le_all x y -> Q y) ->
  Forall (fun s => harmless s = true) l -> forall d, Q d -> all_prefixes Q d l.
Proof.
  intros HQ H. induction H as [|s l Hs Hl IH]; intros d Hd; [apply ap_nil; exact Hd|].
  apply ap_cons; [exact Hd|]. apply IH. eapply HQ; [exact Hd|]. apply (harmless_le 2). exact Hs.
Qed.

Lemma hl_send sc t tx : hl (tr_send sc t tx).
Proof. unfold tr_send. destruct (aget _ tx); [apply hl_nil|apply hl_rpc]. Qed.
Lemma hl_add_tracker uuid d p s : hl (tr_add_tracker uuid d p s).
Proof. unfold tr_add_tracker. destruct s; first [apply hl_stmt; reflexivity|apply hl_nil]. Qed.
Lemma hl_handle_breach sc t uuid d p : hl (tr_handle_breach sc t uuid d p).
Proof.
  unfold tr_handle_breach. destruct (ti_get (r_index t) p) as [bh|].
  - destruct (ti_get_height _ bh); [apply hl_add_tracker|apply hl_nil].
  - apply hl_app; [apply hl_rpc|]. destruct (fst (in_mempool sc t p)); [apply hl_add_tracker|].
    apply hl_app; [apply hl_send|apply hl_add_tracker].
Qed.
Lemma hl_delete_norefund t us : hl (tr_delete t us false).
Proof. unfold tr_delete. destruct us as [|x [|y l]]; apply hl_stmt; reflexivity. Qed.
Lemma hl_breach_uuid_loop sc d : forall us t inv, hl (tr_breach_uuid_loop sc d us t inv).
Proof.
  induction us as [|uuid us IH]; intros t inv; cbn [tr_breach_uuid_loop]; [apply hl_nil|].
  destruct (find_app _ uuid) as [a|]; [|apply IH]. destruct (decrypt _ d) as [p|]; [|apply IH].
  apply hl_app; [apply hl_handle_breach|]. destruct (r_handle_breach sc t uuid d p); [apply IH|apply hl_nil].
Qed.
Lemma hl_breach_loop sc : forall ds t inv, Forall hl (tr_breach_loop sc ds t inv).
Proof.
  induction ds as [|d ds IH]; intros t inv; cbn [tr_breach_loop]; constructor; [apply hl_breach_uuid_loop|].
  destruct (breach_uuid_loop _ _ _ _ _); [apply IH|constructor].
Qed.
Lemma hl_check_conf txids h : forall snap t, hl (tr_check_conf txids h snap t).
Proof.
  induction snap as [|k snap IH]; intros t; cbn [tr_check_conf]; [apply hl_nil|].
  destruct (memN _ _); [|apply IH]. destruct (find_trk _ _); [|apply hl_nil]. apply hl_cons_stmt; [reflexivity|apply IH].
Qed.
Lemma hl_reorged sc h : forall us t, Forall hl (tr_reorged sc h us t).
Proof.
  induction us as [|uuid us IH]; intros t; cbn [tr_reorged]; [constructor|].
  destruct (find_trk _ uuid) as [k|]; [|apply IH].
  destruct (fst (send_transaction sc t (t_dispute k))).
  - constructor; [apply hl_send|constructor].
  - destruct (status_rejected _); constructor; try apply IH;
      repeat (apply hl_app; try apply hl_send); apply hl_stmt; reflexivity.
  - destruct (status_rejected _); constructor; try apply IH;
      repeat (apply hl_app; try apply hl_send); apply hl_stmt; reflexivity.
  - constructor; [apply hl_send|apply IH].
Qed.
Lemma hl_stale sc h : forall us t, Forall hl (tr_stale sc h us t).
Proof.
  induction us as [|uuid us IH]; intros t; cbn [tr_stale]; [constructor|].
  destruct (find_trk _ uuid) as [k|]; [|constructor].
  destruct (fst (send_transaction sc t (t_penalty k))); constructor; try apply IH;
    try apply hl_send; (apply hl_app; [apply hl_send|apply hl_stmt; reflexivity]).
Qed.
Lemma hl_gk_block t h : hl (tr_gk_block t h).
Proof. unfold tr_gk_block. destruct (outdated_users _ _ _) as [[|o os]|]; first [apply hl_stmt; reflexivity|apply hl_nil]. Qed.
Lemma hl_w_block sc t b h : hl (flat_segs (tr_w_block sc t b h)).
Proof.
  unfold tr_w_block. destruct (ti_update _ b) as [c|]; [|apply hl_nil].
  rewrite flat_segs_cons. apply hl_app; [apply hl_concat; apply hl_breach_loop|].
  destruct (breach_loop _ _ _ _) as [invalid t2|]; [|apply hl_nil].
  cbn [flat_segs flat_map flat_seg]. rewrite app_nil_r. destruct invalid; [apply hl_nil|apply hl_delete_norefund].
Qed.

(* --- the refund transaction: slots move from rows to the balance, nothing is created --- *)
Lemma refund_txn_le t completed t3 :
  Inv t -> NoDup completed ->
  (match completed with [] => Ok tt t | _ => gk_delete_appointments t completed true end) = Ok tt t3 ->
  le_all (db_of t) (db_of t3).
Proof.
  intros HI Hnd H. destruct (delete_refund_spec t completed t3 HI Hnd H) as [Ha Hv].
  intros v. rewrite !balance_bal. unfold bal, held_t. rewrite Ha. destruct (Hv v) as [_ Hav]. rewrite Hav.
  rewrite (ssum_split (fun a => mem_uuid (app_uuid a) completed) (filter (ofu v) (db_apps t))).
  rewrite !filter_filter. unfold del. rewrite filter_filter.
  assert (E : filter (fun a => negb (mem_uuid (app_uuid a) completed) && ofu v a) (db_apps t) =
              filter (fun a => ofu v a && negb (mem_uuid (app_uuid a) completed)) (db_apps t)).
  { apply filter_ext_in'. intros a _. apply andb_comm. }
  rewrite E. lia.
Qed.

(* --- block connection: no crash prefix raises any balance --- *)
Lemma hl_r_tail sc h t3 :
  hl (flat_segs
    (Par (match reorged t3 with [] => [] | x :: l => tr_reorged sc h (x :: l) (set_reorged t3 []) end) ::
     match (match reorged t3 with [] => Ok [] t3 | x :: l => reorged_loop sc h (x :: l) (set_reorged t3 []) [] end) with
     | Abort _ _ => []
     | Ok rej1 t4 =>
         match u32_sub h (Z.to_N Consts.CONFIRMATIONS_BEFORE_RETRY) with
         | None => []
         | Some lim =>
             Par (tr_stale sc h (map trk_uuid (filter (fun k => negb (t_conf k) && N.leb (t_height k) lim) (db_trks t4))) t4) ::
             match stale_loop sc h (map trk_uuid (filter (fun k => negb (t_conf k) && N.leb (t_height k) lim) (db_trks t4))) t4 [] with
             | Abort _ _ => []
             | Ok rej2 t5 => [Seq (match rej1 ++ rej2 with [] => [] | x :: l => tr_delete t5 (x :: l) false end)]
             end
         end
     end)).
Proof.
  rewrite flat_segs_cons. apply hl_app.
  { cbn [flat_seg]. apply hl_concat. destruct (reorged t3); [constructor|apply hl_reorged]. }
  destruct (match reorged t3 with [] => Ok [] t3 | _ => _ end) as [rej1 t4|]; [|apply hl_nil].
  destruct (u32_sub _ _) as [lim|]; [|apply hl_nil].
  rewrite flat_segs_cons. apply hl_app; [cbn [flat_seg]; apply hl_concat; apply hl_stale|].
  destruct (stale_loop _ _ _ _ _) as [rej2 t5|]; [|apply hl_nil].
  cbn [flat_segs flat_map flat_seg]. rewrite app_nil_r. destruct (rej1 ++ rej2); [apply hl_nil|apply hl_delete_norefund].
Qed.

Lemma ap_r_block d0 le sc t b h t' :
  Inv t -> le_all d0 (db_of t) -> r_block_connected le sc t b h = Ok tt t' ->
  all_prefixes (le_all d0) (db_of t) (stmts_of (flat_segs (tr_r_block le sc t b h))).
Proof.
  intros HI H0. unfold r_block_connected, tr_r_block.
  destruct (ti_update (r_index (set_car_height t h)) b) as [idx|]; [|discriminate].
  set (t1 := set_r_index (set_car_height t h) idx).
  assert (HI1 : Inv t1) by (eapply inv_frame; [|exact HI]; repeat split).
  rewrite flat_segs_cons, stmts_of_app. cbn [flat_seg]. rewrite concat_singletons.
  pose proof (J_check_conf le (keys_of (ib_data b)) h (db_trks t1) t1 []) as H1.
  pose proof (check_conf_loop_pres Inv inv_wr le (keys_of (ib_data b)) h (db_trks t1) t1 [] HI1) as HI2.
  pose proof (check_conf_spec le (keys_of (ib_data b)) h (db_trks t1) t1 []) as Hspec.
  assert (Hpre : all_prefixes (le_all d0) (db_of t) (stmts_of (tr_check_conf (keys_of (ib_data b)) h (db_trks t1) t1))).
  { apply mono_harmless; [intros x y; apply le_all_trans|apply hl_check_conf|exact H0]. }
  destruct (check_conf_loop le (keys_of (ib_data b)) h (db_trks t1) t1 []) as [completed t2|s t2]; cbn [bind]; [|discriminate].
  destruct H1 as [D1 _]. cbn [pres] in HI2.
  destruct (Hspec completed t2 eq_refl) as [_ [added [Hc [_ [_ Hnd]]]]]. cbn [List.app] in Hc. subst added.
  specialize (Hnd (inv_trks_nodup t1 HI1)).
  assert (H2 : le_all d0 (db_of t2)).
  { rewrite D1. apply (ap_full _ _ _ Hpre). }
  intros Hr. apply ap_app; [exact Hpre|]. change (db_of t) with (db_of t1). rewrite <- D1.
  rewrite flat_segs_cons, stmts_of_app. cbn [flat_seg].
  pose proof (J_delete_opt t2 completed true) as H3.
  pose proof (refund_txn_le t2 completed) as Hle.
  destruct (match completed with [] => Ok tt t2 | _ => gk_delete_appointments t2 completed true end) as [[] t3|s t3];
    cbn [bind] in Hr; [|discriminate].
  destruct H3 as [D3 _]. specialize (Hle t3 HI2 Hnd eq_refl).
  assert (H3 : le_all d0 (db_of t3)) by (eapply le_all_trans; [exact H2|exact Hle]).
  apply ap_app.
  - destruct completed as [|c0 cs]; [apply ap_nil; exact H2|].
    unfold tr_delete. cbn [stmts_of flat_map List.app]. apply ap_cons; [exact H2|]. apply ap_nil.
    unfold tr_delete in D3. cbn [stmts_of flat_map List.app execs fold_left] in D3. rewrite <- D3. exact H3.
  - rewrite <- D3. apply mono_harmless; [intros x y; apply le_all_trans|apply hl_r_tail|exact H3].
Qed.

Lemma ap_listener d0 le sc hash txs h w t t' :
  Inv t -> le_all d0 (db_of t) -> listener_connected le sc hash txs h w t = Ok tt t' ->
  all_prefixes (le_all d0) (db_of t) (stmts_of (flat_segs (tr_listener_connected le sc hash txs h w t))).
Proof.
  intros HI H0. unfold listener_connected, tr_listener_connected. destruct (Z.eqb w 0).
  - intros _. apply mono_harmless; [intros x y; apply le_all_trans| |exact H0].
    cbn [flat_segs flat_map flat_seg]. rewrite app_nil_r. apply hl_gk_block.
  - destruct (Z.eqb w 1).
    + intros _. apply mono_harmless; [intros x y; apply le_all_trans|apply hl_w_block|exact H0].
    + apply ap_r_block; assumption.
Qed.

Lemma ap_listeners d0 le sc hash txs h order : forall t t',
  Inv t -> le_all d0 (db_of t) ->
  run_listeners (listener_connected le sc hash txs h) order t = Ok tt t' ->
  all_prefixes (le_all d0) (db_of t)
    (stmts_of (flat_segs (tr_listeners (listener_connected le sc hash txs h) (tr_listener_connected le sc hash txs h) order t))).
Proof.
  induction order as [|w order IH]; intros t t' HI H0; cbn [run_listeners tr_listeners]; [intros _; apply ap_nil; exact H0|].
  rewrite flat_segs_app, stmts_of_app.
  pose proof (J_listener_connected le sc hash txs h w t) as HJ.
  pose proof (listener_connected_pres Inv (sa_block Inv inv_stable) le sc hash txs h w t HI) as HI1.
  pose proof (ap_listener d0 le sc hash txs h w t) as Hap.
  destruct (listener_connected le sc hash txs h w t) as [[] t1|s t1]; cbn [bind]; [|discriminate].
  destruct HJ as [D1 _]. cbn [pres] in HI1. specialize (Hap t1 HI H0 eq_refl).
  intros Hr. apply ap_app; [exact Hap|]. rewrite <- D1. apply (IH t1 t' HI1); [|exact Hr].
  rewrite D1. apply (ap_full _ _ _ Hap).
Qed.

Theorem connect_never_grants le t hash txs sc :
  Inv t -> not_abort (snd (step le t (OConnect hash txs) sc)) ->
  all_prefixes (le_all (db_of t)) (db_of t) (op_stmts le t (OConnect hash txs) sc).
Proof.
  intros HI. unfold op_stmts, op_micro, op_segs. cbn [step].
  assert (HI0 : Inv (set_rpc_log t [])) by (eapply inv_frame; [|exact HI]; repeat split).
  pose proof (ap_listeners (db_of t) le sc hash txs (gk_height (set_rpc_log t []) + 1) Consts.LISTENER_ORDER (set_rpc_log t [])) as H.
  destruct (run_listeners (listener_connected le sc hash txs (gk_height (set_rpc_log t []) + 1)) Consts.LISTENER_ORDER (set_rpc_log t []))
    as [[] t1|s t1]; cbn [wrap snd]; [|intros []].
  intros _. apply (H t1 HI0 (le_all_refl _) eq_refl).
Qed.


(* ------------------------------------------------------------------------------------------ *)
(* 15. add_appointment and register: the tables at every crash prefix *)

Definition charged_users (t : tower) (u : N) (ui' : uinfo) : list (N * uinfo) :=
  map (fun r => if N.eqb (fst r) u then (u, ui') else r) (db_users t).

Lemma exec_store_states t u ui' a d :
  d_users d = charged_users t u ui' -> d_apps d = db_apps t ->
  let S := match find_app (db_apps t) (app_uuid a) with Some _ => SUpdApp a | None => SInsApp a end in
  d_users (exec d S) = charged_users t u ui' /\
  (d_apps (exec d S) = db_apps t \/ d_apps (exec d S) = stored (db_apps t) a).
Proof.
  intros Hu Ha. cbn zeta. unfold stored. destruct (find_app (db_apps t) (app_uuid a)) eqn:Ef.
  - split; [exact Hu|]. right. unfold exec. cbn [exec_fuel d_apps]. rewrite Ha. reflexivity.
  - unfold exec. cbn [exec_fuel]. rewrite Ha, Ef. destruct (amem (d_users d) (a_user a)); cbn [d_users d_apps].
    + split; [exact Hu|]. right. reflexivity.
    + split; [exact Hu|]. left. first [exact Ha|reflexivity].
Qed.

Definition neutral (s : stmt) : bool := match s with SInsTrk _ | SUpdTrk _ _ _ => true | _ => false end.
Definition nl (l : list micro) : Prop := Forall (fun s => neutral s = true) (stmts_of l).

Lemma neutral_exec d s : neutral s = true -> d_users (exec d s) = d_users d /\ d_apps (exec d s) = d_apps d.
Proof.
  destruct s; try discriminate; intros _.
  - rewrite exec_ins_trk. destruct (find_trk _ _); [split; reflexivity|]. destruct (find_app _ _); split; reflexivity.
  - split; reflexivity.
Qed.

Lemma nl_nil : nl [].
Proof. constructor. Qed.
Lemma nl_app l1 l2 : nl l1 -> nl l2 -> nl (l1 ++ l2).
Proof. unfold nl. intros. rewrite stmts_of_app. apply Forall_app. split; assumption. Qed.
Lemma nl_add_tracker uuid d p s : nl (tr_add_tracker uuid d p s).
Proof. unfold tr_add_tracker. destruct s; first [repeat constructor|apply nl_nil]. Qed.
Lemma nl_send sc t tx : nl (tr_send sc t tx).
Proof. unfold tr_send. destruct (aget _ tx); constructor. Qed.
Lemma nl_handle_breach sc t uuid d p : nl (tr_handle_breach sc t uuid d p).
Proof.
  unfold tr_handle_breach. destruct (ti_get (r_index t) p) as [bh|].
  - destruct (ti_get_height _ bh); [apply nl_add_tracker|apply nl_nil].
  - apply nl_app; [constructor|]. destruct (fst (in_mempool sc t p)); [apply nl_add_tracker|].
    apply nl_app; [apply nl_send|apply nl_add_tracker].
Qed.

Lemma ap_neutral (Q : db -> Prop) l :
  (forall x y, Q x -> d_users y = d_users x -> d_apps y = d_apps x -> Q y) ->
  Forall (fun s => neutral s = true) l -> forall d, Q d ->
  all_prefixes Q d l /\ d_users (execs d l) = d_users d /\ d_apps (execs d l) = d_apps d.
Proof.
  intros HQ H. induction H as [|s l Hs Hl IH]; intros d Hd; [split; [apply ap_nil; exact Hd|split; reflexivity]|].
  destruct (neutral_exec d s Hs) as [E1 E2].
  destruct (IH (exec d s) (HQ _ _ Hd E1 E2)) as [A [B C]].
  split; [apply ap_cons; assumption|]. rewrite execs_cons. split; congruence.
Qed.

Definition add_states (t : tower) (u : N) (ui' : uinfo) (a : app) (P : Prop) (d' : db) : Prop :=
  (d_users d' = db_users t /\ d_apps d' = db_apps t) \/
  (P /\ d_users d' = charged_users t u ui' /\
   (d_apps d' = db_apps t \/ d_apps d' = stored (db_apps t) a \/ d_apps d' = del [app_uuid a] (db_apps t))).

Definition add_charge (t : tower) (u : N) (ui : uinfo) (loc : N) (b : blob) : uinfo :=
  mk_uinfo ((u_slots ui + used_by t loc u - slots_of (b_len b)) mod U32MOD) (u_start ui) (u_expiry ui).

Lemma add_states_ua t u ui' a P x y : add_states t u ui' a P x -> d_users y = d_users x -> d_apps y = d_apps x -> add_states t u ui' a P y.
Proof. unfold add_states. intros H E1 E2. rewrite E1, E2. exact H. Qed.

Lemma stmts_ack {A} (r : res A) : stmts_of (match r with Ok _ _ => [MAck] | Abort _ _ => [] end) = [].
Proof. destruct r; reflexivity. Qed.

Lemma exec_del1_states t u ui' a (P : Prop) d :
  P -> d_users d = charged_users t u ui' -> (d_apps d = db_apps t \/ d_apps d = stored (db_apps t) a) ->
  add_states t u ui' a P (exec d (SDelApps [app_uuid a])).
Proof.
  intros HP Hu Ha. right. split; [exact HP|]. split; [exact Hu|]. right. right.
  change (d_apps (exec d (SDelApps [app_uuid a]))) with (del [app_uuid a] (d_apps d)).
  destruct Ha as [Ha|Ha]; rewrite Ha; [reflexivity|apply del_stored].
Qed.

Lemma add_prefix_states sc t signer loc b delay sig u ui :
  authenticate t signer = Some u -> gk_get t u = Some ui ->
  all_prefixes (add_states t u (add_charge t u ui loc b) (mk_app loc u b delay sig (w_height t))
                           (slots_of (b_len b) <= u_slots ui + used_by t loc u)) (db_of t)
               (stmts_of (tr_add_appointment sc t signer loc b delay sig)).
Proof.
  intros Ea Eg. unfold tr_add_appointment. rewrite Ea, Eg.
  set (a := mk_app loc u b delay sig (w_height t)). set (ui' := add_charge t u ui loc b).
  set (P := slots_of (b_len b) <= u_slots ui + used_by t loc u).
  set (Q := add_states t u ui' a P).
  assert (Q0 : Q (db_of t)) by (left; split; reflexivity).
  destruct (N.leb (u_expiry ui) (gk_height t)); [apply ap_nil; exact Q0|].
  destruct (find_trk (db_trks t) (loc, u)); [apply ap_nil; exact Q0|].
  unfold tr_charge, gk_add_update_appointment. rewrite Eg.
  change (match find_app (db_apps t) (loc, u) with Some a0 => slots_of (b_len (a_blob a0)) | None => 0 end) with (used_by t loc u).
  destruct (N.leb (slots_of (b_len b)) (u_slots ui + used_by t loc u)) eqn:El; [|apply ap_nil; exact Q0].
  assert (HP : P) by (apply N.leb_le; exact El).
  set (t1 := p_set_user t u (mk_uinfo ((u_slots ui + used_by t loc u - slots_of (b_len b)) mod U32MOD) (u_start ui) (u_expiry ui))).
  rewrite stmts_of_app. apply ap_app; [apply ap_cons; [exact Q0|apply ap_nil]|].
  all: change (execs (db_of t) (stmts_of [MStmt (SUpdUser u (mk_uinfo ((u_slots ui + used_by t loc u - slots_of (b_len b)) mod U32MOD) (u_start ui) (u_expiry ui)))]))
         with (db_of t1);
       try change (exec (db_of t) (SUpdUser u (mk_uinfo ((u_slots ui + used_by t loc u - slots_of (b_len b)) mod U32MOD) (u_start ui) (u_expiry ui))))
         with (db_of t1).
  all: assert (Hu1 : d_users (db_of t1) = charged_users t u ui') by reflexivity;
       assert (Ha1 : d_apps (db_of t1) = db_apps t) by reflexivity;
       assert (Q1 : Q (db_of t1)) by (right; split; [exact HP|]; split; [exact Hu1|left; exact Ha1]).
  { exact Q1. }
  change (w_cache t1) with (w_cache t).
  assert (HS : forall X, stmts_of (tr_store_appointment t1 a ++ X) =
                 (match find_app (db_apps t) (app_uuid a) with Some _ => SUpdApp a | None => SInsApp a end) :: stmts_of X).
  { intros X. rewrite stmts_of_app. unfold tr_store_appointment. change (db_apps t1) with (db_apps t).
    destruct (find_app (db_apps t) (app_uuid a)); reflexivity. }
  pose proof (exec_store_states t u ui' a (db_of t1) Hu1 Ha1) as HE. cbn zeta in HE. destruct HE as [Hu2 Ha2].
  destruct (ti_get (w_cache t) loc) as [dispute|].
  - rewrite stmts_of_app, stmts_ack, app_nil_r. unfold tr_store_triggered.
    change (a_blob a) with b. destruct (decrypt b dispute) as [p|].
    + rewrite HS. apply ap_cons; [exact Q1|].
      set (d2 := exec (db_of t1) (match find_app (db_apps t) (app_uuid a) with Some _ => SUpdApp a | None => SInsApp a end)) in *.
      assert (Q2 : Q d2) by (right; split; [exact HP|]; split; [exact Hu2|destruct Ha2 as [H|H]; [left|right; left]; exact H]).
      destruct (negb (w_store_ok t1 a)); [apply ap_nil; exact Q2|].
      destruct (w_store_appointment t1 a) as [[] t1'|]; [|apply ap_nil; exact Q2].
      rewrite stmts_of_app.
      destruct (ap_neutral Q _ (add_states_ua t u ui' a P) (nl_handle_breach sc t1' (app_uuid a) dispute p) d2 Q2) as [A [B C]].
      apply ap_app; [exact A|].
      destruct (r_handle_breach sc t1' (app_uuid a) dispute p) as [s t2|]; [|apply ap_nil; apply (ap_full _ _ _ A)].
      destruct (status_rejected s); [|apply ap_nil; apply (ap_full _ _ _ A)].
      cbn [tr_delete stmts_of flat_map List.app]. apply ap_cons; [apply (ap_full _ _ _ A)|]. apply ap_nil.
      apply exec_del1_states; [exact HP|rewrite B; exact Hu2|rewrite C; exact Ha2].
    + change (db_apps t1) with (db_apps t). destruct (find_app (db_apps t) (app_uuid a)); [|apply ap_nil; exact Q1].
      cbn [tr_delete stmts_of flat_map List.app]. apply ap_cons; [exact Q1|]. apply ap_nil.
      apply exec_del1_states; [exact HP|exact Hu1|left; exact Ha1].
  - rewrite HS, stmts_ack. apply ap_cons; [exact Q1|]. apply ap_nil.
    right. split; [exact HP|]. split; [exact Hu2|destruct Ha2 as [H|H]; [left|right; left]; exact H].
Qed.

Lemma held_stored u a l :
  NoDup (map app_uuid l) -> a_user a = u ->
  ssum (filter (ofu u) (stored l a)) + match find_app l (app_uuid a) with Some a0 => aslots a0 | None => 0 end
  = ssum (filter (ofu u) l) + aslots a.
Proof.
  intros Hnd Hu. unfold stored. assert (Ho : ofu u a = true) by (apply ofu_true; exact Hu).
  destruct (find_app l (app_uuid a)) as [a0|] eqn:Ef.
  - pose proof (ssum_repl (ofu u) a a0 l Hnd Ef) as Hr.
    assert (Ho0 : ofu u a0 = true).
    { apply ofu_true. apply find_app_Some in Ef. destruct Ef as [_ Ef]. unfold app_uuid in Ef. congruence. }
    rewrite Ho0, Ho in Hr. exact Hr.
  - rewrite filter_app, ssum_app. cbn [filter]. rewrite Ho, ssum_cons. cbn [ssum fold_right]. lia.
Qed.

Lemma held_del1 u loc l :
  NoDup (map app_uuid l) ->
  ssum (filter (ofu u) (del [(loc, u)] l)) + match find_app l (loc, u) with Some a0 => aslots a0 | None => 0 end
  = ssum (filter (ofu u) l).
Proof.
  intros Hnd. rewrite (ssum_del1 (ofu u) (loc, u) l Hnd). destruct (find_app l (loc, u)) as [a0|] eqn:Ef; [|reflexivity].
  assert (Ho0 : ofu u a0 = true).
  { apply ofu_true. apply find_app_Some in Ef. destruct Ef as [_ Ef]. unfold app_uuid in Ef. congruence. }
  rewrite Ho0. reflexivity.
Qed.

Lemma add_states_bounds t u ui loc b delay sig d' :
  Inv t -> gk_get t u = Some ui ->
  add_states t u (add_charge t u ui loc b) (mk_app loc u b delay sig (w_height t))
             (slots_of (b_len b) <= u_slots ui + used_by t loc u) d' ->
  (forall v, v <> u -> balance d' v = balance (db_of t) v /\ davail d' v = davail (db_of t) v) /\
  (balance d' u <= balance (db_of t) u \/
   (slots_of (b_len b) < used_by t loc u /\ d_users d' = charged_users t u (add_charge t u ui loc b) /\ d_apps d' = db_apps t)) /\
  (u_slots ui + used_by t loc u < U32MOD ->
   balance (db_of t) u <= balance d' u + slots_of (b_len b) /\ davail (db_of t) u <= davail d' u + slots_of (b_len b)).
Proof.
  intros HI Eg Hst.
  assert (Eu : aget (db_users t) u = Some ui) by (rewrite <- (inv_sync t HI u); exact Eg).
  set (a := mk_app loc u b delay sig (w_height t)) in *.
  set (req := slots_of (b_len b)) in *. set (used := used_by t loc u) in *.
  pose proof (used_le_held t loc u HI) as Hused. fold used in Hused.
  destruct Hst as [[Hu Ha]|[HP [Hu Ha]]].
  - assert (E : forall v, balance d' v = balance (db_of t) v) by (intros v; apply balance_ua; assumption).
    assert (E2 : forall v, davail d' v = davail (db_of t) v) by (intros v; unfold davail; rewrite Hu; reflexivity).
    split; [intros v _; split; [apply E|apply E2]|]. split; [left; rewrite E; lia|]. intros _. rewrite E, E2. split; lia.
  - assert (Hav : davail d' u = (u_slots ui + used - req) mod U32MOD).
    { unfold davail. rewrite Hu. unfold charged_users. rewrite aget_map_update, N.eqb_refl, Eu. reflexivity. }
    assert (Hav0 : davail (db_of t) u = u_slots ui) by (unfold davail; cbn [db_of d_users]; rewrite Eu; reflexivity).
    assert (Hmod : (u_slots ui + used - req) mod U32MOD <= u_slots ui + used - req) by (apply N.mod_le; discriminate).
    assert (Hother : forall v, v <> u -> balance d' v = balance (db_of t) v /\ davail d' v = davail (db_of t) v).
    { intros v Hv. assert (Hd : davail d' v = davail (db_of t) v).
      { unfold davail. rewrite Hu. unfold charged_users. rewrite aget_map_update.
        apply N.eqb_neq in Hv. rewrite Hv. reflexivity. }
      split; [|exact Hd]. rewrite !balance_alt. f_equal.
      - unfold davail. rewrite Hu. unfold charged_users. rewrite aget_map_update.
        apply N.eqb_neq in Hv. rewrite Hv. reflexivity.
      - unfold dheld. cbn [db_of d_apps]. destruct Ha as [Ha|[Ha|Ha]]; rewrite Ha; [reflexivity| |].
        + f_equal. apply filter_ofu_stored. cbn [a a_user]. intros E. apply Hv. symmetry. exact E.
        + f_equal. change (app_uuid a) with (loc, u). apply filter_ofu_del1. intros E. apply Hv. symmetry. exact E. }
    split; [exact Hother|].
    rewrite !balance_alt, Hav, Hav0. unfold dheld. cbn [db_of d_apps].
    pose proof (held_stored u a (db_apps t) (inv_apps_nodup t HI) eq_refl) as Hst. change (app_uuid a) with (loc, u) in Hst.
    pose proof (held_del1 u loc (db_apps t) (inv_apps_nodup t HI)) as Hdl.
    change (match find_app (db_apps t) (loc, u) with Some a0 => aslots a0 | None => 0 end) with used in Hst, Hdl.
    change (aslots a) with req in Hst. unfold held_t in Hused.
    destruct Ha as [Ha|[Ha|Ha]]; rewrite Ha.
    + split.
      * destruct (N.ltb req used) eqn:El; [apply N.ltb_lt in El; right; repeat split; assumption|apply N.ltb_ge in El; left; lia].
      * intros Hnw. rewrite N.mod_small by lia. lia.
    + split; [left; lia|]. intros Hnw. rewrite N.mod_small by lia. lia.
    + change (app_uuid a) with (loc, u). split; [left; lia|]. intros Hnw. rewrite N.mod_small by lia. lia.
Qed.

(* register: the statement adds exactly the subscription's slots to the registering user *)
Lemma register_prefixes t u :
  Inv t ->
  all_prefixes (fun d' => forall v, balance d' v <= balance (db_of t) v + (if N.eqb v u then c_slots (cfg t) else 0) /\
                                    balance (db_of t) v <= balance d' v)
               (db_of t) (stmts_of (tr_add_update_user t u ++ ack_if_ok (gk_add_update_user t u))).
Proof.
  intros HI.
  assert (Q0 : forall v, balance (db_of t) v <= balance (db_of t) v + (if N.eqb v u then c_slots (cfg t) else 0) /\
                         balance (db_of t) v <= balance (db_of t) v) by (intros v; split; lia).
  rewrite stmts_of_app. assert (Ek : stmts_of (ack_if_ok (gk_add_update_user t u)) = []) by (destruct (gk_add_update_user t u); reflexivity).
  rewrite Ek, app_nil_r. unfold tr_add_update_user.
  destruct (gk_get t u) as [ui|] eqn:Eg.
  - assert (Eu : aget (db_users t) u = Some ui) by (rewrite <- (inv_sync t HI u); exact Eg).
    destruct (u32_add (u_slots ui) (c_slots (cfg t))) as [s|] eqn:Es; [|apply ap_nil; exact Q0].
    assert (Hs : s = u_slots ui + c_slots (cfg t)) by (unfold u32_add in Es; destruct (N.leb _ _); inversion Es; reflexivity).
    apply ap_cons; [exact Q0|]. apply ap_nil. intros v. rewrite !balance_alt.
    change (dheld (exec (db_of t) (SUpdUser u _)) v) with (dheld (db_of t) v).
    unfold davail. cbn [exec exec_fuel d_users db_of]. rewrite !aget_map_update.
    destruct (N.eqb v u) eqn:E.
    + apply N.eqb_eq in E. subst v. rewrite Eu. cbn [u_slots]. lia.
    + lia.
  - destruct (u32_add (gk_height t) (c_duration (cfg t))) as [e|]; [|apply ap_nil; exact Q0].
    assert (Eu : aget (db_users t) u = None) by (rewrite <- (inv_sync t HI u); exact Eg).
    assert (Em : amem (db_users t) u = false) by (unfold amem; rewrite Eu; reflexivity).
    apply ap_cons; [exact Q0|]. apply ap_nil. intros v. rewrite !balance_alt.
    unfold exec. cbn [exec_fuel db_of d_users]. rewrite Em.
    unfold davail, dheld. cbn [d_users d_apps]. rewrite aget_app_single.
    destruct (N.eqb v u) eqn:E.
    + apply N.eqb_eq in E. subst v. rewrite Eu. cbn [u_slots].
      pose proof (held_no_row t u HI Em) as Hh. unfold held_t in Hh. cbn [db_of d_users d_apps]. rewrite Hh, Eu. lia.
    + cbn [db_of d_users d_apps]. destruct (aget (db_users t) v); lia.
Qed.

(* ------------------------------------------------------------------------------------------ *)
(* 16. operation level: never grants, in-flight cost *)

Lemma stmts_ack_if_ok {A} (r : res A) : stmts_of (ack_if_ok r) = [].
Proof. destruct r; reflexivity. Qed.

Lemma add_crash_states le t signer loc b delay sig sc k :
  let d' := crash_at le k t (OAdd signer loc b delay sig) sc in
  (d_users d' = db_users t /\ d_apps d' = db_apps t) \/
  exists u ui, signer = Some u /\ gk_get t u = Some ui /\
    add_states t u (add_charge t u ui loc b) (mk_app loc u b delay sig (w_height t))
               (slots_of (b_len b) <= u_slots ui + used_by t loc u) d'.
Proof.
  cbn zeta.
  set (Q := fun d' : db => (d_users d' = db_users t /\ d_apps d' = db_apps t) \/
              exists u ui, signer = Some u /\ gk_get t u = Some ui /\
                add_states t u (add_charge t u ui loc b) (mk_app loc u b delay sig (w_height t))
                           (slots_of (b_len b) <= u_slots ui + used_by t loc u) d').
  apply (crash_at_prefix Q). unfold op_stmts, op_micro, op_segs. cbn [flat_segs flat_map flat_seg]. rewrite app_nil_r.
  assert (Q0 : Q (db_of t)) by (left; split; reflexivity).
  destruct (authenticate (set_rpc_log t []) signer) as [u|] eqn:Ea.
  2:{ unfold tr_add_appointment. rewrite Ea. apply ap_nil. exact Q0. }
  destruct (gk_get (set_rpc_log t []) u) as [ui|] eqn:Eg.
  2:{ unfold tr_add_appointment. rewrite Ea, Eg. apply ap_nil. exact Q0. }
  pose proof (add_prefix_states sc (set_rpc_log t []) signer loc b delay sig u ui Ea Eg) as H.
  apply authenticate_Some in Ea. destruct Ea as [Hs _].
  eapply ap_impl; [|exact H]. intros x Hx. right. exists u, ui. split; [exact Hs|]. split; [exact Eg|]. exact Hx.
Qed.

(* NEVER GRANTS (strongest true form).  After a kill at ANY micro step of ANY operation of a reachable
   tower and a restart, no user holds more slots (available + held by rows) than before the
   operation, except: the subscription slots a completed registration adds to the registering user;
   and the window between the charge and the store of an update that SHRINKS a stored appointment. *)
Theorem never_grants_outside_shrinking_update le t o sc k v :
  Inv t -> not_abort (snd (step le t o sc)) -> ~ shrinking_update t o ->
  balance (db_of (restart t (crash_at le k t o sc))) v <= balance (db_of t) v + grant t o v.
Proof.
  intros HI Hn Hns. rewrite db_of_restart.
  destruct o as [u|signer loc b delay sig|signer loc|signer|hash txs|].
  - apply (crash_at_prefix (fun d' => balance d' v <= balance (db_of t) v + grant t (ORegister u) v)).
    unfold op_stmts, op_micro, op_segs. cbn [flat_segs flat_map flat_seg]. rewrite app_nil_r.
    assert (HI0 : Inv (set_rpc_log t [])) by (eapply inv_frame; [|exact HI]; repeat split).
    eapply ap_impl; [|exact (register_prefixes (set_rpc_log t []) u HI0)].
    intros x Hx. destruct (Hx v) as [H _]. exact H.
  - cbn [grant]. rewrite N.add_0_r.
    destruct (add_crash_states le t signer loc b delay sig sc k) as [[Hu Ha]|[u [ui [Hs [Eg Hst]]]]].
    + rewrite (balance_ua (db_of t)); [lia|exact Hu|exact Ha].
    + destruct (add_states_bounds t u ui loc b delay sig _ HI Eg Hst) as [Ho [Hup _]].
      destruct (N.eqb v u) eqn:E.
      * apply N.eqb_eq in E. subst v. destruct Hup as [H|[Hlt _]]; [exact H|].
        exfalso. apply Hns. subst signer. cbn [shrinking_update]. unfold used_by in Hlt.
        destruct (find_app (db_apps t) (loc, u)) as [a0|]; [exists a0; split; [reflexivity|exact Hlt]|lia].
      * apply N.eqb_neq in E. rewrite (proj1 (Ho v E)). lia.
  - cbn [grant]. rewrite N.add_0_r.
    apply (crash_at_prefix (fun d' => balance d' v <= balance (db_of t) v)).
    unfold op_stmts, op_micro, op_segs. cbn [flat_segs flat_map flat_seg]. rewrite app_nil_r, stmts_ack_if_ok. apply ap_nil. lia.
  - cbn [grant]. rewrite N.add_0_r.
    apply (crash_at_prefix (fun d' => balance d' v <= balance (db_of t) v)).
    unfold op_stmts, op_micro, op_segs. cbn [flat_segs flat_map flat_seg]. rewrite app_nil_r, stmts_ack_if_ok. apply ap_nil. lia.
  - cbn [grant]. rewrite N.add_0_r.
    apply (crash_at_prefix (fun d' => balance d' v <= balance (db_of t) v)).
    eapply ap_impl; [|exact (connect_never_grants le t hash txs sc HI Hn)]. intros x Hx. apply Hx.
  - cbn [grant]. rewrite N.add_0_r.
    apply (crash_at_prefix (fun d' => balance d' v <= balance (db_of t) v)). apply ap_nil. lia.
Qed.

(* ... and where exactly the full statement fails: only in that window *)
Theorem grant_only_in_shrinking_window le t o sc k v :
  Inv t -> not_abort (snd (step le t o sc)) ->
  balance (crash_at le k t o sc) v > balance (db_of t) v + grant t o v ->
  exists loc b delay sig ui,
    o = OAdd (Some v) loc b delay sig /\ shrinking_update t o /\ gk_get t v = Some ui /\
    d_users (crash_at le k t o sc) = charged_users t v (add_charge t v ui loc b) /\
    d_apps (crash_at le k t o sc) = db_apps t.
Proof.
  intros HI Hn Hgt.
  destruct (N.leb (balance (crash_at le k t o sc) v) (balance (db_of t) v + grant t o v)) eqn:El; [apply N.leb_le in El; lia|].
  destruct o as [u|signer loc b delay sig|signer loc|signer|hash txs|];
    try (exfalso; apply N.leb_gt in El;
         pose proof (never_grants_outside_shrinking_update le t _ sc k v HI Hn (fun x => x)) as H;
         rewrite db_of_restart in H; lia).
  clear El. cbn [grant] in Hgt. rewrite N.add_0_r in Hgt.
  destruct (add_crash_states le t signer loc b delay sig sc k) as [[Hu Ha]|[u [ui [Hs [Eg Hst]]]]].
  - rewrite (balance_ua (db_of t)) in Hgt; [lia|exact Hu|exact Ha].
  - destruct (add_states_bounds t u ui loc b delay sig _ HI Eg Hst) as [Ho [Hup _]].
    destruct (N.eqb v u) eqn:E.
    + apply N.eqb_eq in E. subst v. destruct Hup as [H|[Hlt [Hu Ha]]]; [lia|].
      exists loc, b, delay, sig, ui. subst signer. split; [reflexivity|]. split; [|repeat split; assumption].
      cbn [shrinking_update]. unfold used_by in Hlt.
      destruct (find_app (db_apps t) (loc, u)) as [a0|]; [exists a0; split; [reflexivity|exact Hlt]|lia].
    + apply N.eqb_neq in E. rewrite (proj1 (Ho v E)) in Hgt. lia.
Qed.

(* IN-FLIGHT COST.  A kill during an add_appointment costs the requester at most the slots of that
   request (available balance and total), and nobody else anything.  (No u32 wrap: the ledger bound
   of C07.) *)
Theorem inflight_cost le t signer loc b delay sig sc k v :
  Inv t ->
  (forall u ui, signer = Some u -> gk_get t u = Some ui -> u_slots ui + used_by t loc u < U32MOD) ->
  let d' := db_of (restart t (crash_at le k t (OAdd signer loc b delay sig) sc)) in
  let cost := if (match signer with Some u => N.eqb v u | None => false end) then slots_of (b_len b) else 0 in
  balance (db_of t) v <= balance d' v + cost /\ davail (db_of t) v <= davail d' v + cost.
Proof.
  intros HI Hnw. cbn zeta. rewrite db_of_restart.
  destruct (add_crash_states le t signer loc b delay sig sc k) as [[Hu Ha]|[u [ui [Hs [Eg Hst]]]]].
  - rewrite (balance_ua (db_of t) _ v Hu Ha). unfold davail. rewrite Hu. cbn [db_of d_users]. split; lia.
  - destruct (add_states_bounds t u ui loc b delay sig _ HI Eg Hst) as [Ho [_ Hlow]]. subst signer.
    destruct (N.eqb v u) eqn:E.
    + apply N.eqb_eq in E. subst v. exact (Hlow (Hnw u ui eq_refl Eg)).
    + apply N.eqb_neq in E. destruct (Ho v E) as [H1 H2]. rewrite H1, H2. split; lia.
Qed.

(* a kill during a registration or a block never lowers... (registration: never lower) *)
Theorem register_never_costs le t u sc k v :
  Inv t -> balance (db_of t) v <= balance (db_of (restart t (crash_at le k t (ORegister u) sc))) v.
Proof.
  intros HI. rewrite db_of_restart.
  apply (crash_at_prefix (fun d' => balance (db_of t) v <= balance d' v)).
  unfold op_stmts, op_micro, op_segs. cbn [flat_segs flat_map flat_seg]. rewrite app_nil_r.
  assert (HI0 : Inv (set_rpc_log t [])) by (eapply inv_frame; [|exact HI]; repeat split).
  eapply ap_impl; [|exact (register_prefixes (set_rpc_log t []) u HI0)].
  intros x Hx. destruct (Hx v) as [_ H]. exact H.
Qed.

(* the full statement "never more slots than before" is FALSE: a reachable tower, an update that
   shrinks a 3-slot appointment to 1 slot, a kill after the first micro step (UPDATE users done,
   UPDATE appointments not): the user holds 9 + 3 = 12 slots where there were 7 + 3 = 10 *)

Lemma ex_t_inv : Inv ex_t.
Proof.
  apply (inv_reachable true ex_cfg 120 ex_blocks ex_t0 ex_hist); [vm_compute; reflexivity|].
  vm_compute. repeat constructor.
Qed.

Theorem never_grants_refuted :
  exists le t o sc k v,
    Inv t /\ not_abort (snd (step le t o sc)) /\ grant t o v = 0 /\
    balance (db_of (restart t (crash_at le k t o sc))) v > balance (db_of t) v.
Proof.
  exists true, ex_t, ex_shrink, [], 1%nat, 1. split; [exact ex_t_inv|].
  split; [vm_compute; exact I|]. split; [reflexivity|]. vm_compute. reflexivity.
Qed.

(* ------------------------------------------------------------------------------------------ *)
(* 17. replaying a block after a crash in the middle of it: the idempotence lemmas *)

Lemma find_app_snoc l a u : find_app (l ++ [a]) u = match find_app l u with Some x => Some x | None => if uuid_eqb (app_uuid a) u then Some a else None end.
Proof. unfold find_app. induction l as [|x l IH]; cbn [List.app find]; [destruct (uuid_eqb _ _); reflexivity|]. destruct (uuid_eqb (app_uuid x) u); [reflexivity|exact IH]. Qed.

Lemma find_trk_snoc l k u : find_trk (l ++ [k]) u = match find_trk l u with Some x => Some x | None => if uuid_eqb (trk_uuid k) u then Some k else None end.
Proof. unfold find_trk. induction l as [|x l IH]; cbn [List.app find]; [destruct (uuid_eqb _ _); reflexivity|]. destruct (uuid_eqb (trk_uuid x) u); [reflexivity|exact IH]. Qed.

(* add_tracker tolerates the duplicate insert: the second INSERT for the same UUID changes nothing
   (primary key), whatever the first one did *)
Theorem insert_tracker_twice d k k' :
  trk_uuid k' = trk_uuid k -> exec (exec d (SInsTrk k)) (SInsTrk k') = exec d (SInsTrk k).
Proof.
  intros E. rewrite (exec_ins_trk d k).
  destruct (find_trk (d_trks d) (trk_uuid k)) eqn:Et.
  - rewrite exec_ins_trk, E, Et. reflexivity.
  - destruct (find_app (d_apps d) (trk_uuid k)) eqn:Ea.
    + rewrite exec_ins_trk. cbn [d_trks d_apps]. rewrite E, find_trk_snoc, Et, uuid_eqb_refl. reflexivity.
    + rewrite exec_ins_trk, E, Et, Ea. reflexivity.
Qed.

Theorem add_tracker_twice t uuid d p s d' p' s' :
  status_accepted s = true ->
  db_of (r_add_tracker (r_add_tracker t uuid d p s) uuid d' p' s') = db_of (r_add_tracker t uuid d p s).
Proof.
  intros Hs.
  pose proof (J_add_tracker t uuid d p s) as [D1 _].
  pose proof (J_add_tracker (r_add_tracker t uuid d p s) uuid d' p' s') as [D2 _].
  rewrite D2, D1. destruct uuid as [loc u].
  destruct s as [h|h| |c]; try discriminate; destruct s' as [h'|h'| |c'];
    cbn [tr_add_tracker stmts_of flat_map List.app execs fold_left fst snd]; try reflexivity;
    apply insert_tracker_twice; reflexivity.
Qed.

(* batch deletes are idempotent *)
Lemma filter_idem {A} (p : A -> bool) l : filter p (filter p l) = filter p l.
Proof. rewrite filter_filter. apply filter_ext_in'. intros a _. destruct (p a); reflexivity. Qed.

Theorem delete_apps_twice d us : exec (exec d (SDelApps us)) (SDelApps us) = exec d (SDelApps us).
Proof. unfold exec. cbn [exec_fuel d_users d_apps d_trks]. rewrite !filter_idem. reflexivity. Qed.

Theorem delete_users_twice d us : exec (exec d (SDelUsers us)) (SDelUsers us) = exec d (SDelUsers us).
Proof. unfold exec. cbn [exec_fuel d_users d_apps d_trks]. rewrite !filter_idem. reflexivity. Qed.

Theorem delete_txn_twice d us vs :
  exec (exec d (STxn [SDelApps us])) (STxn [SDelApps us]) = exec d (STxn [SDelApps us]) /\
  exec (exec d (STxn [SDelUsers vs])) (STxn [SDelUsers vs]) = exec d (STxn [SDelUsers vs]).
Proof. rewrite !exec_txn1 by exact I. split; [apply delete_apps_twice|apply delete_users_twice]. Qed.

(* setting a tracker's status twice to the same value is setting it once *)
Theorem update_tracker_twice d uuid h c : exec (exec d (SUpdTrk uuid h c)) (SUpdTrk uuid h c) = exec d (SUpdTrk uuid h c).
Proof.
  unfold exec. cbn [exec_fuel d_users d_apps d_trks]. f_equal. rewrite map_map. apply map_ext. intros k.
  destruct (uuid_eqb (trk_uuid k) uuid) eqn:E; [|rewrite E; reflexivity].
  change (trk_uuid (mk_trk (t_loc k) (t_user k) (t_dispute k) (t_penalty k) h c)) with (trk_uuid k). rewrite E. reflexivity.
Qed.

(* the gatekeeper's purge replayed on the purged tables finds nobody outdated: no statement at all *)
Lemma outdated_spec delta h : forall us out,
  outdated_users delta h us = Some out ->
  forall u ui, In (u, ui) us -> exists lim, u32_add (u_expiry ui) delta = Some lim /\ (N.leb lim h = true -> In u out).
Proof.
  induction us as [|[u0 ui0] us IH]; intros out; cbn [outdated_users]; [intros _ u ui []|].
  destruct (u32_add (u_expiry ui0) delta) as [lim|] eqn:El; [|discriminate].
  destruct (outdated_users delta h us) as [l|] eqn:Eo; [|discriminate].
  intros H u ui [Hin|Hin]; inversion H; subst out; clear H.
  - inversion Hin; subst. exists lim. split; [exact El|]. intros Hh. rewrite Hh. left. reflexivity.
  - destruct (IH l eq_refl u ui Hin) as [lim' [E1 E2]]. exists lim'. split; [exact E1|].
    intros Hh. specialize (E2 Hh). destruct (N.leb lim h); [right|]; exact E2.
Qed.

Lemma outdated_filtered delta h keep : forall us,
  (forall u ui, In (u, ui) us -> exists lim, u32_add (u_expiry ui) delta = Some lim /\ (N.leb lim h = true -> memN u keep = true)) ->
  outdated_users delta h (filter (fun r => negb (memN (fst r) keep)) us) = Some [].
Proof.
  induction us as [|[u ui] us IH]; intros H; cbn [filter]; [reflexivity|].
  assert (IH' : outdated_users delta h (filter (fun r => negb (memN (fst r) keep)) us) = Some []).
  { apply IH. intros u' ui' Hin. apply H. right. exact Hin. }
  cbn [fst]. destruct (memN u keep) eqn:Em; cbn [negb]; [exact IH'|].
  cbn [outdated_users]. destruct (H u ui (or_introl eq_refl)) as [lim [El Hk]]. rewrite El, IH'.
  destruct (N.leb lim h); [specialize (Hk eq_refl); congruence|reflexivity].
Qed.

Lemma aget_In {V} (m : amap V) k v : aget m k = Some v -> In (k, v) m.
Proof.
  induction m as [|[k' v'] m IH]; cbn [aget]; [discriminate|].
  destruct (N.eqb k k') eqn:E; [apply N.eqb_eq in E; intros H; inversion H; subst; left; reflexivity|intros H; right; apply IH; exact H].
Qed.

Theorem purge_replay_noop t h t1 :
  Inv t -> gk_block_connected t h = Ok tt t1 -> tr_gk_block (restart t (db_of t1)) h = [].
Proof.
  intros HI. unfold gk_block_connected, tr_gk_block.
  destruct (outdated_users (c_delta (cfg t)) h (gk_users t)) as [out|] eqn:Eo; [|discriminate].
  intros H. inversion H; subst t1; clear H.
  assert (Hu : gk_users (restart t (db_of (set_gk_height (if match out with [] => true | _ => false end then t else p_purge t out) h)))
               = filter (fun r => negb (memN (fst r) out)) (db_users t)).
  { destruct out as [|o os]; [|reflexivity]. cbn. symmetry. apply filter_true. intros; reflexivity. }
  change (cfg (restart t _)) with (cfg t). rewrite Hu.
  rewrite (outdated_filtered (c_delta (cfg t)) h out (db_users t)); [reflexivity|].
  intros u ui Hin.
  assert (Hg : In (u, ui) (gk_users t)).
  { apply aget_In. rewrite (inv_sync t HI u). apply aget_In_nodup; [exact (inv_users_nodup t HI)|exact Hin]. }
  destruct (outdated_spec _ _ _ _ Eo u ui Hg) as [lim [El Hk]]. exists lim. split; [exact El|].
  intros Hh. specialize (Hk Hh). unfold memN. apply existsb_exists. exists u. split; [exact Hk|apply N.eqb_refl].
Qed.

(* re-running the watcher's pass on rows that already have their tracker changes no table: the
   INSERT INTO trackers is refused by the primary key (what the node answers now only decides which
   rows are reported invalid, i.e. deleted afterwards) *)
Lemma core_tables t1 t : core t1 = core t -> db_of t1 = db_of t.
Proof. unfold core, db_of. intros H. inversion H. reflexivity. Qed.

Lemma handle_breach_tracked_noop sc t uuid d p s t' :
  find_trk (db_trks t) uuid <> None -> r_handle_breach sc t uuid d p = Ok s t' -> db_of t' = db_of t.
Proof.
  intros Hk H. apply handle_breach_spec in H. destruct H as [t1 [Hc [_ [Ht _]]]].
  pose proof (core_tables _ _ Hc) as Hd. subst t'. destruct (status_accepted s); [|exact Hd].
  rewrite <- Hd. unfold r_add_tracker.
  assert (Hk1 : find_trk (db_trks t1) uuid <> None).
  { assert (E : db_trks t1 = db_trks t) by (unfold db_of in Hd; inversion Hd; reflexivity). rewrite E. exact Hk. }
  destruct s; try reflexivity; destruct (find_trk (db_trks t1) uuid); try reflexivity; contradiction.
Qed.

Lemma breach_uuid_loop_tracked_noop sc d : forall us t inv inv' t',
  (forall uuid, In uuid us -> find_trk (db_trks t) uuid <> None) ->
  breach_uuid_loop sc d us t inv = Ok inv' t' -> db_of t' = db_of t.
Proof.
  induction us as [|uuid us IH]; intros t inv inv' t' Hk; cbn [breach_uuid_loop]; [intros H; inversion H; reflexivity|].
  destruct (find_app (db_apps t) uuid) as [a|]; [|apply IH; intros x Hx; apply Hk; right; exact Hx].
  destruct (decrypt (a_blob a) d) as [p|]; [|apply IH; intros x Hx; apply Hk; right; exact Hx].
  destruct (r_handle_breach sc t uuid d p) as [s t1|] eqn:E; cbn [bind]; [|discriminate].
  apply handle_breach_tracked_noop in E; [|apply Hk; left; reflexivity].
  intros H. apply IH in H; [congruence|].
  intros x Hx. assert (Et : db_trks t1 = db_trks t) by (unfold db_of in E; inversion E; reflexivity).
  rewrite Et. apply Hk. right. exact Hx.
Qed.

Lemma breach_loop_tracked_noop sc : forall ds t inv inv' t',
  (forall a, In a (db_apps t) -> In (a_loc a) ds -> find_trk (db_trks t) (app_uuid a) <> None) ->
  breach_loop sc ds t inv = Ok inv' t' -> db_of t' = db_of t.
Proof.
  induction ds as [|d ds IH]; intros t inv inv' t' Hk; cbn [breach_loop]; [intros H; inversion H; reflexivity|].
  destruct (breach_uuid_loop sc d (map app_uuid (filter (fun a => N.eqb (a_loc a) d) (db_apps t))) t inv) as [inv1 t1|] eqn:E;
    cbn [bind]; [|discriminate].
  apply breach_uuid_loop_tracked_noop in E.
  - intros H. apply IH in H; [congruence|].
    assert (Ea : db_apps t1 = db_apps t) by (unfold db_of in E; inversion E; reflexivity).
    assert (Et : db_trks t1 = db_trks t) by (unfold db_of in E; inversion E; reflexivity).
    rewrite Ea, Et. intros a Ha Hl. apply Hk; [exact Ha|right; exact Hl].
  - intros uuid Hin. apply in_map_iff in Hin. destruct Hin as [a [He Ha]]. apply filter_In in Ha. destruct Ha as [Ha Hl].
    subst uuid. apply Hk; [exact Ha|left]. apply N.eqb_eq in Hl. symmetry. exact Hl.
Qed.

Theorem watcher_replay_noop sc t hash txs h t' :
  (forall a, In a (db_apps t) -> In (a_loc a) txs -> find_trk (db_trks t) (app_uuid a) <> None) ->
  w_block_connected sc t (cache_block hash txs) h = Ok tt t' ->
  exists invalid, db_of t' = match invalid with [] => db_of t | _ => exec (db_of t) (SDelApps invalid) end.
Proof.
  intros Hk. unfold w_block_connected. destruct (ti_update (w_cache t) (cache_block hash txs)) as [c|]; [|discriminate].
  rewrite keys_cache_block.
  destruct (breach_loop sc _ (set_w_cache t c) []) as [invalid t2|] eqn:E; cbn [bind]; [|discriminate].
  apply breach_loop_tracked_noop in E.
  2:{ intros a Ha Hl. apply filter_In in Hl. destruct Hl as [Hl _]. apply (Hk a Ha Hl). }
  exists invalid. destruct invalid as [|i0 is]; cbn [bind] in H; inversion H; subst; clear H.
  - exact E.
  - unfold gk_delete_appointments. change (db_of (set_w_height (db_delete_apps t2 (i0 :: is)) h)) with (exec (db_of t2) (SDelApps (i0 :: is))).
    rewrite E. reflexivity.
Qed.

(* the last known block is not advanced before the poll has delivered every block: a kill anywhere
   inside the block part of a poll restarts from the OLD last known block, so the catch-up poll
   re-delivers those blocks *)
Lemma pexec_pm l : forall s,
  ds_lkb (fold_left pexec (map PM l) s) = ds_lkb s /\ ds_db (fold_left pexec (map PM l) s) = execs (ds_db s) (stmts_of l).
Proof.
  induction l as [|m l IH]; intros s; cbn [map fold_left]; [split; reflexivity|].
  destruct (IH (pexec s (PM m))) as [A B]. rewrite A, B. destruct m; cbn [pexec ds_lkb ds_db stmts_of flat_map List.app]; split; reflexivity.
Qed.

Lemma poll_blocks_pm le : forall blocks t, exists l, poll_blocks le t blocks = map PM l.
Proof.
  induction blocks as [|[o sc] r IH]; intros t; cbn [poll_blocks]; [exists []; reflexivity|].
  destruct (IH (fst (step le t o sc))) as [l Hl]. exists (op_micro le t o sc ++ l). rewrite Hl, map_app. reflexivity.
Qed.

Theorem lkb_not_advanced_mid_poll le k t blocks tip s0 :
  (k <= length (poll_blocks le t blocks))%nat ->
  ds_lkb (poll_crash_at le k t blocks tip s0) = ds_lkb s0.
Proof.
  intros Hk. unfold poll_crash_at, poll_trace. rewrite firstn_app.
  replace (k - length (poll_blocks le t blocks))%nat with 0%nat by lia. cbn [firstn]. rewrite app_nil_r.
  destruct (poll_blocks_pm le blocks t) as [l Hl]. rewrite Hl, firstn_map. apply (pexec_pm (firstn k l) s0).
Qed.

Theorem lkb_persisted_after_poll le t blocks tip s0 :
  Bootstrap.POLL_PERSISTS_BETTER_TIP = true ->
  ds_lkb (poll_crash_at le (S (length (poll_blocks le t blocks))) t blocks tip s0) = Some tip.
Proof.
  intros Hp. unfold poll_crash_at, poll_trace. rewrite Hp, firstn_app.
  replace (S (length (poll_blocks le t blocks)) - length (poll_blocks le t blocks))%nat with 1%nat by lia.
  rewrite firstn_all2 by lia. cbn [firstn]. rewrite fold_left_app. reflexivity.
Qed.

(* REPLAY (partial).  What is proved of "after catching up the tower answers as an uninterrupted
   run would": a kill inside the block part of a poll leaves the last known block where it was, so
   the blocks are delivered again; and re-delivery is harmless piece by piece: the purge finds
   nobody outdated, the watcher's pass over rows that already have their tracker changes no table,
   a duplicate tracker insert / a repeated batch delete / a repeated status update are no-ops, a
   refund cannot be replayed (it commits with the deletion of the rows it refunds:
   connect_never_grants).  NOT proved: the composition over the three listeners for an arbitrary
   crash index of an arbitrary multi-block poll, which needs the relation between the node's
   answers in the two runs (penalties sent before the kill are in its mempool or chain in the
   replay) - decided by fault enumeration on the real code (see the check). *)
Theorem replay_idempotent_partial :
  (forall le k t blocks tip s0, (k <= length (poll_blocks le t blocks))%nat ->
     ds_lkb (poll_crash_at le k t blocks tip s0) = ds_lkb s0) /\
  (forall t h t1, Inv t -> gk_block_connected t h = Ok tt t1 -> tr_gk_block (restart t (db_of t1)) h = []) /\
  (forall sc t hash txs h t',
     (forall a, In a (db_apps t) -> In (a_loc a) txs -> find_trk (db_trks t) (app_uuid a) <> None) ->
     w_block_connected sc t (cache_block hash txs) h = Ok tt t' ->
     exists invalid, db_of t' = match invalid with [] => db_of t | _ => exec (db_of t) (SDelApps invalid) end) /\
  (forall d k k', trk_uuid k' = trk_uuid k -> exec (exec d (SInsTrk k)) (SInsTrk k') = exec d (SInsTrk k)) /\
  (forall d us, exec (exec d (SDelApps us)) (SDelApps us) = exec d (SDelApps us)) /\
  (forall d us, exec (exec d (SDelUsers us)) (SDelUsers us) = exec d (SDelUsers us)) /\
  (forall d uuid h c, exec (exec d (SUpdTrk uuid h c)) (SUpdTrk uuid h c) = exec d (SUpdTrk uuid h c)).
Proof.
  split; [exact lkb_not_advanced_mid_poll|]. split; [exact purge_replay_noop|]. split; [exact watcher_replay_noop|].
  split; [exact insert_tracker_twice|]. split; [exact delete_apps_twice|]. split; [exact delete_users_twice|exact update_tracker_twice].
Qed.
