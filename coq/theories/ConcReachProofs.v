(* ConcReachProofs.v — proofs about the thread-level reachability protocol (ConcReach.v), for all
   schedules and all oracles (C12). *)
From TeosModel Require Import Base TxIndex Tower ConcTower ConcTowerProofs ConcReach.
From TeosModel.Gen Require Consts Bootstrap.
From Coq Require Import Lia.

(* ------------------------------------------------------------------------------------------ *)
(* 1. one step, by cases *)

Inductive srel (c : rconf) (j : nat) (th : rthread) : rconf -> Prop :=
| S_wake p : rt_st th = RParked true p -> r_is_held c L_reach = false ->
    srel c j th (add_log (put_thread c j (RRun p) (L_reach :: rt_held th)) j EvWake)
| S_acq l k : rt_st th = RRun (RAcq l k) -> r_is_held c l = false ->
    srel c j th (add_log (put_thread c j (RRun k) (l :: rt_held th)) j (EvAcq l))
| S_rel l k : rt_st th = RRun (RRel l k) ->
    srel c j th (put_thread c j (RRun k) (remove_lock l (rt_held th)))
| S_act B f k b t' : rt_st th = RRun (RAct B f k) -> f (rc_tower c) = Ok b t' ->
    srel c j th (put_thread (set_tower c t') j (RRun (k b)) (rt_held th))
| S_act_abort B f k s t' : rt_st th = RRun (RAct B f k) -> f (rc_tower c) = Abort s t' ->
    srel c j th (rdie (set_tower c t') j (RAbort s))
| S_rpc_err B f k b t' e rest : rt_st th = RRun (RRpc B f k) -> f (rc_tower c) = Ok b t' ->
    issued (rc_tower c) t' = Some e -> rc_rpc_or c = true :: rest ->
    srel c j th (add_log (put_thread (set_rpc_or c rest) j (RRun (k TransportErr)) (rt_held th)) j
                         (EvRpc (r_kind e) (r_tx e) CallErr))
| S_rpc_ok B f k b t' e : rt_st th = RRun (RRpc B f k) -> f (rc_tower c) = Ok b t' ->
    issued (rc_tower c) t' = Some e -> hd false (rc_rpc_or c) = false ->
    srel c j th (add_log (put_thread (set_rpc_or (set_tower c t') (tl (rc_rpc_or c))) j (RRun (k (Verdict b))) (rt_held th)) j
                         (EvRpc (r_kind e) (r_tx e) (CallVerdict (r_res e))))
| S_rpc_memo B f k b t' : rt_st th = RRun (RRpc B f k) -> f (rc_tower c) = Ok b t' ->
    issued (rc_tower c) t' = None ->
    srel c j th (add_log (put_thread (set_tower c t') j (RRun (k (Verdict b))) (rt_held th)) j EvMemo)
| S_rpc_abort B f k s t' : rt_st th = RRun (RRpc B f k) -> f (rc_tower c) = Abort s t' ->
    srel c j th (rdie (set_tower c t') j (RAbort s))
| S_readflag k : rt_st th = RRun (RReadFlag k) ->
    srel c j th (put_thread c j (RRun (k (rc_flag c))) (rt_held th))
| S_setflag b k : rt_st th = RRun (RSetFlag b k) ->
    srel c j th (add_log (put_thread (set_flag c b) j (RRun k) (rt_held th)) j (EvFlag b))
| S_wait_pass k : rt_st th = RRun (RWait k) -> rc_flag c = true ->
    srel c j th (put_thread c j (RRun k) (rt_held th))
| S_wait_park k : rt_st th = RRun (RWait k) -> rc_flag c = false ->
    srel c j th (add_log (put_thread c j (RParked false (RWait k)) (remove_lock L_reach (rt_held th))) j
                         (EvWait (remove_lock L_reach (rt_held th))))
| S_notify k : rt_st th = RRun (RNotify k) ->
    srel c j th (add_log (put_thread (set_threads c (map notify_thread (rc_threads c))) j (RRun k) (rt_held th)) j EvNotify)
| S_fetch first k r c1 : rt_st th = RRun (RFetch first k) -> fetch_step c j first = (r, c1) ->
    srel c j th (put_thread c1 j (RRun (k r)) (rt_held th))
| S_persist k : rt_st th = RRun (RPersist k) ->
    srel c j th (add_log (put_thread (set_lkb c (rc_height c + N.of_nat (length (rc_pending c)))%N) j (RRun k) (rt_held th)) j
                         (EvPersist (rc_height c + N.of_nat (length (rc_pending c)))%N))
| S_exhausted : rt_st th = RRun RExhausted -> srel c j th (rdie c j RExhaust).

Lemma rstep_inv c j c' : rstep c j = Some c' -> exists th, nth_error (rc_threads c) j = Some th /\ srel c j th c'.
Proof.
  unfold rstep. intros H. destruct (nth_error (rc_threads c) j) as [th|] eqn:En; [|discriminate].
  exists th. split; [reflexivity|]. destruct (rt_st th) as [p|n p|r] eqn:Es; [| |discriminate].
  - destruct p as [a|l k|l k|B f k|B f k|k|b k|k|k|first k|k|]; try discriminate.
    + destruct (r_is_held c l) eqn:Eh; [discriminate|]. inversion H; subst. eapply S_acq; eauto.
    + inversion H; subst. eapply S_rel; eauto.
    + destruct (f (rc_tower c)) as [b t'|s t'] eqn:Ef; inversion H; subst; [eapply S_act|eapply S_act_abort]; eauto.
    + destruct (f (rc_tower c)) as [b t'|s t'] eqn:Ef; [|inversion H; subst; eapply S_rpc_abort; eauto].
      destruct (issued (rc_tower c) t') as [e|] eqn:Ei; [|inversion H; subst; eapply S_rpc_memo; eauto].
      destruct (rc_rpc_or c) as [|[|] rest] eqn:Eo; inversion H; subst.
      * replace (@nil bool) with (tl (rc_rpc_or c)) by (rewrite Eo; reflexivity). eapply S_rpc_ok; eauto. rewrite Eo; reflexivity.
      * eapply S_rpc_err; eauto.
      * replace rest with (tl (rc_rpc_or c)) at 1 by (rewrite Eo; reflexivity). eapply S_rpc_ok; eauto. rewrite Eo; reflexivity.
    + inversion H; subst. eapply S_readflag; eauto.
    + inversion H; subst. eapply S_setflag; eauto.
    + destruct (rc_flag c) eqn:Ef; inversion H; subst; [eapply S_wait_pass|eapply S_wait_park]; eauto.
    + inversion H; subst. eapply S_notify; eauto.
    + destruct (fetch_step c j first) as [r c1] eqn:Ef. inversion H; subst. eapply S_fetch; eauto.
    + inversion H; subst. eapply S_persist; eauto.
    + inversion H; subst. eapply S_exhausted; eauto.
  - destruct n; cbn [andb] in H; [|discriminate]. destruct (r_is_held c L_reach) eqn:Eh; cbn in H; [discriminate|].
    inversion H; subst. eapply S_wake; eauto.
Qed.

Lemma rrun_app c s1 s2 : rrun_config c (s1 ++ s2) = rrun_config (rrun_config c s1) s2.
Proof. unfold rrun_config. apply fold_left_app. Qed.

(* a property of configurations preserved by every step holds along every schedule *)
Lemma rrun_inv (I : rconf -> Prop) :
  (forall c i c', I c -> rstep c i = Some c' -> I c') -> forall sched c, I c -> I (rrun_config c sched).
Proof.
  intros Hstep. induction sched as [|i sched IH]; intros c Hc; cbn; [exact Hc|].
  apply IH. unfold rsched_step. destruct (rstep c i) as [c'|] eqn:E; [eapply Hstep; eauto|exact Hc].
Qed.

Lemma fetch_step_frame c i first r c1 :
  fetch_step c i first = (r, c1) ->
  rc_threads c1 = rc_threads c /\ rc_tower c1 = rc_tower c /\ rc_flag c1 = rc_flag c /\ rc_rpc_or c1 = rc_rpc_or c /\
  rc_lkb c1 = rc_lkb c /\
  (rc_log c1 = rc_log c \/ exists hash h, rc_log c1 = (i, EvDeliver hash h) :: rc_log c).
Proof.
  unfold fetch_step, next_fetch. intros H.
  destruct (rc_fetch_or c) as [|a rest]; [|destruct a]; cbn in H;
    try (destruct first); try (destruct stall_cancels); try (destruct (rc_pending c) as [|[hash txs] pend]);
    inversion H; subst; cbn; repeat split; eauto.
Qed.

(* the thread table after a step of thread j: thread x <> j is untouched, except that a notify_all marks it *)
Lemma srel_other c j th c' x : srel c j th c' -> x <> j ->
  nth_error (rc_threads c') x = nth_error (rc_threads c) x \/
  (exists k, rt_st th = RRun (RNotify k)) /\ nth_error (rc_threads c') x = option_map notify_thread (nth_error (rc_threads c) x).
Proof.
  intros H Hx. destruct H; cbn [rc_threads add_log put_thread set_threads set_tower set_flag set_rpc_or set_lkb rdie];
    try (left; apply nth_error_set_nth_neq; congruence).
  - right. split; [eauto|]. rewrite nth_error_set_nth_neq by congruence. apply nth_error_map.
  - left. rewrite nth_error_set_nth_neq by congruence. destruct (fetch_step_frame _ _ _ _ _ H0) as [E _]. rewrite E. reflexivity.
Qed.

Lemma srel_self c j th c' : nth_error (rc_threads c) j = Some th -> srel c j th c' ->
  exists th', nth_error (rc_threads c') j = Some th'.
Proof.
  intros Hn H.
  assert (G : forall (l : list rthread) x, length l = length (rc_threads c) -> exists th', nth_error (set_nth l j x) j = Some th').
  { intros l x Hl. destruct (nth_error l j) as [y|] eqn:E.
    - exists x. eapply nth_error_set_nth_eq; eauto.
    - apply nth_error_None in E. rewrite Hl in E. apply nth_error_None in E. congruence. }
  destruct H; cbn [rc_threads add_log put_thread set_threads set_tower set_flag set_rpc_or set_lkb rdie]; try (apply G; reflexivity).
  - apply G. apply map_length.
  - apply G. destruct (fetch_step_frame _ _ _ _ _ H0) as [E _]. rewrite E. reflexivity.
Qed.

(* ------------------------------------------------------------------------------------------ *)
(* 2. a public method that reads flag = false answers Unavailable and changes nothing *)

(* every public method is: take the flag's mutex, read the flag, drop the guard, then either the body or
   the Unavailable answer *)
Lemma api_p_shape sc fuel o :
  exists body, api_p sc fuel o = RAcq L_reach (RReadFlag (api_checked body)).
Proof. eexists. reflexivity. Qed.

Definition quiet_step (c c' : rconf) : Prop :=
  rc_tower c' = rc_tower c /\ rc_flag c' = rc_flag c /\ rc_pending c' = rc_pending c /\ rc_lkb c' = rc_lkb c /\
  (forall i, calls_rev i (rc_log c') = calls_rev i (rc_log c)).

Theorem unavailable_takes_no_work c i body held :
  (* the step that takes the mutex *)
  (nth_error (rc_threads c) i = Some (mk_rthread (RRun (RAcq L_reach (RReadFlag (api_checked body)))) held) ->
   forall c', rstep c i = Some c' ->
     quiet_step c c' /\ nth_error (rc_threads c') i = Some (mk_rthread (RRun (RReadFlag (api_checked body))) (L_reach :: held))) /\
  (* the step that reads the flag: false -> all that is left is `drop the guard; answer Unavailable` *)
  (nth_error (rc_threads c) i = Some (mk_rthread (RRun (RReadFlag (api_checked body))) held) -> rc_flag c = false ->
   forall c', rstep c i = Some c' ->
     quiet_step c c' /\ nth_error (rc_threads c') i = Some (mk_rthread (RRun (RRel L_reach (RRet RUnavailable))) held)) /\
  (* the step that drops the guard: the thread has returned Unavailable *)
  (nth_error (rc_threads c) i = Some (mk_rthread (RRun (RRel L_reach (RRet RUnavailable))) held) ->
   forall c', rstep c i = Some c' ->
     quiet_step c c' /\ exists th', nth_error (rc_threads c') i = Some th' /\ rresult th' = Some (RDone RUnavailable) /\
                                    rt_held th' = remove_lock L_reach held).
Proof.
  assert (Hset : forall (l : list rthread) x y, nth_error l i = Some y -> nth_error (set_nth l i x) i = Some x)
    by (intros; eapply nth_error_set_nth_eq; eauto).
  repeat split; intros; unfold rstep in *;
    match goal with Hn : nth_error _ _ = Some _ |- _ => rewrite Hn in *; cbn [rt_st rt_held] in * end.
  all: try match goal with H : (if ?b then _ else _) = Some _ |- _ => destruct b; [discriminate|] end.
  all: match goal with H : Some _ = Some _ |- _ => inversion H; subst; clear H end.
  all: cbn; try reflexivity.
  all: try (intros j; destruct (Nat.eqb j i); reflexivity).
  all: try (destruct (Nat.eqb _ i); reflexivity).
  all: try (erewrite Hset by eassumption; try rewrite H0; reflexivity).
  all: try (eexists; split; [eapply Hset; eassumption|split; reflexivity]).
Qed.

(* ------------------------------------------------------------------------------------------ *)
(* 3. after a transport error the SAME call is made again; a transport error produces nothing *)

Definition rkey := (rpc_kind * N)%type.

(* whatever the state, a request put on the wire by f is of kind / for transaction kk *)
Definition has_key (kk : rkey) {B} (f : tower -> res B) : Prop :=
  forall t b t' e, f t = Ok b t' -> issued t t' = Some e -> (r_kind e, r_tx e) = kk.

(* kd None p: every Carrier call of p has a fixed key and its transport-error branch owes that key;
   kd (Some kk) p: moreover the first Carrier call p can make has key kk *)
Fixpoint kd {A} (o : option rkey) (p : rprog A) : Prop :=
  match p with
  | RRet _ | RExhausted => True
  | RAcq _ k | RRel _ k | RSetFlag _ k | RWait k | RNotify k | RPersist k => kd o k
  | RAct B f k => forall b, kd o (k b)
  | RReadFlag k => forall b, kd o (k b)
  | RFetch _ k => forall r, kd o (k r)
  | RRpc B f k => exists kk, match o with Some kk' => kk = kk' | None => True end /\ has_key kk f /\
                             (forall b, kd None (k (Verdict b))) /\ kd (Some kk) (k TransportErr)
  end.

Definition tprog (th : rthread) : option (rprog rout) :=
  match rt_st th with RRun p | RParked _ p => Some p | REnd _ => None end.

Definition keyed_conf (c : rconf) : Prop :=
  forall i th p, nth_error (rc_threads c) i = Some th -> tprog th = Some p -> kd None p.

Definition Kinv (c : rconf) : Prop :=
  (forall i th p, nth_error (rc_threads c) i = Some th -> tprog th = Some p -> kd (owed (calls_rev i (rc_log c))) p) /\
  (forall i, retry_ok_rev (calls_rev i (rc_log c)) = true).

Lemma srel_log c j th c' : srel c j th c' -> rc_log c' = rc_log c \/ exists e, rc_log c' = (j, e) :: rc_log c.
Proof.
  intros H; destruct H; cbn; eauto.
  destruct (fetch_step_frame _ _ _ _ _ H0) as [_ [_ [_ [_ [_ [E|[hash [h E]]]]]]]]; rewrite E; eauto.
Qed.

Lemma tprog_notify th : tprog (notify_thread th) = tprog th.
Proof. unfold notify_thread, tprog. destruct (rt_st th) eqn:E; cbn; rewrite ?E; reflexivity. Qed.

Lemma kind_eqb_refl k : kind_eqb k k = true.
Proof. destruct k; reflexivity. Qed.

Lemma Kinv_step c j c' : Kinv c -> rstep c j = Some c' -> Kinv c'.
Proof.
  intros [HK HR] Hs. destruct (rstep_inv _ _ _ Hs) as [th [Hn Hrel]].
  assert (Hother : forall i, i <> j -> calls_rev i (rc_log c') = calls_rev i (rc_log c)).
  { intros i Hi. destruct (srel_log _ _ _ _ Hrel) as [->|[e ->]]; [reflexivity|]. cbn.
    rewrite (proj2 (Nat.eqb_neq i j) Hi). reflexivity. }
  assert (Hself : (forall th' p, nth_error (rc_threads c') j = Some th' -> tprog th' = Some p ->
                                 kd (owed (calls_rev j (rc_log c'))) p) /\
                  retry_ok_rev (calls_rev j (rc_log c')) = true).
  { specialize (HR j).
    assert (HKp : forall p, tprog th = Some p -> kd (owed (calls_rev j (rc_log c))) p) by (intros p0 Hp0; exact (HK j th p0 Hn Hp0)).
    unfold tprog in HKp.
    assert (Hset : forall (l : list rthread) x y, nth_error l j = Some y -> nth_error (set_nth l j x) j = Some x)
      by (intros; eapply nth_error_set_nth_eq; eauto).
    destruct Hrel;
      match goal with Hst : rt_st th = _ |- _ => rewrite Hst in HKp; specialize (HKp _ eq_refl); cbn [kd] in HKp end;
      cbn [rc_threads rc_log add_log put_thread set_threads set_tower set_flag set_rpc_or set_lkb rdie calls_rev];
      rewrite ?Nat.eqb_refl.
    all: try match goal with H0 : fetch_step _ _ _ = _ |- _ =>
           destruct (fetch_step_frame _ _ _ _ _ H0) as [Eth [_ [_ [_ [_ [El|[hash [h El]]]]]]]]; rewrite Eth, El;
           cbn [calls_rev]; rewrite ?Nat.eqb_refl end.
    all: (split; [intros th' p' Hn' Hp';
                  first [ erewrite Hset in Hn' by eassumption
                        | erewrite Hset in Hn' by (rewrite nth_error_map, Hn; reflexivity) ];
                  inversion Hn'; subst th'; cbn in Hp'; try discriminate; inversion Hp'; subst p' | ]).
    all: cbn [retry_ok_rev owed same_call]; try assumption; try apply HKp.
    (* transport error *)
    - destruct HKp as [kk [Ho [Hk [_ Herr]]]]. rewrite (Hk _ _ _ _ H0 H1). exact Herr.
    - destruct HKp as [kk [Ho [Hk [_ Herr]]]]. rewrite HR, andb_true_r.
      destruct (owed (calls_rev j (rc_log c))) as [[k0 tx0]|] eqn:Eo; [|reflexivity].
      subst kk. specialize (Hk _ _ _ _ H0 H1). inversion Hk; subst. cbn. rewrite kind_eqb_refl, N.eqb_refl. reflexivity.
    (* verdict *)
    - destruct HKp as [kk [Ho [Hk [Hv _]]]]. apply Hv.
    - destruct HKp as [kk [Ho [Hk [_ Herr]]]]. rewrite HR, andb_true_r.
      destruct (owed (calls_rev j (rc_log c))) as [[k0 tx0]|] eqn:Eo; [|reflexivity].
      subst kk. specialize (Hk _ _ _ _ H0 H1). inversion Hk; subst. cbn. rewrite kind_eqb_refl, N.eqb_refl. reflexivity.
    (* memo *)
    - destruct HKp as [kk [Ho [Hk [Hv _]]]]. apply Hv.
    - rewrite HR, andb_true_r. destruct (owed (calls_rev j (rc_log c))) as [[k0 tx0]|]; reflexivity. }
  split.
  - intros i th' p Hn' Hp. destruct (Nat.eq_dec i j) as [->|Hi]; [apply (proj1 Hself th' p Hn' Hp)|].
    rewrite (Hother i Hi). destruct (srel_other _ _ _ _ i Hrel Hi) as [E|[_ E]]; rewrite E in Hn'.
    + eapply HK; eauto.
    + destruct (nth_error (rc_threads c) i) as [th0|] eqn:E0; [|discriminate]. cbn in Hn'. inversion Hn'; subst th'.
      rewrite tprog_notify in Hp. eapply HK; eauto.
  - intros i. destruct (Nat.eq_dec i j) as [->|Hi]; [apply Hself|]. rewrite (Hother i Hi). apply HR.
Qed.

(* In every execution (any schedule, any oracle), for every thread: a request that hit a transport error
   is followed - if the thread makes another Carrier call at all - by a request of the same kind for
   the same transaction. *)
Theorem same_transaction_retried c sched i :
  keyed_conf c -> rc_log c = [] ->
  retry_ok (calls_of i (rc_log (rrun_config c sched))) = true.
Proof.
  intros Hk Hl. unfold retry_ok, calls_of. rewrite rev_involutive.
  assert (H : Kinv (rrun_config c sched)).
  { apply rrun_inv; [intros; eapply Kinv_step; eauto|]. split.
    - intros j th p Hn Hp. rewrite Hl. cbn. eapply Hk; eauto.
    - intros j. rewrite Hl. reflexivity. }
  apply H.
Qed.

(* A transport error is never treated as a verdict: the step in which a request gets no answer changes
   neither the memo nor a table nor anything else of the tower, and the thread goes on with the retry branch. *)
Theorem transport_error_produces_nothing c j c' k tx :
  rstep c j = Some c' -> rc_log c' = (j, EvRpc k tx CallErr) :: rc_log c ->
  rc_tower c' = rc_tower c /\ rc_flag c' = rc_flag c /\
  exists th B f (kont : ans B -> rprog rout), nth_error (rc_threads c) j = Some th /\ rt_st th = RRun (RRpc B f kont) /\
    nth_error (rc_threads c') j = Some (mk_rthread (RRun (kont TransportErr)) (rt_held th)).
Proof.
  intros Hs Hl. destruct (rstep_inv _ _ _ Hs) as [th [Hn Hrel]].
  destruct Hrel; cbn in Hl; try (exfalso; apply (f_equal (@length _)) in Hl; cbn in Hl; lia); try discriminate.
  - repeat split; try reflexivity. exists th, B, f, k0. repeat split; try assumption.
    cbn. eapply nth_error_set_nth_eq; eauto.
  - destruct (fetch_step_frame _ _ _ _ _ H0) as [_ [_ [_ [_ [_ [E|[hash [h E]]]]]]]]; rewrite E in Hl;
      [exfalso; apply (f_equal (@length _)) in Hl; cbn in Hl; lia|discriminate].
Qed.

(* ---- the thread programs of the tower are keyed ---- *)

Definition stable {B} (f : tower -> res B) : Prop := exists kk, has_key kk f.

(* every Carrier call of a ConcTower program (`reach_p ;;; act f`) puts requests of one fixed key on the wire *)
Fixpoint cpall {A} (p : prog A) : Prop :=
  match p with
  | Ret _ => True
  | Acq l k => (if N.eqb l L_reach then match k with Rel _ (Act B f _) => stable f | _ => False end else True) /\ cpall k
  | Rel _ k => cpall k
  | Act B f k => forall b, cpall (k b)
  end.

Lemma kd_carrier_retry {A B} kk (f : tower -> res B) (K : B -> rprog A) :
  has_key kk f -> (forall b, kd None (K b)) -> forall n, kd (Some kk) (carrier_retry n f K).
Proof.
  intros Hk HK. induction n as [|n IH]; cbn; [exact I|].
  exists kk. repeat split; auto.
Qed.

Lemma kd_embedk {A C} fuel (p : prog A) : forall (K : A -> rprog C),
  cpall p -> (forall a, kd None (K a)) -> kd None (embedk fuel p K).
Proof.
  induction p as [a|l k IH|l k IH|B f k IH]; intros K Hc HK; cbn [embedk].
  - apply HK.
  - destruct Hc as [Hs Hc]. specialize (IH K Hc HK). destruct (N.eqb l L_reach); [|exact IH].
    destruct k as [a|l' k'|l' k'|B f k']; try exact IH.
    destruct k' as [a|l'' k''|l'' k''|B f k'']; try exact IH.
    cbn [embedk kd] in IH. destruct Hs as [kk Hk]. cbn. exists kk. repeat split; auto.
    apply kd_carrier_retry; auto.
  - apply IH; auto.
  - cbn. intros b. apply IH; auto.
Qed.

Lemma issued_same t : issued t t = None.
Proof. unfold issued. rewrite Nat.ltb_irrefl. reflexivity. Qed.

Lemma has_key_send sc tx : has_key (K_send, tx) (send_act sc tx).
Proof.
  intros t b t' e Hf Hi. unfold send_act, send_transaction in Hf.
  destruct (aget (car_memo t) tx); inversion Hf; subst; [rewrite issued_same in Hi; discriminate|].
  unfold issued in Hi. cbn in Hi. match type of Hi with (if ?b then _ else _) = _ => destruct b end; inversion Hi; subst; reflexivity.
Qed.

Lemma has_key_mempool sc p : has_key (K_getraw, p) (ask_mempool sc p).
Proof.
  intros t b t' e Hf Hi. unfold ask_mempool, in_mempool in Hf. inversion Hf; subst.
  unfold issued in Hi. cbn in Hi. match type of Hi with (if ?b then _ else _) = _ => destruct b end; inversion Hi; subst; reflexivity.
Qed.

Lemma cpall_bind {A C} (p : prog A) (g : A -> prog C) :
  cpall p -> (forall a, cpall (g a)) -> cpall (pbind p g).
Proof.
  induction p as [a|l k IH|l k IH|B f k IH]; intros Hp Hg; cbn [pbind cpall] in *; auto.
  destruct Hp as [Hs Hc]. split; [|apply IH; auto].
  destruct (N.eqb l L_reach); [|exact I].
  destruct k as [a|l' k'|l' k'|B f k']; try contradiction.
  destruct k' as [a|l'' k''|l'' k''|B f k'']; try contradiction. exact Hs.
Qed.

Ltac cloop_hook := fail.

Ltac cwalk_step :=
  match goal with
  | |- True => exact I
  | |- (if N.eqb ?a ?b then _ else _) => let v := eval vm_compute in (N.eqb a b) in change (N.eqb a b) with v; cbv iota
  | |- _ /\ _ => split
  | |- forall _, _ => intro
  | |- stable (send_act ?sc ?tx) => exists (K_send, tx); apply has_key_send
  | |- stable (ask_mempool ?sc ?p) => exists (K_getraw, p); apply has_key_mempool
  | |- cpall (match ?x with _ => _ end) => destruct x
  | |- cpall (if ?x then _ else _) => destruct x
  | |- cpall (pbind _ _) => apply cpall_bind
  | |- _ => cloop_hook
  end.

Ltac cwalk :=
  repeat (cbn [cpall pbind acq rel act rd wr panic reach_p add_update_user_p charge_p delete_apps_p authenticate_p expired_p
                 gk_connect_p gk_disconnect_p send_p handle_breach_p reorged_p stale_p r_connect_p r_disconnect_p
                 store_appointment_p store_triggered_p cache_section_p has_tracker_p add_pre_p add_finish add_appointment_p
                 get_appointment_p get_subscription_info_p w_cache_p w_rest_p w_connect_p w_disconnect_p op_body
                 N.eqb Pos.eqb L_reach L_cache L_carrier L_txindex L_reorged L_users L_db];
          try cwalk_step).

Lemma cp_handle_breach sc uuid d p : cpall (handle_breach_p sc uuid d p).
Proof. cwalk. Qed.

Lemma cp_breach_uuid_loop sc d us : forall inv, cpall (breach_uuid_loop_p sc d us inv).
Proof. induction us as [|uuid us IH]; intros inv; cbn [breach_uuid_loop_p]; [exact I|]. cwalk; apply IH. Qed.

Lemma cp_breach_loop sc ds : forall inv, cpall (breach_loop_p sc ds inv).
Proof.
  induction ds as [|d ds IH]; intros inv; cbn [breach_loop_p]; [exact I|]. cwalk; [apply cp_breach_uuid_loop|apply IH].
Qed.

Lemma cp_reorged_loop sc h us : forall rej, cpall (reorged_loop_p sc h us rej).
Proof. induction us as [|uuid us IH]; intros rej; cbn [reorged_loop_p]; [exact I|]. cwalk; apply IH. Qed.

Lemma cp_stale_loop sc h us : forall rej, cpall (stale_loop_p sc h us rej).
Proof. induction us as [|uuid us IH]; intros rej; cbn [stale_loop_p]; [exact I|]. cwalk; apply IH. Qed.

Ltac cloop_hook ::=
  first [ apply cp_reorged_loop | apply cp_stale_loop | apply cp_breach_loop | apply cp_breach_uuid_loop ].

Lemma cp_op_body sc o : cpall (op_body sc o).
Proof.
  destruct o; unfold op_body, add_appointment_p, add_pre_p, add_finish, get_appointment_p, get_subscription_info_p, authenticate_p; cwalk.
  unfold store_triggered_p; cwalk.
Qed.

Lemma cp_connect le sc hash txs h : cpall (connect_p le sc hash txs h).
Proof.
  unfold connect_p. change Consts.LISTENER_ORDER with [0%Z; 1%Z; 2%Z].
  cbn [run_listeners_p listener_connected_p Z.eqb]. cwalk.
Qed.

(* every thread program of the tower is keyed *)
Lemma kd_api sc fuel o : kd None (api_p sc fuel o).
Proof. cbn. intros [|]; [|exact I]. apply kd_embedk; [apply cp_op_body|intros; exact I]. Qed.

Lemma kd_poll_loop le sc fuel pfuel : forall first got k, kd None k -> kd None (poll_loop le sc fuel pfuel first got k).
Proof.
  induction pfuel as [|n IH]; intros first got k Hk; cbn [poll_loop kd]; [exact I|].
  intros [|hash txs h| | | |]; try exact Hk.
  - unfold poll_ok_p. destruct (got && Bootstrap.POLL_PERSISTS_BETTER_TIP); cbn; exact Hk.
  - apply kd_embedk; [apply cp_connect|]. intros _. apply IH. exact Hk.
Qed.

Lemma kd_monitor le sc fuel pfuel polls : kd None (monitor_p le sc fuel pfuel polls).
Proof. induction polls as [|n IH]; cbn [monitor_p]; [exact I|]. apply kd_poll_loop. exact IH. Qed.

Lemma kd_thread le sc fuel pfuel s : kd None (thread_p le sc fuel pfuel s).
Proof. destruct s; [apply kd_api|apply kd_monitor]. Qed.

Theorem same_transaction_retried_tower le sc fuel pfuel specs t flag pending h rpc_or fetch_or sched i :
  retry_ok (calls_of i (rc_log (rrun_config
     (rinit t flag (map (thread_p le sc fuel pfuel) specs) pending h rpc_or fetch_or) sched))) = true.
Proof.
  apply same_transaction_retried; [|reflexivity].
  intros j th p Hn Hp. cbn [rinit rc_threads] in Hn. apply nth_error_In in Hn. rewrite map_map in Hn.
  apply in_map_iff in Hn. destruct Hn as [s [<- _]]. cbn in Hp. inversion Hp; subst. apply kd_thread.
Qed.

(* ------------------------------------------------------------------------------------------ *)
(* 4. predicates on programs that every step preserves *)

Definition closed (P : rprog rout -> Prop) : Prop :=
  (forall l k, P (RAcq l k) -> P k) /\ (forall l k, P (RRel l k) -> P k) /\
  (forall B f k, P (RAct B f k) -> forall b, P (k b)) /\ (forall B f k, P (RRpc B f k) -> forall a, P (k a)) /\
  (forall k, P (RReadFlag k) -> forall b, P (k b)) /\ (forall b k, P (RSetFlag b k) -> P k) /\
  (forall k, P (RWait k) -> P k) /\ (forall k, P (RNotify k) -> P k) /\
  (forall f k, P (RFetch f k) -> forall r, P (k r)) /\ (forall k, P (RPersist k) -> P k).

Lemma srel_closed P c j th c' p : closed P -> nth_error (rc_threads c) j = Some th -> srel c j th c' ->
  tprog th = Some p -> P p -> forall th' p', nth_error (rc_threads c') j = Some th' -> tprog th' = Some p' -> P p'.
Proof.
  intros [C1 [C2 [C3 [C4 [C5 [C6 [C7 [C8 [C9 C10]]]]]]]]] Hn Hrel Hp HP th' p' Hn' Hp'.
  assert (Hset : forall (l : list rthread) x y, nth_error l j = Some y -> nth_error (set_nth l j x) j = Some x)
    by (intros; eapply nth_error_set_nth_eq; eauto).
  unfold tprog in Hp.
  destruct Hrel;
    match goal with Hst : rt_st th = _ |- _ => rewrite Hst in Hp; inversion Hp; subst p; clear Hp end;
    cbn [rc_threads add_log put_thread set_threads set_tower set_flag set_rpc_or set_lkb rdie] in Hn'.
  all: try match goal with H0 : fetch_step _ _ _ = _ |- _ =>
         destruct (fetch_step_frame _ _ _ _ _ H0) as [Eth _]; rewrite Eth in Hn' end.
  all: first [ erewrite Hset in Hn' by eassumption
             | erewrite Hset in Hn' by (rewrite nth_error_map, Hn; reflexivity) ];
       inversion Hn'; subst th'; cbn in Hp'; try discriminate; inversion Hp'; subst p'; eauto.
Qed.

(* a program that never notifies and never sets the flag to true (every thread but the chain monitor) *)
Fixpoint no_wake {A} (p : rprog A) : Prop :=
  match p with
  | RRet _ | RExhausted => True
  | RAcq _ k | RRel _ k | RWait k | RPersist k => no_wake k
  | RSetFlag b k => b = false /\ no_wake k
  | RNotify _ => False
  | RAct B f k => forall b, no_wake (k b)
  | RRpc B f k => forall a, no_wake (k a)
  | RReadFlag k => forall b, no_wake (k b)
  | RFetch _ k => forall r, no_wake (k r)
  end.

Lemma no_wake_closed : closed no_wake.
Proof. unfold closed; repeat split; cbn; intros; tauto || auto. Qed.

Lemma no_wake_retry {A B} (f : tower -> res B) (K : B -> rprog A) :
  (forall b, no_wake (K b)) -> forall n, no_wake (carrier_retry n f K).
Proof. intros HK. induction n as [|n IH]; cbn; [exact I|]. split; [reflexivity|]. intros [b|]; auto. Qed.

Lemma no_wake_embedk {A C} fuel (p : prog A) : forall (K : A -> rprog C),
  (forall a, no_wake (K a)) -> no_wake (embedk fuel p K).
Proof.
  induction p as [a|l k IH|l k IH|B f k IH]; intros K HK; cbn [embedk]; auto.
  - specialize (IH K HK). destruct (N.eqb l L_reach); [|exact IH].
    destruct k as [a|l' k'|l' k'|B f k']; try exact IH.
    destruct k' as [a|l'' k''|l'' k''|B f k'']; try exact IH.
    cbn [embedk no_wake] in IH. cbn. intros [b|]; [apply IH|]. apply no_wake_retry. exact IH.
  - cbn. apply IH. exact HK.
  - cbn. intros b. apply IH. exact HK.
Qed.

Lemma no_wake_api sc fuel o : no_wake (api_p sc fuel o).
Proof. cbn. intros [|]; [|exact I]. apply no_wake_embedk. intros; exact I. Qed.

Definition others_no_wake (c : rconf) (excl : list nat) : Prop :=
  forall x th p, ~ In x excl -> nth_error (rc_threads c) x = Some th -> tprog th = Some p -> no_wake p.

(* one step of a thread that cannot wake anybody: the flag is not raised, nobody else's thread record changes *)
Lemma no_wake_step c j c' th p :
  nth_error (rc_threads c) j = Some th -> tprog th = Some p -> no_wake p -> srel c j th c' ->
  (rc_flag c = false -> rc_flag c' = false) /\
  (forall x, x <> j -> nth_error (rc_threads c') x = nth_error (rc_threads c) x).
Proof.
  intros Hn Hp Hw Hrel. split.
  - unfold tprog in Hp. destruct Hrel; cbn; auto;
      try (match goal with H0 : fetch_step _ _ _ = _ |- _ =>
             destruct (fetch_step_frame _ _ _ _ _ H0) as [_ [_ [Ef _]]]; rewrite Ef; auto end).
    rewrite H in Hp. inversion Hp; subst p. cbn in Hw. destruct Hw as [-> _]. reflexivity.
  - intros x Hx. destruct (srel_other _ _ _ _ x Hrel Hx) as [E|[[k Ek] _]]; [exact E|].
    unfold tprog in Hp. rewrite Ek in Hp. inversion Hp; subst p. destruct Hw.
Qed.

(* ---- F5a: a thread waits for the notification, un-notified, with the flag false, and no other thread
   can notify: this holds in every continuation ---- *)
Lemma stuck_waiting_step c m j c' :
  stuck_waiting c m = true -> others_no_wake c [m] -> rstep c j = Some c' ->
  stuck_waiting c' m = true /\ others_no_wake c' [m].
Proof.
  unfold stuck_waiting. intros Hs Ho Hstep.
  apply andb_true_iff in Hs. destruct Hs as [Hf Hm]. apply negb_true_iff in Hf.
  destruct (nth_error (rc_threads c) m) as [tm|] eqn:Em; [|discriminate].
  destruct (rstep_inv _ _ _ Hstep) as [th [Hn Hrel]].
  assert (Hjm : j <> m).
  { intros ->. rewrite Em in Hn. inversion Hn; subst th. unfold waiting_unnotified in Hm.
    destruct Hrel; rewrite H in Hm; try discriminate. }
  assert (Hp : exists p, tprog th = Some p).
  { unfold tprog. destruct Hrel; rewrite H; eauto. }
  destruct Hp as [p Hp].
  assert (Hw : no_wake p) by (eapply Ho; eauto; intros [->|[]]; congruence).
  destruct (no_wake_step _ _ _ _ _ Hn Hp Hw Hrel) as [Hflag Hfr]. split.
  - rewrite (Hflag Hf). rewrite (Hfr m (not_eq_sym Hjm)), Em. exact Hm.
  - intros x th' p' Hx Hn' Hp'. destruct (Nat.eq_dec x j) as [->|Hxj].
    + exact (srel_closed no_wake c j th c' p no_wake_closed Hn Hrel Hp Hw th' p' Hn' Hp').
    + rewrite (Hfr x Hxj) in Hn'. eapply Ho; eauto.
Qed.

Theorem waiting_monitor_is_stuck_forever c m sched :
  stuck_waiting c m = true -> others_no_wake c [m] -> stuck_waiting (rrun_config c sched) m = true.
Proof.
  intros Hs Ho.
  apply (rrun_inv (fun c => stuck_waiting c m = true /\ others_no_wake c [m])); [|split; assumption].
  intros c0 i c1 [H1 H2] Hst. eapply stuck_waiting_step; eauto.
Qed.

(* ---- F5b: thread m asks for a lock that thread a keeps while it waits, un-notified, for the flag; no
   third thread can notify: this holds in every continuation ---- *)
Lemma stuck_on_lock_step c m a l j c' :
  m <> a -> stuck_on_lock c m a l = true -> others_no_wake c [m; a] -> rstep c j = Some c' ->
  stuck_on_lock c' m a l = true /\ others_no_wake c' [m; a].
Proof.
  unfold stuck_on_lock. intros Hma Hs Ho Hstep.
  apply andb_true_iff in Hs. destruct Hs as [Hf Hs]. apply negb_true_iff in Hf.
  destruct (nth_error (rc_threads c) m) as [tm|] eqn:Em; [|discriminate].
  destruct (nth_error (rc_threads c) a) as [ta|] eqn:Ea; [|discriminate].
  apply andb_true_iff in Hs. destruct Hs as [Hs Hheld]. apply andb_true_iff in Hs. destruct Hs as [Hwant Hwait].
  destruct (rstep_inv _ _ _ Hstep) as [th [Hn Hrel]].
  assert (Hja : j <> a).
  { intros ->. rewrite Ea in Hn. inversion Hn; subst th. unfold waiting_unnotified in Hwait.
    destruct Hrel; rewrite H in Hwait; try discriminate. }
  assert (Hjm : j <> m).
  { intros ->. rewrite Em in Hn. inversion Hn; subst th. unfold wants in Hwant.
    destruct Hrel; rewrite H in Hwant; try discriminate.
    apply N.eqb_eq in Hwant. subst l0.
    assert (r_is_held c l = true); [|congruence].
    unfold r_is_held. apply existsb_exists. exists ta. split; [eapply nth_error_In; eauto|exact Hheld]. }
  assert (Hp : exists p, tprog th = Some p).
  { unfold tprog. destruct Hrel; rewrite H; eauto. }
  destruct Hp as [p Hp].
  assert (Hw : no_wake p) by (eapply Ho; eauto; intros [->|[->|[]]]; congruence).
  destruct (no_wake_step _ _ _ _ _ Hn Hp Hw Hrel) as [Hflag Hfr]. split.
  - rewrite (Hflag Hf). rewrite (Hfr m (not_eq_sym Hjm)), Em, (Hfr a (not_eq_sym Hja)), Ea.
    rewrite Hwant, Hwait, Hheld. reflexivity.
  - intros x th' p' Hx Hn' Hp'. destruct (Nat.eq_dec x j) as [->|Hxj].
    + exact (srel_closed no_wake c j th c' p no_wake_closed Hn Hrel Hp Hw th' p' Hn' Hp').
    + rewrite (Hfr x Hxj) in Hn'. eapply Ho; eauto.
Qed.

Theorem monitor_blocked_on_waiters_lock_is_stuck_forever c m a l sched :
  m <> a -> stuck_on_lock c m a l = true -> others_no_wake c [m; a] ->
  stuck_on_lock (rrun_config c sched) m a l = true.
Proof.
  intros Hma Hs Ho.
  apply (rrun_inv (fun c => stuck_on_lock c m a l = true /\ others_no_wake c [m; a])); [|split; assumption].
  intros c0 i c1 [H1 H2] Hst. eapply stuck_on_lock_step; eauto.
Qed.

(* API workers started in any reachable configuration cannot wake anybody *)
Lemma others_no_wake_run c excl sched :
  (forall x th p, nth_error (rc_threads c) x = Some th -> tprog th = Some p -> no_wake p \/ In x excl) ->
  forall x th p, nth_error (rc_threads (rrun_config c sched)) x = Some th -> tprog th = Some p -> no_wake p \/ In x excl.
Proof.
  intros H0.
  apply (rrun_inv (fun c => forall x th p, nth_error (rc_threads c) x = Some th -> tprog th = Some p -> no_wake p \/ In x excl));
    [|exact H0].
  clear c H0. intros c j c' H Hstep x th' p' Hn' Hp'.
  destruct (in_dec Nat.eq_dec x excl) as [Hin|Hnin]; [right; exact Hin|left].
  destruct (rstep_inv _ _ _ Hstep) as [th [Hn Hrel]].
  destruct (Nat.eq_dec x j) as [->|Hxj].
  - assert (Hp : exists p, tprog th = Some p) by (unfold tprog; destruct Hrel; rewrite H0; eauto).
    destruct Hp as [p Hp]. destruct (H j th p Hn Hp) as [Hw|Hin]; [|contradiction].
    exact (srel_closed no_wake c j th c' p no_wake_closed Hn Hrel Hp Hw th' p' Hn' Hp').
  - destruct (srel_other _ _ _ _ x Hrel Hxj) as [E|[_ E]]; rewrite E in Hn'.
    + destruct (H x th' p' Hn' Hp') as [Hw|Hin]; [exact Hw|contradiction].
    + destruct (nth_error (rc_threads c) x) as [th0|] eqn:E0; [|discriminate]. cbn in Hn'. inversion Hn'; subst th'.
      rewrite tprog_notify in Hp'. destruct (H x th0 p' E0 Hp') as [Hw|Hin]; [exact Hw|contradiction].
Qed.

(* the two findings for a tower: the chain monitor is thread 0, all other threads serve API requests *)
Definition tower_conf le sc fuel pfuel t flag polls (ops : list op) pending h ro fo : rconf :=
  rinit t flag (map (thread_p le sc fuel pfuel) (TMonitor polls :: map TApi ops)) pending h ro fo.

Lemma tower_conf_others le sc fuel pfuel t flag polls ops pending h ro fo sched :
  forall x th p, nth_error (rc_threads (rrun_config (tower_conf le sc fuel pfuel t flag polls ops pending h ro fo) sched)) x = Some th ->
                 tprog th = Some p -> no_wake p \/ In x [0%nat].
Proof.
  apply others_no_wake_run. intros x th p Hn Hp. destruct x as [|x]; [right; left; reflexivity|left].
  cbn in Hn. apply nth_error_In in Hn. rewrite !map_map in Hn. apply in_map_iff in Hn. destruct Hn as [o [<- _]].
  cbn in Hp. inversion Hp; subst. apply no_wake_api.
Qed.

Theorem block_path_stuck le sc fuel pfuel t flag polls ops pending h ro fo w :
  let c0 := tower_conf le sc fuel pfuel t flag polls ops pending h ro fo in
  stuck_waiting (rrun_config c0 w) 0 = true ->
  forall sched, stuck_waiting (rrun_config c0 (w ++ sched)) 0 = true.
Proof.
  intros c0 Hs sched. rewrite rrun_app. apply waiting_monitor_is_stuck_forever; [exact Hs|].
  intros x th p Hx Hn Hp. destruct (tower_conf_others le sc fuel pfuel t flag polls ops pending h ro fo w x th p Hn Hp) as [H|H]; [exact H|contradiction].
Qed.

Theorem request_path_stuck le sc fuel pfuel t flag polls ops pending h ro fo w a l :
  let c0 := tower_conf le sc fuel pfuel t flag polls ops pending h ro fo in
  a <> 0%nat -> stuck_on_lock (rrun_config c0 w) 0 a l = true ->
  forall sched, stuck_on_lock (rrun_config c0 (w ++ sched)) 0 a l = true.
Proof.
  intros c0 Ha Hs sched. rewrite rrun_app. apply monitor_blocked_on_waiters_lock_is_stuck_forever; [congruence|exact Hs|].
  intros x th p Hx Hn Hp. destruct (tower_conf_others le sc fuel pfuel t flag polls ops pending h ro fo w x th p Hn Hp) as [H|[H|[]]]; [exact H|].
  exfalso. apply Hx. left. exact H.
Qed.

(* ------------------------------------------------------------------------------------------ *)
(* 5. partial progress of a poll is kept: every block of the node is handed to the listeners exactly
   once and in order, whatever fails when, for all schedules / oracles / thread sets *)

(* generated from chain_monitor.rs: monitor_chain awaits poll_best_tip() itself, so no poll is ever cancelled *)
Lemma stall_never_cancels : stall_cancels = false.
Proof. unfold stall_cancels. rewrite (eq_refl : Bootstrap.MONITOR_LOOP_POLLS_TO_COMPLETION = true). reflexivity. Qed.

Definition chain_view (c : rconf) : list N := delivered (rc_log c) ++ map fst (rc_pending c).

Lemma fetch_step_chain c i first r c1 : fetch_step c i first = (r, c1) -> chain_view c1 = chain_view c.
Proof.
  unfold fetch_step, next_fetch, chain_view, delivered. rewrite stall_never_cancels. intros H.
  destruct (rc_fetch_or c) as [|a rest]; [|destruct a]; cbn in H;
    try (destruct first); try (destruct (rc_pending c) as [|[hash txs] pend] eqn:Ep);
    inversion H; subst; cbn; rewrite ?Ep; cbn; rewrite <- ?app_assoc; reflexivity.
Qed.

Lemma chain_view_step c j c' : rstep c j = Some c' -> chain_view c' = chain_view c.
Proof.
  intros Hs. destruct (rstep_inv _ _ _ Hs) as [th [Hn Hrel]].
  destruct Hrel; try reflexivity.
  unfold chain_view, delivered in *. cbn. apply (fetch_step_chain _ _ _ _ _ H0).
Qed.

Theorem partial_poll_progress_kept c sched : chain_view (rrun_config c sched) = chain_view c.
Proof. apply (rrun_inv (fun c' => chain_view c' = chain_view c)); [|reflexivity]. intros c0 i c1 H Hs. rewrite (chain_view_step _ _ _ Hs). exact H. Qed.

(* ------------------------------------------------------------------------------------------ *)
(* 6. the request path recovers: an API thread waits (its request hit the outage), the monitor is about to
   poll, the node has no new block and answers again *)

Fixpoint calm (p : rprog rout) : Prop :=
  match p with
  | RRet _ | RExhausted => True
  | RAcq _ k | RRel _ k | RWait k => calm k
  | RAct B f k => forall b, calm (k b)
  | RRpc B f k => forall b, calm (k (Verdict b))
  | RSetFlag _ _ | RNotify _ | RReadFlag _ | RFetch _ _ | RPersist _ => False
  end.

Lemma calm_embedk {A} fuel (p : prog A) : forall (K : A -> rprog rout), (forall a, calm (K a)) -> calm (embedk fuel p K).
Proof.
  induction p as [a|l k IH|l k IH|B f k IH]; intros K HK; cbn [embedk].
  - apply HK.
  - specialize (IH K HK). destruct (N.eqb l L_reach); [|exact IH].
    destruct k as [a|l' k'|l' k'|B f k']; try exact IH.
    destruct k' as [a|l'' k''|l'' k''|B f k'']; exact IH.
  - cbn. apply IH. exact HK.
  - cbn. intros b. apply IH. exact HK.
Qed.

(* the fault-free run of an embedded ConcTower program is ConcTower's `exec` (hence Tower.step, by exec_is_step) *)
Lemma rsolo_embedk {A} fuel (p : prog A) : forall (K : A -> rprog rout) t,
  rsolo (embedk fuel p K) t = match exec p t with Ok a t' => rsolo (K a) t' | Abort s t' => (t', RAbort s) end.
Proof.
  induction p as [a|l k IH|l k IH|B f k IH]; intros K t; cbn [embedk exec].
  - reflexivity.
  - specialize (IH K t). destruct (N.eqb l L_reach); [|exact IH].
    destruct k as [a|l' k'|l' k'|B f k']; try exact IH.
    destruct k' as [a|l'' k''|l'' k''|B f k'']; exact IH.
  - cbn. apply IH.
  - cbn. destruct (f t) as [b t'|s t']; [apply IH|reflexivity].
Qed.

Section Recover.
  Context (le : bool) (sc : script) (fuel pf : nat) (r0 : rout).
  Context (pa0 : rprog rout) (held_a : list lock) (t0 : tower).
  Context (Hcalm : calm pa0) (Hheld : memN L_reach held_a = false).

  Let kret : rprog rout := RRet r0.
  Let ta0 : rthread := mk_rthread (RParked false pa0) held_a.
  Let T : tower := fst (rsolo pa0 t0).
  Let R : rres := snd (rsolo pa0 t0).

  Definition a_ok (ta : rthread) (t : tower) : Prop :=
    match rt_st ta with
    | RParked true p | RRun p => calm p /\ rsolo p t = (T, R)
    | RParked false _ => False
    | REnd r => t = T /\ r = R
    end.

  Inductive rinv (c : rconf) : Prop :=
  | RI0 : rc_rpc_or c = [] -> rc_tower c = t0 -> rc_pending c = [] -> hd F_ok (rc_fetch_or c) = F_ok ->
          rc_threads c = [mk_rthread (RRun (poll_p le sc fuel (S pf) kret)) []; ta0] -> rinv c
  | RI1 : rc_rpc_or c = [] -> rc_tower c = t0 ->
          rc_threads c = [mk_rthread (RRun (RAcq L_reach (RSetFlag true (RRel L_reach (RNotify kret))))) []; ta0] -> rinv c
  | RI2 : rc_rpc_or c = [] -> rc_tower c = t0 ->
          rc_threads c = [mk_rthread (RRun (RSetFlag true (RRel L_reach (RNotify kret)))) [L_reach]; ta0] -> rinv c
  | RI3 : rc_rpc_or c = [] -> rc_tower c = t0 -> rc_flag c = true ->
          rc_threads c = [mk_rthread (RRun (RRel L_reach (RNotify kret))) [L_reach]; ta0] -> rinv c
  | RI4 : rc_rpc_or c = [] -> rc_tower c = t0 -> rc_flag c = true ->
          rc_threads c = [mk_rthread (RRun (RNotify kret)) []; ta0] -> rinv c
  | RI5 ta : rc_rpc_or c = [] -> rc_flag c = true -> a_ok ta (rc_tower c) ->
          rc_threads c = [mk_rthread (RRun kret) []; ta] -> rinv c.

  Lemma fetch_done c i first r c1 :
    rc_pending c = [] -> hd F_ok (rc_fetch_or c) = F_ok -> fetch_step c i first = (r, c1) ->
    r = FetchDone /\ rc_threads c1 = rc_threads c /\ rc_tower c1 = rc_tower c /\ rc_rpc_or c1 = rc_rpc_or c.
  Proof.
    unfold fetch_step, next_fetch. intros Hp Ho H.
    destruct (rc_fetch_or c) as [|a rest]; cbn in Ho; [|subst a]; cbn in H; rewrite Hp in H; inversion H; subst; cbn; auto.
  Qed.

  Lemma rinv_step c j c' : rinv c -> rstep c j = Some c' -> rinv c'.
  Proof.
    intros Hi Hs. destruct Hi as [Ho Ht Hp Hf Eth|Ho Ht Eth|Ho Ht Eth|Ho Ht Hfl Eth|Ho Ht Hfl Eth|ta Ho Hfl Ha Eth].
    1-5: destruct j as [|[|j]]; [| |unfold rstep in Hs; rewrite Eth in Hs; destruct j; cbn in Hs; discriminate];
         unfold rstep in Hs; rewrite Eth in Hs; cbn in Hs; try discriminate.
    - (* the poll finds nothing new *)
      destruct (fetch_step c 0 true) as [r c1] eqn:Ef. destruct (fetch_done _ _ _ _ _ Hp Hf Ef) as [-> [E1 [E2 E3]]].
      inversion Hs; subst c'. apply RI1; cbn; try congruence. rewrite E1, Eth. reflexivity.
    - destruct (r_is_held c L_reach); [discriminate|]. inversion Hs; subst c'. apply RI2; cbn; try congruence. rewrite Eth. reflexivity.
    - inversion Hs; subst c'. apply RI3; cbn; try congruence. rewrite Eth. reflexivity.
    - inversion Hs; subst c'. apply RI4; cbn; try congruence. rewrite Eth. reflexivity.
    - (* notify_all *)
      inversion Hs; subst c'. apply (RI5 _ (mk_rthread (RParked true pa0) held_a)); cbn; try congruence.
      split; [exact Hcalm|]. rewrite Ht. unfold T, R. destruct (rsolo pa0 t0); reflexivity.
    - (* the monitor has returned; the API thread runs *)
      destruct (rstep_inv _ _ _ Hs) as [th [Hn Hrel]]. rewrite Eth in Hn.
      destruct j as [|[|j]]; cbn in Hn; [| |destruct j; discriminate]; inversion Hn; try subst th; clear Hn.
      + destruct Hrel; cbn in H; discriminate.
      + unfold a_ok in Ha.
        destruct Hrel; rewrite H in Ha; cbn [calm rsolo] in Ha; try (exfalso; exact (proj1 Ha)); try destruct Ha as [Hc Hr];
          try (rewrite H0 in Hr);
          try (eapply RI5; [..|cbn; rewrite Eth; reflexivity]; cbn; try assumption; unfold a_ok; cbn; auto; fail).
        all: try (match goal with H : rc_rpc_or _ = true :: _ |- _ => rewrite Ho in H; discriminate end).
        all: try congruence.
        all: eapply RI5; [..|cbn; rewrite Eth; reflexivity]; cbn; rewrite ?Ho; try assumption; try reflexivity;
             unfold a_ok; cbn; try (inversion Hr; auto; fail); auto.
  Qed.

  Theorem request_path_recovers c sched :
    rinv c ->
    let c' := rrun_config c sched in
    exists tm ta, rc_threads c' = [tm; ta] /\
      (* the monitor has finished its poll -> the flag is up and the request is not waiting any more *)
      (rfinished tm = true -> rc_flag c' = true /\ waiting_unnotified ta = false) /\
      (* the request has returned -> state and answer are those of the run in which the node had answered at once *)
      (forall r, rresult ta = Some r -> rc_tower c' = T /\ r = R).
  Proof.
    intros Hi c'. assert (H : rinv c') by (apply rrun_inv; [intros; eapply rinv_step; eauto|exact Hi]).
    destruct H as [Ho Ht Hp Hf Eth|Ho Ht Eth|Ho Ht Eth|Ho Ht Hfl Eth|Ho Ht Hfl Eth|ta Ho Hfl Ha Eth];
      eexists; eexists; (split; [exact Eth|]); (split; [cbn; try discriminate|]); try (intros r Hr; cbn in Hr; discriminate).
    - intros _. split; [exact Hfl|]. unfold a_ok in Ha. unfold waiting_unnotified. destruct (rt_st ta) as [p|[|] p|r]; auto. destruct Ha.
    - intros r Hr. unfold a_ok in Ha. unfold rresult in Hr. destruct (rt_st ta) as [p|[|] p|r']; try discriminate.
      + destruct p; try discriminate. inversion Hr; subst r. cbn in Ha. destruct Ha as [_ Ha]. inversion Ha. auto.
      + inversion Hr; subst r'. exact Ha.
  Qed.
End Recover.

(* the waiting thread of the theorem above, when it is a thread of the tower: its program is the wait, then
   the interrupted Carrier call `f` again, then the rest `k` of ConcTower's program; it is calm, and its
   fault-free run is ConcTower's `exec` of `Act f k` (= the rest of Tower.step, by exec_is_step) *)
Lemma waiting_carrier_call {B} fuel n (f : tower -> res B) (k : B -> prog out) t :
  let K := fun b => embedk fuel (k b) (fun x => RRet (RO x)) in
  let pa0 := RWait (RRel L_reach (RRpc B f (fun a => match a with Verdict b => K b | TransportErr => carrier_retry n f K end))) in
  calm pa0 /\
  rsolo pa0 t = match exec (Act B f k) t with Ok o t' => (t', RDone (RO o)) | Abort s t' => (t', RAbort s) end.
Proof.
  cbn. split.
  - intros b. apply calm_embedk. intros; exact I.
  - destruct (f t) as [b t'|s t']; [|reflexivity]. rewrite rsolo_embedk. destruct (exec (k b) t'); reflexivity.
Qed.

(* ... and the heights handed to the listeners are consecutive from the SPV client's tip: no block twice, none skipped *)
Lemma consecutive_app h l x : consecutive h (l ++ [x]) = consecutive h l && N.eqb x (h + N.of_nat (length l) + 1).
Proof.
  revert h. induction l as [|y l IH]; intros h; cbn [List.app consecutive length].
  - rewrite N.add_0_r, andb_true_r. reflexivity.
  - rewrite IH. rewrite <- andb_assoc. f_equal. f_equal. f_equal. lia.
Qed.

Definition hinv (h0 : N) (c : rconf) : Prop :=
  consecutive h0 (delivered_heights (rc_log c)) = true /\ rc_height c = (h0 + N.of_nat (length (heights_rev (rc_log c))))%N.

Lemma fetch_step_hinv h0 c i first r c1 : hinv h0 c -> fetch_step c i first = (r, c1) -> hinv h0 c1.
Proof.
  unfold fetch_step, next_fetch, hinv, delivered_heights. rewrite stall_never_cancels. intros [H1 H2] H.
  destruct (rc_fetch_or c) as [|a rest]; [|destruct a]; cbn in H;
    try (destruct first); try (destruct (rc_pending c) as [|[hash txs] pend] eqn:Ep);
    inversion H; subst; cbn; rewrite ?Ep; cbn; try (split; assumption).
  all: rewrite consecutive_app, H1, rev_length, H2, N.eqb_refl; split; [reflexivity|lia].
Qed.

Lemma hinv_step h0 c j c' : hinv h0 c -> rstep c j = Some c' -> hinv h0 c'.
Proof.
  intros Hi Hs. destruct (rstep_inv _ _ _ Hs) as [th [Hn Hrel]].
  destruct Hrel; try exact Hi.
  unfold hinv, delivered_heights in *. cbn. apply (fetch_step_hinv _ _ _ _ _ _ Hi H0).
Qed.

Theorem delivered_heights_consecutive c sched :
  rc_log c = [] -> consecutive (rc_height c) (delivered_heights (rc_log (rrun_config c sched))) = true.
Proof.
  intros Hl. assert (H : hinv (rc_height c) (rrun_config c sched)); [|apply H].
  apply rrun_inv; [intros; eapply hinv_step; eauto|]. unfold hinv, delivered_heights. rewrite Hl. cbn. split; [reflexivity|lia].
Qed.
