(* ConcReachProofs.v — proofs about the thread-level reachability protocol (ConcReach.v), for all
   schedules and all oracles (C12). *)
From TeosModel Require Import Base TxIndex Tower ConcTower ConcTowerProofs ConcReach.
From TeosModel.Gen Require Consts Bootstrap.
From Coq Require Import Lia.

(* ------------------------------------------------------------------------------------------ *)
(* 1. one step, by cases *)

Inductive srel (c : rconf) (j : nat) (th : rthread) : rconf -> Prop :=
| S_wake p : rt_st th = RParked true p -> r_is_held c L_reach = false ->
    srel c j th (add_log (put_thread c j (RRun p) (L_reach :: rt_held th)) j EvWake)
| S_acq l k : rt_st th = RRun (RAcq l k) -> r_is_held c l = false ->
    srel c j th (add_log (put_thread c j (RRun k) (l :: rt_held th)) j (EvAcq l))
| S_rel l k : rt_st th = RRun (RRel l k) ->
    srel c j th (put_thread c j (RRun k) (remove_lock l (rt_held th)))
| S_act B f k b t' : rt_st th = RRun (RAct B f k) -> f (rc_tower c) = Ok b t' ->
    srel c j th (put_thread (set_tower c t') j (RRun (k b)) (rt_held th))
| S_act_abort B f k s t' : rt_st th = RRun (RAct B f k) -> f (rc_tower c) = Abort s t' ->
    srel c j th (rdie (set_tower c t') j (RAbort s))
| S_rpc_err B f k b t' e rest : rt_st th = RRun (RRpc B f k) -> f (rc_tower c) = Ok b t' ->
    issued (rc_tower c) t' = Some e -> rc_rpc_or c = true :: rest ->
    srel c j th (add_log (put_thread (set_rpc_or c rest) j (RRun (k TransportErr)) (rt_held th)) j
                         (EvRpc (r_kind e) (r_tx e) CallErr))
| S_rpc_ok B f k b t' e : rt_st th = RRun (RRpc B f k) -> f (rc_tower c) = Ok b t' ->
    issued (rc_tower c) t' = Some e -> hd false (rc_rpc_or c) = false ->
    srel c j th (add_log (put_thread (set_rpc_or (set_tower c t') (tl (rc_rpc_or c))) j (RRun (k (Verdict b))) (rt_held th)) j
                         (EvRpc (r_kind e) (r_tx e) (CallVerdict (r_res e))))
| S_rpc_memo B f k b t' : rt_st th = RRun (RRpc B f k) -> f (rc_tower c) = Ok b t' ->
    issued (rc_tower c) t' = None ->
    srel c j th (add_log (put_thread (set_tower c t') j (RRun (k (Verdict b))) (rt_held th)) j EvMemo)
| S_rpc_abort B f k s t' : rt_st th = RRun (RRpc B f k) -> f (rc_tower c) = Abort s t' ->
    srel c j th (rdie (set_tower c t') j (RAbort s))
| S_readflag k : rt_st th = RRun (RReadFlag k) ->
    srel c j th (put_thread c j (RRun (k (rc_flag c))) (rt_held th))
| S_setflag b k : rt_st th = RRun (RSetFlag b k) ->
    srel c j th (add_log (put_thread (set_flag c b) j (RRun k) (rt_held th)) j (EvFlag b))
| S_wait_pass k : rt_st th = RRun (RWait k) -> rc_flag c = true ->
    srel c j th (put_thread c j (RRun k) (rt_held th))
| S_wait_park k : rt_st th = RRun (RWait k) -> rc_flag c = false ->
    srel c j th (add_log (put_thread c j (RParked false (RWait k)) (remove_lock L_reach (rt_held th))) j
                         (EvWait (remove_lock L_reach (rt_held th))))
| S_notify k : rt_st th = RRun (RNotify k) ->
    srel c j th (add_log (put_thread (set_threads c (map notify_thread (rc_threads c))) j (RRun k) (rt_held th)) j EvNotify)
| S_fetch first k r c1 : rt_st th = RRun (RFetch first k) -> fetch_step c j first = (r, c1) ->
    srel c j th (put_thread c1 j (RRun (k r)) (rt_held th))
| S_persist k : rt_st th = RRun (RPersist k) ->
    srel c j th (add_log (put_thread (set_lkb c (rc_height c)) j (RRun k) (rt_held th)) j (EvPersist (rc_height c)))
| S_exhausted : rt_st th = RRun RExhausted -> srel c j th (rdie c j RExhaust).

Lemma rstep_inv c j c' : rstep c j = Some c' -> exists th, nth_error (rc_threads c) j = Some th /\ srel c j th c'.
Proof.
  unfold rstep. intros H. destruct (nth_error (rc_threads c) j) as [th|] eqn:En; [|discriminate].
  exists th. split; [reflexivity|]. destruct (rt_st th) as [p|n p|r] eqn:Es; [| |discriminate].
  - destruct p as [a|l k|l k|B f k|B f k|k|b k|k|k|first k|k|]; try discriminate.
    + destruct (r_is_held c l) eqn:Eh; [discriminate|]. inversion H; subst. eapply S_acq; eauto.
    + inversion H; subst. eapply S_rel; eauto.
    + destruct (f (rc_tower c)) as [b t'|s t'] eqn:Ef; inversion H; subst; [eapply S_act|eapply S_act_abort]; eauto.
    + destruct (f (rc_tower c)) as [b t'|s t'] eqn:Ef; [|inversion H; subst; eapply S_rpc_abort; eauto].
      destruct (issued (rc_tower c) t') as [e|] eqn:Ei; [|inversion H; subst; eapply S_rpc_memo; eauto].
      destruct (rc_rpc_or c) as [|[|] rest] eqn:Eo; inversion H; subst.
      * replace (@nil bool) with (tl (rc_rpc_or c)) by (rewrite Eo; reflexivity). eapply S_rpc_ok; eauto. rewrite Eo; reflexivity.
      * eapply S_rpc_err; eauto.
      * replace rest with (tl (rc_rpc_or c)) at 1 by (rewrite Eo; reflexivity). eapply S_rpc_ok; eauto. rewrite Eo; reflexivity.
    + inversion H; subst. eapply S_readflag; eauto.
    + inversion H; subst. eapply S_setflag; eauto.
    + destruct (rc_flag c) eqn:Ef; inversion H; subst; [eapply S_wait_pass|eapply S_wait_park]; eauto.
    + inversion H; subst. eapply S_notify; eauto.
    + destruct (fetch_step c j first) as [r c1] eqn:Ef. inversion H; subst. eapply S_fetch; eauto.
    + inversion H; subst. eapply S_persist; eauto.
    + inversion H; subst. eapply S_exhausted; eauto.
  - destruct n; cbn [andb] in H; [|discriminate]. destruct (r_is_held c L_reach) eqn:Eh; cbn in H; [discriminate|].
    inversion H; subst. eapply S_wake; eauto.
Qed.

Lemma rrun_app c s1 s2 : rrun_config c (s1 ++ s2) = rrun_config (rrun_config c s1) s2.
Proof. unfold rrun_config. apply fold_left_app. Qed.

(* a property of configurations preserved by every step holds along every schedule *)
Lemma rrun_inv (I : rconf -> Prop) :
  (forall c i c', I c -> rstep c i = Some c' -> I c') -> forall sched c, I c -> I (rrun_config c sched).
Proof.
  intros Hstep. induction sched as [|i sched IH]; intros c Hc; cbn; [exact Hc|].
  apply IH. unfold rsched_step. destruct (rstep c i) as [c'|] eqn:E; [eapply Hstep; eauto|exact Hc].
Qed.

Lemma fetch_step_frame c i first r c1 :
  fetch_step c i first = (r, c1) ->
  rc_threads c1 = rc_threads c /\ rc_tower c1 = rc_tower c /\ rc_flag c1 = rc_flag c /\ rc_rpc_or c1 = rc_rpc_or c /\
  rc_lkb c1 = rc_lkb c /\
  (rc_log c1 = rc_log c \/ exists hash h, rc_log c1 = (i, EvDeliver hash h) :: rc_log c).
Proof.
  unfold fetch_step, next_fetch. intros H.
  destruct (rc_fetch_or c) as [|a rest]; [|destruct a]; cbn in H;
    try (destruct stall_cancels); try (destruct (rc_pending c) as [|[hash txs] pend]);
    inversion H; subst; cbn; repeat split; eauto.
Qed.

(* the thread table after a step of thread j: thread x <> j is untouched, except that a notify_all marks it *)
Lemma srel_other c j th c' x : srel c j th c' -> x <> j ->
  nth_error (rc_threads c') x = nth_error (rc_threads c) x \/
  (exists k, rt_st th = RRun (RNotify k)) /\ nth_error (rc_threads c') x = option_map notify_thread (nth_error (rc_threads c) x).
Proof.
  intros H Hx. destruct H; cbn [rc_threads add_log put_thread set_threads set_tower set_flag set_rpc_or set_lkb rdie];
    try (left; apply nth_error_set_nth_neq; congruence).
  - right. split; [eauto|]. rewrite nth_error_set_nth_neq by congruence. apply nth_error_map.
  - left. rewrite nth_error_set_nth_neq by congruence. destruct (fetch_step_frame _ _ _ _ _ H0) as [E _]. rewrite E. reflexivity.
Qed.

Lemma srel_self c j th c' : nth_error (rc_threads c) j = Some th -> srel c j th c' ->
  exists th', nth_error (rc_threads c') j = Some th'.
Proof.
  intros Hn H.
  assert (G : forall (l : list rthread) x, length l = length (rc_threads c) -> exists th', nth_error (set_nth l j x) j = Some th').
  { intros l x Hl. destruct (nth_error l j) as [y|] eqn:E.
    - exists x. eapply nth_error_set_nth_eq; eauto.
    - apply nth_error_None in E. rewrite Hl in E. apply nth_error_None in E. congruence. }
  destruct H; cbn [rc_threads add_log put_thread set_threads set_tower set_flag set_rpc_or set_lkb rdie]; try (apply G; reflexivity).
  - apply G. apply map_length.
  - apply G. destruct (fetch_step_frame _ _ _ _ _ H0) as [E _]. rewrite E. reflexivity.
Qed.
