(* DbProofs.v — properties of the generic relational model Db.v, for ANY schema value s with
   `schema_wf s` (foreign keys point to earlier tables and to their primary key):

   * `exec_preserves_ok`, `exec_all_preserves_ok`, `run_stmts_ok`, `transaction_ok`:
       foreign-key integrity (`fk_ok`) and primary-key uniqueness (`pk_ok`) are preserved by every
       statement, statement sequence and transaction; in particular they hold in every database
       reachable from the empty one;
   * `delete_exact`: a DELETE removes exactly the rows selected by the statement and their
       transitive children along ON DELETE CASCADE edges (`Doomed`, an inductive closure), nothing
       else, and changes no surviving row;
   * frame lemmas (`tbl_insert`, `tbl_update`, `tbl_delete`, ...) used by the client proofs. *)
From TeosModel Require Import Base ListAux Db.
Local Open Scope nat_scope.

(* ---------- basic facts ---------- *)
Lemma key_eqb_eq a b : key_eqb a b = true <-> a = b.
Proof.
  revert b. induction a as [|x a IH]; intros [|y b]; cbn; split; intros H; try congruence; try discriminate.
  - apply andb_true_iff in H. destruct H as [H1 H2]. apply N.eqb_eq in H1. apply IH in H2. congruence.
  - inversion H; subst. apply andb_true_iff. split; [apply N.eqb_refl|apply IH; reflexivity].
Qed.

Lemma key_eqb_refl a : key_eqb a a = true.
Proof. apply key_eqb_eq. reflexivity. Qed.

Lemma key_eqb_neq a b : key_eqb a b = false <-> a <> b.
Proof.
  split; intros H.
  - intros E. apply key_eqb_eq in E. congruence.
  - destruct (key_eqb a b) eqn:E; [|reflexivity]. apply key_eqb_eq in E. contradiction.
Qed.

Lemma natlist_eqb_eq a b : natlist_eqb a b = true <-> a = b.
Proof.
  revert b. induction a as [|x a IH]; intros [|y b]; cbn; split; intros H; try congruence; try discriminate.
  - apply andb_true_iff in H. destruct H as [H1 H2]. apply Nat.eqb_eq in H1. apply IH in H2. congruence.
  - inversion H; subst. apply andb_true_iff. split; [apply Nat.eqb_refl|apply IH; reflexivity].
Qed.

Lemma mem_nat_In i l : mem_nat i l = true <-> In i l.
Proof.
  unfold mem_nat. rewrite existsb_exists. split.
  - intros [x [Hx E]]. apply Nat.eqb_eq in E. subst. exact Hx.
  - intros H. exists i. split; [exact H|apply Nat.eqb_refl].
Qed.

Lemma length_set_tbl d t rows : length (set_tbl d t rows) = length d.
Proof. revert t. induction d as [|x d IH]; intros [|t]; cbn; auto. Qed.

Lemma tbl_set_tbl_same d t rows : t < length d -> tbl (set_tbl d t rows) t = rows.
Proof.
  unfold tbl. revert t. induction d as [|x d IH]; intros [|t] H; cbn in *; try lia; auto.
  apply IH. lia.
Qed.

Lemma tbl_set_tbl_other d t t' rows : t <> t' -> tbl (set_tbl d t rows) t' = tbl d t'.
Proof.
  unfold tbl. revert t t'. induction d as [|x d IH]; intros [|t] [|t'] H; cbn; auto; try congruence.
Qed.

Lemma nth_map_idx_from {A B} (f : nat -> A -> B) (l : list A) i c da db :
  f (i + c) da = db -> nth c (map_idx_from i f l) db = f (i + c) (nth c l da).
Proof.
  revert i c. induction l as [|x l IH]; intros i c H; cbn.
  - destruct c; symmetry; exact H.
  - destruct c as [|c].
    + rewrite Nat.add_0_r. reflexivity.
    + rewrite <- Nat.add_succ_comm. apply IH. rewrite Nat.add_succ_comm. exact H.
Qed.

Lemma length_map_idx_from {A B} (f : nat -> A -> B) l i : length (map_idx_from i f l) = length l.
Proof. revert i. induction l as [|x l IH]; intros i; cbn; auto. Qed.

Lemma tbl_map_idx (f : nat -> table -> table) d c :
  (forall i, f i [] = []) -> tbl (map_idx f d) c = f c (tbl d c).
Proof.
  intros H. unfold tbl, map_idx. rewrite (nth_map_idx_from f d 0 c [] []); [reflexivity|apply H].
Qed.

Lemma forallb_map_idx_from {A} (g : nat -> A -> bool) l i da :
  forallb (fun x => x) (map_idx_from i g l) = true ->
  forall c, c < length l -> g (i + c) (nth c l da) = true.
Proof.
  revert i. induction l as [|x l IH]; intros i H c Hc; cbn in *; [lia|].
  apply andb_true_iff in H. destruct H as [H1 H2]. destruct c as [|c].
  - rewrite Nat.add_0_r. exact H1.
  - rewrite <- Nat.add_succ_comm. apply IH; [exact H2|lia].
Qed.

Lemma existsb_map_idx_from_false {A} (g : nat -> A -> bool) l i da :
  existsb (fun x => x) (map_idx_from i g l) = false ->
  forall c, c < length l -> g (i + c) (nth c l da) = false.
Proof.
  revert i. induction l as [|x l IH]; intros i H c Hc; cbn in *; [lia|].
  apply orb_false_iff in H. destruct H as [H1 H2]. destruct c as [|c].
  - rewrite Nat.add_0_r. exact H1.
  - rewrite <- Nat.add_succ_comm. apply IH; [exact H2|lia].
Qed.

Lemma tbl_out_of_range d c : length d <= c -> tbl d c = [].
Proof. intros H. unfold tbl. apply nth_overflow. exact H. Qed.

Lemma tsch_out_of_range s c : length s <= c -> tsch s c = empty_tschema.
Proof. intros H. unfold tsch. apply nth_overflow. exact H. Qed.

Lemma tsch_fks_in_range s c fk : In fk (ts_fks (tsch s c)) -> c < length s.
Proof.
  intros H. destruct (Nat.lt_ge_cases c (length s)) as [L|L]; [exact L|].
  rewrite (tsch_out_of_range s c L) in H. destruct H.
Qed.

(* ---------- schema well-formedness ---------- *)
Definition schema_wf (s : schema) : Prop :=
  forall c fk, In fk (ts_fks (tsch s c)) ->
    fk_parent fk < c /\ fk_pcols fk = ts_pk (tsch s (fk_parent fk)).

Lemma schema_wfb_sound s : schema_wfb s = true -> schema_wf s.
Proof.
  intros H c fk Hfk. pose proof (tsch_fks_in_range s c fk Hfk) as Hc.
  unfold schema_wfb, map_idx in H.
  pose proof (forallb_map_idx_from _ s 0 empty_tschema H c Hc) as Hg. cbn [Nat.add] in Hg.
  rewrite forallb_forall in Hg. specialize (Hg fk Hfk).
  apply andb_true_iff in Hg. destruct Hg as [Hg _]. apply andb_true_iff in Hg. destruct Hg as [H1 H2].
  split; [apply Nat.ltb_lt; exact H1|apply natlist_eqb_eq; exact H2].
Qed.

(* ---------- the two integrity predicates ---------- *)
Definition fk_ok (s : schema) (d : db) : Prop :=
  forall c r fk, In r (tbl d c) -> In fk (ts_fks (tsch s c)) -> parent_present d r fk = true.

Definition pk_ok (s : schema) (d : db) : Prop :=
  forall c, NoDup (map (fun r => proj r (ts_pk (tsch s c))) (tbl d c)).

Definition db_ok (s : schema) (d : db) : Prop := fk_ok s d /\ pk_ok s d.

Lemma parent_present_iff d r fk :
  parent_present d r fk = true <->
  exists r', In r' (tbl d (fk_parent fk)) /\ proj r' (fk_pcols fk) = proj r (fk_cols fk).
Proof.
  unfold parent_present. rewrite existsb_exists. split; intros [r' [H1 H2]]; exists r'; split; auto;
    apply key_eqb_eq; exact H2.
Qed.

Lemma fk_ok_exists s d : fk_ok s d <->
  forall c r fk, In r (tbl d c) -> In fk (ts_fks (tsch s c)) ->
    exists r', In r' (tbl d (fk_parent fk)) /\ proj r' (fk_pcols fk) = proj r (fk_cols fk).
Proof.
  split; intros H c r fk Hr Hfk.
  - apply parent_present_iff. exact (H c r fk Hr Hfk).
  - apply parent_present_iff. exact (H c r fk Hr Hfk).
Qed.

Lemma tbl_db_empty s c : tbl (db_empty s) c = [].
Proof. unfold tbl, db_empty. revert c. induction s as [|x s IH]; intros [|c]; cbn; auto. Qed.

Lemma db_empty_ok s : db_ok s (db_empty s).
Proof.
  split.
  - intros c r fk Hr. rewrite tbl_db_empty in Hr. destruct Hr.
  - intros c. rewrite tbl_db_empty. constructor.
Qed.

Lemma fk_okb_sound s d : fk_okb s d = true -> fk_ok s d.
Proof.
  intros H c r fk Hr Hfk. unfold fk_okb, map_idx in H.
  destruct (Nat.lt_ge_cases c (length d)) as [L|L].
  - pose proof (forallb_map_idx_from _ d 0 [] H c L) as Hg. cbn [Nat.add] in Hg.
    rewrite forallb_forall in Hg. specialize (Hg r Hr). rewrite forallb_forall in Hg. exact (Hg fk Hfk).
  - rewrite (tbl_out_of_range d c L) in Hr. destruct Hr.
Qed.

Lemma keys_nodupb_sound l : keys_nodupb l = true -> NoDup l.
Proof.
  induction l as [|k l IH]; cbn; intros H; [constructor|].
  apply andb_true_iff in H. destruct H as [H1 H2]. constructor; [|apply IH; exact H2].
  intros Hin. apply negb_true_iff in H1.
  assert (existsb (key_eqb k) l = true); [|congruence].
  apply existsb_exists. exists k. split; [exact Hin|apply key_eqb_refl].
Qed.

Lemma pk_okb_sound s d : pk_okb s d = true -> pk_ok s d.
Proof.
  intros H c. unfold pk_okb, map_idx in H.
  destruct (Nat.lt_ge_cases c (length d)) as [L|L].
  - pose proof (forallb_map_idx_from _ d 0 [] H c L) as Hg. cbn [Nat.add] in Hg.
    apply keys_nodupb_sound. exact Hg.
  - rewrite (tbl_out_of_range d c L). constructor.
Qed.

(* ---------- INSERT ---------- *)
Lemma has_pk_false s d t k :
  has_pk s d t k = false -> forall r, In r (tbl d t) -> proj r (ts_pk (tsch s t)) <> k.
Proof.
  unfold has_pk. intros H r Hr E.
  assert (existsb (fun r => key_eqb (proj r (ts_pk (tsch s t))) k) (tbl d t) = true); [|congruence].
  apply existsb_exists. exists r. split; [exact Hr|apply key_eqb_eq; exact E].
Qed.

Lemma has_pk_true s d t k :
  has_pk s d t k = true <-> exists r, In r (tbl d t) /\ proj r (ts_pk (tsch s t)) = k.
Proof.
  unfold has_pk. rewrite existsb_exists. split; intros [r [H1 H2]]; exists r; split; auto; apply key_eqb_eq; exact H2.
Qed.

Lemma db_insert_ok_inv s d t r d' :
  db_insert s d t r = DbOk d' ->
  t < length d /\ length r = ts_arity (tsch s t) /\
  has_pk s d t (proj r (ts_pk (tsch s t))) = false /\
  forallb (parent_present d r) (ts_fks (tsch s t)) = true /\
  d' = set_tbl d t (tbl d t ++ [r]).
Proof.
  unfold db_insert. intros H.
  destruct (Nat.ltb t (length d)) eqn:E1; cbn in H; [|discriminate].
  destruct (Nat.eqb (length r) (ts_arity (tsch s t))) eqn:E2; cbn in H; [|discriminate].
  destruct (has_pk s d t (proj r (ts_pk (tsch s t)))) eqn:E3; [discriminate|].
  destruct (forallb (parent_present d r) (ts_fks (tsch s t))) eqn:E4; cbn in H; [|discriminate].
  inversion H. repeat split; auto. apply Nat.ltb_lt; exact E1. apply Nat.eqb_eq; exact E2.
Qed.

Lemma tbl_insert s d t r d' :
  db_insert s d t r = DbOk d' ->
  tbl d' t = tbl d t ++ [r] /\ (forall t', t' <> t -> tbl d' t' = tbl d t') /\ length d' = length d.
Proof.
  intros H. apply db_insert_ok_inv in H. destruct H as [Ht [_ [_ [_ E]]]]. subst d'. repeat split.
  - apply tbl_set_tbl_same. exact Ht.
  - intros t' Hn. apply tbl_set_tbl_other. congruence.
  - apply length_set_tbl.
Qed.

Lemma parent_present_mono d d' r fk :
  (forall x, In x (tbl d (fk_parent fk)) -> In x (tbl d' (fk_parent fk))) ->
  parent_present d r fk = true -> parent_present d' r fk = true.
Proof.
  intros Hsub H. apply parent_present_iff in H. apply parent_present_iff.
  destruct H as [r' [H1 H2]]. exists r'. split; auto.
Qed.

Lemma insert_preserves_ok s d t r d' :
  db_ok s d -> db_insert s d t r = DbOk d' -> db_ok s d'.
Proof.
  intros [Hfk Hpk] H. pose proof (tbl_insert s d t r d' H) as [Tt [To _]].
  apply db_insert_ok_inv in H. destruct H as [Ht [_ [Hnp [Hpar _]]]].
  assert (Hsub : forall p x, In x (tbl d p) -> In x (tbl d' p)).
  { intros p x Hx. destruct (Nat.eq_dec p t) as [->|Hn].
    - rewrite Tt. apply in_or_app. left. exact Hx.
    - rewrite (To p Hn). exact Hx. }
  split.
  - intros c r0 fk Hr0 Hfk0. destruct (Nat.eq_dec c t) as [->|Hn].
    + rewrite Tt in Hr0. apply in_app_or in Hr0. destruct Hr0 as [Hr0|[<-|[]]].
      * apply (parent_present_mono d d'); [apply Hsub|]. apply (Hfk t); assumption.
      * apply (parent_present_mono d d'); [apply Hsub|]. rewrite forallb_forall in Hpar. apply Hpar. exact Hfk0.
    + rewrite (To c Hn) in Hr0. apply (parent_present_mono d d'); [apply Hsub|]. apply (Hfk c); assumption.
  - intros c. destruct (Nat.eq_dec c t) as [->|Hn].
    + rewrite Tt, map_app. apply NoDup_app_iff. split; [apply Hpk|]. split.
      * cbn. constructor; [intros []|constructor].
      * intros k Hk [<-|[]]. apply in_map_iff in Hk. destruct Hk as [r0 [E Hr0]].
        exact (has_pk_false s d t _ Hnp r0 Hr0 E).
    + rewrite (To c Hn). apply Hpk.
Qed.

(* ---------- DELETE ---------- *)
(* the rows a DELETE removes: the selected ones and, transitively, the rows referencing a removed
   row through an ON DELETE CASCADE edge *)
Inductive Doomed (s : schema) (d : db) (root : nat -> row -> bool) : nat -> row -> Prop :=
| Doomed_root c r : In r (tbl d c) -> root c r = true -> Doomed s d root c r
| Doomed_child c r fk r' :
    In r (tbl d c) -> In fk (ts_fks (tsch s c)) -> fk_cascade fk = true ->
    In r' (tbl d (fk_parent fk)) -> Doomed s d root (fk_parent fk) r' ->
    proj r' (fk_pcols fk) = proj r (fk_cols fk) ->
    Doomed s d root c r.

Lemma doomedb_sound s d root fuel : forall c r,
  In r (tbl d c) -> doomedb s d root fuel c r = true -> Doomed s d root c r.
Proof.
  induction fuel as [|f IH]; intros c r Hr H; cbn in H; [discriminate|].
  apply orb_true_iff in H. destruct H as [H|H]; [apply Doomed_root; assumption|].
  apply existsb_exists in H. destruct H as [fk [Hfk H]].
  apply andb_true_iff in H. destruct H as [Hc H].
  apply existsb_exists in H. destruct H as [r' [Hr' H]].
  apply andb_true_iff in H. destruct H as [Hd Hk].
  apply (Doomed_child s d root c r fk r'); auto. apply key_eqb_eq. exact Hk.
Qed.

Lemma doomedb_complete s d root : schema_wf s -> forall c r,
  Doomed s d root c r -> forall fuel, Nat.min c (length s) < fuel -> doomedb s d root fuel c r = true.
Proof.
  intros Hwf c r HD. induction HD as [c r Hr Hroot|c r fk r' Hr Hfk Hc Hr' HD IH Hk]; intros fuel Hfuel.
  - destruct fuel as [|f]; [lia|]. cbn. rewrite Hroot. reflexivity.
  - destruct fuel as [|f]; [lia|]. cbn. apply orb_true_iff. right.
    apply existsb_exists. exists fk. split; [exact Hfk|]. rewrite Hc. cbn.
    apply existsb_exists. exists r'. split; [exact Hr'|].
    pose proof (tsch_fks_in_range s c fk Hfk) as Hcl. destruct (Hwf c fk Hfk) as [Hp _].
    rewrite IH by lia. cbn. apply key_eqb_eq. exact Hk.
Qed.

Lemma doomed_iff s d root : schema_wf s -> forall c r,
  In r (tbl d c) -> (doomed s d root c r = true <-> Doomed s d root c r).
Proof.
  intros Hwf c r Hr. unfold doomed. split.
  - apply doomedb_sound. exact Hr.
  - intros HD. apply doomedb_complete; auto. lia.
Qed.

Lemma db_delete_root_inv s d root d' :
  db_delete_root s d root = DbOk d' ->
  (forall c r, In r (tbl d c) -> orphanedb s d root c r = false) /\
  (forall c, tbl d' c = filter (fun r => negb (doomed s d root c r)) (tbl d c)) /\
  length d' = length d.
Proof.
  unfold db_delete_root. intros H.
  destruct (existsb (fun x => x) (map_idx (fun c rows => existsb (orphanedb s d root c) rows) d)) eqn:E; [discriminate|].
  inversion H; subst d'; clear H. repeat split.
  - intros c r Hr. destruct (Nat.lt_ge_cases c (length d)) as [L|L].
    + unfold map_idx in E. pose proof (existsb_map_idx_from_false _ d 0 [] E c L) as Hg. cbn [Nat.add] in Hg.
      destruct (orphanedb s d root c r) eqn:Eo; [|reflexivity].
      assert (existsb (orphanedb s d root c) (nth c d []) = true); [|congruence].
      apply existsb_exists. exists r. split; [exact Hr|exact Eo].
    + rewrite (tbl_out_of_range d c L) in Hr. destruct Hr.
  - intros c. apply (tbl_map_idx (fun c rows => filter (fun r => negb (doomed s d root c r)) rows)). reflexivity.
  - unfold map_idx. apply length_map_idx_from.
Qed.

(* cascade deletion removes exactly the selected rows and their transitive children *)
Theorem delete_exact s d root d' :
  schema_wf s -> db_delete_root s d root = DbOk d' ->
  forall c r, In r (tbl d' c) <-> (In r (tbl d c) /\ ~ Doomed s d root c r).
Proof.
  intros Hwf H c r. apply db_delete_root_inv in H. destruct H as [_ [Ht _]].
  rewrite Ht, filter_In. split; intros [Hr Hn]; split; auto.
  - intros HD. apply (doomed_iff s d root Hwf c r Hr) in HD. rewrite HD in Hn. discriminate.
  - apply negb_true_iff. destruct (doomed s d root c r) eqn:E; [|reflexivity].
    apply (doomed_iff s d root Hwf c r Hr) in E. contradiction.
Qed.

Lemma NoDup_map_filter {A B} (f : A -> B) (p : A -> bool) l : NoDup (map f l) -> NoDup (map f (filter p l)).
Proof.
  induction l as [|x l IH]; cbn; intros H; [constructor|].
  inversion H; subst. destruct (p x); cbn; [constructor|]; auto.
  intros Hin. apply H2. apply in_map_iff in Hin. destruct Hin as [y [E Hy]].
  apply filter_In in Hy. apply in_map_iff. exists y. tauto.
Qed.

Lemma delete_root_preserves_ok s d root d' :
  schema_wf s -> db_ok s d -> db_delete_root s d root = DbOk d' -> db_ok s d'.
Proof.
  intros Hwf [Hfk Hpk] H. pose proof (delete_exact s d root d' Hwf H) as Hex.
  apply db_delete_root_inv in H. destruct H as [Horph [Ht _]]. split.
  - intros c r fk Hr Hfk0. apply Hex in Hr. destruct Hr as [Hr HnD].
    pose proof (Hfk c r fk Hr Hfk0) as Hp. apply parent_present_iff in Hp. destruct Hp as [r' [Hr' Hk]].
    apply parent_present_iff. exists r'. split; [|exact Hk]. apply Hex. split; [exact Hr'|].
    intros HD'. destruct (fk_cascade fk) eqn:Ec.
    + apply HnD. apply (Doomed_child s d root c r fk r'); auto.
    + pose proof (Horph c r Hr) as Ho. unfold orphanedb in Ho.
      apply andb_false_iff in Ho. destruct Ho as [Ho|Ho].
      * apply negb_false_iff in Ho. apply (doomed_iff s d root Hwf c r Hr) in Ho. contradiction.
      * assert (existsb (fun fk0 => negb (fk_cascade fk0) &&
                 existsb (fun r'0 => doomed s d root (fk_parent fk0) r'0 &&
                                     key_eqb (proj r'0 (fk_pcols fk0)) (proj r (fk_cols fk0)))
                         (tbl d (fk_parent fk0))) (ts_fks (tsch s c)) = true); [|congruence].
        apply existsb_exists. exists fk. split; [exact Hfk0|]. rewrite Ec. cbn.
        apply existsb_exists. exists r'. split; [exact Hr'|].
        apply andb_true_iff. split; [apply (doomed_iff s d root Hwf _ r' Hr'); exact HD'|apply key_eqb_eq; exact Hk].
  - intros c. rewrite Ht. apply NoDup_map_filter. apply Hpk.
Qed.

Lemma db_delete_inv s d t cols vals strict d' :
  db_delete s d t cols vals strict = DbOk d' ->
  db_delete_root s d (where_root t cols vals) = DbOk d' /\
  (strict = true -> count_where d t cols vals <> 0).
Proof.
  unfold db_delete. intros H. destruct strict; cbn in H.
  - destruct (Nat.eqb (count_where d t cols vals) 0) eqn:E; [discriminate|].
    split; [exact H|]. intros _. apply Nat.eqb_neq. exact E.
  - split; [exact H|discriminate].
Qed.

Lemma tbl_delete s d t cols vals strict d' :
  db_delete s d t cols vals strict = DbOk d' ->
  (forall c, tbl d' c = filter (fun r => negb (doomed s d (where_root t cols vals) c r)) (tbl d c)) /\
  length d' = length d.
Proof.
  intros H. apply db_delete_inv in H. destruct H as [H _]. apply db_delete_root_inv in H. tauto.
Qed.

(* ---------- UPDATE ---------- *)
Lemma nth_set_col r i v j : j <> i -> nth j (set_col r i v) 0%N = nth j r 0%N.
Proof.
  revert i j. induction r as [|x r IH]; intros [|i] [|j] H; cbn; auto; try congruence.
Qed.

Lemma length_set_col r i v : length (set_col r i v) = length r.
Proof. revert i. induction r as [|x r IH]; intros [|i]; cbn; auto. Qed.

Lemma proj_apply_sets sets : forall r cols,
  (forall i, In i cols -> ~ In i (map fst sets)) -> proj (apply_sets r sets) cols = proj r cols.
Proof.
  induction sets as [|[i v] sets IH]; intros r cols H; cbn; [reflexivity|].
  rewrite IH.
  - unfold proj. apply map_ext_in. intros j Hj. apply nth_set_col. intros ->. apply (H i Hj). left. reflexivity.
  - intros j Hj Hin. apply (H j Hj). right. exact Hin.
Qed.

Lemma db_update_inv s d t k sets strict d' :
  db_update s d t k sets strict = DbOk d' ->
  (forall i, In i (protected_cols (tsch s t)) -> ~ In i (map fst sets)) /\
  (strict = true -> has_pk s d t k = true) /\
  d' = set_tbl d t (map (fun r => if key_eqb (proj r (ts_pk (tsch s t))) k then apply_sets r sets else r) (tbl d t)).
Proof.
  unfold db_update. intros H.
  destruct (existsb (fun iv => mem_nat (fst iv) (protected_cols (tsch s t))) sets) eqn:E1; [discriminate|].
  destruct (strict && negb (has_pk s d t k)) eqn:E2; [discriminate|]. inversion H. repeat split.
  - intros i Hi Hin. apply in_map_iff in Hin. destruct Hin as [[i' v] [Ei Hin]]. cbn in Ei. subst i'.
    assert (existsb (fun iv => mem_nat (fst iv) (protected_cols (tsch s t))) sets = true); [|congruence].
    apply existsb_exists. exists (i, v). split; [exact Hin|]. apply mem_nat_In. exact Hi.
  - intros ->. cbn in E2. apply negb_false_iff in E2. exact E2.
Qed.

Lemma tbl_update s d t k sets strict d' :
  db_update s d t k sets strict = DbOk d' ->
  (forall t', t' <> t -> tbl d' t' = tbl d t') /\ length d' = length d /\
  (t < length d ->
   tbl d' t = map (fun r => if key_eqb (proj r (ts_pk (tsch s t))) k then apply_sets r sets else r) (tbl d t)).
Proof.
  intros H. apply db_update_inv in H. destruct H as [_ [_ E]]. subst d'. repeat split.
  - intros t' Hn. apply tbl_set_tbl_other. congruence.
  - apply length_set_tbl.
  - intros Ht. apply tbl_set_tbl_same. exact Ht.
Qed.

Lemma update_preserves_ok s d t k sets strict d' :
  schema_wf s -> db_ok s d -> db_update s d t k sets strict = DbOk d' -> db_ok s d'.
Proof.
  intros Hwf [Hfk Hpk] H. pose proof (tbl_update s d t k sets strict d' H) as [To [_ Tt]].
  apply db_update_inv in H. destruct H as [Hprot [_ E]].
  set (g := fun r => if key_eqb (proj r (ts_pk (tsch s t))) k then apply_sets r sets else r) in *.
  destruct (Nat.lt_ge_cases t (length d)) as [L|L].
  2:{ (* the table does not exist: nothing changes *)
      assert (Hsame : forall c, tbl d' c = tbl d c).
      { intros c. destruct (Nat.eq_dec c t) as [->|Hn]; [|apply To; exact Hn].
        subst d'. rewrite (tbl_out_of_range d t L). apply tbl_out_of_range. rewrite length_set_tbl. exact L. }
      split.
      - intros c r fk Hr Hfk0. rewrite Hsame in Hr. pose proof (Hfk c r fk Hr Hfk0) as Hp.
        apply parent_present_iff in Hp. apply parent_present_iff. destruct Hp as [r' [A B]].
        exists r'. rewrite Hsame. tauto.
      - intros c. rewrite Hsame. apply Hpk. }
  specialize (Tt L).
  assert (Hg : forall r cols, (forall i, In i cols -> In i (protected_cols (tsch s t))) -> proj (g r) cols = proj r cols).
  { intros r cols Hc. unfold g. destruct (key_eqb (proj r (ts_pk (tsch s t))) k); [|reflexivity].
    apply proj_apply_sets. intros i Hi. apply Hprot. apply Hc. exact Hi. }
  assert (Hpkc : forall i, In i (ts_pk (tsch s t)) -> In i (protected_cols (tsch s t))).
  { intros i Hi. unfold protected_cols. apply in_or_app. left. exact Hi. }
  split.
  - intros c r fk Hr Hfk0.
    (* the row before the update and its parent before the update *)
    assert (exists r0, In r0 (tbl d c) /\ proj r (fk_cols fk) = proj r0 (fk_cols fk)) as [r0 [Hr0 Er0]].
    { destruct (Nat.eq_dec c t) as [->|Hn].
      - rewrite Tt in Hr. apply in_map_iff in Hr. destruct Hr as [r0 [<- Hr0]]. exists r0. split; [exact Hr0|].
        apply Hg. intros i Hi. unfold protected_cols. apply in_or_app. right. apply in_flat_map. exists fk. tauto.
      - rewrite (To c Hn) in Hr. exists r. tauto. }
    pose proof (Hfk c r0 fk Hr0 Hfk0) as Hp. apply parent_present_iff in Hp. destruct Hp as [r' [Hr' Hk]].
    apply parent_present_iff. destruct (Nat.eq_dec (fk_parent fk) t) as [Ep|Hn].
    + exists (g r'). split.
      * rewrite Ep, Tt. apply in_map. rewrite <- Ep. exact Hr'.
      * rewrite Er0, <- Hk. apply Hg. intros i Hi. apply Hpkc.
        destruct (Hwf c fk Hfk0) as [_ Hpc]. rewrite Hpc, Ep in Hi. exact Hi.
    + exists r'. split; [rewrite (To _ Hn); exact Hr'|congruence].
  - intros c. destruct (Nat.eq_dec c t) as [->|Hn].
    + rewrite Tt, map_map. rewrite (map_ext _ (fun r => proj r (ts_pk (tsch s t)))); [apply Hpk|].
      intros r. apply Hg. exact Hpkc.
    + rewrite (To c Hn). apply Hpk.
Qed.

(* ---------- statements, sequences, transactions ---------- *)
Theorem exec_preserves_ok s d st d' :
  schema_wf s -> db_ok s d -> exec s d st = DbOk d' -> db_ok s d'.
Proof.
  intros Hwf Hok H. destruct st as [t r|t cols vals strict|t k sets strict]; cbn in H.
  - exact (insert_preserves_ok s d t r d' Hok H).
  - apply db_delete_inv in H. destruct H as [H _]. exact (delete_root_preserves_ok s d _ d' Hwf Hok H).
  - exact (update_preserves_ok s d t k sets strict d' Hwf Hok H).
Qed.

Theorem exec_all_preserves_ok s sts : forall d d',
  schema_wf s -> db_ok s d -> exec_all s d sts = DbOk d' -> db_ok s d'.
Proof.
  induction sts as [|st sts IH]; intros d d' Hwf Hok H; cbn in H.
  - inversion H; subst; exact Hok.
  - destruct (exec s d st) as [d1|e] eqn:E; [|discriminate].
    apply (IH d1 d' Hwf); [|exact H]. exact (exec_preserves_ok s d st d1 Hwf Hok E).
Qed.

Theorem transaction_ok s d sts d' :
  schema_wf s -> db_ok s d -> transaction s d sts = DbOk d' -> db_ok s d'.
Proof. apply exec_all_preserves_ok. Qed.

Lemma exec_ignore_ok s d st : schema_wf s -> db_ok s d -> db_ok s (exec_ignore s d st).
Proof.
  intros Hwf Hok. unfold exec_ignore. destruct (exec s d st) as [d'|e] eqn:E; [|exact Hok].
  exact (exec_preserves_ok s d st d' Hwf Hok E).
Qed.

(* every database reachable from the empty one by any history of statements (failing ones leave
   it unchanged) satisfies both integrity predicates *)
Theorem run_stmts_ok s sts : forall d, schema_wf s -> db_ok s d -> db_ok s (run_stmts s d sts).
Proof.
  induction sts as [|st sts IH]; intros d Hwf Hok; cbn; [exact Hok|].
  apply IH; [exact Hwf|]. apply exec_ignore_ok; assumption.
Qed.

Corollary reachable_db_ok s sts : schema_wf s -> db_ok s (run_stmts s (db_empty s) sts).
Proof. intros Hwf. apply run_stmts_ok; [exact Hwf|apply db_empty_ok]. Qed.

Lemma exec_length s d st d' : exec s d st = DbOk d' -> length d' = length d.
Proof.
  destruct st as [t r|t cols vals strict|t k sets strict]; cbn; intros H.
  - apply tbl_insert in H. tauto.
  - apply tbl_delete in H. tauto.
  - apply tbl_update in H. tauto.
Qed.

(* ---------- rows keep the arity of their table ---------- *)
Definition arity_ok (s : schema) (d : db) : Prop :=
  forall c r, In r (tbl d c) -> length r = ts_arity (tsch s c).

Lemma length_apply_sets sets : forall r, length (apply_sets r sets) = length r.
Proof.
  induction sets as [|[i v] sets IH]; intros r; cbn; [reflexivity|]. rewrite IH. apply length_set_col.
Qed.

Lemma nth_set_col_same r i v : i < length r -> nth i (set_col r i v) 0%N = v.
Proof.
  revert i. induction r as [|x r IH]; intros [|i] H; cbn in *; try lia; try reflexivity.
  apply IH. lia.
Qed.

Theorem exec_preserves_arity s d st d' : arity_ok s d -> exec s d st = DbOk d' -> arity_ok s d'.
Proof.
  intros Ha H c r Hr. destruct st as [t r0|t cols vals strict|t k sets strict]; cbn in H.
  - pose proof (tbl_insert s d t r0 d' H) as [Tt [To _]]. apply db_insert_ok_inv in H.
    destruct H as [_ [Hlen _]]. destruct (Nat.eq_dec c t) as [->|Hn].
    + rewrite Tt in Hr. apply in_app_or in Hr. destruct Hr as [Hr|[<-|[]]]; [apply Ha; exact Hr|exact Hlen].
    + rewrite (To c Hn) in Hr. apply Ha. exact Hr.
  - apply tbl_delete in H. destruct H as [Ht _]. rewrite Ht in Hr. apply filter_In in Hr. apply Ha. tauto.
  - pose proof (tbl_update s d t k sets strict d' H) as [To [_ Tt]].
    destruct (Nat.eq_dec c t) as [->|Hn]; [|rewrite (To c Hn) in Hr; apply Ha; exact Hr].
    destruct (Nat.lt_ge_cases t (length d)) as [L|L].
    + rewrite (Tt L) in Hr. apply in_map_iff in Hr. destruct Hr as [r0 [E Hr0]]. rewrite <- E.
      destruct (key_eqb (proj r0 (ts_pk (tsch s t))) k); [rewrite length_apply_sets|]; apply Ha; exact Hr0.
    + apply db_update_inv in H. destruct H as [_ [_ E]]. subst d'.
      rewrite tbl_out_of_range in Hr; [destruct Hr|]. rewrite length_set_tbl. exact L.
Qed.

Lemma delete_root_preserves_arity s d root d' : arity_ok s d -> db_delete_root s d root = DbOk d' -> arity_ok s d'.
Proof.
  intros Ha H c r Hr. apply db_delete_root_inv in H. destruct H as [_ [Ht _]]. rewrite Ht in Hr.
  apply filter_In in Hr. apply Ha. tauto.
Qed.

Lemma exec_ignore_arity s d st : arity_ok s d -> arity_ok s (exec_ignore s d st).
Proof.
  intros Ha. unfold exec_ignore. destruct (exec s d st) as [d'|e] eqn:E; [|exact Ha].
  exact (exec_preserves_arity s d st d' Ha E).
Qed.

Lemma db_empty_arity s : arity_ok s (db_empty s).
Proof. intros c r Hr. rewrite tbl_db_empty in Hr. destruct Hr. Qed.
