(* TowerSubs.v — subscriptions: registration arithmetic, the purge at expiry + grace, and the fact
   that nothing else removes a user or moves a subscription window (C09); receipt fields and
   read-back (C08); unreachability of the API-level unwrap sites under the invariant (C11). *)
From TeosModel Require Import Base ListAux TxIndex TxIndexProofs Tower TowerStable TowerInv TowerProofs.
From TeosModel.Gen Require Consts.
From Coq Require Import Lia.
Local Open Scope N_scope.

(* the subscription windows as the table holds them: user -> (start, expiry) *)
Definition sub_of (r : N * uinfo) : N * (N * N) := (fst r, (u_start (snd r), u_expiry (snd r))).
Definition subs (t : tower) : list (N * (N * N)) := map sub_of (db_users t).

(* ---------------- registration ---------------- *)
Theorem register_new le t sc u :
  gk_get t u = None -> amem (db_users t) u = false -> gk_height t + c_duration (cfg t) <= U32MAX ->
  step le t (ORegister u) sc =
    (p_new_user (fresh t) u (mk_uinfo (c_slots (cfg t)) (gk_height t) (gk_height t + c_duration (cfg t))),
     ORegisterRes (RegOk (c_slots (cfg t)) (gk_height t) (gk_height t + c_duration (cfg t)))).
Proof.
  intros Hg Hm Ho. cbn [step wrap]. unfold gk_add_update_user. change (set_rpc_log t []) with (fresh t).
  change (gk_get (fresh t) u) with (gk_get t u). rewrite Hg.
  change (gk_height (fresh t)) with (gk_height t). change (cfg (fresh t)) with (cfg t).
  unfold u32_add. apply N.leb_le in Ho. rewrite Ho.
  change (db_users (fresh t)) with (db_users t). rewrite Hm. reflexivity.
Qed.

(* first registration beyond the u32 range of the expiry: the handler aborts (F12's second half;
   outside the envelope height + duration < 2^32 of the property) *)
Theorem register_new_overflow le t sc u :
  gk_get t u = None -> U32MAX < gk_height t + c_duration (cfg t) ->
  step le t (ORegister u) sc = (fresh t, OAbort S_gk_new_user_expiry_overflow).
Proof.
  intros Hg Ho. cbn [step wrap]. unfold gk_add_update_user. change (set_rpc_log t []) with (fresh t).
  change (gk_get (fresh t) u) with (gk_get t u). rewrite Hg.
  change (gk_height (fresh t)) with (gk_height t). change (cfg (fresh t)) with (cfg t).
  unfold u32_add. apply N.leb_gt in Ho. rewrite Ho. reflexivity.
Qed.

Theorem register_renew le t sc u ui :
  gk_get t u = Some ui -> u_slots ui + c_slots (cfg t) <= U32MAX ->
  let e := N.min U32MAX (u_expiry ui + c_duration (cfg t)) in
  let ui' := mk_uinfo (u_slots ui + c_slots (cfg t)) (u_start ui) e in
  step le t (ORegister u) sc = (p_set_user (fresh t) u ui', ORegisterRes (RegOk (u_slots ui') (u_start ui) e)).
Proof.
  intros Hg Hs e ui'. cbn [step wrap]. unfold gk_add_update_user. change (set_rpc_log t []) with (fresh t).
  change (gk_get (fresh t) u) with (gk_get t u). rewrite Hg. change (cfg (fresh t)) with (cfg t).
  unfold u32_add. apply N.leb_le in Hs. rewrite Hs.
  assert (He : (if N.leb (u_expiry ui + c_duration (cfg t)) U32MAX
                then Some (u_expiry ui + c_duration (cfg t)) else None) =
               (if N.leb (u_expiry ui + c_duration (cfg t)) U32MAX then Some e else None)).
  { destruct (N.leb_spec (u_expiry ui + c_duration (cfg t)) U32MAX) as [Hl|Hl]; [|reflexivity].
    subst e. rewrite N.min_r by exact Hl. reflexivity. }
  destruct (N.leb_spec (u_expiry ui + c_duration (cfg t)) U32MAX) as [Hl|Hl].
  - subst ui' e. rewrite N.min_r by exact Hl. reflexivity.
  - subst ui' e. rewrite N.min_l by lia. reflexivity.
Qed.

Theorem register_max_slots le t sc u ui :
  gk_get t u = Some ui -> U32MAX < u_slots ui + c_slots (cfg t) ->
  step le t (ORegister u) sc = (fresh t, ORegisterRes RegMaxSlots).
Proof.
  intros Hg Hs. cbn [step wrap]. unfold gk_add_update_user. change (set_rpc_log t []) with (fresh t).
  change (gk_get (fresh t) u) with (gk_get t u). rewrite Hg. change (cfg (fresh t)) with (cfg t).
  unfold u32_add. apply N.leb_gt in Hs. rewrite Hs. reflexivity.
Qed.

(* ---------------- the purge ---------------- *)
Lemma outdated_users_spec delta h us out :
  outdated_users delta h us = Some out ->
  forall u, In u out <-> exists ui, In (u, ui) us /\ u_expiry ui + delta <= h.
Proof.
  revert out. induction us as [|[v vi] us IH]; cbn [outdated_users]; intros out H u.
  - inversion H. subst. split; [intros []|intros [ui [[] _]]].
  - unfold u32_add in H. destruct (N.leb_spec (u_expiry vi + delta) U32MAX) as [Hl|Hl]; [|discriminate].
    destruct (outdated_users delta h us) as [l|] eqn:El; [|discriminate].
    specialize (IH l eq_refl u). inversion H. subst out. clear H.
    destruct (N.leb_spec (u_expiry vi + delta) h) as [Hh|Hh].
    + cbn [In]. rewrite IH. split.
      * intros [He|[ui [Hi Hx]]]; [subst; exists vi; split; [left; reflexivity|exact Hh]|exists ui; split; [right; exact Hi|exact Hx]].
      * intros [ui [[He|Hi] Hx]]; [inversion He; subst; left; reflexivity|right; exists ui; auto].
    + rewrite IH. split.
      * intros [ui [Hi Hx]]. exists ui. split; [right; exact Hi|exact Hx].
      * intros [ui [[He|Hi] Hx]]; [inversion He; subst; lia|exists ui; auto].
Qed.

Lemma aget_In_nodup {V} (m : amap V) k v : NoDup (map fst m) -> In (k, v) m -> aget m k = Some v.
Proof.
  induction m as [|[k' v'] m IH]; cbn [map fst aget In]; intros Hn Hi; [destruct Hi|].
  apply NoDup_cons_iff in Hn. destruct Hn as [Hk Hn].
  destruct Hi as [He|Hi].
  - inversion He. subst. rewrite N.eqb_refl. reflexivity.
  - destruct (N.eqb k k') eqn:E.
    + apply N.eqb_eq in E. subst k'. exfalso. apply Hk. apply in_map_iff. exists (k, v). auto.
    + apply IH; assumption.
Qed.

Lemma aget_Some_In {V} (m : amap V) k v : aget m k = Some v -> In (k, v) m.
Proof.
  induction m as [|[k' v'] m IH]; cbn [aget In]; [discriminate|].
  destruct (N.eqb k k') eqn:E; [apply N.eqb_eq in E; subst; intros H; inversion H; left; reflexivity|].
  intros H. right. apply IH. exact H.
Qed.

(* The gatekeeper's listener at height h removes exactly the users whose expiry + grace period has
   been reached, from memory and from the table (with, by the cascade, all their appointments and
   trackers), and touches no other user. *)
Theorem purge_exact t h t' :
  Inv t -> gk_block_connected t h = Ok tt t' ->
  (forall u, aget (db_users t') u =
             match aget (db_users t) u with
             | Some ui => if N.leb (u_expiry ui + c_delta (cfg t)) h then None else Some ui
             | None => None
             end) /\
  (forall a, In a (db_apps t') <-> In a (db_apps t) /\ aget (db_users t') (a_user a) <> None) /\
  (forall k, In k (db_trks t') <-> In k (db_trks t) /\ aget (db_users t') (t_user k) <> None) /\
  gk_height t' = h.
Proof.
  intros HI. unfold gk_block_connected.
  destruct (outdated_users (c_delta (cfg t)) h (gk_users t)) as [out|] eqn:Eo; [|discriminate].
  pose proof (outdated_users_spec _ _ _ _ Eo) as Hout.
  assert (Hmem : forall u, memN u out = true <->
                           exists ui, aget (db_users t) u = Some ui /\ u_expiry ui + c_delta (cfg t) <= h).
  { intros u. rewrite memN_In, Hout. split.
    - intros [ui [Hi Hx]]. exists ui. split; [|exact Hx].
      rewrite <- (inv_sync t HI). apply aget_In_nodup; [exact (inv_mem_nodup t HI)|exact Hi].
    - intros [ui [Hg Hx]]. exists ui. split; [|exact Hx].
      rewrite <- (inv_sync t HI) in Hg. apply aget_Some_In. exact Hg. }
  assert (Hrow : forall u, (if negb (memN u out) then aget (db_users t) u else None) =
                           match aget (db_users t) u with
                           | Some ui => if N.leb (u_expiry ui + c_delta (cfg t)) h then None else Some ui
                           | None => None end).
  { intros u. destruct (memN u out) eqn:Em; cbn [negb].
    - apply Hmem in Em. destruct Em as [ui [Hg Hx]]. rewrite Hg. apply N.leb_le in Hx. rewrite Hx. reflexivity.
    - destruct (aget (db_users t) u) as [ui|] eqn:Hg; [|reflexivity].
      destruct (N.leb_spec (u_expiry ui + c_delta (cfg t)) h) as [Hx|Hx]; [|reflexivity].
      assert (Ht : memN u out = true) by (apply Hmem; exists ui; auto). congruence. }
  intros H. inversion H. subst t'. clear H.
  destruct out as [|o out'] eqn:Eout.
  - cbn [gk_height set_gk_height db_users db_apps db_trks].
    split; [|split; [|split; [|reflexivity]]].
    + intros u. rewrite <- Hrow. reflexivity.
    + intros a. split; [|tauto]. intros Ha. split; [exact Ha|].
      pose proof (inv_fk_app t HI a Ha) as Hf. unfold amem in Hf.
      destruct (aget (db_users t) (a_user a)) eqn:E; [discriminate|discriminate].
    + intros k. split; [|tauto]. intros Hk. split; [exact Hk|].
      destruct (inv_fk_trk t HI k Hk) as [a [Ha He]].
      pose proof (inv_fk_app t HI a Ha) as Hf. unfold amem in Hf.
      assert (Hu : a_user a = t_user k) by (unfold app_uuid, trk_uuid in He; congruence).
      rewrite Hu in Hf. destruct (aget (db_users t) (t_user k)) eqn:E; [discriminate|discriminate].
  - rewrite <- Eout in *. clear Eout.
    unfold p_purge, db_delete_users.
    cbn [gk_height set_gk_height db_users db_apps db_trks set_db_users set_db_apps set_db_trks set_gk_users].
    assert (Hu : forall u, aget (filter (fun r => negb (memN (fst r) out)) (db_users t)) u =
                           (if negb (memN u out) then aget (db_users t) u else None)).
    { intros u. exact (aget_filter_key (fun k => negb (memN k out)) (db_users t) u). }
    split; [|split; [|split; [|reflexivity]]].
    + intros u. rewrite Hu. apply Hrow.
    + intros a. split.
      * intros Ha. apply filter_In in Ha. destruct Ha as [Ha Hp]. split; [exact Ha|].
        rewrite Hu, Hp. pose proof (inv_fk_app t HI a Ha) as Hf. unfold amem in Hf.
        destruct (aget (db_users t) (a_user a)); [discriminate|discriminate].
      * intros [Ha Hn]. apply filter_In. split; [exact Ha|]. rewrite Hu in Hn.
        destruct (negb (memN (a_user a) out)); [reflexivity|contradiction].
    + intros k. split.
      * intros Hk. apply filter_In in Hk. destruct Hk as [Hk Hp]. split; [exact Hk|].
        rewrite Hu, Hp. destruct (inv_fk_trk t HI k Hk) as [a [Ha He]].
        pose proof (inv_fk_app t HI a Ha) as Hf. unfold amem in Hf.
        assert (Hua : a_user a = t_user k) by (unfold app_uuid, trk_uuid in He; congruence).
        rewrite Hua in Hf. destruct (aget (db_users t) (t_user k)); [discriminate|discriminate].
      * intros [Hk Hn]. apply filter_In. split; [exact Hk|]. rewrite Hu in Hn.
        destruct (negb (memN (t_user k) out)); [reflexivity|contradiction].
Qed.

(* Nothing the watcher or the responder does while handling a block (breaches, completions with
   refund, reorg and stale re-submissions, deletions) adds or removes a user or moves a
   subscription window. *)
Lemma subs_stable S : StableWR (fun t => subs t = S).
Proof.
  constructor.
  - intros t t' [_ [_ [Hu _]]] H. unfold subs in *. rewrite <- Hu. exact H.
  - intros t us H. exact H.
  - intros t u ui s H _. unfold subs in *. rewrite <- H. unfold p_refund_user, db_update_user_slots.
    cbn [db_users set_db_users gk_put set_gk_users]. rewrite map_map. apply map_ext.
    intros [k v]. cbn [fst snd]. destruct (N.eqb k u) eqn:E; [apply N.eqb_eq in E; subst|]; reflexivity.
  - intros t k H _ _. exact H.
  - intros t uuid h c H. exact H.
Qed.

Theorem watcher_keeps_subscriptions sc t b h t' :
  w_block_connected sc t b h = Ok tt t' -> subs t' = subs t.
Proof.
  intros H. pose proof (w_block_connected_pres _ (subs_stable (subs t)) sc t b h eq_refl) as Hp.
  rewrite H in Hp. exact Hp.
Qed.

Theorem responder_keeps_subscriptions le sc t b h t' :
  r_block_connected le sc t b h = Ok tt t' -> subs t' = subs t.
Proof.
  intros H. pose proof (r_block_connected_pres _ (subs_stable (subs t)) le sc t b h eq_refl) as Hp.
  rewrite H in Hp. exact Hp.
Qed.

(* The whole block connection, listeners in the generated order (gatekeeper, watcher, responder):
   the users table afterwards holds exactly the users not yet at expiry + grace, with their
   subscription windows untouched. *)
Theorem connect_purges_exactly le t hash txs sc t' :
  Inv t -> step le t (OConnect hash txs) sc = (t', OBlockRes) ->
  forall u, option_map (fun ui => (u_start ui, u_expiry ui)) (aget (db_users t') u) =
            match aget (db_users t) u with
            | Some ui => if N.leb (u_expiry ui + c_delta (cfg t)) (gk_height t + 1) then None
                         else Some (u_start ui, u_expiry ui)
            | None => None
            end.
Proof.
  intros HI. cbn [step]. change (set_rpc_log t []) with (fresh t).
  change Consts.LISTENER_ORDER with [0%Z; 1%Z; 2%Z]. cbn [run_listeners].
  unfold listener_connected at 1. cbn [Z.eqb].
  destruct (gk_block_connected (fresh t) (gk_height (fresh t) + 1)) as [[] t1|s t1] eqn:E1; [|cbn; intros H; inversion H].
  cbn [bind]. unfold listener_connected at 1. cbn [Z.eqb Pos.eqb].
  destruct (w_block_connected sc t1 (cache_block hash txs) (gk_height (fresh t) + 1)) as [[] t2|s t2] eqn:E2;
    [|cbn; intros H; inversion H].
  cbn [bind]. unfold listener_connected at 1. cbn [Z.eqb Pos.eqb].
  destruct (r_block_connected le sc t2 (index_block hash txs) (gk_height (fresh t) + 1)) as [[] t3|s t3] eqn:E3;
    [|cbn; intros H; inversion H].
  cbn [bind wrap]. intros H. inversion H. subst t3. clear H.
  assert (HIf : Inv (fresh t)) by (eapply inv_frame; [|exact HI]; repeat split).
  destruct (purge_exact _ _ _ HIf E1) as [Hu _].
  apply watcher_keeps_subscriptions in E2. apply responder_keeps_subscriptions in E3.
  intros u. specialize (Hu u). change (db_users (fresh t)) with (db_users t) in Hu.
  change (cfg (fresh t)) with (cfg t) in Hu. change (gk_height (fresh t)) with (gk_height t) in Hu.
  assert (Hs : subs t' = subs t1) by congruence.
  assert (Hg : forall tt1 tt2, subs tt1 = subs tt2 ->
               option_map (fun ui => (u_start ui, u_expiry ui)) (aget (db_users tt1) u) =
               option_map (fun ui => (u_start ui, u_expiry ui)) (aget (db_users tt2) u)).
  { intros tt1 tt2. unfold subs. generalize (db_users tt1) (db_users tt2). clear.
    induction l as [|[k v] l IH]; intros [|[k' v'] l']; cbn [map]; intros H; try discriminate; [reflexivity|].
    inversion H. subst k'. cbn [aget]. destruct (N.eqb u k); [cbn; congruence|apply IH; assumption]. }
  rewrite (Hg _ _ Hs), Hu.
  destruct (aget (db_users t) u) as [ui|]; [|reflexivity].
  destruct (N.leb (u_expiry ui + c_delta (cfg t)) (gk_height t + 1)); reflexivity.
Qed.

(* heights honour reorgs: a disconnection lowers the height the gate compares against by one and
   changes no table *)
Theorem disconnect_heights le t sc hash t' :
  last_hash t = Some hash -> 1 <= gk_height t ->
  step le t ODisconnect sc = (t', OBlockRes) ->
  gk_height t' = gk_height t - 1 /\ same_tables t t'.
Proof.
  intros Hl Hh. cbn [step]. change (set_rpc_log t []) with (fresh t).
  change (last_hash (fresh t)) with (last_hash t). rewrite Hl.
  change Consts.LISTENER_ORDER with [0%Z; 1%Z; 2%Z]. cbn [run_listeners].
  unfold listener_disconnected. cbn [Z.eqb Pos.eqb].
  unfold gk_block_disconnected, w_block_disconnected, r_block_disconnected, u32_sub.
  change (gk_height (fresh t)) with (gk_height t).
  apply N.leb_le in Hh. rewrite !Hh. cbn [bind wrap].
  intros H. inversion H. subst t'. split; [reflexivity|repeat split].
Qed.

(* ---------------- receipts (C08) ---------------- *)
Theorem add_receipt_fields le t sc signer loc b delay sig t' st sg sl e :
  step le t (OAdd signer loc b delay sig) sc = (t', OAddRes (AddOk st sg sl e)) ->
  sg = sig /\ st = w_height t /\
  exists u ui, signer = Some u /\ gk_get t u = Some ui /\ e = u_expiry ui.
Proof.
  cbn [step wrap]. unfold w_add_appointment. change (set_rpc_log t []) with (fresh t).
  destruct (authenticate (fresh t) signer) as [u|] eqn:Ea; [|cbn; intros H; inversion H].
  apply authenticate_Some in Ea. destruct Ea as [Hs _].
  destruct (gk_get (fresh t) u) as [ui|] eqn:Eg; [|cbn; intros H; inversion H].
  destruct (N.leb (u_expiry ui) (gk_height (fresh t))); [cbn; intros H; inversion H|].
  destruct (find_trk (db_trks (fresh t)) (loc, u)); [cbn; intros H; inversion H|].
  destruct (gk_add_update_appointment (fresh t) u (loc, u) (b_len b)) as [[av|] t1|s t1]; cbn [bind];
    [|cbn; intros H; inversion H|cbn; intros H; inversion H].
  cbv zeta. match goal with |- context [bind ?r _] => destruct r as [[] t2|s t2] end; cbn [bind wrap];
    [match goal with |- context [if ?c then _ else _] => destruct c end|]; intros H; inversion H.
  subst. repeat split. exists u, ui. auto.
Qed.

Lemma find_app_update l a a0 :
  find_app l (app_uuid a) = Some a0 ->
  find_app (map (fun x => if uuid_eqb (app_uuid x) (app_uuid a) then a else x) l) (app_uuid a) = Some a.
Proof.
  unfold find_app. induction l as [|x l IHl]; cbn [find map]; [discriminate|].
  destruct (uuid_eqb (app_uuid x) (app_uuid a)) eqn:E.
  - intros _. rewrite uuid_eqb_refl. reflexivity.
  - rewrite E. exact IHl.
Qed.

Lemma find_app_append l a :
  find_app (l ++ [a]) (app_uuid a) = match find_app l (app_uuid a) with Some x => Some x | None => Some a end.
Proof.
  unfold find_app. induction l as [|x l IHl]; cbn [List.app find].
  - rewrite uuid_eqb_refl. reflexivity.
  - destruct (uuid_eqb (app_uuid x) (app_uuid a)); [reflexivity|exact IHl].
Qed.

(* an accepted appointment whose locator is not in the cache is stored exactly as submitted, with
   the tower's height as start block (so it reads back byte for byte: C06_get_reveals_own) *)
Theorem add_stored_reads_back le t sc u loc b delay sig t' st sg sl e :
  Inv t -> ti_get (w_cache t) loc = None ->
  step le t (OAdd (Some u) loc b delay sig) sc = (t', OAddRes (AddOk st sg sl e)) ->
  find_app (db_apps t') (loc, u) = Some (mk_app loc u b delay sig (w_height t)) /\
  find_trk (db_trks t') (loc, u) = None.
Proof.
  intros HI Hc. cbn [step wrap]. unfold w_add_appointment. change (set_rpc_log t []) with (fresh t).
  destruct (authenticate (fresh t) (Some u)) as [v|] eqn:Ea; [|cbn; intros H; inversion H].
  apply authenticate_Some in Ea. destruct Ea as [Hs Hm]. inversion Hs. subst v.
  destruct (gk_get (fresh t) u) as [ui|] eqn:Eg; [|cbn; intros H; inversion H].
  destruct (N.leb (u_expiry ui) (gk_height (fresh t))); [cbn; intros H; inversion H|].
  destruct (find_trk (db_trks (fresh t)) (loc, u)) eqn:Et; [cbn; intros H; inversion H|].
  unfold gk_add_update_appointment. rewrite Eg.
  match goal with |- context [if ?c then _ else _] => destruct c end; cbn [bind]; [|cbn; intros H; inversion H].
  cbv zeta. set (ui' := mk_uinfo _ _ _).
  change (w_cache (p_set_user (fresh t) u ui')) with (w_cache t). rewrite Hc.
  unfold w_store_appointment, w_store_ok.
  change (db_apps (p_set_user (fresh t) u ui')) with (db_apps t).
  change (w_height (fresh t)) with (w_height t).
  set (a := mk_app loc u b delay sig (w_height t)).
  change (loc, u) with (app_uuid a) in *.
  destruct (find_app (db_apps t) (app_uuid a)) as [a0|] eqn:Ef; cbn [bind wrap].
  - intros H. inversion H. subst. split; [|exact Et].
    unfold p_update_app. cbn [db_apps set_db_apps]. change (db_apps (p_set_user (fresh t) u ui')) with (db_apps t).
    eapply find_app_update. exact Ef.
  - assert (Hrow : amem (db_users (p_set_user (fresh t) u ui')) (a_user a) = true).
    { assert (HIf : Inv (fresh t)) by (eapply inv_frame; [|exact HI]; repeat split).
      pose proof (inv_set_user _ u ui ui' HIf Eg) as HI2.
      unfold amem. rewrite <- (inv_sync _ HI2). change (a_user a) with u.
      unfold p_set_user, db_update_user, gk_put. cbn [gk_users set_db_users set_gk_users aget].
      rewrite N.eqb_refl. reflexivity. }
    rewrite Hrow. cbn [bind wrap]. intros H. inversion H. subst. split; [|exact Et].
    unfold p_insert_app. cbn [db_apps set_db_apps]. change (db_apps (p_set_user (fresh t) u ui')) with (db_apps t).
    rewrite find_app_append, Ef. reflexivity.
Qed.

(* ---------------- C11: API-level unwrap sites are unreachable under the invariant ---------------- *)
Theorem register_never_aborts_in_envelope le t sc u :
  Inv t -> gk_height t + c_duration (cfg t) <= U32MAX ->
  not_abort (snd (step le t (ORegister u) sc)).
Proof.
  intros HI He. destruct (gk_get t u) as [ui|] eqn:Eg.
  - destruct (N.leb_spec (u_slots ui + c_slots (cfg t)) U32MAX) as [Hs|Hs].
    + rewrite (register_renew le t sc u ui Eg Hs). exact I.
    + rewrite (register_max_slots le t sc u ui Eg Hs). exact I.
  - assert (Hm : amem (db_users t) u = false).
    { unfold amem. rewrite <- (inv_sync t HI). unfold gk_get in Eg. rewrite Eg. reflexivity. }
    rewrite (register_new le t sc u Eg Hm He). exact I.
Qed.

Theorem reads_never_abort le t sc signer :
  (forall loc, not_abort (snd (step le t (OGet signer loc) sc))) /\ not_abort (snd (step le t (OGetSub signer) sc)).
Proof.
  split; [intros loc|]; cbn [step wrap]; change (set_rpc_log t []) with (fresh t).
  - unfold w_get_appointment.
    destruct (authenticate (fresh t) signer) as [u|] eqn:Ea; [|exact I].
    apply authenticate_Some in Ea. destruct Ea as [_ Hm]. apply amem_get in Hm. destruct Hm as [ui Hg].
    unfold gk_get. rewrite Hg.
    destruct (N.leb (u_expiry ui) (gk_height (fresh t))); [exact I|].
    destruct (find_trk (db_trks (fresh t)) (loc, u)), (find_app (db_apps (fresh t)) (loc, u)); exact I.
  - unfold w_get_subscription_info.
    destruct (authenticate (fresh t) signer) as [u|] eqn:Ea; [|exact I].
    apply authenticate_Some in Ea. destruct Ea as [_ Hm]. apply amem_get in Hm. destruct Hm as [ui Hg].
    unfold gk_get. rewrite Hg.
    destruct (N.leb (u_expiry ui) (gk_height (fresh t))); exact I.
Qed.
