(* TxIndex.v — executable model of teos/src/tx_index.rs (TxIndex<K,V>), statement by statement.
   Keys K and block hashes are N; values are an arbitrary type V.
   The Rust HashMaps are association lists (Base.amap); the VecDeque is a list, front first.
   No proofs in this file. *)
From TeosModel Require Import Base.

Section TxIndex.
  Context {V : Type}.

  Record txindex := mk_txindex {
    ti_index : amap V;               (* index: HashMap<K,V> *)
    ti_blocks : list N;              (* blocks: VecDeque<BlockHash>, front (oldest) first *)
    ti_txs : amap (list N);          (* tx_in_block: HashMap<BlockHash, Vec<K>> *)
    ti_tip : Z;                      (* tip: u32, height of the last block in the index *)
    ti_size : nat                    (* size *)
  }.

  (* a block as the index sees it: hash and the (key,value) map computed from its transactions
     (a HashMap in the code: keys are pairwise distinct) *)
  Record iblock := mk_iblock { ib_hash : N; ib_data : list (N * V) }.

  Definition keys_of (d : list (N * V)) : list N := map fst d.

  (* is_full: self.blocks.len() > self.size *)
  Definition ti_is_full (t : txindex) : bool := Nat.ltb (ti_size t) (length (ti_blocks t)).

  (* remove_oldest_block: pop_front().unwrap(); tx_in_block.remove(&h).unwrap(); index.retain(..)
     None = one of the two unwraps panics *)
  Definition ti_remove_oldest (t : txindex) : option txindex :=
    match ti_blocks t with
    | [] => None
    | h :: rest =>
      match aget (ti_txs t) h with
      | None => None
      | Some ks =>
        Some {| ti_index := aretain (fun k => negb (memN k ks)) (ti_index t);
                ti_blocks := rest;
                ti_txs := aremove (ti_txs t) h;
                ti_tip := ti_tip t;
                ti_size := ti_size t |}
      end
    end.

  (* update(header, data) *)
  Definition ti_update (t : txindex) (b : iblock) : option txindex :=
    let t1 := {| ti_index := ib_data b ++ ti_index t;
                 ti_blocks := ti_blocks t ++ [ib_hash b];
                 ti_txs := ainsert (ti_txs t) (ib_hash b) (keys_of (ib_data b));
                 ti_tip := (ti_tip t + 1)%Z;
                 ti_size := ti_size t |} in
    if ti_is_full t1 then ti_remove_oldest t1 else Some t1.

  (* remove_disconnected_block(block_hash) *)
  Definition ti_disconnect (t : txindex) (h : N) : txindex :=
    match aget (ti_txs t) h with
    | Some ks =>
      let idx := aretain (fun k => negb (memN k ks)) (ti_index t) in
      let txs := aremove (ti_txs t) h in
      match ti_blocks t with
      | [] => {| ti_index := idx; ti_blocks := []; ti_txs := txs;
                 ti_tip := ti_tip t; ti_size := ti_size t |}
      | _ => {| ti_index := idx; ti_blocks := removelast (ti_blocks t); ti_txs := txs;
                ti_tip := (ti_tip t - 1)%Z; ti_size := ti_size t |}
      end
    | None => t
    end.

  Definition ti_get (t : txindex) (k : N) : option V := aget (ti_index t) k.

  Fixpoint positionN (h : N) (l : list N) : option nat :=
    match l with
    | [] => None
    | x :: r => if N.eqb x h then Some O
                else match positionN h r with Some p => Some (S p) | None => None end
    end.

  (* get_height: tip + pos + 1 - blocks.len() *)
  Definition ti_get_height (t : txindex) (h : N) : option Z :=
    match positionN h (ti_blocks t) with
    | Some pos => Some (ti_tip t + Z.of_nat pos + 1 - Z.of_nat (length (ti_blocks t)))%Z
    | None => None
    end.

  Fixpoint ti_updates (t : txindex) (bs : list iblock) : option txindex :=
    match bs with
    | [] => Some t
    | b :: r => match ti_update t b with Some t' => ti_updates t' r | None => None end
    end.

  (* new(last_n_blocks, height): last_n_blocks is newest first; iterated in reverse.
     (the prev_blockhash chaining panic is outside the model: blocks come from one chain) *)
  Definition ti_new (last_n_newest_first : list iblock) (height : Z) : option txindex :=
    let size := length last_n_newest_first in
    let t0 := {| ti_index := []; ti_blocks := []; ti_txs := [];
                 ti_tip := height; ti_size := size |} in
    match ti_updates t0 (rev last_n_newest_first) with
    | Some t => Some {| ti_index := ti_index t; ti_blocks := ti_blocks t; ti_txs := ti_txs t;
                        ti_tip := height; ti_size := ti_size t |}
    | None => None
    end.

  (* ---------------- operations and the list-of-blocks specification ---------------- *)
  Inductive tiop := TConnect (b : iblock) | TDisconnect (h : N).

  Definition ti_step (t : txindex) (o : tiop) : option txindex :=
    match o with
    | TConnect b => ti_update t b
    | TDisconnect h => Some (ti_disconnect t h)
    end.

  Fixpoint ti_run (t : txindex) (ops : list tiop) : option txindex :=
    match ops with
    | [] => Some t
    | o :: r => match ti_step t o with Some t' => ti_run t' r | None => None end
    end.

  (* Specification: the window is the list of live blocks, oldest first, with the height of its
     last block. *)
  Record window := mk_window { w_blocks : list iblock; w_tip : Z }.

  Definition lastn {A} (n : nat) (l : list A) : list A := skipn (length l - n) l.

  Definition w_step (n : nat) (w : window) (o : tiop) : window :=
    match o with
    | TConnect b => {| w_blocks := lastn n (w_blocks w ++ [b]); w_tip := (w_tip w + 1)%Z |}
    | TDisconnect _ => {| w_blocks := removelast (w_blocks w); w_tip := (w_tip w - 1)%Z |}
    end.

  Definition w_run (n : nat) (w : window) (ops : list tiop) : window := fold_left (w_step n) ops w.

  (* look-up in the specification: the value of the (newest) live block containing k *)
  Fixpoint w_find (bs_newest_first : list iblock) (k : N) : option V :=
    match bs_newest_first with
    | [] => None
    | b :: r => match aget (ib_data b) k with Some v => Some v | None => w_find r k end
    end.
  Definition w_get (w : window) (k : N) : option V := w_find (rev (w_blocks w)) k.

  (* true height of the block with hash h: the last block has height w_tip, the one before
     w_tip - 1, ... *)
  Definition w_get_height (w : window) (h : N) : option Z :=
    match positionN h (map ib_hash (w_blocks w)) with
    | Some pos => Some (w_tip w - Z.of_nat (length (w_blocks w) - 1 - pos))%Z
    | None => None
    end.

  (* validity of an operation in a window: hypotheses (a) and (b) of the property *)
  Definition all_keys (bs : list iblock) : list N := flat_map (fun b => keys_of (ib_data b)) bs.

  Definition valid_op (w : window) (o : tiop) : Prop :=
    match o with
    | TConnect b =>
        ~ In (ib_hash b) (map ib_hash (w_blocks w)) /\
        NoDup (keys_of (ib_data b)) /\
        (forall k, In k (keys_of (ib_data b)) -> ~ In k (all_keys (w_blocks w)))
    | TDisconnect h =>
        exists bs b, w_blocks w = bs ++ [b] /\ ib_hash b = h
    end.

  Fixpoint valid_ops (n : nat) (w : window) (ops : list tiop) : Prop :=
    match ops with
    | [] => True
    | o :: r => valid_op w o /\ valid_ops n (w_step n w o) r
    end.

  (* boolean form of validity, used by the generator side and the monitor *)
  Definition valid_opb (w : window) (o : tiop) : bool :=
    match o with
    | TConnect b =>
        negb (memN (ib_hash b) (map ib_hash (w_blocks w))) &&
        (Nat.eqb (length (nodupN (keys_of (ib_data b)))) (length (ib_data b))) &&
        forallb (fun k => negb (memN k (all_keys (w_blocks w)))) (keys_of (ib_data b))
    | TDisconnect h =>
        match rev (w_blocks w) with
        | b :: _ => N.eqb (ib_hash b) h
        | [] => false
        end
    end.
  (* the initial window itself must satisfy (b): distinct hashes, no key in two blocks *)
  Definition valid_windowb (w : window) : bool :=
    Nat.eqb (length (nodupN (map ib_hash (w_blocks w)))) (length (w_blocks w)) &&
    Nat.eqb (length (nodupN (all_keys (w_blocks w)))) (length (all_keys (w_blocks w))).

  Fixpoint valid_opsb_all (n : nat) (w : window) (ops : list tiop) : bool :=
    match ops with
    | [] => true
    | o :: r => valid_opb w o && valid_opsb_all n (w_step n w o) r
    end.
End TxIndex.
Arguments txindex : clear implicits.
Arguments iblock : clear implicits.
Arguments tiop : clear implicits.
Arguments window : clear implicits.
