(* WireApiProofs.v — the wire theorems instantiated with the tables generated from /repo.
   Side conditions on the generated tables (well-formed shapes, same error object on both sides,
   variant order, unambiguous layouts) are decided by computation: if the code changes so that one
   of them fails, the corresponding proof stops compiling. *)
From TeosModel Require Import Base Wire WireProofs WireApi.
From TeosModel.Gen Require Consts WireSpec.
From Coq Require Import Lia.

Local Open Scope N_scope.

Lemma endpoints_wf :
  forallb (fun e => w_wf_msgb (w_ep_req e) && w_wf_msgb (w_ep_resp e) && w_distinguishableb (w_ep_resp e) WireSpec.W_ClientApiError)
          WireSpec.W_ENDPOINTS = true.
Proof. vm_compute. reflexivity. Qed.

Lemma messages_wf : forallb (fun nm => w_wf_msgb (snd nm)) WireSpec.W_MESSAGES = true.
Proof. vm_compute. reflexivity. Qed.

Lemma api_error_same : WireSpec.W_TowerApiError = WireSpec.W_ClientApiError.
Proof. reflexivity. Qed.

Lemma api_error_wf : w_wf_msgb WireSpec.W_ClientApiError = true.
Proof. vm_compute. reflexivity. Qed.

Lemma api_order : WireSpec.W_API_RESPONSE_ORDER = [WAVResponse; WAVError].
Proof. reflexivity. Qed.

Lemma status_ok : status_table_okb WireSpec.W_STATUS = true.
Proof. vm_compute. reflexivity. Qed.

Lemma endpoint_facts e : In e WireSpec.W_ENDPOINTS ->
  w_wf_msgb (w_ep_req e) = true /\ w_wf_msgb (w_ep_resp e) = true /\ w_distinguishableb (w_ep_resp e) WireSpec.W_ClientApiError = true.
Proof.
  intros H. pose proof endpoints_wf as W. rewrite forallb_forall in W. specialize (W e H).
  apply andb_true_iff in W. destruct W as [W D]. apply andb_true_iff in W. destruct W as [W1 W2]. auto.
Qed.

(* ---------------- requests ---------------- *)
Lemma tower_parses_client e req :
  In e WireSpec.W_ENDPOINTS -> w_typedb (w_ep_req e) req = true -> w_of_json_tower e (w_to_json_client e req) = Some req.
Proof.
  intros H Ty. destruct (endpoint_facts e H) as [W _]. apply msg_roundtrip; assumption.
Qed.

Lemma tower_forwards_client e req len :
  In e WireSpec.W_ENDPOINTS -> w_typedb (w_ep_req e) req = true -> w_handler_check e req = None -> (len <= w_ep_cap e)%Z ->
  w_tower_http e len (Some (w_to_json_client e req)) = WTForward req.
Proof.
  intros H Ty HC L. unfold w_tower_http. replace (w_ep_cap e <? len)%Z with false by (symmetry; apply Z.ltb_ge; exact L).
  rewrite (tower_parses_client e req H Ty), HC. reflexivity.
Qed.

Lemma check_sized_ok b n : Z.of_nat (length b) = n -> (0 < n)%Z -> w_check_sized (Some (WVBytes b)) n = None.
Proof.
  intros L P. destruct b as [|x r]; [simpl in L; lia|].
  unfold w_check_sized. rewrite L. rewrite Z.eqb_refl. reflexivity.
Qed.

Lemma handler_ok_register u : length u = 33%nat -> w_handler_check WireSpec.W_EP_register (w_mk_register_request u) = None.
Proof.
  intros L. change (w_handler_check WireSpec.W_EP_register (w_mk_register_request u))
    with (w_check_sized (Some (WVBytes u)) Consts.USER_ID_LEN).
  apply check_sized_ok; [rewrite L; reflexivity | reflexivity].
Qed.

Lemma handler_ok_add_appointment l y b t x s :
  length l = 16%nat -> w_handler_check WireSpec.W_EP_add_appointment (w_mk_add_appointment_request l (y :: b) t (x :: s)) = None.
Proof.
  intros L. change (w_handler_check WireSpec.W_EP_add_appointment (w_mk_add_appointment_request l (y :: b) t (x :: s)))
    with (w_first_err (w_first_err (w_check_sized (Some (WVBytes l)) Consts.LOCATOR_LEN) None) None).
  rewrite check_sized_ok; [reflexivity | rewrite L; reflexivity | reflexivity].
Qed.

Lemma handler_ok_get_appointment l x s :
  length l = 16%nat -> w_handler_check WireSpec.W_EP_get_appointment (w_mk_get_appointment_request l (x :: s)) = None.
Proof.
  intros L. change (w_handler_check WireSpec.W_EP_get_appointment (w_mk_get_appointment_request l (x :: s)))
    with (w_first_err (w_check_sized (Some (WVBytes l)) Consts.LOCATOR_LEN) None).
  rewrite check_sized_ok; [reflexivity | rewrite L; reflexivity | reflexivity].
Qed.

Lemma handler_ok_get_subscription_info x s :
  w_handler_check WireSpec.W_EP_get_subscription_info (w_mk_get_subscription_info_request (x :: s)) = None.
Proof. reflexivity. Qed.

(* ---------------- replies ---------------- *)
Lemma client_parses_tower_response e r :
  In e WireSpec.W_ENDPOINTS -> w_typedb (w_ep_resp e) r = true -> w_of_json_client e (w_to_json_tower e r) = WCResponse r.
Proof.
  intros H Ty. destruct (endpoint_facts e H) as [_ [W _]].
  apply client_decodes_response; auto; intros _; apply api_order.
Qed.

Lemma client_parses_tower_error e err :
  In e WireSpec.W_ENDPOINTS -> w_ep_client_wrapped e = true -> w_typedb WireSpec.W_TowerApiError err = true ->
  w_of_json_client e (w_to_json_err err) = WCError err.
Proof.
  intros H Wr Ty. destruct (endpoint_facts e H) as [_ [_ D]].
  unfold w_of_json_client, w_to_json_err, w_to_json. rewrite Wr. unfold w_typedb in Ty. rewrite api_error_same in *.
  apply client_decodes_error; auto using api_error_wf, api_order.
Qed.

Lemma client_loses_tower_error e err :
  In e WireSpec.W_ENDPOINTS -> w_ep_client_wrapped e = false -> w_typedb WireSpec.W_TowerApiError err = true ->
  w_of_json_client e (w_to_json_err err) = WCDeserializeError.
Proof.
  intros H Wr Ty. destruct (endpoint_facts e H) as [_ [_ D]].
  unfold w_of_json_client, w_to_json_err, w_to_json. rewrite Wr. unfold w_typedb in Ty. rewrite api_error_same in *.
  apply client_unwrapped_loses_error; auto.
Qed.

(* ---------------- every message type ---------------- *)
Lemma reser_identity name m v :
  In (name, m) WireSpec.W_MESSAGES \/ m = WireSpec.W_TowerApiError \/ m = WireSpec.W_ClientApiError ->
  w_typedb m v = true -> w_of_json m (w_to_json m v) = Some v.
Proof.
  intros H Ty. apply msg_roundtrip; auto.
  destruct H as [H|[H|H]]; subst; try apply api_error_wf.
  pose proof messages_wf as W. rewrite forallb_forall in W. apply (W (name, m) H).
Qed.

Lemma reser_stable_api name m j v :
  In (name, m) WireSpec.W_MESSAGES \/ m = WireSpec.W_TowerApiError \/ m = WireSpec.W_ClientApiError ->
  w_of_json m j = Some v -> w_typedb m v = true /\ w_of_json m (w_to_json m v) = Some v.
Proof.
  intros H P. pose proof (dec_msg_typed WireSpec.W_STATUS status_ok m j v P) as Ty. split; [exact Ty|].
  apply (reser_identity name); assumption.
Qed.

(* ---------------- status names ---------------- *)
Lemma status_doc_graph n s : In (n, s) WDoc_STATUS_NAMES ->
  w_status_emit WireSpec.W_STATUS n = s /\ w_status_parse WireSpec.W_STATUS s = Some n.
Proof.
  simpl. intros [H|[H|[H|[]]]]; inversion H; subst; split; vm_compute; reflexivity.
Qed.

Lemma status_parse_only_doc s n : w_status_parse WireSpec.W_STATUS s = Some n -> In (n, s) WDoc_STATUS_NAMES.
Proof.
  unfold w_status_parse. destruct (w_assoc_str s (w_st_from_str WireSpec.W_STATUS)) as [v|] eqn:E; [|discriminate].
  apply assoc_str_In in E. simpl in E.
  destruct E as [E|[E|[E|[]]]]; inversion E; subst; vm_compute; intros H; inversion H; subst; auto.
Qed.

Lemma status_emit_total n : In (w_status_emit WireSpec.W_STATUS n) (map snd WDoc_STATUS_NAMES).
Proof.
  unfold w_status_emit, w_status_variant_of_i32. simpl.
  destruct (Z.eqb n 1); [vm_compute; auto|]. destruct (Z.eqb n 2); vm_compute; auto.
Qed.

Lemma status_typed_iff n : w_typed_kindb WireSpec.W_STATUS KStatus (WVNum n) = true <-> In n (map fst WDoc_STATUS_NAMES).
Proof.
  simpl. split.
  - destruct (w_status_parse WireSpec.W_STATUS (w_status_emit WireSpec.W_STATUS n)) as [n'|] eqn:E; [|discriminate].
    intros H. apply Z.eqb_eq in H. subst n'. apply status_parse_only_doc in E.
    simpl in E. destruct E as [E|[E|[E|[]]]]; inversion E; auto.
  - intros [H|[H|[H|[]]]]; subst; vm_compute; reflexivity.
Qed.

(* ---------------- signed layouts ---------------- *)
Lemma appointment_to_vec_inj l b t l' b' t' :
  length l = 16%nat -> length l' = 16%nat -> t < 4294967296 -> t' < 4294967296 ->
  w_appointment_to_vec l b t = w_appointment_to_vec l' b' t' -> l = l' /\ b = b' /\ t = t'.
Proof.
  intros L L' Ht Ht' E. unfold w_appointment_to_vec in E.
  apply layout_injective in E; [inversion E; auto | reflexivity | |]; simpl.
  - rewrite L. apply N.ltb_lt in Ht. rewrite Ht. reflexivity.
  - rewrite L'. apply N.ltb_lt in Ht'. rewrite Ht'. reflexivity.
Qed.

Lemma registration_receipt_to_vec_inj u a s e u' a' s' e' :
  length u = 33%nat -> length u' = 33%nat ->
  a < 4294967296 -> s < 4294967296 -> e < 4294967296 -> a' < 4294967296 -> s' < 4294967296 -> e' < 4294967296 ->
  w_registration_receipt_to_vec u a s e = w_registration_receipt_to_vec u' a' s' e' -> u = u' /\ a = a' /\ s = s' /\ e = e'.
Proof.
  intros L L' Ha Hs He Ha' Hs' He' E. unfold w_registration_receipt_to_vec in E.
  apply N.ltb_lt in Ha, Hs, He, Ha', Hs', He'.
  apply layout_injective in E; [inversion E; auto | reflexivity | |]; simpl.
  - rewrite L, Ha, Hs, He. reflexivity.
  - rewrite L', Ha', Hs', He'. reflexivity.
Qed.

Lemma appointment_receipt_to_vec_inj s b s' b' :
  b < 4294967296 -> b' < 4294967296 ->
  w_appointment_receipt_to_vec s b = w_appointment_receipt_to_vec s' b' -> s = s' /\ b = b'.
Proof.
  intros Hb Hb' E. unfold w_appointment_receipt_to_vec in E. apply N.ltb_lt in Hb, Hb'.
  apply layout_injective in E; [inversion E; auto | reflexivity | |]; simpl.
  - rewrite Hb. reflexivity.
  - rewrite Hb'. reflexivity.
Qed.

(* what the layouts are, spelled out (holds for the generated tables by computation) *)
Lemma appointment_to_vec_eq l b t : w_appointment_to_vec l b t = l ++ b ++ w_be32 t.
Proof. unfold w_appointment_to_vec. simpl. try rewrite app_nil_r. reflexivity. Qed.
Lemma registration_receipt_to_vec_eq u a s e : w_registration_receipt_to_vec u a s e = u ++ w_be32 a ++ w_be32 s ++ w_be32 e.
Proof. unfold w_registration_receipt_to_vec. simpl. try rewrite app_nil_r. reflexivity. Qed.
Lemma appointment_receipt_to_vec_eq s b : w_appointment_receipt_to_vec s b = s ++ w_be32 b.
Proof. unfold w_appointment_receipt_to_vec. simpl. try rewrite app_nil_r. reflexivity. Qed.

(* ---------------- body sizes ---------------- *)
Definition esc_len (s : w_str) : nat := length (flat_map w_esc_byte s).
Definition ndigits (z : Z) : nat := length (w_dec_of_Z z).

Lemma hex_digit_plain d : plain_charb (w_hex_digit d) = true.
Proof.
  unfold plain_charb, w_hex_digit. destruct (N.ltb_spec d 10).
  - repeat (apply andb_true_iff; split); [apply N.leb_le | apply negb_true_iff, N.eqb_neq | apply negb_true_iff, N.eqb_neq]; lia.
  - repeat (apply andb_true_iff; split); [apply N.leb_le | apply negb_true_iff, N.eqb_neq | apply negb_true_iff, N.eqb_neq]; lia.
Qed.

Lemma hex_encode_plain b : forallb plain_charb (w_hex_encode b) = true.
Proof. induction b as [|x b IH]; simpl; [reflexivity|]. rewrite !hex_digit_plain, IH. reflexivity. Qed.

Lemma esc_hex b : flat_map w_esc_byte (w_hex_encode b) = w_hex_encode b.
Proof. apply esc_plain, hex_encode_plain. Qed.

Ltac body_len := simpl; repeat rewrite esc_hex; repeat (progress (rewrite ?app_length; cbn [length]));
                   repeat rewrite hex_encode_length; unfold esc_len, ndigits; lia.

(* Content-Length of what the client posts = number of bytes of serde_json::to_vec(&request) *)
Lemma register_body_len u :
  length (w_client_body WireSpec.W_EP_register (w_mk_register_request u)) = (14 + 2 * length u)%nat.
Proof. unfold w_client_body, w_to_json_client, w_to_json, w_mk_register_request. body_len. Qed.

Lemma add_appointment_body_len l b t s :
  length (w_client_body WireSpec.W_EP_add_appointment (w_mk_add_appointment_request l b t s))
  = (82 + 2 * length l + 2 * length b + ndigits t + esc_len s)%nat.
Proof. unfold w_client_body, w_to_json_client, w_to_json, w_mk_add_appointment_request, w_mk_appointment. body_len. Qed.

Lemma get_appointment_body_len l s :
  length (w_client_body WireSpec.W_EP_get_appointment (w_mk_get_appointment_request l s)) = (29 + 2 * length l + esc_len s)%nat.
Proof. unfold w_client_body, w_to_json_client, w_to_json, w_mk_get_appointment_request. body_len. Qed.

Lemma get_subscription_info_body_len s :
  length (w_client_body WireSpec.W_EP_get_subscription_info (w_mk_get_subscription_info_request s)) = (16 + esc_len s)%nat.
Proof. unfold w_client_body, w_to_json_client, w_to_json, w_mk_get_subscription_info_request. body_len. Qed.

(* a signature produced by cryptography::sign: 104 zbase32 characters, nothing to escape *)
Definition real_signature (s : w_str) : Prop := length s = 104%nat /\ forallb plain_charb s = true.

Lemma real_signature_esc_len s : real_signature s -> esc_len s = 104%nat.
Proof. intros [L P]. unfold esc_len. rewrite esc_plain; assumption. Qed.

(* with a 16-byte locator and a real signature the add_appointment body has
   218 + digits(to_self_delay) + 2*|blob| bytes; it passes content_length_limit iff that is <= the cap *)
Definition add_appointment_len (l b : w_bytes) (t : Z) (s : w_str) : nat :=
  length (w_client_body WireSpec.W_EP_add_appointment (w_mk_add_appointment_request l b t s)).

Lemma within_limit l b t s :
  length l = 16%nat -> real_signature s -> WU32b t = true ->
  add_appointment_len l b t s = (218 + ndigits t + 2 * length b)%nat /\
  ((Z.of_nat (add_appointment_len l b t s) <= w_ep_cap WireSpec.W_EP_add_appointment)%Z <-> (2 * length b + ndigits t <= 1830)%nat) /\
  ((length b <= 910)%nat -> (Z.of_nat (add_appointment_len l b t s) <= w_ep_cap WireSpec.W_EP_add_appointment)%Z) /\
  ((915 <= length b)%nat -> (w_ep_cap WireSpec.W_EP_add_appointment < Z.of_nat (add_appointment_len l b t s))%Z).
Proof.
  intros L RS U. unfold add_appointment_len. rewrite add_appointment_body_len, L, (real_signature_esc_len s RS).
  pose proof (dec_of_Z_length_u32 t U) as D. fold (ndigits t) in D.
  change (w_ep_cap WireSpec.W_EP_add_appointment) with 2048%Z.
  repeat split; intros; lia.
Qed.

(* the other three requests always fit *)
Lemma fixed_requests_fit u l s :
  length u = 33%nat -> length l = 16%nat -> real_signature s ->
  length (w_client_body WireSpec.W_EP_register (w_mk_register_request u)) = 80%nat /\
  length (w_client_body WireSpec.W_EP_get_appointment (w_mk_get_appointment_request l s)) = 165%nat /\
  length (w_client_body WireSpec.W_EP_get_subscription_info (w_mk_get_subscription_info_request s)) = 120%nat /\
  (80 <= w_ep_cap WireSpec.W_EP_register /\ 165 <= w_ep_cap WireSpec.W_EP_get_appointment /\ 120 <= w_ep_cap WireSpec.W_EP_get_subscription_info)%Z.
Proof.
  intros Lu Ll RS.
  rewrite register_body_len, get_appointment_body_len, get_subscription_info_body_len, Lu, Ll, (real_signature_esc_len s RS).
  repeat split; try reflexivity; vm_compute; discriminate.
Qed.
