(* WireApiProofs.v — the wire theorems instantiated with the tables generated from /repo.
   Side conditions on the generated tables (well-formed shapes, same error object on both sides,
   variant order, unambiguous layouts) are decided by computation: if the code changes so that one
   of them fails, the corresponding proof stops compiling. *)
From TeosModel Require Import Base Wire WireProofs WireApi.
From TeosModel.Gen Require Consts WireSpec.
From Coq Require Import Lia.

Local Open Scope N_scope.

Lemma endpoints_wf :
  forallb (fun e => wf_msgb (ep_req e) && wf_msgb (ep_resp e) && distinguishableb (ep_resp e) WireSpec.ClientApiError)
          WireSpec.ENDPOINTS = true.
Proof. vm_compute. reflexivity. Qed.

Lemma messages_wf : forallb (fun nm => wf_msgb (snd nm)) WireSpec.MESSAGES = true.
Proof. vm_compute. reflexivity. Qed.

Lemma api_error_same : WireSpec.TowerApiError = WireSpec.ClientApiError.
Proof. reflexivity. Qed.

Lemma api_error_wf : wf_msgb WireSpec.ClientApiError = true.
Proof. vm_compute. reflexivity. Qed.

Lemma api_order : WireSpec.API_RESPONSE_ORDER = [AVResponse; AVError].
Proof. reflexivity. Qed.

Lemma status_ok : status_table_okb WireSpec.STATUS = true.
Proof. vm_compute. reflexivity. Qed.

Lemma endpoint_facts e : In e WireSpec.ENDPOINTS ->
  wf_msgb (ep_req e) = true /\ wf_msgb (ep_resp e) = true /\ distinguishableb (ep_resp e) WireSpec.ClientApiError = true.
Proof.
  intros H. pose proof endpoints_wf as W. rewrite forallb_forall in W. specialize (W e H).
  apply andb_true_iff in W. destruct W as [W D]. apply andb_true_iff in W. destruct W as [W1 W2]. auto.
Qed.

(* ---------------- requests ---------------- *)
Lemma tower_parses_client e req :
  In e WireSpec.ENDPOINTS -> typedb (ep_req e) req = true -> of_json_tower e (to_json_client e req) = Some req.
Proof.
  intros H Ty. destruct (endpoint_facts e H) as [W _]. apply msg_roundtrip; assumption.
Qed.

Lemma tower_forwards_client e req len :
  In e WireSpec.ENDPOINTS -> typedb (ep_req e) req = true -> handler_check e req = None -> (len <= ep_cap e)%Z ->
  tower_http e len (Some (to_json_client e req)) = TForward req.
Proof.
  intros H Ty HC L. unfold tower_http. replace (ep_cap e <? len)%Z with false by (symmetry; apply Z.ltb_ge; exact L).
  rewrite (tower_parses_client e req H Ty), HC. reflexivity.
Qed.

Lemma check_sized_ok b n : Z.of_nat (length b) = n -> (0 < n)%Z -> check_sized (Some (VBytes b)) n = None.
Proof.
  intros L P. destruct b as [|x r]; [simpl in L; lia|].
  unfold check_sized. rewrite L. rewrite Z.eqb_refl. reflexivity.
Qed.

Lemma handler_ok_register u : length u = 33%nat -> handler_check WireSpec.EP_register (mk_register_request u) = None.
Proof.
  intros L. change (handler_check WireSpec.EP_register (mk_register_request u))
    with (check_sized (Some (VBytes u)) Consts.USER_ID_LEN).
  apply check_sized_ok; [rewrite L; reflexivity | reflexivity].
Qed.

Lemma handler_ok_add_appointment l b t x s :
  length l = 16%nat -> handler_check WireSpec.EP_add_appointment (mk_add_appointment_request l b t (x :: s)) = None.
Proof.
  intros L. change (handler_check WireSpec.EP_add_appointment (mk_add_appointment_request l b t (x :: s)))
    with (first_err (check_sized (Some (VBytes l)) Consts.LOCATOR_LEN) None).
  rewrite check_sized_ok; [reflexivity | rewrite L; reflexivity | reflexivity].
Qed.

Lemma handler_ok_get_appointment l x s :
  length l = 16%nat -> handler_check WireSpec.EP_get_appointment (mk_get_appointment_request l (x :: s)) = None.
Proof.
  intros L. change (handler_check WireSpec.EP_get_appointment (mk_get_appointment_request l (x :: s)))
    with (first_err (check_sized (Some (VBytes l)) Consts.LOCATOR_LEN) None).
  rewrite check_sized_ok; [reflexivity | rewrite L; reflexivity | reflexivity].
Qed.

Lemma handler_ok_get_subscription_info x s :
  handler_check WireSpec.EP_get_subscription_info (mk_get_subscription_info_request (x :: s)) = None.
Proof. reflexivity. Qed.

(* ---------------- replies ---------------- *)
Lemma client_parses_tower_response e r :
  In e WireSpec.ENDPOINTS -> typedb (ep_resp e) r = true -> of_json_client e (to_json_tower e r) = CResponse r.
Proof.
  intros H Ty. destruct (endpoint_facts e H) as [_ [W _]].
  apply client_decodes_response; auto; intros _; apply api_order.
Qed.

Lemma client_parses_tower_error e err :
  In e WireSpec.ENDPOINTS -> ep_client_wrapped e = true -> typedb WireSpec.TowerApiError err = true ->
  of_json_client e (to_json_err err) = CError err.
Proof.
  intros H Wr Ty. destruct (endpoint_facts e H) as [_ [_ D]].
  unfold of_json_client, to_json_err, to_json. rewrite Wr. unfold typedb in Ty. rewrite api_error_same in *.
  apply client_decodes_error; auto using api_error_wf, api_order.
Qed.

Lemma client_loses_tower_error e err :
  In e WireSpec.ENDPOINTS -> ep_client_wrapped e = false -> typedb WireSpec.TowerApiError err = true ->
  of_json_client e (to_json_err err) = CDeserializeError.
Proof.
  intros H Wr Ty. destruct (endpoint_facts e H) as [_ [_ D]].
  unfold of_json_client, to_json_err, to_json. rewrite Wr. unfold typedb in Ty. rewrite api_error_same in *.
  apply client_unwrapped_loses_error; auto.
Qed.

(* ---------------- every message type ---------------- *)
Lemma reser_identity name m v :
  In (name, m) WireSpec.MESSAGES \/ m = WireSpec.TowerApiError \/ m = WireSpec.ClientApiError ->
  typedb m v = true -> of_json m (to_json m v) = Some v.
Proof.
  intros H Ty. apply msg_roundtrip; auto.
  destruct H as [H|[H|H]]; subst; try apply api_error_wf.
  pose proof messages_wf as W. rewrite forallb_forall in W. apply (W (name, m) H).
Qed.

Lemma reser_stable_api name m j v :
  In (name, m) WireSpec.MESSAGES \/ m = WireSpec.TowerApiError \/ m = WireSpec.ClientApiError ->
  of_json m j = Some v -> typedb m v = true /\ of_json m (to_json m v) = Some v.
Proof.
  intros H P. pose proof (dec_msg_typed WireSpec.STATUS status_ok m j v P) as Ty. split; [exact Ty|].
  apply (reser_identity name); assumption.
Qed.

(* ---------------- status names ---------------- *)
Lemma status_doc_graph n s : In (n, s) Doc_STATUS_NAMES ->
  status_emit WireSpec.STATUS n = s /\ status_parse WireSpec.STATUS s = Some n.
Proof.
  simpl. intros [H|[H|[H|[]]]]; inversion H; subst; split; vm_compute; reflexivity.
Qed.

Lemma status_parse_only_doc s n : status_parse WireSpec.STATUS s = Some n -> In (n, s) Doc_STATUS_NAMES.
Proof.
  unfold status_parse. destruct (assoc_str s (st_from_str WireSpec.STATUS)) as [v|] eqn:E; [|discriminate].
  apply assoc_str_In in E. simpl in E.
  destruct E as [E|[E|[E|[]]]]; inversion E; subst; vm_compute; intros H; inversion H; subst; auto.
Qed.

Lemma status_emit_total n : In (status_emit WireSpec.STATUS n) (map snd Doc_STATUS_NAMES).
Proof.
  unfold status_emit, status_variant_of_i32. simpl.
  destruct (Z.eqb n 1); [vm_compute; auto|]. destruct (Z.eqb n 2); vm_compute; auto.
Qed.

Lemma status_typed_iff n : typed_kindb WireSpec.STATUS KStatus (VNum n) = true <-> In n (map fst Doc_STATUS_NAMES).
Proof.
  simpl. split.
  - destruct (status_parse WireSpec.STATUS (status_emit WireSpec.STATUS n)) as [n'|] eqn:E; [|discriminate].
    intros H. apply Z.eqb_eq in H. subst n'. apply status_parse_only_doc in E.
    simpl in E. destruct E as [E|[E|[E|[]]]]; inversion E; auto.
  - intros [H|[H|[H|[]]]]; subst; vm_compute; reflexivity.
Qed.

(* ---------------- signed layouts ---------------- *)
Lemma appointment_to_vec_inj l b t l' b' t' :
  length l = 16%nat -> length l' = 16%nat -> t < 4294967296 -> t' < 4294967296 ->
  appointment_to_vec l b t = appointment_to_vec l' b' t' -> l = l' /\ b = b' /\ t = t'.
Proof.
  intros L L' Ht Ht' E. unfold appointment_to_vec in E.
  apply layout_injective in E; [inversion E; auto | reflexivity | |]; simpl.
  - rewrite L. apply N.ltb_lt in Ht. rewrite Ht. reflexivity.
  - rewrite L'. apply N.ltb_lt in Ht'. rewrite Ht'. reflexivity.
Qed.

Lemma registration_receipt_to_vec_inj u a s e u' a' s' e' :
  length u = 33%nat -> length u' = 33%nat ->
  a < 4294967296 -> s < 4294967296 -> e < 4294967296 -> a' < 4294967296 -> s' < 4294967296 -> e' < 4294967296 ->
  registration_receipt_to_vec u a s e = registration_receipt_to_vec u' a' s' e' -> u = u' /\ a = a' /\ s = s' /\ e = e'.
Proof.
  intros L L' Ha Hs He Ha' Hs' He' E. unfold registration_receipt_to_vec in E.
  apply N.ltb_lt in Ha, Hs, He, Ha', Hs', He'.
  apply layout_injective in E; [inversion E; auto | reflexivity | |]; simpl.
  - rewrite L, Ha, Hs, He. reflexivity.
  - rewrite L', Ha', Hs', He'. reflexivity.
Qed.

Lemma appointment_receipt_to_vec_inj s b s' b' :
  b < 4294967296 -> b' < 4294967296 ->
  appointment_receipt_to_vec s b = appointment_receipt_to_vec s' b' -> s = s' /\ b = b'.
Proof.
  intros Hb Hb' E. unfold appointment_receipt_to_vec in E. apply N.ltb_lt in Hb, Hb'.
  apply layout_injective in E; [inversion E; auto | reflexivity | |]; simpl.
  - rewrite Hb. reflexivity.
  - rewrite Hb'. reflexivity.
Qed.

(* what the layouts are, spelled out (holds for the generated tables by computation) *)
Lemma appointment_to_vec_eq l b t : appointment_to_vec l b t = l ++ b ++ be32 t.
Proof. unfold appointment_to_vec. simpl. try rewrite app_nil_r. reflexivity. Qed.
Lemma registration_receipt_to_vec_eq u a s e : registration_receipt_to_vec u a s e = u ++ be32 a ++ be32 s ++ be32 e.
Proof. unfold registration_receipt_to_vec. simpl. try rewrite app_nil_r. reflexivity. Qed.
Lemma appointment_receipt_to_vec_eq s b : appointment_receipt_to_vec s b = s ++ be32 b.
Proof. unfold appointment_receipt_to_vec. simpl. try rewrite app_nil_r. reflexivity. Qed.

(* ---------------- body sizes ---------------- *)
Definition esc_len (s : str) : nat := length (flat_map esc_byte s).
Definition ndigits (z : Z) : nat := length (dec_of_Z z).

Lemma hex_digit_plain d : plain_charb (hex_digit d) = true.
Proof.
  unfold plain_charb, hex_digit. destruct (N.ltb_spec d 10).
  - repeat (apply andb_true_iff; split); [apply N.leb_le | apply negb_true_iff, N.eqb_neq | apply negb_true_iff, N.eqb_neq]; lia.
  - repeat (apply andb_true_iff; split); [apply N.leb_le | apply negb_true_iff, N.eqb_neq | apply negb_true_iff, N.eqb_neq]; lia.
Qed.

Lemma hex_encode_plain b : forallb plain_charb (hex_encode b) = true.
Proof. induction b as [|x b IH]; simpl; [reflexivity|]. rewrite !hex_digit_plain, IH. reflexivity. Qed.

Lemma esc_hex b : flat_map esc_byte (hex_encode b) = hex_encode b.
Proof. apply esc_plain, hex_encode_plain. Qed.

Ltac body_len := simpl; repeat rewrite esc_hex; repeat (progress (rewrite ?app_length; cbn [length]));
                   repeat rewrite hex_encode_length; unfold esc_len, ndigits; lia.

(* Content-Length of what the client posts = number of bytes of serde_json::to_vec(&request) *)
Lemma register_body_len u :
  length (client_body WireSpec.EP_register (mk_register_request u)) = (14 + 2 * length u)%nat.
Proof. unfold client_body, to_json_client, to_json, mk_register_request. body_len. Qed.

Lemma add_appointment_body_len l b t s :
  length (client_body WireSpec.EP_add_appointment (mk_add_appointment_request l b t s))
  = (82 + 2 * length l + 2 * length b + ndigits t + esc_len s)%nat.
Proof. unfold client_body, to_json_client, to_json, mk_add_appointment_request, mk_appointment. body_len. Qed.

Lemma get_appointment_body_len l s :
  length (client_body WireSpec.EP_get_appointment (mk_get_appointment_request l s)) = (29 + 2 * length l + esc_len s)%nat.
Proof. unfold client_body, to_json_client, to_json, mk_get_appointment_request. body_len. Qed.

Lemma get_subscription_info_body_len s :
  length (client_body WireSpec.EP_get_subscription_info (mk_get_subscription_info_request s)) = (16 + esc_len s)%nat.
Proof. unfold client_body, to_json_client, to_json, mk_get_subscription_info_request. body_len. Qed.

(* a signature produced by cryptography::sign: 104 zbase32 characters, nothing to escape *)
Definition real_signature (s : str) : Prop := length s = 104%nat /\ forallb plain_charb s = true.

Lemma real_signature_esc_len s : real_signature s -> esc_len s = 104%nat.
Proof. intros [L P]. unfold esc_len. rewrite esc_plain; assumption. Qed.

(* with a 16-byte locator and a real signature the add_appointment body has
   218 + digits(to_self_delay) + 2*|blob| bytes; it passes content_length_limit iff that is <= the cap *)
Definition add_appointment_len (l b : bytes) (t : Z) (s : str) : nat :=
  length (client_body WireSpec.EP_add_appointment (mk_add_appointment_request l b t s)).

Lemma within_limit l b t s :
  length l = 16%nat -> real_signature s -> U32b t = true ->
  add_appointment_len l b t s = (218 + ndigits t + 2 * length b)%nat /\
  ((Z.of_nat (add_appointment_len l b t s) <= ep_cap WireSpec.EP_add_appointment)%Z <-> (2 * length b + ndigits t <= 1830)%nat) /\
  ((length b <= 910)%nat -> (Z.of_nat (add_appointment_len l b t s) <= ep_cap WireSpec.EP_add_appointment)%Z) /\
  ((915 <= length b)%nat -> (ep_cap WireSpec.EP_add_appointment < Z.of_nat (add_appointment_len l b t s))%Z).
Proof.
  intros L RS U. unfold add_appointment_len. rewrite add_appointment_body_len, L, (real_signature_esc_len s RS).
  pose proof (dec_of_Z_length_u32 t U) as D. fold (ndigits t) in D.
  change (ep_cap WireSpec.EP_add_appointment) with 2048%Z.
  repeat split; intros; lia.
Qed.

(* the other three requests always fit *)
Lemma fixed_requests_fit u l s :
  length u = 33%nat -> length l = 16%nat -> real_signature s ->
  length (client_body WireSpec.EP_register (mk_register_request u)) = 80%nat /\
  length (client_body WireSpec.EP_get_appointment (mk_get_appointment_request l s)) = 165%nat /\
  length (client_body WireSpec.EP_get_subscription_info (mk_get_subscription_info_request s)) = 120%nat /\
  (80 <= ep_cap WireSpec.EP_register /\ 165 <= ep_cap WireSpec.EP_get_appointment /\ 120 <= ep_cap WireSpec.EP_get_subscription_info)%Z.
Proof.
  intros Lu Ll RS.
  rewrite register_body_len, get_appointment_body_len, get_subscription_info_body_len, Lu, Ll, (real_signature_esc_len s RS).
  repeat split; try reflexivity; vm_compute; discriminate.
Qed.
