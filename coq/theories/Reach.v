(* Reach.v — the reachability protocol between the Carrier, the ChainMonitor and the API
   (carrier.rs: hang_until_bitcoind_reachable / flag_bitcoind_unreachable / retry;
    chain_monitor.rs: poll_best_tip sets the flag and notifies; internal.rs: 503 while the flag is
    false).  A small transition system at the granularity the property needs: who waits for the
    flag, who could set it, which lock the waiter holds.  Definitions and theorems. *)
From Coq Require Import List Bool Lia.
Import ListNotations.

Inductive mon_status :=
| M_idle                 (* between polls *)
| M_wait_reach           (* inside a poll, in Carrier::hang_until_bitcoind_reachable (holds carrier ...) *)
| M_wait_cache.          (* inside a poll, blocked on the locator-cache lock held by a waiting API thread *)

Inductive api_status :=
| A_none                 (* no request in flight *)
| A_wait_reach           (* add_appointment in Carrier::hang_until..., holding the locator-cache guard *)
| A_done.                (* the interrupted submission has been made, the request answered *)

Record rstate := mk_rstate {
  flag : bool;           (* bitcoind_reachable as the tower believes *)
  node_up : bool;        (* the truth *)
  mon : mon_status;
  api : api_status;
  block_pending : bool   (* the node has a block the tower has not processed yet *)
}.

Inductive event :=
| E_node_down | E_node_up
| E_block                          (* a block is mined *)
| E_api_rpc                        (* an API thread (late appointment) issues a node RPC *)
| E_poll (needs_rpc : bool).       (* the chain monitor polls; the pending block's processing issues an RPC or not *)

(* one step; an RPC against a node that is down flags unreachable and waits (the retry recursion
   of send_transaction / in_mempool) *)
Definition rstep (s : rstate) (e : event) : rstate :=
  match e with
  | E_node_down => mk_rstate (flag s) false (mon s) (api s) (block_pending s)
  | E_node_up => mk_rstate (flag s) true (mon s) (api s) (block_pending s)
  | E_block => mk_rstate (flag s) (node_up s) (mon s) (api s) true
  | E_api_rpc =>
      match api s with
      | A_none =>
          if flag s then
            if node_up s then mk_rstate (flag s) (node_up s) (mon s) A_done (block_pending s)
            else mk_rstate false (node_up s) (mon s) A_wait_reach (block_pending s)
          else s                                  (* check_service_unavailable: refused, nothing happens *)
      | _ => s
      end
  | E_poll needs_rpc =>
      match mon s with
      | M_idle =>
          if negb (node_up s) then mk_rstate false (node_up s) M_idle (api s) (block_pending s)   (* transient poll error *)
          else if block_pending s then
            (* the watcher needs the locator cache to process the block *)
            match api s with
            | A_wait_reach => mk_rstate (flag s) (node_up s) M_wait_cache (api s) (block_pending s)
            | _ =>
                (* RPCs of the block's processing succeed (the node is up); then flag + notify *)
                mk_rstate true (node_up s) M_idle (api s) false
            end
          else
            (* nothing to process: flag + notify_all wakes a waiting API thread, which retries the same call *)
            mk_rstate true (node_up s) M_idle (match api s with A_wait_reach => A_done | a => a end) false
      | M_wait_reach => s          (* the monitor is not polling: it is inside the previous poll *)
      | M_wait_cache => s
      end
  end.

(* a poll whose block processing issues an RPC while the node is down: the monitor itself waits *)
Definition rstep_poll_rpc_down (s : rstate) : rstate :=
  match mon s with
  | M_idle => if block_pending s then mk_rstate false (node_up s) M_wait_reach (api s) (block_pending s) else s
  | _ => s
  end.

Definition rrun (s : rstate) (es : list event) : rstate := fold_left rstep es s.

(* ---- theorems ---- *)

(* Only the monitor's own successful poll sets the flag: while the monitor waits for the flag
   nothing ever sets it, whatever happens (node back, more blocks, more requests, polls due). *)
Theorem monitor_wait_is_forever s es :
  mon s = M_wait_reach -> flag s = false ->
  mon (rrun s es) = M_wait_reach /\ flag (rrun s es) = false.
Proof.
  revert s. induction es as [|e es IH]; intros s Hm Hf; cbn [rrun fold_left]; [auto|].
  apply IH.
  - destruct e; cbn [rstep mon]; try exact Hm.
    + destruct (api s); try exact Hm. rewrite Hf. exact Hm.
    + rewrite Hm. exact Hm.
  - destruct e; cbn [rstep flag]; try exact Hf.
    + destruct (api s); try exact Hf. rewrite Hf. exact Hf.
    + rewrite Hm. exact Hf.
Qed.

(* An API thread waiting for the flag with the locator cache held, and a block to process: the
   monitor blocks on the cache inside the poll and never reaches the notify; both wait forever. *)
Theorem request_path_sticks_when_block_arrives s es :
  mon s = M_wait_cache -> api s = A_wait_reach -> flag s = false ->
  mon (rrun s es) = M_wait_cache /\ api (rrun s es) = A_wait_reach /\ flag (rrun s es) = false.
Proof.
  revert s. induction es as [|e es IH]; intros s Hm Ha Hf; cbn [rrun fold_left]; [auto|].
  apply IH; destruct e; cbn [rstep mon api flag]; try assumption;
    try (rewrite Ha; assumption); try (rewrite Hm; assumption).
Qed.

(* The recovery the property promises, when it does hold: the outage hit an API thread, no block
   is pending; once the node is back one poll wakes the thread, which re-issues the same call. *)
Theorem request_path_recovers s :
  mon s = M_idle -> api s = A_wait_reach -> block_pending s = false -> node_up s = true ->
  let s' := rstep s (E_poll false) in flag s' = true /\ api s' = A_done /\ mon s' = M_idle.
Proof.
  intros Hm Ha Hb Hn. cbn [rstep]. rewrite Hm, Hn, Hb, Ha. cbn. auto.
Qed.

(* From the moment the tower has noticed the outage no new work is taken on. *)
Theorem unavailable_after_notice s : flag s = false -> api s = A_none -> rstep s E_api_rpc = s.
Proof. intros Hf Ha. cbn [rstep]. rewrite Ha, Hf. reflexivity. Qed.

(* While the node stays down polls keep the flag false. *)
Theorem polls_keep_flag_down s b : node_up s = false -> mon s = M_idle -> flag (rstep s (E_poll b)) = false.
Proof. intros Hn Hm. cbn [rstep]. rewrite Hm, Hn. reflexivity. Qed.

(* ---- executable prediction for the scenarios the harness runs ---- *)
Inductive outcome := O_recovered | O_monitor_stuck | O_both_stuck.

(* path: true = the outage hits an RPC issued while the monitor processes a block; false = it hits
   an API thread's RPC.  block_during_outage: a block is mined before the first successful poll. *)
Definition predict (block_path block_during_outage : bool) : outcome :=
  if block_path then O_monitor_stuck
  else if block_during_outage then O_both_stuck
  else O_recovered.

Lemma predict_block_path_sound es :
  let s := rstep_poll_rpc_down (mk_rstate true false M_idle A_none true) in
  mon (rrun s es) = M_wait_reach.
Proof. cbn. apply monitor_wait_is_forever; reflexivity. Qed.

Lemma predict_request_block_sound es :
  let s0 := rstep (mk_rstate true false M_idle A_none false) E_api_rpc in
  let s1 := rstep (rstep (rstep s0 E_block) E_node_up) (E_poll false) in
  mon (rrun s1 es) = M_wait_cache /\ api (rrun s1 es) = A_wait_reach.
Proof.
  cbn. pose proof (request_path_sticks_when_block_arrives
                     (mk_rstate false true M_wait_cache A_wait_reach true) es eq_refl eq_refl eq_refl) as H.
  tauto.
Qed.

Lemma predict_request_recovers :
  let s0 := rstep (mk_rstate true false M_idle A_none false) E_api_rpc in
  let s1 := rstep (rstep (rstep s0 (E_poll false)) E_node_up) (E_poll false) in
  api s1 = A_done /\ flag s1 = true.
Proof. cbn. auto. Qed.
